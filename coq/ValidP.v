(* C09 / C10 (validate is accurate; damage is reported, never silent, never a panic),
   C17 (the iteration order of the block set is irrelevant), C16 (the symlink guard of
   restore).  Definitions: Valid.v. *)
From Coq Require Import Lia Sorted Permutation.
From CV Require Import Base.Str Base.StrP Base.Order Apath ApathP Entry Stitch Tree TreeP Codec Store
  StitchProg Backup Ops Delete Read SafeP Inv RefIntP Valid.
Local Open Scope N_scope.

(* ------------------------------------------------------------------------- *)
(** * 0. Fault-free evaluation                                                *)
(* ------------------------------------------------------------------------- *)
Section Fin.
  Variable pre : bytes -> N.

  (* final state and outcome of the run without faults *)
  Definition fin {R} (p : prog R) (a : arch) : arch * outcome R :=
    (snd (fst (run pre p a [])), snd (run pre p a [])).

  Lemma fin_Ret {R} (r : R) a : fin (Ret r) a = (a, Done r).
  Proof. reflexivity. Qed.

  Lemma fin_Panic {R} a : fin (@Panic R) a = (a, Panicked).
  Proof. reflexivity. Qed.

  Lemma fin_Do {R} o (k : reply -> prog R) a :
    fin (Do o k) a = fin (k (snd (exec_ok pre a o))) (fst (exec_ok pre a o)).
  Proof. unfold fin. rewrite run_Do. cbn [hdf tl exec fst snd]. reflexivity. Qed.

  Lemma fin_read {R} f (k : reply -> prog R) a : fin (Do (OpRead f) k) a = fin (k (rd a f)) a.
  Proof. rewrite fin_Do. unfold rd. cbn [exec_ok]. destruct (get a f); reflexivity. Qed.

  Lemma fin_meta {R} f (k : reply -> prog R) a : fin (Do (OpMeta f) k) a = fin (k (mt a f)) a.
  Proof. rewrite fin_Do. unfold mt. cbn [exec_ok]. destruct (get a f); reflexivity. Qed.

  Lemma fin_list {R} d (k : reply -> prog R) a : fin (Do (OpList d) k) a = fin (k (ls pre a d)) a.
  Proof. rewrite fin_Do. unfold ls. cbn [exec_ok]. destruct (has_dir a d); reflexivity. Qed.

  Lemma fin_bind {A B} (p : prog A) (f : A -> prog B) : forall a,
    fin (bind p f) a
    = match fin p a with
      | (a', Done r) => fin (f r) a'
      | (a', Crashed) => (a', Crashed)
      | (a', Panicked) => (a', Panicked)
      end.
  Proof.
    induction p as [r|o k IH|]; intros a; cbn [bind].
    - rewrite fin_Ret. reflexivity.
    - rewrite !fin_Do. apply IH.
    - rewrite !fin_Panic. reflexivity.
  Qed.

  (* from [fin] back to [run] *)
  Lemma fin_run {R} (p : prog R) a a' out :
    fin p a = (a', out) -> exists tr, run pre p a [] = (tr, a', out).
  Proof.
    unfold fin. intros E. inversion E. exists (fst (fst (run pre p a []))).
    destruct (run pre p a []) as [[tr af] o]. reflexivity.
  Qed.

  Lemma fin_inj {R} (p q : prog R) a b :
    fin p a = fin q b ->
    snd (fst (run pre p a [])) = snd (fst (run pre q b [])) /\ snd (run pre p a []) = snd (run pre q b []).
  Proof. unfold fin. intros E. inversion E. auto. Qed.

  Lemma run_fin {R} (p : prog R) a tr a' out :
    run pre p a [] = (tr, a', out) -> fin p a = (a', out).
  Proof. unfold fin. intros ->. reflexivity. Qed.
End Fin.

(* ------------------------------------------------------------------------- *)
(** * 1. No operation panics (C10)                                            *)
(* ------------------------------------------------------------------------- *)

Lemma np_bind {A B} (p : prog A) (f : A -> prog B) :
  no_panic p -> (forall r, no_panic (f r)) -> no_panic (bind p f).
Proof. intros H Hf. induction H as [r|o k _ IH]; cbn [bind]; auto. constructor. exact IH. Qed.

(* soundness: whatever the state and the faults, the run does not end in a panic *)
Theorem no_panic_sound (pre : bytes -> N) {R} (p : prog R) :
  no_panic p -> forall a phi, snd (run pre p a phi) <> Panicked.
Proof.
  intros H. induction H as [r|o k _ IH]; intros a phi; [cbn; discriminate|].
  rewrite run_Do. destruct (hdf phi) as [|e| |]; cbn [snd]; try discriminate; apply IH.
Qed.

(* without faults it ends with a result *)
Lemma no_panic_done (pre : bytes -> N) {R} (p : prog R) :
  no_panic p -> forall a, exists r, snd (fin pre p a) = Done r.
Proof.
  intros H. induction H as [r|o k _ IH]; intros a.
  - exists r. reflexivity.
  - rewrite fin_Do. apply IH.
Qed.

Lemma head_status_not_panic r : head_status r <> HPanic.
Proof. destruct r as [| |[[|[| | | |]| | |]| |]| |]; cbn; discriminate. Qed.

Ltac np_step :=
  match goal with
  | |- no_panic (Ret _) => apply np_ret
  | |- no_panic (Do _ _) => apply np_do; intros ?
  | |- no_panic (bind _ _) => apply np_bind; [| intros ?]
  | |- no_panic (match head_status ?r with _ => _ end) =>
      let E := fresh "E" in
      destruct (head_status r) eqn:E; [| | exfalso; exact (head_status_not_panic _ E)]
  | |- no_panic (match ?x with _ => _ end) => destruct x eqn:?
  end.

Section NoPanicStitch.
  Variables keep skip : entry -> bool.

  Lemma list_subdirs_np b subs : forall acc kfail k,
    no_panic kfail -> (forall hs, no_panic (k hs)) -> no_panic (list_subdirs b subs acc kfail k).
  Proof.
    induction subs as [|s subs IH]; intros acc kfail k Hf Hk; cbn [list_subdirs]; auto.
    repeat np_step; auto.
  Qed.

  Lemma hunks_loop_np n hs : forall after last acc merr k,
    (forall l a m, no_panic (k l a m)) -> no_panic (hunks_loop keep skip n hs after last acc merr k).
  Proof.
    induction hs as [|h hs IH]; intros after last acc merr k Hk; cbn [hunks_loop]; auto.
    repeat np_step; auto.
  Qed.

  Lemma open_band_np n last acc merr k :
    (forall l a m, no_panic (k l a m)) -> no_panic (open_band keep skip n last acc merr k).
  Proof.
    intros Hk. unfold open_band. repeat np_step; auto.
    apply list_subdirs_np; [apply Hk|]. intros hs. repeat np_step. apply hunks_loop_np. exact Hk.
  Qed.

  Lemma after_band_np n blw last acc merr :
    (forall l a m, no_panic (blw l a m)) -> no_panic (after_band n blw last acc merr).
  Proof. intros Hb. unfold after_band. repeat np_step; auto. Qed.

  Lemma below_np n : forall last acc merr, no_panic (below keep skip n last acc merr).
  Proof.
    induction n as [|m IH]; intros last acc merr; cbn [below]; repeat np_step; auto.
    apply open_band_np. intros l a m'. apply after_band_np. exact IH.
  Qed.

  Lemma snext_np st last merr : no_panic (snext keep skip st last merr).
  Proof.
    unfold snext. destruct st as [|n|n hs buf after|n].
    - constructor.
    - apply open_band_np. intros. apply after_band_np. apply below_np.
    - repeat np_step. apply hunks_loop_np. intros. apply after_band_np. apply below_np.
    - apply after_band_np. apply below_np.
  Qed.
End NoPanicStitch.

Section NoPanicOps.
  Local Hint Resolve snext_np : core.

  Lemma last_complete_np {R} ids : forall (k : option N -> prog R),
    (forall o, no_panic (k o)) -> no_panic (last_complete ids k).
  Proof.
    induction ids as [|b ids IH]; intros k Hk; cbn [last_complete]; auto.
    repeat np_step; auto.
  Qed.

  Lemma resolve_np {R} p (k : option N -> prog R) :
    (forall o, no_panic (k o)) -> no_panic (resolve p k).
  Proof.
    intros Hk. unfold resolve. destruct p; auto; repeat np_step; auto.
    apply last_complete_np. exact Hk.
  Qed.

  Lemma open_tree_np {R} p (k : option N -> prog R) :
    (forall o, no_panic (k o)) -> no_panic (open_tree p k).
  Proof.
    intros Hk. unfold open_tree. apply resolve_np. intros [b|]; auto. repeat np_step; auto.
  Qed.

  Theorem list_no_panic p keep : no_panic (list_prog p keep).
  Proof.
    unfold list_prog. repeat np_step.
    apply open_tree_np. intros [b|]; [|constructor].
    apply np_bind; auto. intros [[[[es o] st] last] merr]. constructor.
  Qed.

  Lemma read_file_np addrs : forall cache acc k,
    (forall c o, no_panic (k c o)) -> no_panic (read_file cache addrs acc k).
  Proof.
    induction addrs as [|a addrs IH]; intros cache acc k Hk; cbn [read_file]; auto.
    repeat np_step; auto.
  Qed.

  Lemma restore_entries_np es : forall cache acc merr, no_panic (restore_entries es cache acc merr).
  Proof.
    induction es as [|e es IH]; intros cache acc merr; cbn [restore_entries]; [constructor|].
    destruct (e_kind e); auto. apply read_file_np. intros. apply IH.
  Qed.

  Lemma list_blocks_r_np subs : forall ok k,
    (forall ok', no_panic (k ok')) -> no_panic (list_blocks_r subs ok k).
  Proof.
    induction subs as [|s subs IH]; intros ok k Hk; cbn [list_blocks_r]; auto.
    repeat np_step; auto.
  Qed.

  Theorem restore_no_panic p keep : no_panic (restore_prog p keep).
  Proof.
    unfold restore_prog. repeat np_step.
    apply open_tree_np. intros [b|]; [|constructor].
    repeat np_step. apply list_blocks_r_np. intros [|]; [|constructor].
    apply np_bind; auto. intros [[[[es o] st] last] merr]. apply restore_entries_np.
  Qed.

  Lemma validate_bands_np ids : forall lens errs k,
    (forall l e, no_panic (k l e)) -> no_panic (validate_bands ids lens errs k).
  Proof.
    induction ids as [|b ids IH]; intros lens errs k Hk; cbn [validate_bands]; auto.
    repeat np_step; auto.
  Qed.

  Lemma list_blocks_v_np subs : forall acc failed k,
    (forall o, no_panic (k o)) -> no_panic (list_blocks_v subs acc failed k).
  Proof.
    induction subs as [|s subs IH]; intros acc failed k Hk; cbn [list_blocks_v]; auto.
    repeat np_step; auto.
  Qed.

  Lemma read_all_np l : forall acc errs k,
    (forall a e, no_panic (k a e)) -> no_panic (read_all l acc errs k).
  Proof.
    induction l as [|c l IH]; intros acc errs k Hk; cbn [read_all]; auto.
    repeat np_step; auto.
  Qed.

  Theorem validate_no_panic skip hint : no_panic (validate_prog skip hint).
  Proof.
    unfold validate_prog. repeat np_step.
    apply validate_bands_np. intros lens errs. repeat np_step.
    apply list_blocks_v_np. intros [present0|]; [|constructor].
    destruct skip; [constructor|]. apply read_all_np. intros. constructor.
  Qed.

  Theorem init_no_panic : no_panic init_prog.
  Proof. unfold init_prog. repeat np_step. Qed.

  (* ---- delete ---- *)
  Lemma release_fail_np : no_panic release_fail.
  Proof. unfold release_fail. repeat np_step. Qed.
  Local Hint Resolve release_fail_np : core.

  Lemma ref_hunks_np b hs : forall acc k,
    (forall acc', no_panic (k acc')) -> no_panic (ref_hunks b hs acc k).
  Proof.
    induction hs as [|h hs IH]; intros acc k Hk; cbn [ref_hunks]; auto.
    repeat np_step; auto.
  Qed.

  Lemma ref_subdirs_np b subs : forall acc k,
    (forall hs, no_panic (k hs)) -> no_panic (ref_subdirs b subs acc k).
  Proof.
    induction subs as [|s subs IH]; intros acc k Hk; cbn [ref_subdirs]; auto.
    repeat np_step; auto.
  Qed.

  Lemma ref_bands_np bands : forall acc k,
    (forall acc', no_panic (k acc')) -> no_panic (ref_bands bands acc k).
  Proof.
    induction bands as [|b bands IH]; intros acc k Hk; cbn [ref_bands]; auto.
    repeat np_step; auto.
    apply ref_subdirs_np. intros hs. apply ref_hunks_np. intros acc'. apply IH. exact Hk.
  Qed.

  Lemma list_blocks_d_np subs : forall acc failed k,
    (forall l, no_panic (k l)) -> no_panic (list_blocks_d subs acc failed k).
  Proof.
    induction subs as [|s subs IH]; intros acc failed k Hk; cbn [list_blocks_d];
      [destruct failed; auto|].
    repeat np_step; auto.
  Qed.

  Lemma measure_np l : forall k, no_panic k -> no_panic (measure l k).
  Proof.
    induction l as [|c l IH]; intros k Hk; cbn [measure]; auto.
    repeat np_step; auto.
  Qed.

  Lemma delete_the_bands_np ids : forall n k,
    (forall n', no_panic (k n')) -> no_panic (delete_the_bands ids n k).
  Proof.
    induction ids as [|b ids IH]; intros n k Hk; cbn [delete_the_bands]; auto.
    repeat np_step; auto.
  Qed.

  Lemma delete_blocks_np l : forall errs k,
    (forall e, no_panic (k e)) -> no_panic (delete_blocks l errs k).
  Proof.
    induction l as [|c l IH]; intros errs k Hk; cbn [delete_blocks]; auto.
    repeat np_step; auto.
  Qed.

  Lemma acquire_np k : (forall last, no_panic (k last)) -> no_panic (acquire k).
  Proof. intros Hk. unfold acquire. repeat np_step; auto. Qed.

  Theorem delete_no_panic ids dry brk hint : no_panic (delete_prog ids dry brk hint).
  Proof.
    unfold delete_prog. repeat np_step; auto;
    (apply acquire_np; intros last; repeat np_step; auto;
     apply ref_bands_np; intros referenced; repeat np_step; auto;
     apply list_blocks_d_np; intros present; apply measure_np;
     destruct dry;
     [ repeat np_step; auto
     | repeat np_step; auto;
       apply delete_the_bands_np; intros nb;
       apply delete_blocks_np; intros errs;
       repeat np_step; auto ]).
  Qed.
End NoPanicOps.

(** C10: list, restore, validate, delete, init never panic, whatever the state of the
    archive (healthy or damaged in any way) and whatever the storage does *)
Theorem never_panics (pre : bytes -> N) : forall a phi,
  (forall p keep, snd (run pre (list_prog p keep) a phi) <> Panicked)
  /\ (forall p keep, snd (run pre (restore_prog p keep) a phi) <> Panicked)
  /\ (forall skip hint, snd (run pre (validate_prog skip hint) a phi) <> Panicked)
  /\ (forall ids dry brk hint, snd (run pre (delete_prog ids dry brk hint) a phi) <> Panicked)
  /\ snd (run pre init_prog a phi) <> Panicked.
Proof.
  intros a phi. repeat split; intros; apply no_panic_sound;
    auto using list_no_panic, restore_no_panic, validate_no_panic, delete_no_panic, init_no_panic.
Qed.

(* ------------------------------------------------------------------------- *)
(** * 2. The reading programs compute the pure reading, in every state        *)
(* ------------------------------------------------------------------------- *)

Lemma in_isort_Nv x l : In x (isort_by N.compare (fun y => y) l) <-> In x l.
Proof. apply in_isort. Qed.

Section Corr.
  Variable pre : bytes -> N.
  Variable a : arch.
  Notation fin := (fin pre).

  (* a listed sub-directory of i/ is a DHunkSub of this band, and exists *)
  Lemma subdir_listed_v b s :
    In s (subdir_numbers (children_dirs a (DIndex b))) -> has_dir a (DHunkSub b s) = true.
  Proof.
    unfold subdir_numbers. rewrite in_isort_Nv, in_flat_map. intros [d [Hd Hs]].
    unfold children_dirs in Hd. apply filter_In in Hd. destruct Hd as [Hd Hp].
    destruct d as [| |b'|b'|b' s'|s']; try contradiction. destruct Hs as [->|[]].
    cbn [parent_d] in Hp. destruct (dpath_eqb_spec (DIndex b') (DIndex b)) as [E|]; [|discriminate].
    inversion E; subst. apply has_dir_In. exact Hd.
  Qed.

  Lemma block_subdir_listed s :
    In s (block_subdirs (children_dirs a DBlocks)) -> has_dir a (DBlockSub s) = true.
  Proof.
    unfold block_subdirs. rewrite in_isort_Nv, in_flat_map. intros [d [Hd Hs]].
    unfold children_dirs in Hd. apply filter_In in Hd. destruct Hd as [Hd Hp].
    destruct d as [| |b'|b'|b' s'|s']; try contradiction. destruct Hs as [->|[]].
    apply has_dir_In. exact Hd.
  Qed.

  Section Stitched.
    Variable keep : entry -> bool.
    Notation T1 := (fun _ : entry => true).

    Lemma scan_buf_all_v buf : forall acc, scan_buf keep T1 buf acc = (acc ++ filter keep buf, None).
    Proof.
      induction buf as [|e buf IH]; intros acc; cbn [scan_buf filter]; [rewrite app_nil_r; reflexivity|].
      destruct (keep e); [|apply IH]. rewrite IH, <- app_assoc. reflexivity.
    Qed.

    Lemma hunks_loop_pure n hs : forall after last acc merr k,
      fin (hunks_loop keep T1 n hs after last acc merr k) a
      = let '(l, ac, m) := hl_pure keep a n hs after last acc merr in fin (k l ac m) a.
    Proof.
      induction hs as [|h hs IH]; intros after last acc merr k; cbn [hunks_loop hl_pure]; [reflexivity|].
      rewrite fin_read.
      destruct (rd a (PHunk (N.of_nat n) h)) as [|e|c|ds fs|ne]; try apply IH.
      - destruct e; try apply IH. reflexivity.
      - destruct c as [p| |]; try apply IH. destruct p as [|v|t|es|c]; try apply IH.
        destruct (phstep (Some es) after) as [[out|] after']; [|apply IH].
        rewrite scan_buf_all_v. apply IH.
    Qed.

    Lemma list_subdirs_pure b subs : forall acc kfail k,
      (forall s, In s subs -> has_dir a (DHunkSub b s) = true) ->
      fin (list_subdirs b subs acc kfail k) a
      = fin (k (acc ++ flat_map (fun s => hunk_numbers (children_files pre a (DHunkSub b s))) subs)) a.
    Proof.
      induction subs as [|s subs IH]; intros acc kfail k Hs; cbn [list_subdirs flat_map].
      - rewrite app_nil_r. reflexivity.
      - rewrite fin_list. unfold ls. rewrite (Hs s (or_introl eq_refl)).
        rewrite app_assoc. apply IH. intros s' Hs'. apply Hs. right. exact Hs'.
    Qed.

    Lemma open_band_pure n last acc merr k :
      fin (open_band keep T1 n last acc merr k) a
      = let '(l, ac, m) := ob_pure pre keep a n last acc merr in fin (k l ac m) a.
    Proof.
      unfold open_band, ob_pure. rewrite fin_read.
      destruct (head_status (rd a (PHead (N.of_nat n)))) eqn:E;
        [| reflexivity | exfalso; exact (head_status_not_panic _ E)].
      rewrite fin_list. unfold ls at 1 2. destruct (has_dir a (DIndex (N.of_nat n))); [|reflexivity].
      rewrite list_subdirs_pure by apply subdir_listed_v. cbn [app].
      rewrite fin_read. fold (hunks_listed pre a (N.of_nat n)).
      rewrite hunks_loop_pure. reflexivity.
    Qed.

    Lemma after_band_pure n blw last acc merr :
      fin (after_band n blw last acc merr) a
      = if closed a (N.of_nat n) then (a, Done (acc, None, SDone, last, merr)) else fin (blw last acc merr) a.
    Proof.
      unfold after_band, closed. rewrite fin_meta.
      destruct (meta_is_closed (mt a (PTail (N.of_nat n)))); reflexivity.
    Qed.

    Lemma below_pure_ok n : forall last acc merr,
      fin (below keep T1 n last acc merr) a
      = let '(l, ac, m) := below_pure pre keep a n last acc merr in (a, Done (ac, None, SDone, l, m)).
    Proof.
      induction n as [|m IH]; intros last acc merr; cbn [below below_pure]; [reflexivity|].
      rewrite fin_meta. destruct (meta_is_file (mt a (PHead (N.of_nat m)))); [|apply IH].
      rewrite open_band_pure. destruct (ob_pure pre keep a m last acc merr) as [[l ac] me].
      rewrite after_band_pure. destruct (closed a (N.of_nat m)); [reflexivity | apply IH].
    Qed.

    (** the stitched reader, run to the end from [SBefore n] *)
    Theorem snext_pure n :
      fin (snext keep T1 (SBefore n) None 0) a
      = let '(l, ac, m) := stitch_pure pre keep a n in (a, Done (ac, None, SDone, l, m)).
    Proof.
      unfold snext, stitch_pure. rewrite open_band_pure.
      destruct (ob_pure pre keep a n None [] 0) as [[l ac] me].
      rewrite after_band_pure. destruct (closed a (N.of_nat n)); [reflexivity | apply below_pure_ok].
    Qed.
  End Stitched.

  Lemma opens_b_status b : opens_b a b = true <-> head_status (rd a (PHead b)) = HOk.
  Proof. unfold opens_b. destruct (head_status (rd a (PHead b))); split; congruence. Qed.

  Lemma validate_bands_pure ids : forall lens errs k,
    fin (validate_bands ids lens errs k) a
    = let '(l, e) := vb_pure pre a ids lens errs in fin (k l e) a.
  Proof.
    induction ids as [|b ids IH]; intros lens errs k; cbn [validate_bands vb_pure]; [reflexivity|].
    rewrite fin_read. unfold opens_b.
    destruct (head_status (rd a (PHead b))) eqn:E;
      [| apply IH | exfalso; exact (head_status_not_panic _ E)].
    rewrite fin_list. destruct (ls pre a (DBand b)) as [|e|c|ds fs|ne]; try apply IH.
    rewrite fin_read, E. rewrite fin_bind, snext_pure.
    destruct (stitch_pure pre keep_all a (N.to_nat b)) as [[l es] merr]. apply IH.
  Qed.

  Lemma list_blocks_v_pure subs : forall acc failed k,
    (forall s, In s subs -> has_dir a (DBlockSub s) = true) ->
    fin (list_blocks_v subs acc failed k) a
    = fin (k (if failed then None
              else Some (acc ++ flat_map (fun s => listed_blocks (children_files pre a (DBlockSub s))) subs))) a.
  Proof.
    induction subs as [|s subs IH]; intros acc failed k Hs; cbn [list_blocks_v flat_map].
    - rewrite app_nil_r. reflexivity.
    - rewrite fin_list. unfold ls. rewrite (Hs s (or_introl eq_refl)).
      fold (listed_blocks (children_files pre a (DBlockSub s))).
      rewrite app_assoc. apply IH. intros s' Hs'. apply Hs. right. exact Hs'.
  Qed.

  Lemma read_all_pure l : forall acc errs k,
    fin (read_all l acc errs k) a = let '(bl, e) := ra_pure a l acc errs in fin (k bl e) a.
  Proof.
    induction l as [|c l IH]; intros acc errs k; cbn [read_all ra_pure]; [reflexivity|].
    rewrite fin_read.
    destruct (rd a (PBlock c)) as [|e|x|ds fs|ne]; try apply IH.
    destruct x as [p| |]; try apply IH. destruct p as [|v|t|es|d]; try apply IH.
    destruct (str_eqb d c); apply IH.
  Qed.

  (** validate, without faults, in ANY state: the state is unchanged and the result is the
      pure validation of the state *)
  Theorem validate_pure_ok skip hint :
    fin (validate_prog skip hint) a = (a, Done (validate_pure pre a skip hint)).
  Proof.
    unfold validate_prog, validate_pure. rewrite fin_read.
    destruct (rd a PHeader) as [|e|c|ds fs|ne]; try reflexivity.
    destruct c as [p| |]; try reflexivity. destruct p; try reflexivity.
    rewrite fin_list. unfold ls at 1. destruct (has_dir a DRoot) eqn:HR; [|reflexivity].
    rewrite fin_list. unfold ls at 1. rewrite HR.
    rewrite validate_bands_pure.
    destruct (vb_pure pre a (sorted_N (band_ids (children_dirs a DRoot))) [] 0) as [lens errs].
    rewrite fin_list. unfold ls at 1. destruct (has_dir a DBlocks); [|reflexivity].
    rewrite list_blocks_v_pure by apply block_subdir_listed. cbn [app].
    fold (present0 pre a).
    destruct skip; [reflexivity|].
    rewrite read_all_pure.
    destruct (ra_pure a (order_by hint (dedup (present0 pre a))) [] errs) as [blens errs'].
    reflexivity.
  Qed.

  Corollary validate_run skip hint :
    exists tr, run pre (validate_prog skip hint) a [] = (tr, a, Done (validate_pure pre a skip hint)).
  Proof. apply fin_run. apply validate_pure_ok. Qed.
End Corr.

(* ------------------------------------------------------------------------- *)
(** * 3. What a listing shows (lists without repetition)                      *)
(* ------------------------------------------------------------------------- *)

Lemma Ncmp_order : CmpOrder N.compare.
Proof.
  constructor.
  - intros x y. apply N.compare_eq_iff.
  - intros x y. apply N.compare_antisym.
  - intros x y z. rewrite !N.compare_lt_iff. lia.
Qed.

Lemma isort_Nv_sorted_lt l : NoDup l -> StronglySorted N.lt (isort_by N.compare (fun x => x) l).
Proof.
  intros ND.
  assert (ND' : NoDup (isort_by N.compare (fun x => x) l)).
  { eapply Permutation_NoDup; [symmetry; apply isort_perm | exact ND]. }
  pose proof (isort_sorted N.compare (fun x : N => x) Ncmp_order l) as S.
  induction S as [|x l' S' IH F]; [constructor|].
  inversion ND' as [|? ? Hni ND'']; subst. constructor; [apply IH; exact ND''|].
  rewrite Forall_forall in *. intros y Hy. pose proof (F y Hy) as Hle.
  rewrite N.compare_gt_iff in Hle. assert (x <> y) by (intros ->; contradiction). lia.
Qed.

(* at most one output per element, outputs determine the key *)
Lemma NoDup_flat_map_single_v {A B K} (key : A -> K) (g : A -> list B) l :
  NoDup (map key l) ->
  (forall p, In p l -> (length (g p) <= 1)%nat) ->
  (forall p q h, In p l -> In q l -> In h (g p) -> In h (g q) -> key p = key q) ->
  NoDup (flat_map g l).
Proof.
  induction l as [|x l IH]; intros ND H1 Hinj; cbn [flat_map]; [constructor|].
  inversion ND as [|? ? Hni ND']; subst.
  assert (IH' : NoDup (flat_map g l)).
  { apply IH; auto. - intros p Hp. apply H1. right. exact Hp.
    - intros p q h Hp Hq. apply Hinj; right; assumption. }
  pose proof (H1 x (or_introl eq_refl)) as Hl.
  destruct (g x) as [|h [|h' t]] eqn:Eg; cbn [app]; [exact IH' | | cbn [length] in Hl; lia].
  constructor; [|exact IH']. intros Hh. apply in_flat_map in Hh. destruct Hh as [q [Hq Hhq]].
  apply Hni. rewrite (Hinj x q h); [apply in_map; exact Hq | left; reflexivity | right; exact Hq | rewrite Eg; left; reflexivity | exact Hhq].
Qed.

(* a strictly increasing list whose members are exactly i..n-1 *)
Lemma sorted_range hs : forall i n,
  StronglySorted N.lt hs -> (forall h, In h hs <-> i <= h < n) ->
  consecutive hs i = true /\ i + N.of_nat (length hs) = N.max i n.
Proof.
  induction hs as [|x hs IH]; intros i n S Hin; cbn [consecutive length].
  - split; [reflexivity|]. destruct (N.lt_ge_cases i n) as [H|H]; [|lia].
    exfalso. apply (proj2 (Hin i)). lia.
  - inversion S as [|? ? S' F]; subst. rewrite Forall_forall in F.
    assert (Hx : i <= x < n) by (apply Hin; left; reflexivity).
    assert (x = i).
    { destruct (proj2 (Hin i)) as [E|Hi]; [lia | congruence|]. pose proof (F _ Hi). lia. }
    subst x. rewrite N.eqb_refl. cbn [andb].
    destruct (IH (i + 1) n S') as [C L].
    { intros h. split.
      - intros Hh. pose proof (F _ Hh). pose proof (proj1 (Hin h) (or_intror Hh)). lia.
      - intros Hh. destruct (proj2 (Hin h)) as [E|H]; [lia | lia | exact H]. }
    split; [exact C|]. lia.
Qed.

Lemma keys_get_v (a : arch) f : In f (map fst (files a)) -> get a f <> None.
Proof. intros Hin E. apply (lookup_None_notin _ _ E). exact Hin. Qed.

Lemma get_In_keys (a : arch) f : get a f <> None -> In f (map fst (files a)).
Proof.
  intros H. destruct (get a f) as [x|] eqn:G; [|congruence].
  destruct (lookup_Some_In _ _ _ G) as [g [Hin [-> _]]]. apply (in_map fst) in Hin. exact Hin.
Qed.

Lemma get_In_files (a : arch) f x : get a f = Some x -> In (f, x) (files a).
Proof. intros G. destruct (lookup_Some_In _ _ _ G) as [g [Hin [-> _]]]. exact Hin. Qed.

Section Listing.
  Variable pre : bytes -> N.
  Variable a : arch.

  (* a listed hunk number is the number of a hunk file of this band *)
  Lemma hunk_listed_v b s h :
    In h (hunk_numbers (children_files pre a (DHunkSub b s))) ->
    In (PHunk b h) (map fst (files a)) /\ h / HUNKS_PER_SUBDIR = s.
  Proof.
    unfold hunk_numbers. rewrite in_isort_Nv, in_flat_map. intros [[f ne] [Hf Hh]].
    unfold children_files in Hf. apply in_map_iff in Hf. destruct Hf as [[g x] [E Hg]].
    cbn [fst snd] in E. inversion E; subst f ne. clear E.
    apply filter_In in Hg. destruct Hg as [Hg Hp]. cbn [fst] in Hp, Hh.
    destruct g as [| |b'|b'|b' h'|c]; try contradiction. destruct Hh as [->|[]].
    cbn [parent_f] in Hp. destruct (dpath_eqb_spec (DHunkSub b' (h / HUNKS_PER_SUBDIR)) (DHunkSub b s)) as [E|]; [|discriminate].
    inversion E; subst. split; [|reflexivity]. apply in_map_iff. exists (PHunk b h, x). auto.
  Qed.

  Lemma hunks_listed_exist b h : In h (hunks_listed pre a b) -> get a (PHunk b h) <> None.
  Proof.
    unfold hunks_listed. rewrite in_flat_map. intros [s [_ Hh]]. apply keys_get_v. apply (hunk_listed_v b s h Hh).
  Qed.

  (* every hunk file whose sub-directory exists is listed *)
  Lemma hunk_file_listed b h :
    get a (PHunk b h) <> None -> In (DHunkSub b (h / HUNKS_PER_SUBDIR)) (dirs a) ->
    In h (hunks_listed pre a b).
  Proof.
    intros Hg Hsub. apply get_In_keys in Hg.
    unfold hunks_listed. apply in_flat_map. exists (h / HUNKS_PER_SUBDIR). split.
    - unfold subdir_numbers. rewrite in_isort_Nv, in_flat_map. exists (DHunkSub b (h / HUNKS_PER_SUBDIR)).
      split; [|left; reflexivity]. unfold children_dirs. apply filter_In. split; [exact Hsub|].
      cbn [parent_d]. destruct (dpath_eqb_spec (DIndex b) (DIndex b)); congruence.
    - unfold hunk_numbers. rewrite in_isort_Nv, in_flat_map.
      apply in_map_iff in Hg. destruct Hg as [[g x] [E Hg]]. cbn [fst] in E. subst g.
      exists (PHunk b h, nonempty x). split; [|left; reflexivity].
      unfold children_files. apply in_map_iff. exists (PHunk b h, x). split; [reflexivity|].
      apply filter_In. split; [exact Hg|]. cbn [fst parent_f].
      destruct (dpath_eqb_spec (DHunkSub b (h / HUNKS_PER_SUBDIR)) (DHunkSub b (h / HUNKS_PER_SUBDIR))); congruence.
  Qed.

  Hypothesis NDd : NoDup (dirs a).
  Hypothesis NDf : FilesND a.

  Definition hnum_v (p : fpath * bool) : list N := match fst p with PHunk _ h => [h] | _ => [] end.

  Lemma sub_hunks_sorted_v n s : StronglySorted N.lt (hunk_numbers (children_files pre a (DHunkSub n s))).
  Proof.
    unfold hunk_numbers. apply isort_Nv_sorted_lt. fold hnum_v.
    apply (NoDup_flat_map_single_v fst hnum_v).
    - unfold children_files. rewrite map_map. cbn [fst].
      apply (filter_keys_nodup (fun f => dpath_eqb (parent_f pre f) (DHunkSub n s))). exact NDf.
    - intros p _. unfold hnum_v. destruct (fst p); cbn; lia.
    - intros p q h Hp Hq Hhp Hhq.
      assert (X : forall r, In r (children_files pre a (DHunkSub n s)) -> In h (hnum_v r) -> fst r = PHunk n h).
      { intros r Hr Hh. unfold children_files in Hr. apply in_map_iff in Hr. destruct Hr as [[g x] [E Hg]].
        apply filter_In in Hg. destruct Hg as [_ Hpar]. subst r. cbn [fst snd] in *.
        unfold hnum_v in Hh. cbn [fst] in Hh. destruct g as [| |b'|b'|b' h'|c]; try contradiction.
        destruct Hh as [->|[]]. cbn [parent_f] in Hpar.
        destruct (dpath_eqb_spec (DHunkSub b' (h / HUNKS_PER_SUBDIR)) (DHunkSub n s)) as [E|]; [|discriminate].
        inversion E; subst. reflexivity. }
      rewrite (X p Hp Hhp), (X q Hq Hhq). reflexivity.
  Qed.

  Definition dnum_v (d : dpath) : list N := match d with DHunkSub _ s => [s] | _ => [] end.

  Lemma subdirs_sorted_v n : StronglySorted N.lt (subdir_numbers (children_dirs a (DIndex n))).
  Proof.
    unfold subdir_numbers. apply isort_Nv_sorted_lt. fold dnum_v.
    apply (NoDup_flat_map_single_v (fun d => d) dnum_v).
    - rewrite map_id. unfold children_dirs. apply NoDup_filter. exact NDd.
    - intros p _. destruct p; cbn; lia.
    - intros p q s Hp Hq Hsp Hsq.
      assert (X : forall r, In r (children_dirs a (DIndex n)) -> In s (dnum_v r) -> r = DHunkSub n s).
      { intros r Hr Hs. unfold children_dirs in Hr. apply filter_In in Hr. destruct Hr as [_ Hpar].
        destruct r as [| |b'|b'|b' s'|s']; try contradiction. destruct Hs as [->|[]].
        cbn [parent_d] in Hpar. destruct (dpath_eqb_spec (DIndex b') (DIndex n)) as [E|]; [|discriminate].
        inversion E; subst. reflexivity. }
      rewrite (X p Hp Hsp), (X q Hq Hsq). reflexivity.
  Qed.

  Lemma flat_map_sorted_v (F : N -> list N) subs :
    StronglySorted N.lt subs ->
    (forall s, StronglySorted N.lt (F s)) ->
    (forall s h, In h (F s) -> h / HUNKS_PER_SUBDIR = s) ->
    StronglySorted N.lt (flat_map F subs).
  Proof.
    intros S HF Hdiv. induction S as [|s subs S' IH Fs]; cbn [flat_map]; [constructor|].
    apply SS_app; [apply HF | exact IH|].
    intros x y Hx Hy. apply in_flat_map in Hy. destruct Hy as [s' [Hs' Hy]].
    rewrite Forall_forall in Fs. pose proof (Fs s' Hs') as Hlt.
    apply Hdiv in Hx, Hy. subst s s'.
    destruct (N.lt_ge_cases x y) as [H|H]; [exact H|].
    apply (N.div_le_mono _ _ HUNKS_PER_SUBDIR) in H; [lia | discriminate].
  Qed.

  Lemma hunks_listed_sorted n : StronglySorted N.lt (hunks_listed pre a n).
  Proof.
    unfold hunks_listed.
    apply flat_map_sorted_v; [apply subdirs_sorted_v | intros s; apply sub_hunks_sorted_v|].
    intros s h Hh. apply (hunk_listed_v n s h Hh).
  Qed.
End Listing.

(* ------------------------------------------------------------------------- *)
(** * 4. C09: a healthy archive validates silently                            *)
(* ------------------------------------------------------------------------- *)

Lemma filter_none {A} (f : A -> bool) l : (forall x, In x l -> f x = false) -> filter f l = [].
Proof.
  induction l as [|x l IH]; intros H; cbn [filter]; [reflexivity|].
  rewrite (H x (or_introl eq_refl)). apply IH. intros y Hy. apply H. right. exact Hy.
Qed.

Lemma In_mem_bytes c l : In c l -> mem_bytes c l = true.
Proof.
  intros H. unfold mem_bytes. apply existsb_exists. exists c. split; [exact H | apply str_eqb_refl].
Qed.

Lemma mem_bytes_iff c l : mem_bytes c l = true <-> In c l.
Proof. split; [apply mem_bytes_In | apply In_mem_bytes]. Qed.

Lemma In_dedup c l : In c (dedup l) <-> In c l.
Proof.
  induction l as [|x l IH]; cbn [dedup]; [reflexivity|].
  destruct (mem_bytes x l) eqn:M.
  - rewrite IH. cbn [In]. split; [auto|]. intros [<-|H]; [apply mem_bytes_In; exact M | exact H].
  - cbn [In]. rewrite IH. reflexivity.
Qed.

Lemma NoDup_dedup l : NoDup (dedup l).
Proof.
  induction l as [|x l IH]; cbn [dedup]; [constructor|].
  destruct (mem_bytes x l) eqn:M; [exact IH|].
  constructor; [|exact IH]. rewrite In_dedup. intros Hin. apply In_mem_bytes in Hin. congruence.
Qed.

Lemma In_order_by c hint s : In c (order_by hint s) <-> In c s.
Proof.
  unfold order_by. rewrite in_app_iff, !filter_In. split.
  - intros [[_ M]|[H _]]; [apply mem_bytes_In; exact M | exact H].
  - intros H. destruct (mem_bytes c hint) eqn:M.
    + left. split; [apply mem_bytes_In; exact M | apply In_mem_bytes; exact H].
    + right. split; [exact H | reflexivity].
Qed.

(* lengths needed per block: every one is within its (present, good) block *)
Definition LensOK (a : arch) (lens : list (bytes * N)) : Prop :=
  forall h len, In (h, len) lens -> block_ok a h /\ len <= N.of_nat (length h).

Lemma upd_max_ok a h len lens :
  block_ok a h -> len <= N.of_nat (length h) -> LensOK a lens -> LensOK a (upd_max h len lens).
Proof.
  intros Hb Hl HL. unfold upd_max.
  destruct (existsb (fun p => str_eqb (fst p) h) lens).
  - intros h' len' Hin. apply in_map_iff in Hin. destruct Hin as [[h0 l0] [E Hin]].
    cbn [fst snd] in E. destruct (str_eqb h0 h) eqn:Eh.
    + inversion E; subst. apply str_eqb_eq in Eh. subst h0.
      split; [exact Hb|]. destruct (HL _ _ Hin) as [_ H0]. lia.
    + inversion E; subst. apply HL. exact Hin.
  - intros h' len' Hin. apply in_app_iff in Hin. destruct Hin as [Hin|[E|[]]]; [apply HL; exact Hin|].
    inversion E; subst. auto.
Qed.

Lemma addrs_lens_ok a addrs : forall lens,
  Forall (addr_ok a) addrs -> LensOK a lens ->
  LensOK a (fold_left (fun m ad => upd_max (a_hash ad) (a_start ad + a_len ad) m) addrs lens).
Proof.
  induction addrs as [|ad addrs IH]; intros lens Hok HL; cbn [fold_left]; [exact HL|].
  inversion Hok as [|? ? [Hb Hl] Hok']; subst. apply IH; [exact Hok'|]. apply upd_max_ok; assumption.
Qed.

Lemma entry_lens_ok a es : forall lens,
  Forall (entry_ok a) es -> LensOK a lens -> LensOK a (entry_lens es lens).
Proof.
  unfold entry_lens. induction es as [|e es IH]; intros lens Hok HL; cbn [fold_left]; [exact HL|].
  inversion Hok as [|? ? He Hok']; subst. apply IH; [exact Hok'|].
  destruct (e_kind e); auto. apply addrs_lens_ok; assumption.
Qed.

Lemma ra_pure_all_ok a l : forall acc errs,
  Forall (block_ok a) l ->
  ra_pure a l acc errs = (acc ++ map (fun c => (c, N.of_nat (length c))) l, errs).
Proof.
  induction l as [|c l IH]; intros acc errs Hok; cbn [ra_pure map]; [rewrite app_nil_r; reflexivity|].
  inversion Hok as [|? ? Hc Hok']; subst. unfold rd. unfold block_ok in Hc. rewrite Hc.
  rewrite str_eqb_refl. rewrite IH by exact Hok'. rewrite <- app_assoc. reflexivity.
Qed.

Lemma find_len_map h l :
  In h l ->
  find (fun q : bytes * N => str_eqb (fst q) h) (map (fun c => (c, N.of_nat (length c))) l)
  = Some (h, N.of_nat (length h)).
Proof.
  induction l as [|c l IH]; [intros []|]. intros Hin. cbn [map find fst].
  destruct (str_eqb c h) eqn:E; [apply str_eqb_eq in E; subst; reflexivity|].
  destruct Hin as [->|Hin]; [rewrite str_eqb_refl in E; discriminate | auto].
Qed.

Section ReadableRun.
  Variable pre : bytes -> N.
  Variable a : arch.
  Hypothesis HH : Readable pre a.

  Let WF : WFdirs pre a := proj1 HH.
  Let AI : AInv a := proj1 (proj2 HH).
  Let RI : RefInt a := proj1 AI.
  Let NDf : FilesND a := proj2 (proj2 AI).
  Let NDd : NoDup (dirs a) := proj1 WF.

  Lemma file_parent_dir f x : get a f = Some x -> In (parent_f pre f) (dirs a).
  Proof.
    intros G. pose proof WF as WF'; destruct WF' as (_ & _ & _ & Hfp & _). apply (Hfp f x). apply get_In_files. exact G.
  Qed.

  Lemma file_parent_dir' f : get a f <> None -> In (parent_f pre f) (dirs a).
  Proof. destruct (get a f) as [x|] eqn:G; [intros _; eapply file_parent_dir; eauto | congruence]. Qed.

  Lemma band_healthy b : In (DBand b) (dirs a) -> BandReadable a b.
  Proof. pose proof HH as HH'; destruct HH' as (_ & _ & _ & HB). apply HB. Qed.

  Lemma band_index_dir b : In (DBand b) (dirs a) -> has_dir a (DIndex b) = true.
  Proof. intros Hb. pose proof WF as WF'; destruct WF' as (_ & _ & _ & _ & _ & Hi). apply has_dir_In. apply Hi. exact Hb. Qed.

  (* the listing of a healthy band shows the hunks 0..n-1 *)
  Lemma healthy_listed b n :
    (forall h, get a (PHunk b h) <> None -> h < n) ->
    (forall h, h < n -> exists es, get a (PHunk b h) = Some (Good (PlHunk es))) ->
    consecutive (hunks_listed pre a b) 0 = true /\ N.of_nat (length (hunks_listed pre a b)) = n
    /\ (forall h, In h (hunks_listed pre a b) -> h < n).
  Proof.
    intros H1 H2.
    assert (Hin : forall h, In h (hunks_listed pre a b) <-> 0 <= h < n).
    { intros h. split.
      - intros Hh. apply hunks_listed_exist in Hh. apply H1 in Hh. lia.
      - intros [_ Hh]. destruct (H2 h Hh) as [es G].
        apply hunk_file_listed; [congruence|].
        apply (file_parent_dir (PHunk b h) _ G). }
    destruct (sorted_range _ 0 n (hunks_listed_sorted pre a NDd NDf b) Hin) as [C L].
    split; [exact C|]. split; [lia|]. intros h Hh. apply Hin in Hh. lia.
  Qed.

  Section Keep.
    Variable keep : entry -> bool.

    Lemma hl_pure_healthy n hs : forall after last acc merr,
      (forall h, In h hs -> exists es, get a (PHunk (N.of_nat n) h) = Some (Good (PlHunk es))) ->
      Forall (entry_ok a) acc ->
      snd (hl_pure keep a n hs after last acc merr) = merr
      /\ Forall (entry_ok a) (snd (fst (hl_pure keep a n hs after last acc merr))).
    Proof.
      induction hs as [|h hs IH]; intros after last acc merr Hhs Hacc; cbn [hl_pure]; [auto|].
      destruct (Hhs h (or_introl eq_refl)) as [es G]. unfold rd. rewrite G.
      assert (Hhs' : forall h', In h' hs -> exists es, get a (PHunk (N.of_nat n) h') = Some (Good (PlHunk es)))
        by (intros h' Hh'; apply Hhs; right; exact Hh').
      destruct (phstep (Some es) after) as [[out|] after'] eqn:E; [|apply IH; assumption].
      apply IH; [exact Hhs'|]. apply Forall_app. split; [exact Hacc|].
      pose proof (hstep_Forall (entry_ok a) _ _ _ _ E (RI _ _ _ G)) as Hout.
      rewrite Forall_forall in *. intros x Hx. apply filter_In in Hx. apply Hout. tauto.
    Qed.

    Lemma ob_pure_healthy n last acc merr :
      In (DBand (N.of_nat n)) (dirs a) -> Forall (entry_ok a) acc ->
      snd (ob_pure pre keep a n last acc merr) = merr
      /\ Forall (entry_ok a) (snd (fst (ob_pure pre keep a n last acc merr))).
    Proof.
      intros Hb Hacc. destruct (band_healthy _ Hb) as (Hhead & m & H1 & H2 & Ht).
      destruct (healthy_listed _ _ H1 H2) as (C & L & Hlt).
      assert (Hbad : numbers_bad (hunks_listed pre a (N.of_nat n)) (tail_count a (N.of_nat n)) = false).
      { unfold numbers_bad. rewrite C. cbn [negb orb].
        destruct Ht as [-> | ->]; [reflexivity|]. rewrite L, N.eqb_refl. reflexivity. }
      assert (E : ob_pure pre keep a n last acc merr
                  = hl_pure keep a n (hunks_listed pre a (N.of_nat n)) last last acc merr).
      { unfold ob_pure. unfold rd at 1. rewrite Hhead. cbn [head_status].
        unfold ls. rewrite (band_index_dir _ Hb). rewrite Hbad. reflexivity. }
      rewrite E. apply hl_pure_healthy; [|exact Hacc].
      intros h Hh. apply H2. apply Hlt. exact Hh.
    Qed.

    Lemma below_pure_healthy n : forall last acc merr,
      Forall (entry_ok a) acc ->
      snd (below_pure pre keep a n last acc merr) = merr
      /\ Forall (entry_ok a) (snd (fst (below_pure pre keep a n last acc merr))).
    Proof.
      induction n as [|m IH]; intros last acc merr Hacc; cbn [below_pure]; [auto|].
      destruct (meta_is_file (mt a (PHead (N.of_nat m)))) eqn:Em; [|apply IH; exact Hacc].
      assert (Hb : In (DBand (N.of_nat m)) (dirs a)).
      { apply (file_parent_dir' (PHead (N.of_nat m))). unfold mt in Em.
        destruct (get a (PHead (N.of_nat m))); [discriminate | discriminate Em]. }
      destruct (ob_pure_healthy m last acc merr Hb Hacc) as [E1 E2].
      destruct (ob_pure pre keep a m last acc merr) as [[l ac] me]. cbn [fst snd] in E1, E2. subst me.
      destruct (closed a (N.of_nat m)); [auto | apply IH; exact E2].
    Qed.

    Lemma stitch_pure_healthy n :
      In (DBand (N.of_nat n)) (dirs a) ->
      snd (stitch_pure pre keep a n) = 0
      /\ Forall (entry_ok a) (snd (fst (stitch_pure pre keep a n))).
    Proof.
      intros Hb. unfold stitch_pure.
      destruct (ob_pure_healthy n None [] 0 Hb (Forall_nil _)) as [E1 E2].
      destruct (ob_pure pre keep a n None [] 0) as [[l ac] me]. cbn [fst snd] in E1, E2. subst me.
      destruct (closed a (N.of_nat n)); [auto | apply below_pure_healthy; exact E2].
    Qed.
  End Keep.

  Lemma head_listed b x :
    get a (PHead b) = Some x ->
    existsb (fun p => fpath_eqb (fst p) (PHead b)) (children_files pre a (DBand b)) = true.
  Proof.
    intros G. apply existsb_exists. exists (PHead b, nonempty x). split; [|apply fpath_eqb_refl].
    unfold children_files. apply in_map_iff. exists (PHead b, x). split; [reflexivity|].
    apply filter_In. split; [apply get_In_files; exact G|]. cbn [fst parent_f].
    destruct (dpath_eqb_spec (DBand b) (DBand b)); congruence.
  Qed.

  Lemma vb_pure_healthy ids : forall lens errs,
    (forall b, In b ids -> In (DBand b) (dirs a)) -> LensOK a lens ->
    snd (vb_pure pre a ids lens errs) = errs /\ LensOK a (fst (vb_pure pre a ids lens errs)).
  Proof.
    induction ids as [|b ids IH]; intros lens errs Hids HL; cbn [vb_pure]; [auto|].
    assert (Hb : In (DBand b) (dirs a)) by (apply Hids; left; reflexivity).
    assert (Hids' : forall b', In b' ids -> In (DBand b') (dirs a)) by (intros b' Hb'; apply Hids; right; exact Hb').
    destruct (band_healthy _ Hb) as (Hhead & _).
    unfold opens_b, rd. rewrite Hhead. cbn [head_status].
    unfold ls. rewrite (proj2 (has_dir_In a (DBand b)) Hb).
    rewrite (head_listed _ _ Hhead).
    assert (Hb' : In (DBand (N.of_nat (N.to_nat b))) (dirs a)) by (rewrite N2Nat.id; exact Hb).
    destruct (stitch_pure_healthy keep_all (N.to_nat b) Hb') as [E1 E2].
    destruct (stitch_pure pre keep_all a (N.to_nat b)) as [[l es] merr]. cbn [fst snd] in E1, E2. subst merr.
    rewrite N.add_0_r. apply IH; [exact Hids'|]. apply entry_lens_ok; assumption.
  Qed.

  Lemma root_band_ids b : In b (sorted_N (band_ids (children_dirs a DRoot))) -> In (DBand b) (dirs a).
  Proof.
    unfold sorted_N. rewrite in_isort_Nv. unfold band_ids. rewrite in_flat_map.
    intros [d [Hd Hb]]. unfold children_dirs in Hd. apply filter_In in Hd. destruct Hd as [Hd _].
    destruct d; try contradiction. destruct Hb as [->|[]]. exact Hd.
  Qed.

  Lemma present0_ok c : In c (present0 pre a) -> block_ok a c.
  Proof.
    unfold present0. rewrite in_flat_map. intros [s [_ Hc]].
    unfold listed_blocks in Hc. apply in_flat_map in Hc. destruct Hc as [[f ne] [Hin Hc]].
    destruct f; try destruct Hc. destruct ne; [destruct Hc as [<-|[]] | destruct Hc].
    eapply listed_block_ok; eauto.
  Qed.

  Lemma block_present c : block_ok a c -> In c (present0 pre a).
  Proof.
    intros Hb. unfold block_ok in Hb.
    pose proof (file_parent_dir _ _ Hb) as Hsub. cbn [parent_f] in Hsub.
    unfold present0. apply in_flat_map. exists (pre c). split.
    - unfold block_subdirs. rewrite in_isort_Nv, in_flat_map. exists (DBlockSub (pre c)).
      split; [|left; reflexivity]. unfold children_dirs. apply filter_In. split; [exact Hsub | reflexivity].
    - unfold listed_blocks. apply in_flat_map. exists (PBlock c, true). split; [|left; reflexivity].
      unfold children_files. apply in_map_iff. exists (PBlock c, Good (PlBlock c)). split; [reflexivity|].
      apply filter_In. split; [apply get_In_files; exact Hb|]. cbn [fst parent_f].
      destruct (dpath_eqb_spec (DBlockSub (pre c)) (DBlockSub (pre c))); congruence.
  Qed.

  Theorem validate_pure_readable skip hint :
    validate_pure pre a skip hint = {| v_ok := true; v_errors := 0 |}.
  Proof.
    unfold validate_pure. pose proof HH as HH'; destruct HH' as (_ & _ & Hhdr & _). unfold rd. rewrite Hhdr.
    pose proof WF as WF'; destruct WF' as (_ & HRoot & HBlocks & _).
    rewrite (proj2 (has_dir_In a DRoot) HRoot), (proj2 (has_dir_In a DBlocks) HBlocks).
    destruct (vb_pure_healthy (sorted_N (band_ids (children_dirs a DRoot))) [] 0 root_band_ids) as [E1 E2].
    { intros h len []. }
    destruct (vb_pure pre a (sorted_N (band_ids (children_dirs a DRoot))) [] 0) as [lens errs].
    cbn [fst snd] in E1, E2. subst errs.
    assert (Hpres : forall h len, In (h, len) lens -> In h (dedup (present0 pre a))).
    { intros h len Hin. apply In_dedup. apply block_present. apply (E2 _ _ Hin). }
    destruct skip.
    - f_equal. cbn [N.add].
      rewrite filter_none; [reflexivity|].
      intros [h len] Hin. cbn [fst]. rewrite (In_mem_bytes _ _ (Hpres _ _ Hin)). reflexivity.
    - rewrite ra_pure_all_ok.
      2:{ apply Forall_forall. intros c Hc. apply (proj1 (In_order_by _ _ _)) in Hc. apply (proj1 (In_dedup _ _)) in Hc.
        apply present0_ok. exact Hc. }
      cbn [app]. f_equal.
      rewrite filter_none; [reflexivity|].
      intros [h len] Hin. unfold short_or_missing. cbn [fst snd].
      rewrite find_len_map by (apply In_order_by; eapply Hpres; eauto).
      apply N.ltb_ge. apply (E2 _ _ Hin).
  Qed.

End ReadableRun.

Lemma Healthy_Readable pre a : Healthy pre a -> Readable pre a.
Proof.
  intros (W & A & Hh & HB). split; [exact W|]. split; [exact A|]. split; [exact Hh|].
  intros b Hb. destruct (HB b Hb) as (Hd & n & H1 & H2 & Ht).
  split; [exact Hd|]. exists n. split; [exact H1|]. split; [exact H2|].
  unfold tail_count, rd. destruct Ht as [-> | ->]; auto.
Qed.

(** C09, soundness: a healthy archive validates with no error, with or without reading
    the blocks, whatever the iteration order *)
Theorem validate_pure_healthy pre a skip hint :
  Healthy pre a -> validate_pure pre a skip hint = {| v_ok := true; v_errors := 0 |}.
Proof. intros H. apply validate_pure_readable. apply Healthy_Readable. exact H. Qed.

Theorem validate_healthy_silent pre a skip hint :
  Healthy pre a ->
  exists tr, run pre (validate_prog skip hint) a [] = (tr, a, Done {| v_ok := true; v_errors := 0 |}).
Proof. intros H. rewrite <- (validate_pure_healthy pre a skip hint H). apply validate_run. Qed.

(* ------------------------------------------------------------------------- *)
(** * 5. C16: the symlink guard of restore                                    *)
(* ------------------------------------------------------------------------- *)

(* no entry of the list lies strictly beneath an earlier (created) symlink entry of it *)
Fixpoint confined (created : entry -> bool) (ks : list entry) : Prop :=
  match ks with
  | [] => True
  | s :: ks' =>
      (e_kind s = KSymlink -> created s = true -> forall e, In e ks' -> beneath (e_apath s) e = false)
      /\ confined created ks'
  end.

Lemma confined_spec created ks l1 s l2 e l3 :
  confined created ks -> ks = l1 ++ s :: l2 ++ e :: l3 ->
  e_kind s = KSymlink -> created s = true -> beneath (e_apath s) e = false.
Proof.
  revert ks. induction l1 as [|x l1 IH]; intros ks Hc E Hk Hcr; subst ks; cbn [app confined] in Hc.
  - destruct Hc as [H _]. apply H; auto. apply in_or_app. right. left. reflexivity.
  - destruct Hc as [_ Hc]. eapply IH; eauto.
Qed.

Section Guard.
  Variable created : entry -> bool.

  Lemma guard_from_inv es : forall links,
    (forall e link, In e (fst (guard_links_from created links es)) -> In link links -> beneath link e = false)
    /\ confined created (fst (guard_links_from created links es))
    /\ (forall e, In e (fst (guard_links_from created links es)) -> In e es)
    /\ N.of_nat (length es)
       = N.of_nat (length (fst (guard_links_from created links es))) + snd (guard_links_from created links es).
  Proof.
    induction es as [|e0 es IH]; intros links; cbn [guard_links_from].
    - cbn. repeat split; auto; intros; contradiction.
    - destruct (existsb (fun link => beneath link e0) links) eqn:Ex.
      + destruct (IH links) as (I1 & I2 & I3 & I4).
        destruct (guard_links_from created links es) as [kept errs]. cbn [fst snd] in *.
        split; [exact I1|]. split; [exact I2|]. split; [intros e He; right; auto|].
        cbn [length]. lia.
      + set (links' := if kind_eqb (e_kind e0) KSymlink && created e0 then links ++ [e_apath e0] else links).
        assert (Hsub : forall l, In l links -> In l links').
        { intros l Hl. unfold links'. destruct (kind_eqb (e_kind e0) KSymlink && created e0); [|exact Hl].
          apply in_or_app. left. exact Hl. }
        destruct (IH links') as (I1 & I2 & I3 & I4).
        destruct (guard_links_from created links' es) as [kept errs]. cbn [fst snd] in *.
        split; [|split; [|split]].
        * intros e link [<-|He] Hl.
          -- destruct (beneath link e0) eqn:B; [|reflexivity].
             assert (X : existsb (fun l => beneath l e0) links = true)
               by (apply existsb_exists; exists link; auto). congruence.
          -- apply I1; auto.
        * cbn [confined]. split; [|exact I2]. intros Hk Hcr e He. apply I1; [exact He|].
          unfold links'. rewrite Hk, Hcr. cbn. apply in_or_app. right. left. reflexivity.
        * intros e [<-|He]; [left; reflexivity | right; auto].
        * cbn [length]. lia.
  Qed.

  (** every entry that is restored lies beneath no symlink restored before it *)
  Theorem guard_links_gen_confined es : confined created (fst (guard_links_gen created es)).
  Proof. apply (guard_from_inv es []). Qed.

  (* nothing is invented, and every skipped entry is counted as an error *)
  Theorem guard_links_gen_kept es :
    (forall e, In e (fst (guard_links_gen created es)) -> In e es)
    /\ N.of_nat (length es) = N.of_nat (length (fst (guard_links_gen created es))) + snd (guard_links_gen created es).
  Proof. destruct (guard_from_inv es []) as (_ & _ & H3 & H4). auto. Qed.

  Lemma guard_from_identity es : forall links,
    (forall link e, In link links -> In e es -> beneath link e = false) ->
    (forall s e, In s es -> In e es -> e_kind s = KSymlink -> beneath (e_apath s) e = false) ->
    guard_links_from created links es = (es, 0).
  Proof.
    induction es as [|e0 es IH]; intros links HL HP; cbn [guard_links_from]; [reflexivity|].
    assert (Ex : existsb (fun link => beneath link e0) links = false).
    { destruct (existsb (fun link => beneath link e0) links) eqn:Ex; [|reflexivity].
      apply existsb_exists in Ex. destruct Ex as [link [Hl B]].
      rewrite (HL link e0 Hl (or_introl eq_refl)) in B. discriminate. }
    rewrite Ex. rewrite IH; [reflexivity | |].
    - intros link e Hl He.
      destruct (kind_eqb (e_kind e0) KSymlink && created e0) eqn:K.
      + apply in_app_or in Hl. destruct Hl as [Hl|[<-|[]]]; [apply HL; [exact Hl | right; exact He]|].
        apply HP; [left; reflexivity | right; exact He|].
        apply andb_true_iff in K. destruct K as [K _]. destruct (e_kind e0); try discriminate. reflexivity.
      + apply HL; [exact Hl | right; exact He].
    - intros s e Hs He. apply HP; right; assumption.
  Qed.

  (** the entries of one tree (nothing lies beneath a symlink) are all restored *)
  Theorem guard_links_gen_tree_identity es :
    (forall s e, In s es -> In e es -> e_kind s = KSymlink -> beneath (e_apath s) e = false) ->
    guard_links_gen created es = (es, 0).
  Proof. intros H. apply guard_from_identity; [intros link e [] | exact H]. Qed.
End Guard.

Theorem guard_links_confined es l1 s l2 e l3 :
  fst (guard_links es) = l1 ++ s :: l2 ++ e :: l3 -> e_kind s = KSymlink ->
  (is_prefix_of (e_apath s) (e_apath e) = true /\ e_apath s <> e_apath e) -> False.
Proof.
  intros E Hk [Hp Hne].
  pose proof (confined_spec _ _ _ _ _ _ _ (guard_links_gen_confined (fun _ => true) es) E Hk eq_refl) as B.
  unfold beneath in B. rewrite Hp in B. cbn [andb] in B. apply negb_false_iff, str_eqb_eq in B. contradiction.
Qed.

Theorem guard_links_tree_identity es :
  (forall s e, In s es -> In e es -> e_kind s = KSymlink ->
     is_prefix_of (e_apath s) (e_apath e) = true -> e_apath s = e_apath e) ->
  guard_links es = (es, 0).
Proof.
  intros H. apply guard_links_gen_tree_identity. intros s e Hs He Hk. unfold beneath.
  destruct (is_prefix_of (e_apath s) (e_apath e)) eqn:P; [|reflexivity].
  rewrite (H s e Hs He Hk P), str_eqb_refl. reflexivity.
Qed.

(* ------------------------------------------------------------------------- *)
(** * 6. C17: the iteration order of the block set is irrelevant              *)
(* ------------------------------------------------------------------------- *)

Lemma bool_ext (b1 b2 : bool) : (b1 = true <-> b2 = true) -> b1 = b2.
Proof.
  destruct b1, b2; intros [H1 H2]; try reflexivity;
    [symmetry; apply H1; reflexivity | apply H2; reflexivity].
Qed.

Lemma str_eqb_sym a b : str_eqb a b = str_eqb b a.
Proof. apply bool_ext. rewrite !str_eqb_eq. split; congruence. Qed.

Lemma mem_bytes_perm c l1 l2 : Permutation l1 l2 -> mem_bytes c l1 = mem_bytes c l2.
Proof.
  intros P. apply bool_ext. rewrite !mem_bytes_iff.
  split; apply Permutation_in; [exact P | symmetry; exact P].
Qed.

Lemma forallb_perm {A} (f : A -> bool) l1 l2 : Permutation l1 l2 -> forallb f l1 = forallb f l2.
Proof.
  intros P. apply bool_ext. rewrite !forallb_forall.
  split; intros H x Hx; apply H; [apply (Permutation_in x (Permutation_sym P) Hx) | apply (Permutation_in x P Hx)].
Qed.

Lemma filter_perm {A} (f : A -> bool) l1 l2 : Permutation l1 l2 -> Permutation (filter f l1) (filter f l2).
Proof.
  induction 1 as [|x l1 l2 _ IH|x y l|l1 l2 l3 _ IH1 _ IH2]; cbn [filter].
  - constructor.
  - destruct (f x); [constructor|]; exact IH.
  - destruct (f x), (f y); try reflexivity. apply perm_swap.
  - eapply perm_trans; eauto.
Qed.

Lemma nodup_app {A} (l1 l2 : list A) :
  NoDup l1 -> NoDup l2 -> (forall x, In x l1 -> In x l2 -> False) -> NoDup (l1 ++ l2).
Proof.
  induction l1 as [|x l1 IH]; intros N1 N2 D; cbn [app]; [exact N2|].
  inversion N1 as [|? ? Hni N1']; subst. constructor.
  - intros Hin. apply in_app_or in Hin. destruct Hin as [H|H]; [contradiction|].
    apply (D x); [left; reflexivity | exact H].
  - apply IH; auto. intros y H1 H2. apply (D y); [right; exact H1 | exact H2].
Qed.

(* with a hint without repetition, [order_by] only permutes *)
Lemma order_by_perm hint s : NoDup hint -> NoDup s -> Permutation (order_by hint s) s.
Proof.
  intros Nh Ns. apply NoDup_Permutation; [|exact Ns | intros x; apply In_order_by].
  unfold order_by. apply nodup_app; [apply NoDup_filter; exact Nh | apply NoDup_filter; exact Ns|].
  intros x H1 H2. apply filter_In in H1, H2. destruct H1 as [H1 _], H2 as [_ H2].
  apply In_mem_bytes in H1. rewrite H1 in H2. discriminate.
Qed.

Lemma NoDup_filter_bytes (f : bytes -> bool) l : NoDup l -> NoDup (filter f l).
Proof. apply NoDup_filter. Qed.

Definition has_file (a : arch) (f : fpath) : bool := match get a f with Some _ => true | None => false end.

(* the block files named in [l] removed *)
Definition rm_blocks (l : list bytes) (fs : list (fpath * fcontent)) : list (fpath * fcontent) :=
  filter (fun p => negb (match fst p with PBlock c => mem_bytes c l | _ => false end)) fs.

Lemma remove_file_absent f l : lookup f l = None -> remove_file f l = l.
Proof.
  unfold remove_file. induction l as [|[g x] l IH]; cbn [lookup filter fst]; [reflexivity|].
  destruct (fpath_eqb f g); [discriminate|]. intros E. cbn [negb]. rewrite IH by exact E. reflexivity.
Qed.

Lemma rm_blocks_cons c l fs : rm_blocks (c :: l) fs = rm_blocks l (remove_file (PBlock c) fs).
Proof.
  unfold rm_blocks, remove_file. induction fs as [|[g x] fs IH]; cbn [filter fst]; [reflexivity|].
  destruct g as [| |b|b|b h|d]; cbn [fpath_eqb negb filter fst]; try (rewrite IH; reflexivity).
  unfold mem_bytes at 1. cbn [existsb]. fold (mem_bytes d l).
  rewrite (str_eqb_sym d c).
  destruct (str_eqb c d); cbn [orb negb filter fst]; [exact IH|].
  destruct (mem_bytes d l); cbn [negb]; rewrite IH; reflexivity.
Qed.

Lemma rm_blocks_perm l1 l2 fs : Permutation l1 l2 -> rm_blocks l1 fs = rm_blocks l2 fs.
Proof.
  intros P. unfold rm_blocks. apply filter_ext. intros [g x]. cbn [fst].
  destruct g; try reflexivity. rewrite (mem_bytes_perm _ _ _ P). reflexivity.
Qed.

Section HintDelete.
  Variable pre : bytes -> N.
  Notation fin := (fin pre).

  Lemma fin_Do_cong {R} o (k1 k2 : reply -> prog R) a :
    (forall rep a', fin (k1 rep) a' = fin (k2 rep) a') -> fin (Do o k1) a = fin (Do o k2) a.
  Proof. intros H. rewrite !fin_Do. apply H. Qed.

  Ltac cong :=
    repeat first
      [ reflexivity
      | apply fin_Do_cong; intros ? ?
      | match goal with |- ?F (match ?x with _ => _ end) _ = _ => destruct x end ].

  Lemma ref_hunks_cong b hs : forall acc k1 k2,
    (forall acc' a', fin (k1 acc') a' = fin (k2 acc') a') ->
    forall a, fin (ref_hunks b hs acc k1) a = fin (ref_hunks b hs acc k2) a.
  Proof.
    induction hs as [|h hs IH]; intros acc k1 k2 H a; cbn [ref_hunks]; [apply H|].
    cong. apply IH. exact H.
  Qed.

  Lemma ref_subdirs_cong b subs : forall acc k1 k2,
    (forall hs a', fin (k1 hs) a' = fin (k2 hs) a') ->
    forall a, fin (ref_subdirs b subs acc k1) a = fin (ref_subdirs b subs acc k2) a.
  Proof.
    induction subs as [|s subs IH]; intros acc k1 k2 H a; cbn [ref_subdirs]; [apply H|].
    cong. apply IH. exact H.
  Qed.

  Lemma ref_bands_cong bands : forall acc k1 k2,
    (forall acc' a', fin (k1 acc') a' = fin (k2 acc') a') ->
    forall a, fin (ref_bands bands acc k1) a = fin (ref_bands bands acc k2) a.
  Proof.
    induction bands as [|b bands IH]; intros acc k1 k2 H a; cbn [ref_bands]; [apply H|].
    cong. apply ref_subdirs_cong. intros hs a1. apply ref_hunks_cong. intros acc' a2. apply IH. exact H.
  Qed.

  Lemma list_blocks_d_cong subs : forall acc failed k1 k2,
    (forall l a', fin (k1 l) a' = fin (k2 l) a') ->
    forall a, fin (list_blocks_d subs acc failed k1) a = fin (list_blocks_d subs acc failed k2) a.
  Proof.
    induction subs as [|s subs IH]; intros acc failed k1 k2 H a; cbn [list_blocks_d].
    - destruct failed; [reflexivity | apply H].
    - cong; apply IH; exact H.
  Qed.

  Lemma delete_the_bands_cong ids : forall n k1 k2,
    (forall n' a', fin (k1 n') a' = fin (k2 n') a') ->
    forall a, fin (delete_the_bands ids n k1) a = fin (delete_the_bands ids n k2) a.
  Proof.
    induction ids as [|b ids IH]; intros n k1 k2 H a; cbn [delete_the_bands]; [apply H|].
    cong. apply IH. exact H.
  Qed.

  Lemma acquire_cong k1 k2 :
    (forall last a', fin (k1 last) a' = fin (k2 last) a') ->
    forall a, fin (acquire k1) a = fin (acquire k2) a.
  Proof. intros H a. unfold acquire. cong; apply H. Qed.

  (* measuring the unreferenced blocks: succeeds iff every one of them is there *)
  Lemma measure_spec l : forall k a,
    fin (measure l k) a
    = if forallb (fun c => has_file a (PBlock c)) l then fin k a else fin release_fail a.
  Proof.
    induction l as [|c l IH]; intros k a; cbn [measure forallb]; [reflexivity|].
    rewrite fin_meta. unfold mt, has_file at 1. destruct (get a (PBlock c)); cbn [andb]; [apply IH | reflexivity].
  Qed.

  (* removing blocks, each named once: those that are not there are counted, the others go *)
  Lemma delete_blocks_spec l : forall errs k a, NoDup l ->
    fin (delete_blocks l errs k) a
    = fin (k (errs + N.of_nat (length (filter (fun c => negb (has_file a (PBlock c))) l))))
          {| dirs := dirs a; files := rm_blocks l (files a) |}.
  Proof.
    induction l as [|c l IH]; intros errs k a ND; cbn [delete_blocks filter length].
    - rewrite N.add_0_r. unfold rm_blocks. cbn [mem_bytes existsb].
      replace (filter _ (files a)) with (files a); [destruct a; reflexivity|].
      symmetry. rewrite <- (filter_ext (fun _ => true)); [|intros [g x]; cbn [fst]; destruct g; reflexivity].
      induction (files a) as [|y fs IHf]; cbn [filter]; [reflexivity | rewrite IHf; reflexivity].
    - inversion ND as [|? ? Hni ND']; subst.
      rewrite fin_Do. cbn [exec_ok]. rewrite rm_blocks_cons. unfold has_file at 1.
      destruct (get a (PBlock c)) as [x|] eqn:G; cbn [fst snd negb].
      + rewrite IH by exact ND'. cbn [dirs files].
        assert (EF : filter (fun c0 => negb (has_file {| dirs := dirs a; files := remove_file (PBlock c) (files a) |} (PBlock c0))) l
                     = filter (fun c0 => negb (has_file a (PBlock c0))) l).
        { apply filter_ext_in. intros c' Hc'.
          unfold has_file, get. cbn [files]. rewrite lookup_remove_file.
          destruct (fpath_eqb_spec (PBlock c') (PBlock c)) as [E|]; [|reflexivity].
          inversion E; subst. contradiction. }
        rewrite EF. reflexivity.
      + rewrite IH by exact ND'. unfold get in G. rewrite (remove_file_absent _ _ G).
        cbn [length]. f_equal. f_equal. lia.
  Qed.

  Lemma delete_blocks_perm l1 l2 errs k a :
    Permutation l1 l2 -> NoDup l1 ->
    fin (delete_blocks l1 errs k) a = fin (delete_blocks l2 errs k) a.
  Proof.
    intros P N1. assert (N2 : NoDup l2) by (eapply Permutation_NoDup; eauto).
    rewrite !delete_blocks_spec by assumption.
    rewrite (rm_blocks_perm _ _ _ P).
    rewrite (Permutation_length (filter_perm (fun c => negb (has_file a (PBlock c))) _ _ P)). reflexivity.
  Qed.

  (* what delete does once the unreferenced blocks are known, in their iteration order *)
  Definition del_tail (ids : list N) (dry : bool) (last : option N) (unref : list bytes) : prog dres :=
    let nun := N.of_nat (length unref) in
    measure unref (
      let finish (nb : N) (errs : N) (did : bool) :=
        Do (OpRemoveFile PLock) (fun r5 =>
          match r5 with
          | ROk => Ret {| d_ok := true; d_unref := nun; d_bands := nb;
                          d_blocks := if did then nun - errs else 0; d_errs := errs |}
          | _ => release_fail
          end) in
      if dry then finish 0 0 false
      else
        Do (OpList DRoot) (fun r3 =>
          match r3 with
          | RList ds3 _ =>
              if optid_eqb (max_id (band_ids ds3)) last then
                delete_the_bands ids 0 (fun nb =>
                  delete_blocks unref 0 (fun errs => finish nb errs true))
              else release_fail
          | _ => release_fail
          end)).

  Lemma del_tail_perm ids dry last u1 u2 a :
    Permutation u1 u2 -> NoDup u1 -> fin (del_tail ids dry last u1) a = fin (del_tail ids dry last u2) a.
  Proof.
    intros P N1. unfold del_tail. cbv zeta. rewrite !measure_spec.
    rewrite (forallb_perm _ _ _ P), (Permutation_length P).
    destruct (forallb (fun c => has_file a (PBlock c)) u2); [|reflexivity].
    destruct dry; [reflexivity|].
    cong. apply delete_the_bands_cong. intros nb a2. apply delete_blocks_perm; assumption.
  Qed.

  (** C17 for delete: with hints that name no block twice (the iteration order of a set),
      the final state and the result do not depend on the hint *)
  Theorem delete_hint_irrelevant_fin ids dry brk hint1 hint2 a :
    NoDup hint1 -> NoDup hint2 ->
    fin (delete_prog ids dry brk hint1) a = fin (delete_prog ids dry brk hint2) a.
  Proof.
    intros N1 N2.
    assert (Hbody : forall a0,
      fin (acquire (fun last =>
             Do (OpList DRoot) (fun r =>
               match r with
               | RList ds _ =>
                   ref_bands (filter (fun b => negb (mem_N b ids)) (sorted_N (band_ids ds))) [] (fun referenced =>
                     Do (OpList DBlocks) (fun r2 =>
                       match r2 with
                       | RList ds2 _ =>
                           list_blocks_d (block_subdirs ds2) [] false (fun present =>
                             del_tail ids dry last
                               (order_by hint1 (filter (fun c => negb (mem_bytes c referenced)) (dedup present))))
                       | _ => release_fail
                       end))
               | _ => release_fail
               end))) a0
      = fin (acquire (fun last =>
             Do (OpList DRoot) (fun r =>
               match r with
               | RList ds _ =>
                   ref_bands (filter (fun b => negb (mem_N b ids)) (sorted_N (band_ids ds))) [] (fun referenced =>
                     Do (OpList DBlocks) (fun r2 =>
                       match r2 with
                       | RList ds2 _ =>
                           list_blocks_d (block_subdirs ds2) [] false (fun present =>
                             del_tail ids dry last
                               (order_by hint2 (filter (fun c => negb (mem_bytes c referenced)) (dedup present))))
                       | _ => release_fail
                       end))
               | _ => release_fail
               end))) a0).
    { intros a0. apply acquire_cong. intros last a1. cong.
      apply ref_bands_cong. intros referenced a2. cong.
      apply list_blocks_d_cong. intros present a3.
      assert (NS : NoDup (filter (fun c => negb (mem_bytes c referenced)) (dedup present)))
        by (apply NoDup_filter, NoDup_dedup).
      apply del_tail_perm.
      - eapply perm_trans; [apply order_by_perm; assumption|].
        symmetry. apply order_by_perm; assumption.
      - eapply Permutation_NoDup; [symmetry; apply order_by_perm; assumption | exact NS]. }
    unfold delete_prog. cbv zeta.
    apply fin_Do_cong; intros r0 a0.
    destruct r0 as [|e0|[[| | | |]| |]|ds0 fs0|ne0]; try reflexivity.
    destruct brk; [|exact (Hbody a0)].
    apply fin_Do_cong; intros r a1.
    destruct r as [|e|c|ds fs|ne]; try reflexivity;
      [destruct e; try reflexivity; exact (Hbody a1)|].
    apply fin_Do_cong; intros r1 a2. destruct (is_ok r1); [exact (Hbody a2) | reflexivity].
  Qed.

  Theorem delete_hint_irrelevant ids dry brk hint1 hint2 a :
    NoDup hint1 -> NoDup hint2 ->
    snd (fst (run pre (delete_prog ids dry brk hint1) a [])) = snd (fst (run pre (delete_prog ids dry brk hint2) a []))
    /\ snd (run pre (delete_prog ids dry brk hint1) a []) = snd (run pre (delete_prog ids dry brk hint2) a []).
  Proof.
    intros N1 N2. apply fin_inj. apply delete_hint_irrelevant_fin; assumption.
  Qed.
End HintDelete.

(* ---- validate ---- *)
Definition good_block (a : arch) (c : bytes) : bool :=
  match get a (PBlock c) with Some (Good (PlBlock d)) => str_eqb d c | _ => false end.

Lemma ra_pure_spec a l : forall acc errs,
  ra_pure a l acc errs
  = (acc ++ map (fun c => (c, N.of_nat (length c))) (filter (good_block a) l),
     errs + N.of_nat (length (filter (fun c => negb (good_block a c)) l))).
Proof.
  induction l as [|c l IH]; intros acc errs; cbn [ra_pure filter map length].
  - rewrite app_nil_r, N.add_0_r. reflexivity.
  - unfold rd.
    assert (G : good_block a c
                = match get a (PBlock c) with Some (Good (PlBlock d)) => str_eqb d c | _ => false end)
      by reflexivity.
    rewrite !G. clear G.
    assert (Hbad : ra_pure a l acc (errs + 1)
                   = (acc ++ map (fun c => (c, N.of_nat (length c))) (filter (good_block a) l),
                      errs + N.of_nat (S (length (filter (fun c => negb (good_block a c)) l))))).
    { rewrite IH. f_equal. rewrite Nat2N.inj_succ. lia. }
    destruct (get a (PBlock c)) as [[[| | | |d]| |]|]; cbn [negb map length]; try exact Hbad.
    destruct (str_eqb d c) eqn:E; cbn [negb map length]; [|exact Hbad].
    apply str_eqb_eq in E. subst d. rewrite IH, <- app_assoc. reflexivity.
Qed.

Lemma find_len_map_none h l :
  ~ In h l ->
  find (fun q : bytes * N => str_eqb (fst q) h) (map (fun c => (c, N.of_nat (length c))) l) = None.
Proof.
  induction l as [|c l IH]; [reflexivity|]. intros Hni. cbn [map find fst].
  destruct (str_eqb c h) eqn:E; [apply str_eqb_eq in E; subst; exfalso; apply Hni; left; reflexivity|].
  apply IH. intros H. apply Hni. right. exact H.
Qed.

Lemma short_or_missing_spec g p :
  short_or_missing (map (fun c => (c, N.of_nat (length c))) g) p
  = if mem_bytes (fst p) g then N.of_nat (length (fst p)) <? snd p else true.
Proof.
  unfold short_or_missing. destruct (mem_bytes (fst p) g) eqn:M.
  - rewrite find_len_map by (apply mem_bytes_In; exact M). reflexivity.
  - rewrite find_len_map_none; [reflexivity|]. intros H. apply In_mem_bytes in H. congruence.
Qed.

(** C17 for validate: with hints that name no block twice, the result does not depend on
    the order in which the blocks are read *)
Theorem validate_pure_hint_irrelevant pre a skip hint1 hint2 :
  NoDup hint1 -> NoDup hint2 -> validate_pure pre a skip hint1 = validate_pure pre a skip hint2.
Proof.
  intros N1 N2. unfold validate_pure.
  destruct (rd a PHeader) as [|e|[[| | | |]| |]|ds fs|ne]; try reflexivity.
  destruct (has_dir a DRoot); [|reflexivity].
  destruct (vb_pure pre a (sorted_N (band_ids (children_dirs a DRoot))) [] 0) as [lens errs].
  destruct (has_dir a DBlocks); [|reflexivity].
  destruct skip; [reflexivity|].
  set (P := dedup (present0 pre a)).
  assert (Pm : Permutation (order_by hint1 P) (order_by hint2 P)).
  { eapply perm_trans; [apply order_by_perm; [exact N1 | apply NoDup_dedup]|].
    symmetry. apply order_by_perm; [exact N2 | apply NoDup_dedup]. }
  rewrite !ra_pure_spec. cbn [app].
  rewrite (Permutation_length (filter_perm (fun c => negb (good_block a c)) _ _ Pm)).
  f_equal. f_equal. f_equal. f_equal. apply filter_ext. intros p. rewrite !short_or_missing_spec.
  rewrite (mem_bytes_perm _ _ _ (filter_perm (good_block a) _ _ Pm)). reflexivity.
Qed.

Theorem validate_hint_irrelevant pre a skip hint1 hint2 :
  NoDup hint1 -> NoDup hint2 ->
  snd (run pre (validate_prog skip hint1) a []) = snd (run pre (validate_prog skip hint2) a []).
Proof.
  intros N1 N2.
  pose proof (validate_pure_ok pre a skip hint1) as E1. pose proof (validate_pure_ok pre a skip hint2) as E2.
  rewrite <- (validate_pure_hint_irrelevant pre a skip hint1 hint2 N1 N2) in E2.
  apply (fin_inj pre). rewrite E1, E2. reflexivity.
Qed.

(* ------------------------------------------------------------------------- *)
(** * 7. C09 / C10, completeness: damage is reported by validate              *)
(* ------------------------------------------------------------------------- *)

Definition nsum (l : list N) : N := fold_right N.add 0 l.

Lemma nsum_In x l : In x l -> x <= nsum l.
Proof.
  induction l as [|y l IH]; [intros []|]. intros [->|H]; cbn [nsum fold_right]; [lia|].
  specialize (IH H). unfold nsum in IH. lia.
Qed.

Lemma filter_count_pos {A} (f : A -> bool) x l : In x l -> f x = true -> 1 <= N.of_nat (length (filter f l)).
Proof.
  intros Hin Hf. assert (H : In x (filter f l)) by (apply filter_In; auto).
  destruct (filter f l); [destruct H | cbn [length]; lia].
Qed.

Lemma consecutive_In hs : forall i h,
  consecutive hs i = true -> i <= h < i + N.of_nat (length hs) -> In h hs.
Proof.
  induction hs as [|x hs IH]; intros i h C Hh; cbn [consecutive length] in *; [lia|].
  apply andb_true_iff in C. destruct C as [E C]. apply N.eqb_eq in E. subst x.
  destruct (N.eq_dec h i) as [->|Hne]; [left; reflexivity|].
  right. apply (IH (i + 1)); [exact C | lia].
Qed.

Lemma consecutive_lt hs : forall i h, consecutive hs i = true -> In h hs -> i <= h < i + N.of_nat (length hs).
Proof.
  induction hs as [|x hs IH]; intros i h C Hh; [destruct Hh|]. cbn [consecutive length] in *.
  apply andb_true_iff in C. destruct C as [E C]. apply N.eqb_eq in E. subst x.
  destruct Hh as [->|Hh]; [lia|]. specialize (IH _ _ C Hh). lia.
Qed.

(* ---- what validate counts per band ---- *)
Definition band_errs (pre : bytes -> N) (a : arch) (b : N) : N :=
  if opens_b a b then
    match ls pre a (DBand b) with
    | RList _ fs =>
        (if existsb (fun p => fpath_eqb (fst p) (PHead b)) fs then 0 else 1)
        + snd (stitch_pure pre keep_all a (N.to_nat b))
    | _ => 1
    end
  else 1.

Section Detect.
  Variable pre : bytes -> N.
  Variable a : arch.

  Lemma vb_pure_errs ids : forall lens errs,
    snd (vb_pure pre a ids lens errs) = errs + nsum (map (band_errs pre a) ids).
  Proof.
    induction ids as [|b ids IH]; intros lens errs; cbn [vb_pure map nsum fold_right]; [cbn [snd]; lia|].
    fold (nsum (map (band_errs pre a) ids)). unfold band_errs at 1.
    destruct (opens_b a b); [|rewrite IH; lia].
    destruct (ls pre a (DBand b)) as [|e|c|ds fs|ne]; try (rewrite IH; lia).
    destruct (stitch_pure pre keep_all a (N.to_nat b)) as [[l es] merr]. cbn [snd].
    rewrite IH. destruct (existsb _ fs); lia.
  Qed.

  Lemma band_listed_root b : In (DBand b) (dirs a) -> In b (sorted_N (band_ids (children_dirs a DRoot))).
  Proof.
    intros Hb. unfold sorted_N. rewrite in_isort_Nv. unfold band_ids. apply in_flat_map.
    exists (DBand b). split; [|left; reflexivity].
    unfold children_dirs. apply filter_In. split; [exact Hb | reflexivity].
  Qed.

  (* every error counted for a band is in the result *)
  Lemma validate_errors_ge skip hint b :
    get a PHeader = Some (Good PlJson) -> In DRoot (dirs a) -> In (DBand b) (dirs a) ->
    band_errs pre a b <= v_errors (validate_pure pre a skip hint).
  Proof.
    intros Hh HR Hb. unfold validate_pure, rd. rewrite Hh, (proj2 (has_dir_In a DRoot) HR).
    pose proof (vb_pure_errs (sorted_N (band_ids (children_dirs a DRoot))) [] 0) as E.
    pose proof (nsum_In _ _ (in_map (band_errs pre a) _ _ (band_listed_root b Hb))) as Hle.
    destruct (vb_pure pre a (sorted_N (band_ids (children_dirs a DRoot))) [] 0) as [lens errs].
    cbn [snd] in E.
    destruct (has_dir a DBlocks); [|cbn [v_errors]; lia].
    destruct skip; [cbn [v_errors]; lia|].
    rewrite ra_pure_spec. cbn [v_errors]. lia.
  Qed.

  (* ---- the monitor-error count only grows ---- *)
  Section Keep.
    Variable keep : entry -> bool.

    Lemma hl_pure_mono n hs : forall after last acc merr,
      merr <= snd (hl_pure keep a n hs after last acc merr).
    Proof.
      induction hs as [|h hs IH]; intros after last acc merr; cbn [hl_pure snd]; [lia|].
      destruct (rd a (PHunk (N.of_nat n) h)) as [|e|c|ds fs|ne];
        try (eapply N.le_trans; [|apply IH]; lia).
      - destruct e; cbn [snd]; try lia; (eapply N.le_trans; [|apply IH]; lia).
      - destruct c as [p| |]; try (eapply N.le_trans; [|apply IH]; lia).
        destruct p; try (eapply N.le_trans; [|apply IH]; lia).
        destruct (phstep (Some es) after) as [[out|] after']; apply IH.
    Qed.

    Lemma ob_pure_mono n last acc merr : merr <= snd (ob_pure pre keep a n last acc merr).
    Proof.
      unfold ob_pure. destruct (head_status (rd a (PHead (N.of_nat n)))); cbn [snd]; try lia.
      destruct (ls pre a (DIndex (N.of_nat n))); cbn [snd]; try lia.
      eapply N.le_trans; [|apply hl_pure_mono]. destruct (numbers_bad _ _); lia.
    Qed.

    Lemma below_pure_mono n : forall last acc merr, merr <= snd (below_pure pre keep a n last acc merr).
    Proof.
      induction n as [|m IH]; intros last acc merr; cbn [below_pure snd]; [lia|].
      destruct (meta_is_file (mt a (PHead (N.of_nat m)))); [|apply IH].
      pose proof (ob_pure_mono m last acc merr) as H.
      destruct (ob_pure pre keep a m last acc merr) as [[l ac] me]. cbn [snd] in H.
      destruct (closed a (N.of_nat m)); cbn [snd]; [exact H|]. eapply N.le_trans; [exact H | apply IH].
    Qed.

    (* the errors of opening band [n] itself are in the result of the stitched listing *)
    Lemma stitch_pure_ge n : snd (ob_pure pre keep a n None [] 0) <= snd (stitch_pure pre keep a n).
    Proof.
      unfold stitch_pure. destruct (ob_pure pre keep a n None [] 0) as [[l ac] me]. cbn [snd].
      destruct (closed a (N.of_nat n)); cbn [snd]; [lia | apply below_pure_mono].
    Qed.

    (* an undecodable hunk among the listed ones is counted *)
    Lemma hl_pure_bad_hunk n hs h : forall after last acc merr,
      In h hs -> (forall h', In h' hs -> get a (PHunk (N.of_nat n) h') <> None) ->
      (forall es, get a (PHunk (N.of_nat n) h) <> Some (Good (PlHunk es))) ->
      merr + 1 <= snd (hl_pure keep a n hs after last acc merr).
    Proof.
      induction hs as [|h0 hs IH]; intros after last acc merr Hin Hex Hbad; [destruct Hin|].
      cbn [hl_pure]. unfold rd.
      assert (Hex' : forall h', In h' hs -> get a (PHunk (N.of_nat n) h') <> None)
        by (intros h' Hh'; apply Hex; right; exact Hh').
      pose proof (Hex h0 (or_introl eq_refl)) as H0.
      destruct Hin as [->|Hin].
      - destruct (get a (PHunk (N.of_nat n) h)) as [[[| | |es|]| |]|];
          try (apply hl_pure_mono); [exfalso; apply (Hbad es); reflexivity | congruence].
      - destruct (get a (PHunk (N.of_nat n) h0)) as [[[| | |es|]| |]|]; try congruence;
          try (eapply N.le_trans; [|apply (IH after last acc (merr + 1) Hin Hex' Hbad)]; lia).
        destruct (phstep (Some es) after) as [[out|] after']; apply IH; assumption.
    Qed.
  End Keep.

  (* ---- class: the band head is missing or does not open ---- *)
  Theorem validate_detects_missing_head skip hint b :
    get a PHeader = Some (Good PlJson) -> In DRoot (dirs a) -> In (DBand b) (dirs a) ->
    opens_b a b = false ->
    1 <= v_errors (validate_pure pre a skip hint).
  Proof.
    intros Hh HR Hb Ho. eapply N.le_trans; [|apply (validate_errors_ge skip hint b); assumption].
    unfold band_errs. rewrite Ho. lia.
  Qed.

  (* the errors of the band's own index, when the band opens and is listed *)
  Lemma band_errs_ge b :
    In (DBand b) (dirs a) ->
    (opens_b a b = true -> 1 <= snd (ob_pure pre keep_all a (N.to_nat b) None [] 0)) ->
    1 <= band_errs pre a b.
  Proof.
    intros Hb H. unfold band_errs. destruct (opens_b a b); [|lia]. specialize (H eq_refl).
    unfold ls. rewrite (proj2 (has_dir_In a (DBand b)) Hb).
    pose proof (stitch_pure_ge keep_all (N.to_nat b)). lia.
  Qed.

  (* ---- class: an index hunk file that does not decode ---- *)
  Theorem validate_detects_bad_hunk skip hint b h :
    get a PHeader = Some (Good PlJson) -> In DRoot (dirs a) -> In (DBand b) (dirs a) ->
    In (DHunkSub b (h / HUNKS_PER_SUBDIR)) (dirs a) ->
    get a (PHunk b h) <> None -> (forall es, get a (PHunk b h) <> Some (Good (PlHunk es))) ->
    1 <= v_errors (validate_pure pre a skip hint).
  Proof.
    intros Hh HR Hb Hsub Hex Hbad.
    eapply N.le_trans; [|apply (validate_errors_ge skip hint b); assumption].
    apply band_errs_ge; [exact Hb|]. intros Ho. apply opens_b_status in Ho.
    unfold ob_pure. rewrite N2Nat.id, Ho.
    destruct (ls pre a (DIndex b)); cbn [snd]; try lia.
    eapply N.le_trans; [|apply (hl_pure_bad_hunk keep_all (N.to_nat b) _ h)].
    - destruct (numbers_bad _ _); lia.
    - apply hunk_file_listed; assumption.
    - intros h' Hh'. rewrite N2Nat.id. apply (hunks_listed_exist pre a b h' Hh').
    - rewrite N2Nat.id. exact Hbad.
  Qed.

  (* the hunk numbers are found wrong *)
  Lemma numbers_bad_ge b :
    In (DBand b) (dirs a) -> has_dir a (DIndex b) = true ->
    numbers_bad (hunks_listed pre a b) (tail_count a b) = true ->
    1 <= band_errs pre a b.
  Proof.
    intros Hb Hi Hn. apply band_errs_ge; [exact Hb|]. intros Ho. apply opens_b_status in Ho.
    unfold ob_pure. rewrite N2Nat.id, Ho. unfold ls. rewrite Hi, Hn.
    eapply N.le_trans; [|apply hl_pure_mono]. lia.
  Qed.

  Lemma index_missing_ge b : In (DBand b) (dirs a) -> has_dir a (DIndex b) = false -> 1 <= band_errs pre a b.
  Proof.
    intros Hb Hi. apply band_errs_ge; [exact Hb|]. intros Ho. apply opens_b_status in Ho.
    unfold ob_pure. rewrite N2Nat.id, Ho. unfold ls. rewrite Hi. cbn [snd]. lia.
  Qed.

  (* ---- class: a hunk missing from a band whose tail states the count ---- *)
  Theorem validate_detects_missing_hunk_closed_band skip hint b n k :
    get a PHeader = Some (Good PlJson) -> In DRoot (dirs a) -> In (DBand b) (dirs a) ->
    get a (PTail b) = Some (Good (PlTail (Some n))) -> k < n -> get a (PHunk b k) = None ->
    1 <= v_errors (validate_pure pre a skip hint).
  Proof.
    intros Hh HR Hb Ht Hk Hg.
    eapply N.le_trans; [|apply (validate_errors_ge skip hint b); assumption].
    destruct (has_dir a (DIndex b)) eqn:Hi; [|apply index_missing_ge; assumption].
    apply numbers_bad_ge; [exact Hb | exact Hi|].
    unfold numbers_bad, tail_count, rd. rewrite Ht.
    destruct (consecutive (hunks_listed pre a b) 0) eqn:C; [|reflexivity]. cbn [negb orb].
    apply negb_true_iff. apply N.eqb_neq. intros E.
    apply (hunks_listed_exist pre a b k); [|exact Hg].
    apply (consecutive_In _ 0 k C). lia.
  Qed.

  (* ---- class: a hunk missing below a hunk that is there ---- *)
  Theorem validate_detects_missing_middle_hunk skip hint b k j :
    get a PHeader = Some (Good PlJson) -> In DRoot (dirs a) -> In (DBand b) (dirs a) ->
    get a (PHunk b k) = None -> k < j ->
    get a (PHunk b j) <> None -> In (DHunkSub b (j / HUNKS_PER_SUBDIR)) (dirs a) ->
    1 <= v_errors (validate_pure pre a skip hint).
  Proof.
    intros Hh HR Hb Hg Hkj Hj Hsub.
    eapply N.le_trans; [|apply (validate_errors_ge skip hint b); assumption].
    destruct (has_dir a (DIndex b)) eqn:Hi; [|apply index_missing_ge; assumption].
    apply numbers_bad_ge; [exact Hb | exact Hi|].
    unfold numbers_bad.
    destruct (consecutive (hunks_listed pre a b) 0) eqn:C; [|reflexivity]. exfalso.
    apply (hunks_listed_exist pre a b k); [|exact Hg].
    pose proof (consecutive_lt _ 0 j C (hunk_file_listed pre a b j Hj Hsub)).
    apply (consecutive_In _ 0 k C). lia.
  Qed.
End Detect.

(* ---- the blocks validate expects: every address of every file entry it lists ---- *)
Lemma upd_max_keys h len m k : In k (map fst m) -> In k (map fst (upd_max h len m)).
Proof.
  intros Hk. unfold upd_max. destruct (existsb (fun p => str_eqb (fst p) h) m).
  - rewrite map_map. apply in_map_iff in Hk. destruct Hk as [[h0 l0] [E Hin]]. cbn [fst] in E. subst h0.
    apply in_map_iff. exists (k, l0). split; [|exact Hin]. cbn [fst].
    destruct (str_eqb k h) eqn:Ek; [apply str_eqb_eq in Ek; subst; reflexivity | reflexivity].
  - rewrite map_app. apply in_or_app. left. exact Hk.
Qed.

Lemma upd_max_key h len m : In h (map fst (upd_max h len m)).
Proof.
  unfold upd_max. destruct (existsb (fun p => str_eqb (fst p) h) m) eqn:Ex.
  - apply existsb_exists in Ex. destruct Ex as [[h0 l0] [Hin E]]. cbn [fst] in E.
    apply in_map_iff. exists (h, N.max l0 len). split; [reflexivity|].
    apply in_map_iff. exists (h0, l0). split; [|exact Hin]. cbn [fst snd]. rewrite E. reflexivity.
  - rewrite map_app. apply in_or_app. right. left. reflexivity.
Qed.

Lemma addrs_keys_mono addrs : forall m k,
  In k (map fst m) ->
  In k (map fst (fold_left (fun m ad => upd_max (a_hash ad) (a_start ad + a_len ad) m) addrs m)).
Proof.
  induction addrs as [|ad addrs IH]; intros m k Hk; cbn [fold_left]; [exact Hk|].
  apply IH. apply upd_max_keys. exact Hk.
Qed.

Lemma addrs_keys_has addrs : forall m ad,
  In ad addrs ->
  In (a_hash ad) (map fst (fold_left (fun m ad => upd_max (a_hash ad) (a_start ad + a_len ad) m) addrs m)).
Proof.
  induction addrs as [|ad0 addrs IH]; intros m ad Hin; [destruct Hin|]. cbn [fold_left].
  destruct Hin as [->|Hin]; [apply addrs_keys_mono, upd_max_key | apply IH; exact Hin].
Qed.

Lemma entry_lens_mono es : forall m k, In k (map fst m) -> In k (map fst (entry_lens es m)).
Proof.
  unfold entry_lens. induction es as [|e es IH]; intros m k Hk; cbn [fold_left]; [exact Hk|].
  apply IH. destruct (e_kind e); auto. apply addrs_keys_mono. exact Hk.
Qed.

Lemma entry_lens_has es : forall m e ad,
  In e es -> e_kind e = KFile -> In ad (e_addrs e) -> In (a_hash ad) (map fst (entry_lens es m)).
Proof.
  induction es as [|e0 es IH]; intros m e ad Hin Hk Had; [destruct Hin|].
  destruct Hin as [->|Hin].
  - unfold entry_lens. cbn [fold_left]. rewrite Hk. apply (entry_lens_mono es). apply addrs_keys_has. exact Had.
  - unfold entry_lens. cbn [fold_left]. apply (IH _ e ad Hin Hk Had).
Qed.

Section DetectBlocks.
  Variable pre : bytes -> N.
  Variable a : arch.

  Section Keep.
    Variable keep : entry -> bool.

    Lemma hl_pure_acc_mono n hs : forall after last acc merr e,
      In e acc -> In e (snd (fst (hl_pure keep a n hs after last acc merr))).
    Proof.
      induction hs as [|h hs IH]; intros after last acc merr e He; cbn [hl_pure]; [exact He|].
      destruct (rd a (PHunk (N.of_nat n) h)) as [|k|c|ds fs|ne]; try (apply IH; exact He).
      - destruct k; try (apply IH; exact He). exact He.
      - destruct c as [p| |]; try (apply IH; exact He). destruct p; try (apply IH; exact He).
        destruct (phstep (Some es) after) as [[out|] after']; apply IH; [|exact He].
        apply in_or_app. left. exact He.
    Qed.

    Lemma ob_pure_acc_mono n last acc merr e :
      In e acc -> In e (snd (fst (ob_pure pre keep a n last acc merr))).
    Proof.
      intros He. unfold ob_pure. destruct (head_status (rd a (PHead (N.of_nat n)))); try exact He.
      destruct (ls pre a (DIndex (N.of_nat n))); try exact He. apply hl_pure_acc_mono. exact He.
    Qed.

    Lemma below_pure_acc_mono n : forall last acc merr e,
      In e acc -> In e (snd (fst (below_pure pre keep a n last acc merr))).
    Proof.
      induction n as [|m IH]; intros last acc merr e He; cbn [below_pure]; [exact He|].
      destruct (meta_is_file (mt a (PHead (N.of_nat m)))); [|apply IH; exact He].
      pose proof (ob_pure_acc_mono m last acc merr e He) as H.
      destruct (ob_pure pre keep a m last acc merr) as [[l ac] me]. cbn [fst snd] in H.
      destruct (closed a (N.of_nat m)); [exact H | apply IH; exact H].
    Qed.

    (* read from its own start, a band yields every (kept) entry of every listed hunk *)
    Lemma hl_pure_contains n hs h es e : forall last acc merr,
      In h hs -> (forall h', In h' hs -> get a (PHunk (N.of_nat n) h') <> None) ->
      get a (PHunk (N.of_nat n) h) = Some (Good (PlHunk es)) -> In e es -> keep e = true ->
      In e (snd (fst (hl_pure keep a n hs None last acc merr))).
    Proof.
      induction hs as [|h0 hs IH]; intros last acc merr Hin Hex G He Hk; [destruct Hin|].
      cbn [hl_pure]. unfold rd.
      assert (Hex' : forall h', In h' hs -> get a (PHunk (N.of_nat n) h') <> None)
        by (intros h' Hh'; apply Hex; right; exact Hh').
      pose proof (Hex h0 (or_introl eq_refl)) as H0.
      destruct Hin as [->|Hin].
      - rewrite G. cbn [hunk_step]. destruct es as [|e0 es']; [destruct He|].
        apply hl_pure_acc_mono. apply in_or_app. right. apply filter_In. auto.
      - destruct (get a (PHunk (N.of_nat n) h0)) as [[[| | |es0|]| |]|]; try congruence;
          try (apply IH; assumption).
        cbn [hunk_step]. destruct es0; apply IH; assumption.
    Qed.

    Lemma stitch_pure_contains b h es e :
      opens_b a b = true -> has_dir a (DIndex b) = true ->
      In (DHunkSub b (h / HUNKS_PER_SUBDIR)) (dirs a) ->
      get a (PHunk b h) = Some (Good (PlHunk es)) -> In e es -> keep e = true ->
      In e (snd (fst (stitch_pure pre keep a (N.to_nat b)))).
    Proof.
      intros Ho Hi Hsub G He Hk. apply opens_b_status in Ho.
      assert (H : In e (snd (fst (ob_pure pre keep a (N.to_nat b) None [] 0)))).
      { unfold ob_pure. rewrite N2Nat.id, Ho. unfold ls. rewrite Hi.
        apply (hl_pure_contains (N.to_nat b) _ h es e); auto.
        - apply hunk_file_listed; [congruence | exact Hsub].
        - intros h' Hh'. rewrite N2Nat.id. apply (hunks_listed_exist pre a b h' Hh').
        - rewrite N2Nat.id. exact G. }
      unfold stitch_pure. destruct (ob_pure pre keep a (N.to_nat b) None [] 0) as [[l ac] me].
      cbn [fst snd] in H. rewrite N2Nat.id.
      destruct (closed a b); [exact H | apply below_pure_acc_mono; exact H].
    Qed.
  End Keep.

  Lemma vb_pure_keys_mono ids : forall lens errs k,
    In k (map fst lens) -> In k (map fst (fst (vb_pure pre a ids lens errs))).
  Proof.
    induction ids as [|b ids IH]; intros lens errs k Hk; cbn [vb_pure]; [exact Hk|].
    destruct (opens_b a b); [|apply IH; exact Hk].
    destruct (ls pre a (DBand b)); try (apply IH; exact Hk).
    destruct (stitch_pure pre keep_all a (N.to_nat b)) as [[l es] merr].
    apply IH. apply entry_lens_mono. exact Hk.
  Qed.

  Lemma vb_pure_keys_has ids : forall lens errs b e ad,
    In b ids -> opens_b a b = true -> has_dir a (DBand b) = true ->
    In e (snd (fst (stitch_pure pre keep_all a (N.to_nat b)))) -> e_kind e = KFile -> In ad (e_addrs e) ->
    In (a_hash ad) (map fst (fst (vb_pure pre a ids lens errs))).
  Proof.
    induction ids as [|b0 ids IH]; intros lens errs b e ad Hin Ho Hd He Hk Had; [destruct Hin|].
    cbn [vb_pure]. destruct Hin as [->|Hin].
    - rewrite Ho. unfold ls. rewrite Hd.
      destruct (stitch_pure pre keep_all a (N.to_nat b)) as [[l es] merr]. cbn [fst snd] in He.
      apply vb_pure_keys_mono. eapply entry_lens_has; eauto.
    - destruct (opens_b a b0); [|eapply IH; eauto].
      destruct (ls pre a (DBand b0)); try (eapply IH; eauto).
      destruct (stitch_pure pre keep_all a (N.to_nat b0)) as [[l es] merr]. eapply IH; eauto.
  Qed.

  Lemma present0_exists c : In c (present0 pre a) -> get a (PBlock c) <> None.
  Proof.
    unfold present0. rewrite in_flat_map. intros [s [_ Hc]].
    unfold listed_blocks in Hc. apply in_flat_map in Hc. destruct Hc as [[f ne] [Hin Hc]].
    destruct f; try destruct Hc. destruct ne; [destruct Hc as [<-|[]] | destruct Hc].
    unfold children_files in Hin. apply in_map_iff in Hin. destruct Hin as [[g x] [E Hg]].
    cbn [fst snd] in E. inversion E; subst g. apply filter_In in Hg. destruct Hg as [Hg _].
    apply keys_get_v. apply (in_map fst) in Hg. exact Hg.
  Qed.

  (* a file entry of a listed, decodable hunk names a block *)
  Definition names_block (b h : N) (c : bytes) : Prop :=
    exists es e ad,
      get a (PHunk b h) = Some (Good (PlHunk es)) /\ In e es /\ e_kind e = KFile
      /\ In ad (e_addrs e) /\ a_hash ad = c.

  Lemma expected_or_band_error b h c :
    In (DBand b) (dirs a) -> In (DHunkSub b (h / HUNKS_PER_SUBDIR)) (dirs a) -> names_block b h c ->
    1 <= band_errs pre a b
    \/ forall lens errs, In c (map fst (fst (vb_pure pre a (sorted_N (band_ids (children_dirs a DRoot))) lens errs))).
  Proof.
    intros Hb Hsub (es & e & ad & G & He & Hk & Had & <-).
    destruct (opens_b a b) eqn:Ho; [|left; unfold band_errs; rewrite Ho; lia].
    destruct (has_dir a (DIndex b)) eqn:Hi; [|left; apply index_missing_ge; assumption].
    right. intros lens errs.
    apply (vb_pure_keys_has _ lens errs b e ad); auto.
    - apply band_listed_root. exact Hb.
    - apply has_dir_In. exact Hb.
    - eapply stitch_pure_contains; eauto.
  Qed.

  (* ---- class: a referenced block that is missing, zero-length, undecodable or altered:
          detected when the blocks are read ---- *)
  Theorem validate_detects_unreadable_block hint b h c :
    get a PHeader = Some (Good PlJson) -> In DRoot (dirs a) -> In DBlocks (dirs a) ->
    In (DBand b) (dirs a) -> In (DHunkSub b (h / HUNKS_PER_SUBDIR)) (dirs a) ->
    names_block b h c -> good_block a c = false ->
    1 <= v_errors (validate_pure pre a false hint).
  Proof.
    intros Hh HR HB Hb Hsub Hn Hg.
    destruct (expected_or_band_error b h c Hb Hsub Hn) as [H|H].
    { eapply N.le_trans; [exact H | apply validate_errors_ge; assumption]. }
    unfold validate_pure, rd. rewrite Hh, (proj2 (has_dir_In a DRoot) HR), (proj2 (has_dir_In a DBlocks) HB).
    specialize (H [] 0).
    destruct (vb_pure pre a (sorted_N (band_ids (children_dirs a DRoot))) [] 0) as [lens errs].
    cbn [fst] in H. apply in_map_iff in H. destruct H as [[c' len] [E Hin]]. cbn [fst] in E. subst c'.
    rewrite ra_pure_spec. cbn [v_errors app].
    pose proof (filter_count_pos (short_or_missing
      (map (fun c0 => (c0, N.of_nat (length c0)))
         (filter (good_block a) (order_by hint (dedup (present0 pre a)))))) (c, len) lens Hin) as Hc.
    rewrite short_or_missing_spec in Hc. cbn [fst] in Hc.
    destruct (mem_bytes c (filter (good_block a) (order_by hint (dedup (present0 pre a))))) eqn:M.
    - apply mem_bytes_In, filter_In in M. destruct M as [_ M]. congruence.
    - specialize (Hc eq_refl). lia.
  Qed.

  (* ---- class: a referenced block that is missing: detected also without reading the blocks ---- *)
  Theorem validate_detects_missing_block skip hint b h c :
    get a PHeader = Some (Good PlJson) -> In DRoot (dirs a) -> In DBlocks (dirs a) ->
    In (DBand b) (dirs a) -> In (DHunkSub b (h / HUNKS_PER_SUBDIR)) (dirs a) ->
    names_block b h c -> get a (PBlock c) = None ->
    1 <= v_errors (validate_pure pre a skip hint).
  Proof.
    intros Hh HR HB Hb Hsub Hn Hg. destruct skip.
    2:{ eapply validate_detects_unreadable_block; eauto. unfold good_block. rewrite Hg. reflexivity. }
    destruct (expected_or_band_error b h c Hb Hsub Hn) as [H|H].
    { eapply N.le_trans; [exact H | apply validate_errors_ge; assumption]. }
    unfold validate_pure, rd. rewrite Hh, (proj2 (has_dir_In a DRoot) HR), (proj2 (has_dir_In a DBlocks) HB).
    specialize (H [] 0).
    destruct (vb_pure pre a (sorted_N (band_ids (children_dirs a DRoot))) [] 0) as [lens errs].
    cbn [fst] in H. apply in_map_iff in H. destruct H as [[c' len] [E Hin]]. cbn [fst] in E. subst c'.
    cbn [v_errors].
    pose proof (filter_count_pos (fun p => negb (mem_bytes (fst p) (dedup (present0 pre a)))) (c, len) lens Hin) as Hc.
    cbn [fst] in Hc.
    destruct (mem_bytes c (dedup (present0 pre a))) eqn:M.
    - apply mem_bytes_In, In_dedup, present0_exists in M. congruence.
    - specialize (Hc eq_refl). lia.
  Qed.
End DetectBlocks.

(* ---- class: a referenced block whose file is there but does not hold its content
        (zero-length, undecodable, or other bytes): detected when the blocks are read ---- *)
Theorem validate_detects_corrupt_block pre a hint b h c x :
  get a PHeader = Some (Good PlJson) -> In DRoot (dirs a) -> In DBlocks (dirs a) ->
  In (DBand b) (dirs a) -> In (DHunkSub b (h / HUNKS_PER_SUBDIR)) (dirs a) ->
  names_block a b h c -> get a (PBlock c) = Some x -> x <> Good (PlBlock c) ->
  1 <= v_errors (validate_pure pre a false hint).
Proof.
  intros Hh HR HB Hb Hsub Hn Hg Hx.
  apply (validate_detects_unreadable_block pre a hint b h c); auto.
  unfold good_block. rewrite Hg. destruct x as [[| | | |d]| |]; try reflexivity.
  destruct (str_eqb d c) eqn:E; [|reflexivity]. apply str_eqb_eq in E. subst d. congruence.
Qed.

(* ------------------------------------------------------------------------- *)
(** * 8. The boolean checker of [Healthy] is sound                            *)
(* ------------------------------------------------------------------------- *)

Lemma nodup_dirs_sound l : nodup_dirs l = true -> NoDup l.
Proof.
  induction l as [|x l IH]; cbn [nodup_dirs]; [constructor|].
  rewrite andb_true_iff, negb_true_iff. intros [H1 H2]. constructor; [|auto].
  intros Hin. assert (E : existsb (dpath_eqb x) l = true).
  { apply existsb_exists. exists x. split; [exact Hin|]. destruct (dpath_eqb_spec x x); congruence. }
  congruence.
Qed.

Lemma count_from_In {A} (l : list A) : forall i h, In h (count_from l i) <-> i <= h < i + N.of_nat (length l).
Proof.
  induction l as [|x l IH]; intros i h; cbn [count_from length In]; [lia|].
  rewrite IH. lia.
Qed.

Section Checker.
  Variable pre : bytes -> N.

  Lemma wfdirs_b_sound a : wfdirs_b pre a = true -> WFdirs pre a.
  Proof.
    unfold wfdirs_b. rewrite !andb_true_iff. intros [[[[[H1 H2] H3] H4] H5] H6].
    rewrite forallb_forall in H4, H5, H6.
    split; [apply nodup_dirs_sound; exact H1|].
    split; [apply has_dir_In; exact H2|]. split; [apply has_dir_In; exact H3|].
    split; [|split].
    - intros f x Hin. apply has_dir_In. apply (H4 (f, x) Hin).
    - intros d p Hd Hp. specialize (H5 d Hd). rewrite Hp in H5. apply has_dir_In. exact H5.
    - intros b Hb. apply has_dir_In. apply (H6 (DBand b) Hb).
  Qed.

  Lemma band_hunk_files_In a b h : get a (PHunk b h) <> None -> In h (band_hunk_files a b).
  Proof.
    intros Hg. apply get_In_keys in Hg. apply in_map_iff in Hg. destruct Hg as [p [E Hp]].
    unfold band_hunk_files. apply in_flat_map. exists p. split; [exact Hp|]. rewrite E, N.eqb_refl. left. reflexivity.
  Qed.

  Lemma band_healthy_b_sound a b : band_healthy_b a b = true -> BandHealthy a b.
  Proof.
    unfold band_healthy_b. rewrite !andb_true_iff. intros [[[H1 H2] H3] H4].
    rewrite forallb_forall in H2, H3.
    split.
    - destruct (get a (PHead b)) as [[[|[| | | |]| | |]| |]|]; try discriminate. reflexivity.
    - exists (N.of_nat (length (band_hunk_files a b))). split; [|split].
      + intros h Hg. apply N.ltb_lt. apply H2. apply band_hunk_files_In. exact Hg.
      + intros h Hh. assert (Hin : In h (count_from (band_hunk_files a b) 0)) by (apply count_from_In; lia).
        specialize (H3 h Hin). destruct (get a (PHunk b h)) as [[[| | |es|]| |]|]; try discriminate.
        exists es. reflexivity.
      + destruct (get a (PTail b)) as [[[| |[c|]| |]| |]|]; try discriminate; [|left; reflexivity].
        apply N.eqb_eq in H4. subst c. right. reflexivity.
  Qed.

  Theorem healthy_b_sound a : healthy_b pre a = true -> Healthy pre a.
  Proof.
    unfold healthy_b. rewrite !andb_true_iff. intros [[[H1 H2] H3] H4].
    split; [apply wfdirs_b_sound; exact H1|]. split; [apply ainv_b_sound; exact H2|].
    split.
    - destruct (get a PHeader) as [[[| | | |]| |]|]; try discriminate. reflexivity.
    - intros b Hb. rewrite forallb_forall in H4. apply band_healthy_b_sound. apply (H4 (DBand b) Hb).
  Qed.
End Checker.

(* ------------------------------------------------------------------------- *)
(** * 9. Damage to one file of a healthy archive                              *)
(* ------------------------------------------------------------------------- *)

Lemma damaged_inv a f a' :
  damaged a f a' ->
  get a f <> None /\ dirs a' = dirs a /\ (forall g, g <> f -> get a' g = get a g)
  /\ (get a' f = None \/ exists x, get a' f = Some x /\ bad_content f x).
Proof.
  intros [Hex | x Hex Hbad]; (split; [exact Hex|]).
  - split; [reflexivity|]. split.
    + intros g Hg. unfold get, remove_path. cbn [files]. rewrite lookup_remove_file.
      destruct (fpath_eqb_spec g f); [contradiction | reflexivity].
    + left. unfold get, remove_path. cbn [files]. rewrite lookup_remove_file, fpath_eqb_refl. reflexivity.
  - unfold replace_path. destruct (get a f) eqn:G; [|congruence]. split; [reflexivity|]. split.
    + intros g Hg. unfold get. cbn [files]. rewrite lookup_set_file.
      destruct (fpath_eqb_spec g f); [contradiction | reflexivity].
    + right. exists x. split; [|exact Hbad]. unfold get. cbn [files].
      rewrite lookup_set_file, fpath_eqb_refl. reflexivity.
Qed.

Section Damage.
  Variable pre : bytes -> N.

  Lemma hunk_dirs a b h :
    Healthy pre a ->
    get a (PHunk b h) <> None -> In (DHunkSub b (h / HUNKS_PER_SUBDIR)) (dirs a) /\ In (DBand b) (dirs a).
  Proof.
    intros HH Hg. pose proof (file_parent_dir' pre a (Healthy_Readable pre a HH) _ Hg) as Hs. cbn [parent_f] in Hs.
    split; [exact Hs|]. pose proof HH as HH0; destruct HH0 as ((_ & _ & _ & _ & Hdp & _) & _).
    apply (Hdp (DIndex b)); [|reflexivity]. apply (Hdp _ _ Hs). reflexivity.
  Qed.

  Lemma damaged_header a f a' :
    Healthy pre a -> damaged a f a' -> f <> PHeader -> get a' PHeader = Some (Good PlJson) /\ In DRoot (dirs a') /\ In DBlocks (dirs a').
  Proof.
    intros HH HD Hf. destruct (damaged_inv _ _ _ HD) as (_ & Hd & Ho & _).
    pose proof HH as HH0; destruct HH0 as ((_ & HRoot & HBl & _) & _ & Hh & _).
    rewrite Hd, Ho by congruence. auto.
  Qed.

  (** C09 / C10: what validate reports after ONE file of a healthy archive is lost or
      damaged.  Detected: a band head (lost or undecodable); an index hunk that is
      undecodable; an index hunk that is lost from a band with a tail, or below another
      hunk of its band; a block named by a file entry, when lost (also without reading the
      blocks), zero-length, undecodable or altered (when the blocks are read). *)
  Theorem validate_detects_damage a f a' skip hint :
    Healthy pre a -> damaged a f a' ->
    match f with
    | PHead b => True
    | PHunk b h => get a' f <> None \/ get a (PTail b) <> None \/ (exists j, h < j /\ get a (PHunk b j) <> None)
    | PBlock c => (exists b h, names_block a b h c) /\ (skip = false \/ get a' f = None)
    | _ => False
    end ->
    1 <= v_errors (validate_pure pre a' skip hint).
  Proof.
    intros HH HD. pose proof (Healthy_Readable pre a HH) as HR.
    destruct (damaged_inv _ _ _ HD) as (Hex & Hd & Ho & Hs).
    destruct f as [| |b|b|b h|c]; try contradiction.
    - (* band head *)
      intros _. destruct (damaged_header _ _ _ HH HD) as (Hh & HRt & _); [discriminate|].
      apply (validate_detects_missing_head pre a' skip hint b); auto.
      + rewrite Hd. apply (file_parent_dir' pre a HR (PHead b) Hex).
      + unfold opens_b, rd. destruct Hs as [-> | [x [-> Hb]]]; [reflexivity|].
        destruct Hb as [-> | [-> | []]]; reflexivity.
    - (* index hunk *)
      intros Hc. destruct (damaged_header _ _ _ HH HD) as (Hh & HRt & _); [discriminate|].
      destruct (hunk_dirs a b h HH Hex) as [Hsub Hb].
      destruct Hs as [Hnone | [x [Hx Hb']]].
      + destruct Hc as [Hc | [Ht | [j [Hj Hgj]]]]; [congruence | |].
        * pose proof HH as HH0; destruct HH0 as (_ & _ & _ & HB). destruct (HB b Hb) as (_ & n & H1 & _ & [Htl|Htl]); [congruence|].
          apply (validate_detects_missing_hunk_closed_band pre a' skip hint b n h); auto.
          -- rewrite Hd; exact Hb.
          -- rewrite Ho by discriminate. exact Htl.
        * destruct (hunk_dirs a b j HH Hgj) as [Hsubj _].
          apply (validate_detects_missing_middle_hunk pre a' skip hint b h j); auto.
          -- rewrite Hd; exact Hb.
          -- rewrite Ho; [exact Hgj|]. intros E. inversion E. lia.
          -- rewrite Hd; exact Hsubj.
      + apply (validate_detects_bad_hunk pre a' skip hint b h); auto.
        * rewrite Hd; exact Hb.
        * rewrite Hd; exact Hsub.
        * congruence.
        * intros es. rewrite Hx. destruct Hb' as [-> | [-> | []]]; discriminate.
    - (* block *)
      intros [[b [h Hn]] Hskip]. destruct (damaged_header _ _ _ HH HD) as (Hh & HRt & HBl); [discriminate|].
      assert (Hn' : names_block a' b h c).
      { destruct Hn as (es & e & ad & G & Hr). exists es, e, ad. rewrite Ho by discriminate. auto. }
      destruct Hn as (es & e & ad & G & _).
      destruct (hunk_dirs a b h HH) as [Hsub Hb]; [congruence|].
      assert (Hgood : good_block a' c = false).
      { unfold good_block. destruct Hs as [-> | [x [-> Hb']]]; [reflexivity|].
        destruct Hb' as [-> | [-> | [c' [Hne ->]]]]; try reflexivity.
        destruct (str_eqb c' c) eqn:E; [apply str_eqb_eq in E; contradiction | reflexivity]. }
      destruct Hskip as [-> | Hnone].
      + apply (validate_detects_unreadable_block pre a' hint b h c); auto; rewrite Hd; assumption.
      + apply (validate_detects_missing_block pre a' skip hint b h c); auto; rewrite Hd; assumption.
  Qed.

  Corollary damage_reported_by_validate a f a' skip hint :
    Healthy pre a -> damaged a f a' ->
    match f with
    | PHead b => True
    | PHunk b h => get a' f <> None \/ get a (PTail b) <> None \/ (exists j, h < j /\ get a (PHunk b j) <> None)
    | PBlock c => (exists b h, names_block a b h c) /\ (skip = false \/ get a' f = None)
    | _ => False
    end ->
    exists tr r, run pre (validate_prog skip hint) a' [] = (tr, a', Done r) /\ 0 < v_errors r.
  Proof.
    intros HH HD Hc. destruct (validate_run pre a' skip hint) as [tr E].
    exists tr, (validate_pure pre a' skip hint). split; [exact E|].
    pose proof (validate_detects_damage a f a' skip hint HH HD Hc). lia.
  Qed.
End Damage.

(* ---- a band tail lost or undecodable: nothing to report (the band reads as open-ended /
        without a stated count), and nothing is reported ---- *)
Lemma damaged_FilesND a f a' : FilesND a -> damaged a f a' -> FilesND a'.
Proof.
  intros ND [Hex | x Hex Hbad]; unfold FilesND.
  - cbn [remove_path files]. unfold remove_file.
    apply (filter_keys_nodup (fun g => negb (fpath_eqb f g))). exact ND.
  - unfold replace_path. destruct (get a f); [|exact ND]. cbn [files]. apply set_file_nodup. exact ND.
Qed.

Lemma Readable_tail_change pre a a' :
  Readable pre a -> dirs a' = dirs a -> FilesND a' ->
  (forall g, get a' g <> None -> get a g <> None) ->
  (forall g, (forall b, g <> PTail b) -> get a' g = get a g) ->
  (forall b, tail_count a' b = tail_count a b \/ tail_count a' b = None) ->
  Readable pre a'.
Proof.
  intros (W & (RI & BW & _) & Hh & HB) Hd ND Hsub Hsame Htail.
  assert (Hblk : forall c, get a' (PBlock c) = get a (PBlock c)) by (intros c; apply Hsame; discriminate).
  assert (Hhunk : forall b h, get a' (PHunk b h) = get a (PHunk b h)) by (intros b h; apply Hsame; discriminate).
  split; [|split; [|split]].
  - destruct W as (W1 & W2 & W3 & W4 & W5 & W6). unfold WFdirs. rewrite Hd.
    repeat split; auto. intros g x Hin.
    assert (Hg : get a g <> None) by (apply Hsub, keys_get_v; apply (in_map fst) in Hin; exact Hin).
    destruct (get a g) as [y|] eqn:G; [|congruence]. apply (W4 g y). apply get_In_files. exact G.
  - split; [|split; [|exact ND]].
    + intros b h es G. rewrite Hhunk in G. eapply Forall_impl; [|exact (RI b h es G)].
      intros e He. unfold entry_ok in *. eapply Forall_impl; [|exact He].
      intros ad [H1 H2]. split; [|exact H2]. unfold block_ok in *. rewrite Hblk. exact H1.
    + intros c x G. rewrite Hblk in G. exact (BW c x G).
  - rewrite Hsame by discriminate. exact Hh.
  - intros b Hb. rewrite Hd in Hb. destruct (HB b Hb) as (H0 & n & H1 & H2 & H3).
    split; [rewrite Hsame by discriminate; exact H0|]. exists n.
    split; [intros h; rewrite Hhunk; apply H1|]. split; [intros h Hh'; rewrite Hhunk; apply H2; exact Hh'|].
    destruct (Htail b) as [-> | ->]; auto.
Qed.

Theorem validate_tail_damage_silent pre a b a' skip hint :
  Healthy pre a -> damaged a (PTail b) a' ->
  validate_pure pre a' skip hint = {| v_ok := true; v_errors := 0 |}.
Proof.
  intros HH HD. apply validate_pure_readable.
  destruct (damaged_inv _ _ _ HD) as (Hex & Hd & Ho & Hs).
  apply (Readable_tail_change pre a a').
  - apply Healthy_Readable. exact HH.
  - exact Hd.
  - eapply damaged_FilesND; [|exact HD]. destruct HH as (_ & (_ & _ & ND) & _). exact ND.
  - intros g Hg. destruct (fpath_eqb_spec g (PTail b)) as [->|Hne]; [exact Hex | rewrite <- Ho; assumption].
  - intros g Hg. apply Ho. apply Hg.
  - intros b'. destruct (N.eq_dec b' b) as [->|Hne].
    + right. unfold tail_count, rd. destruct Hs as [-> | [x [-> Hb]]]; [reflexivity|].
      destruct Hb as [-> | [-> | []]]; reflexivity.
    + left. unfold tail_count, rd. rewrite Ho; [reflexivity|]. intros E. inversion E. contradiction.
Qed.

(* ------------------------------------------------------------------------- *)
(** * 10. C10: restore from a damaged archive reports what it could not restore *)
(* ------------------------------------------------------------------------- *)

(* what restore gives for one entry in state [a] *)
Definition readable_b (a : arch) (e : entry) : bool := forallb (addr_ok_b a) (e_addrs e).

Definition restored_in (a : arch) (e : entry) : rfile :=
  RFile e (match e_kind e with
           | KFile => if readable_b a e then read_addrs (fun h => Some h) (e_addrs e) else None
           | KUnknown => None
           | _ => Some []
           end).

Definition not_restored (a : arch) (e : entry) : bool :=
  match e_kind e with
  | KFile => negb (readable_b a e)
  | KUnknown => true
  | _ => false
  end.

Lemma addrs_ok_read a addrs :
  forallb (addr_ok_b a) addrs = true -> exists s, read_addrs (fun h => Some h) addrs = Some s.
Proof.
  induction addrs as [|ad addrs IH]; cbn [forallb read_addrs]; [eexists; reflexivity|].
  rewrite andb_true_iff. intros [H1 H2]. apply addr_ok_b_iff in H1.
  destruct (addr_ok_slice a ad H1) as [s0 Hs0]. destruct (IH H2) as [s Hs].
  unfold read_address. rewrite Hs0, Hs. eexists. reflexivity.
Qed.

Section RestoreDamaged.
  Variable pre : bytes -> N.
  Variable a : arch.
  Notation fin := (fin pre).

  (* reading the addresses of one file, in any state: all of it, or nothing *)
  Lemma read_file_spec addrs : forall cache acc k,
    CacheOK a cache ->
    exists cache',
      CacheOK a cache'
      /\ fin (read_file cache addrs acc k) a
         = fin (k cache' (if forallb (addr_ok_b a) addrs
                          then option_map (app acc) (read_addrs (fun h => Some h) addrs)
                          else None)) a.
  Proof.
    induction addrs as [|ad addrs IH]; intros cache acc k HC.
    - exists cache. split; [exact HC|]. cbn [read_file forallb read_addrs option_map]. rewrite app_nil_r. reflexivity.
    - cbn [read_file forallb read_addrs]. unfold read_address.
      (* the continuation once the block content [a_hash ad] is at hand *)
      assert (Huse : forall cache1, CacheOK a cache1 -> block_ok a (a_hash ad) ->
        exists cache',
          CacheOK a cache'
          /\ fin (match slice (a_hash ad) (a_start ad) (a_len ad) with
                  | Some s => read_file cache1 addrs (acc ++ s) k
                  | None => k cache1 None
                  end) a
             = fin (k cache' (if addr_ok_b a ad && forallb (addr_ok_b a) addrs
                              then option_map (app acc)
                                     match slice (a_hash ad) (a_start ad) (a_len ad) with
                                     | Some s => match read_addrs (fun h => Some h) addrs with
                                                 | Some r => Some (s ++ r) | None => None end
                                     | None => None
                                     end
                              else None)) a).
      { intros cache1 HC1 Hb.
        assert (Eb : addr_ok_b a ad = (a_start ad + a_len ad <=? N.of_nat (length (a_hash ad)))).
        { unfold addr_ok_b. unfold block_ok in Hb. rewrite Hb, str_eqb_refl. reflexivity. }
        rewrite Eb. unfold slice.
        destruct (a_start ad + a_len ad <=? N.of_nat (length (a_hash ad))); cbn [andb].
        - destruct (IH cache1 (acc ++ firstn (N.to_nat (a_len ad)) (skipn (N.to_nat (a_start ad)) (a_hash ad))) k HC1)
            as (cache' & HC' & E).
          exists cache'. split; [exact HC'|]. rewrite E.
          destruct (forallb (addr_ok_b a) addrs); [|reflexivity].
          destruct (read_addrs (fun h => Some h) addrs); cbn [option_map]; [rewrite app_assoc|]; reflexivity.
        - exists cache1. split; [exact HC1 | reflexivity]. }
      destruct (find (fun p => str_eqb (fst p) (a_hash ad)) cache) as [p|] eqn:Ef.
      + pose proof (find_cache a cache _ p HC Ef) as Ep. subst p.
        apply find_some in Ef. destruct Ef as [Hin _]. destruct (HC _ _ Hin) as [_ Hb].
        apply Huse; assumption.
      + rewrite fin_read. unfold rd.
        destruct (get a (PBlock (a_hash ad))) as [[[| | | |c]| |]|] eqn:G;
          try (exists cache; split; [exact HC|]; unfold addr_ok_b at 1; rewrite G; reflexivity).
        destruct (str_eqb c (a_hash ad)) eqn:Ec.
        * apply str_eqb_eq in Ec. subst c.
          apply Huse; [|exact G].
          intros h c [E|Hin]; [inversion E; subst; split; [reflexivity | exact G] | apply HC; exact Hin].
        * exists cache. split; [exact HC|]. unfold addr_ok_b at 1. rewrite G, Ec. reflexivity.
  Qed.

  (** restore of a list of entries, in ANY state, without faults: every entry is accounted
      for, a file either completely read or reported *)
  Theorem restore_entries_spec es : forall cache acc merr,
    CacheOK a cache ->
    exists r,
      fin (restore_entries es cache acc merr) a = (a, Done r)
      /\ r_ok r = true
      /\ r_files r = acc ++ map (restored_in a) es
      /\ r_merr r = merr + N.of_nat (length (filter (not_restored a) es)).
  Proof.
    induction es as [|e es IH]; intros cache acc merr HC.
    - eexists. split; [reflexivity|]. cbn. rewrite app_nil_r, N.add_0_r. auto.
    - cbn [restore_entries map filter]. unfold restored_in at 1, not_restored at 1.
      destruct (e_kind e) eqn:Ek.
      + destruct (read_file_spec (e_addrs e) cache []
                    (fun cache' o => restore_entries es cache' (acc ++ [RFile e o])
                                       (match o with Some _ => merr | None => merr + 1 end)) HC)
          as (cache' & HC' & E).
        rewrite E. fold (readable_b a e).
        destruct (readable_b a e) eqn:Er.
        * destruct (addrs_ok_read a _ Er) as [s Hs]. rewrite Hs. cbn [option_map app negb].
          destruct (IH cache' (acc ++ [RFile e (Some s)]) merr HC') as (r & Hr & R1 & R2 & R3).
          exists r. rewrite R2, <- app_assoc. auto.
        * cbn [negb]. destruct (IH cache' (acc ++ [RFile e None]) (merr + 1) HC') as (r & Hr & R1 & R2 & R3).
          exists r. rewrite R2, R3, <- app_assoc. cbn [length]. repeat split; auto. lia.
      + destruct (IH cache (acc ++ [RFile e (Some [])]) merr HC) as (r & Hr & R1 & R2 & R3).
        exists r. rewrite R2, <- app_assoc. auto.
      + destruct (IH cache (acc ++ [RFile e (Some [])]) merr HC) as (r & Hr & R1 & R2 & R3).
        exists r. rewrite R2, <- app_assoc. auto.
      + destruct (IH cache (acc ++ [RFile e None]) (merr + 1) HC) as (r & Hr & R1 & R2 & R3).
        exists r. rewrite R2, R3, <- app_assoc. cbn [length]. repeat split; auto. lia.
  Qed.

  Lemma list_blocks_r_pure subs : forall ok k,
    (forall s, In s subs -> has_dir a (DBlockSub s) = true) ->
    fin (list_blocks_r subs ok k) a = fin (k ok) a.
  Proof.
    induction subs as [|s subs IH]; intros ok k Hs; cbn [list_blocks_r]; [reflexivity|].
    rewrite fin_list. unfold ls. rewrite (Hs s (or_introl eq_refl)).
    apply IH. intros s' Hs'. apply Hs. right. exact Hs'.
  Qed.

  (* restore of a given band whose head opens = restore of its stitched listing *)
  Lemma restore_pure_ok b keep :
    get a PHeader = Some (Good PlJson) -> opens_b a b = true -> has_dir a DBlocks = true ->
    fin (restore_prog (Specified b) keep) a
    = fin (restore_entries (snd (fst (stitch_pure pre keep a (N.to_nat b)))) [] []
             (snd (stitch_pure pre keep a (N.to_nat b)))) a.
  Proof.
    intros Hh Ho HB. apply opens_b_status in Ho.
    unfold restore_prog. rewrite fin_read. unfold rd at 1. rewrite Hh.
    unfold open_tree, resolve. rewrite fin_read, Ho.
    rewrite fin_list. unfold ls. rewrite HB.
    rewrite list_blocks_r_pure by apply block_subdir_listed.
    rewrite fin_bind, snext_pure.
    destruct (stitch_pure pre keep a (N.to_nat b)) as [[l es] merr]. reflexivity.
  Qed.

  (** C10: restoring band [b] of an archive in ANY state (damaged or not) in which the band
      opens: the run ends normally, every listed entry is in the result either restored or
      marked unreadable, and the error count is the listing's errors plus one per entry not
      restored *)
  Theorem restore_accounts b keep :
    get a PHeader = Some (Good PlJson) -> opens_b a b = true -> In DBlocks (dirs a) ->
    exists tr r,
      run pre (restore_prog (Specified b) keep) a [] = (tr, a, Done r)
      /\ r_ok r = true
      /\ r_files r = map (restored_in a) (snd (fst (stitch_pure pre keep a (N.to_nat b))))
      /\ r_merr r = snd (stitch_pure pre keep a (N.to_nat b))
                    + N.of_nat (length (filter (not_restored a) (snd (fst (stitch_pure pre keep a (N.to_nat b)))))).
  Proof.
    intros Hh Ho HB.
    destruct (restore_entries_spec (snd (fst (stitch_pure pre keep a (N.to_nat b)))) [] []
                (snd (stitch_pure pre keep a (N.to_nat b)))) as (r & Hr & R1 & R2 & R3).
    { intros h c []. }
    rewrite <- restore_pure_ok in Hr; [|assumption|assumption|apply has_dir_In; exact HB].
    destruct (fin_run pre _ _ _ _ Hr) as [tr E]. exists tr, r. auto.
  Qed.
End RestoreDamaged.

Section RestoreReports.
  Variable pre : bytes -> N.
  Variable a : arch.
  Variable keep : entry -> bool.

  Lemma stitch_bad_hunk b h :
    opens_b a b = true -> In (DHunkSub b (h / HUNKS_PER_SUBDIR)) (dirs a) ->
    get a (PHunk b h) <> None -> (forall es, get a (PHunk b h) <> Some (Good (PlHunk es))) ->
    1 <= snd (stitch_pure pre keep a (N.to_nat b)).
  Proof.
    intros Ho Hsub Hex Hbad. apply opens_b_status in Ho.
    eapply N.le_trans; [|apply stitch_pure_ge].
    unfold ob_pure. rewrite N2Nat.id, Ho.
    destruct (ls pre a (DIndex b)); cbn [snd]; try lia.
    eapply N.le_trans; [|apply (hl_pure_bad_hunk a keep (N.to_nat b) _ h)].
    - destruct (numbers_bad _ _); lia.
    - apply hunk_file_listed; assumption.
    - intros h' Hh'. rewrite N2Nat.id. apply (hunks_listed_exist pre a b h' Hh').
    - rewrite N2Nat.id. exact Hbad.
  Qed.

  Lemma stitch_missing_hunk_closed b n k :
    opens_b a b = true -> get a (PTail b) = Some (Good (PlTail (Some n))) -> k < n ->
    get a (PHunk b k) = None ->
    1 <= snd (stitch_pure pre keep a (N.to_nat b)).
  Proof.
    intros Ho Ht Hk Hg. apply opens_b_status in Ho.
    eapply N.le_trans; [|apply stitch_pure_ge].
    unfold ob_pure. rewrite N2Nat.id, Ho. unfold ls.
    destruct (has_dir a (DIndex b)); cbn [snd]; [|lia].
    assert (Hn : numbers_bad (hunks_listed pre a b) (tail_count a b) = true).
    { unfold numbers_bad, tail_count, rd. rewrite Ht.
      destruct (consecutive (hunks_listed pre a b) 0) eqn:C; [|reflexivity]. cbn [negb orb].
      apply negb_true_iff. apply N.eqb_neq. intros E.
      apply (hunks_listed_exist pre a b k); [|exact Hg].
      apply (consecutive_In _ 0 k C). lia. }
    rewrite Hn. eapply N.le_trans; [|apply hl_pure_mono]. lia.
  Qed.

  (** C10: restore from a damaged archive.  Band [b] still opens.  An undecodable index
      hunk, or one missing from a band with a tail, is reported; a listed file entry one of
      whose blocks is missing, corrupt or too short is in the result as not restored, and
      reported; every listed file entry whose blocks are all there is restored with the
      content its addresses determine (the same as from the undamaged archive). *)
  Theorem damage_reported_on_restore b :
    get a PHeader = Some (Good PlJson) -> opens_b a b = true -> In DBlocks (dirs a) ->
    exists tr r,
      run pre (restore_prog (Specified b) keep) a [] = (tr, a, Done r) /\ r_ok r = true
      /\ (forall h, In (DHunkSub b (h / HUNKS_PER_SUBDIR)) (dirs a) -> get a (PHunk b h) <> None ->
                    (forall es, get a (PHunk b h) <> Some (Good (PlHunk es))) -> 0 < r_merr r)
      /\ (forall n k, get a (PTail b) = Some (Good (PlTail (Some n))) -> k < n ->
                      get a (PHunk b k) = None -> 0 < r_merr r)
      /\ (forall e, In e (snd (fst (stitch_pure pre keep a (N.to_nat b)))) -> e_kind e = KFile ->
                    ~ entry_ok a e -> In (RFile e None) (r_files r) /\ 0 < r_merr r)
      /\ (forall e, In e (snd (fst (stitch_pure pre keep a (N.to_nat b)))) -> e_kind e = KFile ->
                    entry_ok a e -> In (restored e) (r_files r)).
  Proof.
    intros Hh Ho HB.
    destruct (restore_accounts pre a b keep Hh Ho HB) as (tr & r & E & R1 & R2 & R3).
    exists tr, r. split; [exact E|]. split; [exact R1|].
    split; [|split; [|split]].
    - intros h Hsub Hex Hbad. pose proof (stitch_bad_hunk b h Ho Hsub Hex Hbad). lia.
    - intros n k Ht Hk Hg. pose proof (stitch_missing_hunk_closed b n k Ho Ht Hk Hg). lia.
    - intros e Hin Hk Hnok.
      assert (Er : readable_b a e = false).
      { destruct (readable_b a e) eqn:Er; [|reflexivity]. exfalso. apply Hnok. apply entry_ok_b_iff. exact Er. }
      split.
      + rewrite R2. apply in_map_iff. exists e. split; [|exact Hin].
        unfold restored_in. rewrite Hk, Er. reflexivity.
      + pose proof (filter_count_pos (not_restored a) e _ Hin) as Hc.
        unfold not_restored at 1 in Hc. rewrite Hk, Er in Hc. specialize (Hc eq_refl). lia.
    - intros e Hin Hk Hok.
      assert (Er : readable_b a e = true) by (apply entry_ok_b_iff; exact Hok).
      rewrite R2. apply in_map_iff. exists e. split; [|exact Hin].
      unfold restored_in, restored. rewrite Hk, Er. reflexivity.
  Qed.

  (* what is listed: every kept entry of every decodable hunk of the band *)
  Theorem restore_lists_hunk_entries b h es e :
    opens_b a b = true -> has_dir a (DIndex b) = true ->
    In (DHunkSub b (h / HUNKS_PER_SUBDIR)) (dirs a) ->
    get a (PHunk b h) = Some (Good (PlHunk es)) -> In e es -> keep e = true ->
    In e (snd (fst (stitch_pure pre keep a (N.to_nat b)))).
  Proof. apply stitch_pure_contains. Qed.
End RestoreReports.

(* ------------------------------------------------------------------------- *)
(** * 11. Examples (non-vacuity) and refutations, by computation              *)
(* ------------------------------------------------------------------------- *)
Module ValidExamples.
  Import SafeExamples.

  (* the archives of SafeP.SafeExamples are healthy; so is one whose newest band is
     incomplete (no tail) *)
  Definition a3_open : arch := remove_path ex_a3 (PTail 1).
  Example ex_healthy : Healthy ex_pre ex_a2 /\ Healthy ex_pre ex_a3 /\ Healthy ex_pre a3_open.
  Proof. split; [|split]; apply healthy_b_sound; vm_compute; reflexivity. Qed.
  Definition ex_healthy_a3 : Healthy ex_pre ex_a3 := proj1 (proj2 ex_healthy).
  Definition ex_healthy_open : Healthy ex_pre a3_open := proj2 (proj2 ex_healthy).
  Example ex_healthy_nontrivial :
    length (files ex_a3) = 13%nat /\ get ex_a3 (PTail 1) = Some (Good (PlTail (Some 2)))
    /\ get a3_open (PTail 1) = None /\ count_addrs ex_a3 = 6%nat.
  Proof. vm_compute. repeat split; reflexivity. Qed.

  (* 1. a healthy archive validates silently: the theorem, and the computation *)
  Example ex_silent_thm :
    exists tr, run ex_pre (validate_prog false [[5;6]]) ex_a3 [] = (tr, ex_a3, Done {| v_ok := true; v_errors := 0 |}).
  Proof. apply validate_healthy_silent. exact ex_healthy_a3. Qed.
  Example ex_silent_computed :
    snd (run ex_pre (validate_prog false []) ex_a3 []) = Done {| v_ok := true; v_errors := 0 |}
    /\ snd (run ex_pre (validate_prog true []) a3_open []) = Done {| v_ok := true; v_errors := 0 |}
    /\ validate_pure ex_pre ex_a3 false [] = {| v_ok := true; v_errors := 0 |}
    /\ length (fst (fst (run ex_pre (validate_prog false []) ex_a3 []))) = 30%nat.
  Proof. vm_compute. repeat split; reflexivity. Qed.

  (* 2. damage that is reported: computed, and as instances of the theorem *)
  Example ex_detected_computed :
    v_errors (validate_pure ex_pre (remove_path ex_a3 (PHead 0)) true []) = 1
    /\ v_errors (validate_pure ex_pre (replace_path ex_a3 (PHead 1) Empty) true []) = 1
    /\ v_errors (validate_pure ex_pre (replace_path ex_a3 (PHunk 1 0) Garbage) true []) = 1
    /\ v_errors (validate_pure ex_pre (remove_path ex_a3 (PHunk 1 1)) true []) = 1      (* count check *)
    /\ v_errors (validate_pure ex_pre (remove_path a3_open (PHunk 1 0)) true []) = 1    (* numbering check *)
    /\ v_errors (validate_pure ex_pre (remove_path ex_a3 (PBlock [5;6])) true []) = 1
    /\ v_errors (validate_pure ex_pre (replace_path ex_a3 (PBlock [5;6]) Garbage) false []) = 2
    /\ v_errors (validate_pure ex_pre (replace_path ex_a3 (PBlock [5;6]) (Good (PlBlock [5;5]))) false []) = 2
    /\ v_errors (validate_pure ex_pre (replace_path ex_a3 (PBlock [5;6]) Empty) true []) = 1.
  Proof. vm_compute. repeat split; reflexivity. Qed.

  Definition ex_es01 : list entry :=
    Eval vm_compute in match get ex_a3 (PHunk 0 1) with Some (Good (PlHunk es)) => es | _ => [] end.
  Definition ex_e01 : entry := Eval vm_compute in match ex_es01 with e :: _ => e | [] => meta_from false (mk_s [] KFile 0 0) end.
  Example ex_names_block : names_block ex_a3 0 1 [5;6].
  Proof.
    exists ex_es01, ex_e01, {| a_hash := [5;6]; a_start := 0; a_len := 2 |}.
    vm_compute. repeat split; auto.
  Qed.

  Example ex_detected_thm :
    1 <= v_errors (validate_pure ex_pre (remove_path ex_a3 (PHunk 1 0)) true [])
    /\ 1 <= v_errors (validate_pure ex_pre (replace_path ex_a3 (PBlock [5;6]) (Good (PlBlock [5;5]))) false [])
    /\ 1 <= v_errors (validate_pure ex_pre (remove_path ex_a3 (PBlock [5;6])) true [])
    /\ 1 <= v_errors (validate_pure ex_pre (replace_path ex_a3 (PHead 1) Garbage) true []).
  Proof.
    split; [|split; [|split]].
    - apply (validate_detects_damage ex_pre ex_a3 (PHunk 1 0)); [exact ex_healthy_a3 | |].
      + apply dmg_removed. vm_compute. discriminate.
      + right. left. vm_compute. discriminate.
    - apply (validate_detects_damage ex_pre ex_a3 (PBlock [5;6])); [exact ex_healthy_a3 | |].
      + apply dmg_replaced; [vm_compute; discriminate|]. right. right. exists [5;5]. split; [discriminate | reflexivity].
      + split; [exists 0, 1; exact ex_names_block | left; reflexivity].
    - apply (validate_detects_damage ex_pre ex_a3 (PBlock [5;6])); [exact ex_healthy_a3 | |].
      + apply dmg_removed. vm_compute. discriminate.
      + split; [exists 0, 1; exact ex_names_block | right; vm_compute; reflexivity].
    - apply (validate_detects_damage ex_pre ex_a3 (PHead 1)); [exact ex_healthy_a3 | | exact I].
      apply dmg_replaced; [vm_compute; discriminate|]. right. left. reflexivity.
  Qed.
  (* a hunk lost from an INCOMPLETE band, below another one: the numbering check *)
  Example ex_detected_middle_thm :
    1 <= v_errors (validate_pure ex_pre (remove_path a3_open (PHunk 1 0)) false []).
  Proof.
    apply (validate_detects_damage ex_pre a3_open (PHunk 1 0)); [exact ex_healthy_open | |].
    - apply dmg_removed. vm_compute. discriminate.
    - right. right. exists 1. split; [lia | vm_compute; discriminate].
  Qed.

  (* 2'. damage that validate does NOT report *)

  (* the full statement "every lost index hunk is reported" is FALSE: the LAST hunk of a band
     without a tail (an interrupted backup) can vanish unnoticed *)
  Theorem validate_missing_last_hunk_refuted :
    exists pre a b h a',
      Healthy pre a /\ damaged a (PHunk b h) a' /\ get a' (PHunk b h) = None
      /\ validate_pure pre a' false [] = {| v_ok := true; v_errors := 0 |}.
  Proof.
    exists ex_pre, a3_open, 1, 1, (remove_path a3_open (PHunk 1 1)).
    split; [exact ex_healthy_open|]. split; [apply dmg_removed; vm_compute; discriminate|].
    vm_compute. split; reflexivity.
  Qed.

  (* a corrupt (not lost) block is NOT found when the blocks are not read (--no-hashes) *)
  Theorem validate_corrupt_block_skip_refuted :
    exists pre a c a',
      Healthy pre a /\ damaged a (PBlock c) a' /\ (exists b h, names_block a b h c)
      /\ get a' (PBlock c) = Some Garbage
      /\ validate_pure pre a' true [] = {| v_ok := true; v_errors := 0 |}.
  Proof.
    exists ex_pre, ex_a3, [5;6], (replace_path ex_a3 (PBlock [5;6]) Garbage).
    split; [exact ex_healthy_a3|].
    split; [apply dmg_replaced; [vm_compute; discriminate | right; left; reflexivity]|].
    split; [exists 0, 1; exact ex_names_block|]. vm_compute. split; reflexivity.
  Qed.

  (* a band tail: lost = the legal incomplete state; undecodable or zero-length = no count
     to check: nothing is reported (instances of [validate_tail_damage_silent]) *)
  Example ex_tail_damage_silent :
    validate_pure ex_pre (replace_path ex_a3 (PTail 1) Garbage) false [] = {| v_ok := true; v_errors := 0 |}
    /\ validate_pure ex_pre (replace_path ex_a3 (PTail 1) Empty) false [] = {| v_ok := true; v_errors := 0 |}
    /\ validate_pure ex_pre (remove_path ex_a3 (PTail 1)) false [] = {| v_ok := true; v_errors := 0 |}.
  Proof.
    split; [|split].
    - apply (validate_tail_damage_silent ex_pre ex_a3 1); [exact ex_healthy_a3|].
      apply dmg_replaced; [vm_compute; discriminate | right; left; reflexivity].
    - apply (validate_tail_damage_silent ex_pre ex_a3 1); [exact ex_healthy_a3|].
      apply dmg_replaced; [vm_compute; discriminate | left; reflexivity].
    - apply (validate_tail_damage_silent ex_pre ex_a3 1); [exact ex_healthy_a3|].
      apply dmg_removed. vm_compute. discriminate.
  Qed.

  (* 3. restore from a damaged archive *)
  Definition a3_bad : arch := replace_path ex_a3 (PBlock [5;7]) Garbage.
  Definition ex_e_b : entry :=
    Eval vm_compute in match get ex_a3 (PHunk 1 1) with Some (Good (PlHunk (e :: _))) => e | _ => ex_e01 end.
  Definition ex_e_a : entry :=
    Eval vm_compute in match get ex_a3 (PHunk 1 0) with Some (Good (PlHunk (_ :: e :: _))) => e | _ => ex_e01 end.
  Example ex_restore_damaged :
    match snd (run ex_pre (restore_prog (Specified 1) keep_all) a3_bad []) with
    | Done r => r_ok r = true /\ r_merr r = 1 /\ length (r_files r) = 3%nat
                /\ nth_error (r_files r) 1 = Some (RFile ex_e_a (Some [1;2]))
                /\ nth_error (r_files r) 2 = Some (RFile ex_e_b None)
    | _ => False
    end
    /\ match snd (run ex_pre (restore_prog (Specified 1) keep_all) (replace_path ex_a3 (PHunk 1 0) Garbage) []) with
       | Done r => r_merr r = 1 /\ length (r_files r) = 1%nat
       | _ => False
       end.
  Proof. vm_compute. repeat split; reflexivity. Qed.
  Example ex_restore_damaged_thm :
    exists tr r,
      run ex_pre (restore_prog (Specified 1) keep_all) a3_bad [] = (tr, a3_bad, Done r)
      /\ In (RFile ex_e_b None) (r_files r) /\ 0 < r_merr r /\ In (restored ex_e_a) (r_files r).
  Proof.
    assert (P1 : get a3_bad PHeader = Some (Good PlJson)) by (vm_compute; reflexivity).
    assert (P2 : opens_b a3_bad 1 = true) by (vm_compute; reflexivity).
    assert (P3 : In DBlocks (dirs a3_bad)) by (vm_compute; right; left; reflexivity).
    assert (Hb : In ex_e_b (snd (fst (stitch_pure ex_pre keep_all a3_bad (N.to_nat 1)))))
      by (vm_compute; right; right; left; reflexivity).
    assert (Ha : In ex_e_a (snd (fst (stitch_pure ex_pre keep_all a3_bad (N.to_nat 1)))))
      by (vm_compute; right; left; reflexivity).
    destruct (damage_reported_on_restore ex_pre a3_bad keep_all 1 P1 P2 P3) as (tr & r & E & _ & _ & _ & H3 & H4).
    exists tr, r. split; [exact E|].
    destruct (H3 ex_e_b Hb eq_refl) as [X Y].
    { intros H. apply entry_ok_b_iff in H. vm_compute in H. discriminate. }
    split; [exact X|]. split; [exact Y|].
    apply (H4 ex_e_a Ha eq_refl). apply entry_ok_b_iff. vm_compute. reflexivity.
  Qed.

  (* 4. a damaged head (even one with an unparsable version) is an error, never a panic *)
  Example ex_no_panic :
    snd (run ex_pre (validate_prog false []) (replace_path ex_a3 (PHead 1) (Good (PlHead HvUnparsable))) [])
    = Done {| v_ok := true; v_errors := 1 |}.
  Proof. vm_compute. reflexivity. Qed.

  (* 5. the hint: two orders give the same result; a "hint" naming a block twice does not *)
  Example ex_delete_hint :
    snd (run ex_pre (delete_prog [0] false false [[5;6]; [9]]) ex_a3 [])
    = snd (run ex_pre (delete_prog [0] false false []) ex_a3 [])
    /\ snd (run ex_pre (delete_prog [0] false false []) ex_a3 [])
       = Done {| d_ok := true; d_unref := 1; d_bands := 1; d_blocks := 1; d_errs := 0 |}.
  Proof.
    split; [|vm_compute; reflexivity].
    refine (proj2 (delete_hint_irrelevant ex_pre [0] false false [[5;6]; [9]] [] ex_a3 _ _)); [|constructor].
    constructor; [intros [E|[]]; discriminate | constructor; [intros [] | constructor]].
  Qed.
  Example ex_delete_hint_two_blocks :
    (* after deleting BOTH bands four blocks are unreferenced: two different orders *)
    snd (run ex_pre (delete_prog [0;1] false false [[5;7]; [1;2]; [5;6]]) (remove_path ex_a3 (PTail 1)) [])
    = snd (run ex_pre (delete_prog [0;1] false false [[1;2;3;4]; [5;6]]) (remove_path ex_a3 (PTail 1)) []).
  Proof. vm_compute. reflexivity. Qed.

  (* the statements without [NoDup] are FALSE *)
  Theorem delete_hint_dup_refuted :
    exists pre ids a hint1 hint2,
      snd (run pre (delete_prog ids false false hint1) a []) <> snd (run pre (delete_prog ids false false hint2) a []).
  Proof. exists ex_pre, [0], ex_a3, [[5;6];[5;6]], []. vm_compute. discriminate. Qed.
  Theorem validate_hint_dup_refuted :
    exists pre a hint1 hint2,
      snd (run pre (validate_prog false hint1) a []) <> snd (run pre (validate_prog false hint2) a []).
  Proof.
    exists ex_pre, (replace_path ex_a3 (PBlock [5;6]) Garbage), [[5;6];[5;6]], []. vm_compute. discriminate.
  Qed.

  (* 6. the symlink guard *)
  Definition mk_e (p : str) (k : kind) : entry :=
    {| e_apath := p; e_kind := k; e_mtime := 0%Z; e_nanos := 0; e_mode := 420; e_user := None;
       e_group := None; e_addrs := []; e_target := None |}.
  (* "/", "/d" -> link, "/d/f" (stitched in from an older band), "/e" *)
  Example ex_guard :
    guard_links [mk_e [47] KDir; mk_e [47;100] KSymlink; mk_e [47;100;47;102] KFile; mk_e [47;101] KFile]
    = ([mk_e [47] KDir; mk_e [47;100] KSymlink; mk_e [47;101] KFile], 1).
  Proof. vm_compute. reflexivity. Qed.
  (* "/de" is not beneath "/d" *)
  Example ex_guard_identity :
    guard_links [mk_e [47] KDir; mk_e [47;100] KSymlink; mk_e [47;100;101] KFile; mk_e [47;101] KFile]
    = ([mk_e [47] KDir; mk_e [47;100] KSymlink; mk_e [47;100;101] KFile; mk_e [47;101] KFile], 0).
  Proof.
    apply guard_links_tree_identity. intros s e Hs He Hk Hp.
    cbn [In] in Hs, He.
    destruct Hs as [<-|[<-|[<-|[<-|[]]]]]; try discriminate Hk;
      destruct He as [<-|[<-|[<-|[<-|[]]]]]; vm_compute in Hp; try discriminate Hp; reflexivity.
  Qed.
End ValidExamples.

Print Assumptions no_panic_sound.
Print Assumptions never_panics.
Print Assumptions list_no_panic.
Print Assumptions restore_no_panic.
Print Assumptions validate_no_panic.
Print Assumptions delete_no_panic.
Print Assumptions init_no_panic.
Print Assumptions snext_pure.
Print Assumptions validate_pure_ok.
Print Assumptions validate_healthy_silent.
Print Assumptions validate_pure_readable.
Print Assumptions validate_detects_missing_head.
Print Assumptions validate_detects_bad_hunk.
Print Assumptions validate_detects_missing_hunk_closed_band.
Print Assumptions validate_detects_missing_middle_hunk.
Print Assumptions validate_detects_unreadable_block.
Print Assumptions validate_detects_missing_block.
Print Assumptions validate_detects_corrupt_block.
Print Assumptions validate_detects_damage.
Print Assumptions damage_reported_by_validate.
Print Assumptions validate_tail_damage_silent.
Print Assumptions restore_entries_spec.
Print Assumptions restore_accounts.
Print Assumptions damage_reported_on_restore.
Print Assumptions restore_lists_hunk_entries.
Print Assumptions delete_hint_irrelevant.
Print Assumptions validate_hint_irrelevant.
Print Assumptions guard_links_gen_confined.
Print Assumptions guard_links_confined.
Print Assumptions guard_links_gen_tree_identity.
Print Assumptions guard_links_tree_identity.
Print Assumptions healthy_b_sound.
Print Assumptions ValidExamples.validate_missing_last_hunk_refuted.
Print Assumptions ValidExamples.validate_corrupt_block_skip_refuted.
Print Assumptions ValidExamples.delete_hint_dup_refuted.
Print Assumptions ValidExamples.validate_hint_dup_refuted.
