(* C09 / C10 (validate is accurate; damage is reported, never silent, never a panic),
   C17 (the iteration order of the block set is irrelevant), C16 (the symlink guard of
   restore).  Definitions: Valid.v. *)
From Coq Require Import Lia Sorted Permutation.
From CV Require Import Base.Str Base.StrP Base.Order Apath ApathP Entry Stitch Tree TreeP Codec Store
  StitchProg Backup Ops Delete Read SafeP Inv RefIntP Valid.
Local Open Scope N_scope.

(* ------------------------------------------------------------------------- *)
(** * 0. Fault-free evaluation                                                *)
(* ------------------------------------------------------------------------- *)
Section Fin.
  Variable pre : bytes -> N.

  (* final state and outcome of the run without faults *)
  Definition fin {R} (p : prog R) (a : arch) : arch * outcome R :=
    (snd (fst (run pre p a [])), snd (run pre p a [])).

  Lemma fin_Ret {R} (r : R) a : fin (Ret r) a = (a, Done r).
  Proof. reflexivity. Qed.

  Lemma fin_Panic {R} a : fin (@Panic R) a = (a, Panicked).
  Proof. reflexivity. Qed.

  Lemma fin_Do {R} o (k : reply -> prog R) a :
    fin (Do o k) a = fin (k (snd (exec_ok pre a o))) (fst (exec_ok pre a o)).
  Proof. unfold fin. rewrite run_Do. cbn [hdf tl exec fst snd]. reflexivity. Qed.

  Lemma fin_read {R} f (k : reply -> prog R) a : fin (Do (OpRead f) k) a = fin (k (rd a f)) a.
  Proof. rewrite fin_Do. unfold rd. cbn [exec_ok]. destruct (get a f); reflexivity. Qed.

  Lemma fin_meta {R} f (k : reply -> prog R) a : fin (Do (OpMeta f) k) a = fin (k (mt a f)) a.
  Proof. rewrite fin_Do. unfold mt. cbn [exec_ok]. destruct (get a f); reflexivity. Qed.

  Lemma fin_list {R} d (k : reply -> prog R) a : fin (Do (OpList d) k) a = fin (k (ls pre a d)) a.
  Proof. rewrite fin_Do. unfold ls. cbn [exec_ok]. destruct (has_dir a d); reflexivity. Qed.

  Lemma fin_bind {A B} (p : prog A) (f : A -> prog B) : forall a,
    fin (bind p f) a
    = match fin p a with
      | (a', Done r) => fin (f r) a'
      | (a', Crashed) => (a', Crashed)
      | (a', Panicked) => (a', Panicked)
      end.
  Proof.
    induction p as [r|o k IH|]; intros a; cbn [bind].
    - rewrite fin_Ret. reflexivity.
    - rewrite !fin_Do. apply IH.
    - rewrite !fin_Panic. reflexivity.
  Qed.

  (* from [fin] back to [run] *)
  Lemma fin_run {R} (p : prog R) a a' out :
    fin p a = (a', out) -> exists tr, run pre p a [] = (tr, a', out).
  Proof.
    unfold fin. intros E. inversion E. exists (fst (fst (run pre p a []))).
    destruct (run pre p a []) as [[tr af] o]. reflexivity.
  Qed.

  Lemma run_fin {R} (p : prog R) a tr a' out :
    run pre p a [] = (tr, a', out) -> fin p a = (a', out).
  Proof. unfold fin. intros ->. reflexivity. Qed.
End Fin.

(* ------------------------------------------------------------------------- *)
(** * 1. No operation panics (C10)                                            *)
(* ------------------------------------------------------------------------- *)

Lemma np_bind {A B} (p : prog A) (f : A -> prog B) :
  no_panic p -> (forall r, no_panic (f r)) -> no_panic (bind p f).
Proof. intros H Hf. induction H as [r|o k _ IH]; cbn [bind]; auto. constructor. exact IH. Qed.

(* soundness: whatever the state and the faults, the run does not end in a panic *)
Theorem no_panic_sound (pre : bytes -> N) {R} (p : prog R) :
  no_panic p -> forall a phi, snd (run pre p a phi) <> Panicked.
Proof.
  intros H. induction H as [r|o k _ IH]; intros a phi; [cbn; discriminate|].
  rewrite run_Do. destruct (hdf phi) as [|e| |]; cbn [snd]; try discriminate; apply IH.
Qed.

(* without faults it ends with a result *)
Lemma no_panic_done (pre : bytes -> N) {R} (p : prog R) :
  no_panic p -> forall a, exists r, snd (fin pre p a) = Done r.
Proof.
  intros H. induction H as [r|o k _ IH]; intros a.
  - exists r. reflexivity.
  - rewrite fin_Do. apply IH.
Qed.

Lemma head_status_not_panic r : head_status r <> HPanic.
Proof. destruct r as [| |[[|[| | | |]| | |]| |]| |]; cbn; discriminate. Qed.

Ltac np_step :=
  match goal with
  | |- no_panic (Ret _) => apply np_ret
  | |- no_panic (Do _ _) => apply np_do; intros ?
  | |- no_panic (bind _ _) => apply np_bind; [| intros ?]
  | |- no_panic (match head_status ?r with _ => _ end) =>
      let E := fresh "E" in
      destruct (head_status r) eqn:E; [| | exfalso; exact (head_status_not_panic _ E)]
  | |- no_panic (match ?x with _ => _ end) => destruct x eqn:?
  end.

Section NoPanicStitch.
  Variables keep skip : entry -> bool.

  Lemma list_subdirs_np b subs : forall acc kfail k,
    no_panic kfail -> (forall hs, no_panic (k hs)) -> no_panic (list_subdirs b subs acc kfail k).
  Proof.
    induction subs as [|s subs IH]; intros acc kfail k Hf Hk; cbn [list_subdirs]; auto.
    repeat np_step; auto.
  Qed.

  Lemma hunks_loop_np n hs : forall after last acc merr k,
    (forall l a m, no_panic (k l a m)) -> no_panic (hunks_loop keep skip n hs after last acc merr k).
  Proof.
    induction hs as [|h hs IH]; intros after last acc merr k Hk; cbn [hunks_loop]; auto.
    repeat np_step; auto.
  Qed.

  Lemma open_band_np n last acc merr k :
    (forall l a m, no_panic (k l a m)) -> no_panic (open_band keep skip n last acc merr k).
  Proof.
    intros Hk. unfold open_band. repeat np_step; auto.
    apply list_subdirs_np; [apply Hk|]. intros hs. repeat np_step. apply hunks_loop_np. exact Hk.
  Qed.

  Lemma after_band_np n blw last acc merr :
    (forall l a m, no_panic (blw l a m)) -> no_panic (after_band n blw last acc merr).
  Proof. intros Hb. unfold after_band. repeat np_step; auto. Qed.

  Lemma below_np n : forall last acc merr, no_panic (below keep skip n last acc merr).
  Proof.
    induction n as [|m IH]; intros last acc merr; cbn [below]; repeat np_step; auto.
    apply open_band_np. intros l a m'. apply after_band_np. exact IH.
  Qed.

  Lemma snext_np st last merr : no_panic (snext keep skip st last merr).
  Proof.
    unfold snext. destruct st as [|n|n hs buf after|n].
    - constructor.
    - apply open_band_np. intros. apply after_band_np. apply below_np.
    - repeat np_step. apply hunks_loop_np. intros. apply after_band_np. apply below_np.
    - apply after_band_np. apply below_np.
  Qed.
End NoPanicStitch.

Section NoPanicOps.
  Local Hint Resolve snext_np : core.

  Lemma last_complete_np {R} ids : forall (k : option N -> prog R),
    (forall o, no_panic (k o)) -> no_panic (last_complete ids k).
  Proof.
    induction ids as [|b ids IH]; intros k Hk; cbn [last_complete]; auto.
    repeat np_step; auto.
  Qed.

  Lemma resolve_np {R} p (k : option N -> prog R) :
    (forall o, no_panic (k o)) -> no_panic (resolve p k).
  Proof.
    intros Hk. unfold resolve. destruct p; auto; repeat np_step; auto.
    apply last_complete_np. exact Hk.
  Qed.

  Lemma open_tree_np {R} p (k : option N -> prog R) :
    (forall o, no_panic (k o)) -> no_panic (open_tree p k).
  Proof.
    intros Hk. unfold open_tree. apply resolve_np. intros [b|]; auto. repeat np_step; auto.
  Qed.

  Theorem list_no_panic p keep : no_panic (list_prog p keep).
  Proof.
    unfold list_prog. repeat np_step.
    apply open_tree_np. intros [b|]; [|constructor].
    apply np_bind; auto. intros [[[[es o] st] last] merr]. constructor.
  Qed.

  Lemma read_file_np addrs : forall cache acc k,
    (forall c o, no_panic (k c o)) -> no_panic (read_file cache addrs acc k).
  Proof.
    induction addrs as [|a addrs IH]; intros cache acc k Hk; cbn [read_file]; auto.
    repeat np_step; auto.
  Qed.

  Lemma restore_entries_np es : forall cache acc merr, no_panic (restore_entries es cache acc merr).
  Proof.
    induction es as [|e es IH]; intros cache acc merr; cbn [restore_entries]; [constructor|].
    destruct (e_kind e); auto. apply read_file_np. intros. apply IH.
  Qed.

  Lemma list_blocks_r_np subs : forall ok k,
    (forall ok', no_panic (k ok')) -> no_panic (list_blocks_r subs ok k).
  Proof.
    induction subs as [|s subs IH]; intros ok k Hk; cbn [list_blocks_r]; auto.
    repeat np_step; auto.
  Qed.

  Theorem restore_no_panic p keep : no_panic (restore_prog p keep).
  Proof.
    unfold restore_prog. repeat np_step.
    apply open_tree_np. intros [b|]; [|constructor].
    repeat np_step. apply list_blocks_r_np. intros [|]; [|constructor].
    apply np_bind; auto. intros [[[[es o] st] last] merr]. apply restore_entries_np.
  Qed.

  Lemma validate_bands_np ids : forall lens errs k,
    (forall l e, no_panic (k l e)) -> no_panic (validate_bands ids lens errs k).
  Proof.
    induction ids as [|b ids IH]; intros lens errs k Hk; cbn [validate_bands]; auto.
    repeat np_step; auto.
  Qed.

  Lemma list_blocks_v_np subs : forall acc failed k,
    (forall o, no_panic (k o)) -> no_panic (list_blocks_v subs acc failed k).
  Proof.
    induction subs as [|s subs IH]; intros acc failed k Hk; cbn [list_blocks_v]; auto.
    repeat np_step; auto.
  Qed.

  Lemma read_all_np l : forall acc errs k,
    (forall a e, no_panic (k a e)) -> no_panic (read_all l acc errs k).
  Proof.
    induction l as [|c l IH]; intros acc errs k Hk; cbn [read_all]; auto.
    repeat np_step; auto.
  Qed.

  Theorem validate_no_panic skip hint : no_panic (validate_prog skip hint).
  Proof.
    unfold validate_prog. repeat np_step.
    apply validate_bands_np. intros lens errs. repeat np_step.
    apply list_blocks_v_np. intros [present0|]; [|constructor].
    destruct skip; [constructor|]. apply read_all_np. intros. constructor.
  Qed.

  Theorem init_no_panic : no_panic init_prog.
  Proof. unfold init_prog. repeat np_step. Qed.

  (* ---- delete ---- *)
  Lemma release_fail_np : no_panic release_fail.
  Proof. unfold release_fail. repeat np_step. Qed.
  Local Hint Resolve release_fail_np : core.

  Lemma ref_hunks_np b hs : forall acc k,
    (forall acc', no_panic (k acc')) -> no_panic (ref_hunks b hs acc k).
  Proof.
    induction hs as [|h hs IH]; intros acc k Hk; cbn [ref_hunks]; auto.
    repeat np_step; auto.
  Qed.

  Lemma ref_subdirs_np b subs : forall acc k,
    (forall hs, no_panic (k hs)) -> no_panic (ref_subdirs b subs acc k).
  Proof.
    induction subs as [|s subs IH]; intros acc k Hk; cbn [ref_subdirs]; auto.
    repeat np_step; auto.
  Qed.

  Lemma ref_bands_np bands : forall acc k,
    (forall acc', no_panic (k acc')) -> no_panic (ref_bands bands acc k).
  Proof.
    induction bands as [|b bands IH]; intros acc k Hk; cbn [ref_bands]; auto.
    repeat np_step; auto.
    apply ref_subdirs_np. intros hs. apply ref_hunks_np. intros acc'. apply IH. exact Hk.
  Qed.

  Lemma list_blocks_d_np subs : forall acc failed k,
    (forall l, no_panic (k l)) -> no_panic (list_blocks_d subs acc failed k).
  Proof.
    induction subs as [|s subs IH]; intros acc failed k Hk; cbn [list_blocks_d];
      [destruct failed; auto|].
    repeat np_step; auto.
  Qed.

  Lemma measure_np l : forall k, no_panic k -> no_panic (measure l k).
  Proof.
    induction l as [|c l IH]; intros k Hk; cbn [measure]; auto.
    repeat np_step; auto.
  Qed.

  Lemma delete_the_bands_np ids : forall n k,
    (forall n', no_panic (k n')) -> no_panic (delete_the_bands ids n k).
  Proof.
    induction ids as [|b ids IH]; intros n k Hk; cbn [delete_the_bands]; auto.
    repeat np_step; auto.
  Qed.

  Lemma delete_blocks_np l : forall errs k,
    (forall e, no_panic (k e)) -> no_panic (delete_blocks l errs k).
  Proof.
    induction l as [|c l IH]; intros errs k Hk; cbn [delete_blocks]; auto.
    repeat np_step; auto.
  Qed.

  Lemma acquire_np k : (forall last, no_panic (k last)) -> no_panic (acquire k).
  Proof. intros Hk. unfold acquire. repeat np_step; auto. Qed.

  Theorem delete_no_panic ids dry brk hint : no_panic (delete_prog ids dry brk hint).
  Proof.
    unfold delete_prog. repeat np_step; auto;
    (apply acquire_np; intros last; repeat np_step; auto;
     apply ref_bands_np; intros referenced; repeat np_step; auto;
     apply list_blocks_d_np; intros present; apply measure_np;
     destruct dry;
     [ repeat np_step; auto
     | repeat np_step; auto;
       apply delete_the_bands_np; intros nb;
       apply delete_blocks_np; intros errs;
       repeat np_step; auto ]).
  Qed.
End NoPanicOps.

(** C10: list, restore, validate, delete, init never panic, whatever the state of the
    archive (healthy or damaged in any way) and whatever the storage does *)
Theorem never_panics (pre : bytes -> N) : forall a phi,
  (forall p keep, snd (run pre (list_prog p keep) a phi) <> Panicked)
  /\ (forall p keep, snd (run pre (restore_prog p keep) a phi) <> Panicked)
  /\ (forall skip hint, snd (run pre (validate_prog skip hint) a phi) <> Panicked)
  /\ (forall ids dry brk hint, snd (run pre (delete_prog ids dry brk hint) a phi) <> Panicked)
  /\ snd (run pre init_prog a phi) <> Panicked.
Proof.
  intros a phi. repeat split; intros; apply no_panic_sound;
    auto using list_no_panic, restore_no_panic, validate_no_panic, delete_no_panic, init_no_panic.
Qed.

(* ------------------------------------------------------------------------- *)
(** * 2. The reading programs compute the pure reading, in every state        *)
(* ------------------------------------------------------------------------- *)

Lemma in_isort_N x l : In x (isort_by N.compare (fun y => y) l) <-> In x l.
Proof. apply in_isort. Qed.

Section Corr.
  Variable pre : bytes -> N.
  Variable a : arch.
  Notation fin := (fin pre).

  (* a listed sub-directory of i/ is a DHunkSub of this band, and exists *)
  Lemma subdir_listed b s :
    In s (subdir_numbers (children_dirs a (DIndex b))) -> has_dir a (DHunkSub b s) = true.
  Proof.
    unfold subdir_numbers. rewrite in_isort_N, in_flat_map. intros [d [Hd Hs]].
    unfold children_dirs in Hd. apply filter_In in Hd. destruct Hd as [Hd Hp].
    destruct d as [| |b'|b'|b' s'|s']; try contradiction. destruct Hs as [->|[]].
    cbn [parent_d] in Hp. destruct (dpath_eqb_spec (DIndex b') (DIndex b)) as [E|]; [|discriminate].
    inversion E; subst. apply has_dir_In. exact Hd.
  Qed.

  Lemma block_subdir_listed s :
    In s (block_subdirs (children_dirs a DBlocks)) -> has_dir a (DBlockSub s) = true.
  Proof.
    unfold block_subdirs. rewrite in_isort_N, in_flat_map. intros [d [Hd Hs]].
    unfold children_dirs in Hd. apply filter_In in Hd. destruct Hd as [Hd Hp].
    destruct d as [| |b'|b'|b' s'|s']; try contradiction. destruct Hs as [->|[]].
    apply has_dir_In. exact Hd.
  Qed.

  Section Stitched.
    Variable keep : entry -> bool.
    Notation T1 := (fun _ : entry => true).

    Lemma scan_buf_all buf : forall acc, scan_buf keep T1 buf acc = (acc ++ filter keep buf, None).
    Proof.
      induction buf as [|e buf IH]; intros acc; cbn [scan_buf filter]; [rewrite app_nil_r; reflexivity|].
      destruct (keep e); [|apply IH]. rewrite IH, <- app_assoc. reflexivity.
    Qed.

    Lemma hunks_loop_pure n hs : forall after last acc merr k,
      fin (hunks_loop keep T1 n hs after last acc merr k) a
      = let '(l, ac, m) := hl_pure keep a n hs after last acc merr in fin (k l ac m) a.
    Proof.
      induction hs as [|h hs IH]; intros after last acc merr k; cbn [hunks_loop hl_pure]; [reflexivity|].
      rewrite fin_read.
      destruct (rd a (PHunk (N.of_nat n) h)) as [|e|c|ds fs|ne]; try apply IH.
      - destruct e; try apply IH. reflexivity.
      - destruct c as [p| |]; try apply IH. destruct p as [|v|t|es|c]; try apply IH.
        destruct (phstep (Some es) after) as [[out|] after']; [|apply IH].
        rewrite scan_buf_all. apply IH.
    Qed.

    Lemma list_subdirs_pure b subs : forall acc kfail k,
      (forall s, In s subs -> has_dir a (DHunkSub b s) = true) ->
      fin (list_subdirs b subs acc kfail k) a
      = fin (k (acc ++ flat_map (fun s => hunk_numbers (children_files pre a (DHunkSub b s))) subs)) a.
    Proof.
      induction subs as [|s subs IH]; intros acc kfail k Hs; cbn [list_subdirs flat_map].
      - rewrite app_nil_r. reflexivity.
      - rewrite fin_list. unfold ls. rewrite (Hs s (or_introl eq_refl)).
        rewrite app_assoc. apply IH. intros s' Hs'. apply Hs. right. exact Hs'.
    Qed.

    Lemma open_band_pure n last acc merr k :
      fin (open_band keep T1 n last acc merr k) a
      = let '(l, ac, m) := ob_pure pre keep a n last acc merr in fin (k l ac m) a.
    Proof.
      unfold open_band, ob_pure. rewrite fin_read.
      destruct (head_status (rd a (PHead (N.of_nat n)))) eqn:E;
        [| reflexivity | exfalso; exact (head_status_not_panic _ E)].
      rewrite fin_list. unfold ls at 1 2. destruct (has_dir a (DIndex (N.of_nat n))); [|reflexivity].
      rewrite list_subdirs_pure by apply subdir_listed. cbn [app].
      rewrite fin_read. fold (listed_hunks pre a (N.of_nat n)).
      rewrite hunks_loop_pure. reflexivity.
    Qed.

    Lemma after_band_pure n blw last acc merr :
      fin (after_band n blw last acc merr) a
      = if closed a (N.of_nat n) then (a, Done (acc, None, SDone, last, merr)) else fin (blw last acc merr) a.
    Proof.
      unfold after_band, closed. rewrite fin_meta.
      destruct (meta_is_closed (mt a (PTail (N.of_nat n)))); reflexivity.
    Qed.

    Lemma below_pure_ok n : forall last acc merr,
      fin (below keep T1 n last acc merr) a
      = let '(l, ac, m) := below_pure pre keep a n last acc merr in (a, Done (ac, None, SDone, l, m)).
    Proof.
      induction n as [|m IH]; intros last acc merr; cbn [below below_pure]; [reflexivity|].
      rewrite fin_meta. destruct (meta_is_file (mt a (PHead (N.of_nat m)))); [|apply IH].
      rewrite open_band_pure. destruct (ob_pure pre keep a m last acc merr) as [[l ac] me].
      rewrite after_band_pure. destruct (closed a (N.of_nat m)); [reflexivity | apply IH].
    Qed.

    (** the stitched reader, run to the end from [SBefore n] *)
    Theorem snext_pure n :
      fin (snext keep T1 (SBefore n) None 0) a
      = let '(l, ac, m) := stitch_pure pre keep a n in (a, Done (ac, None, SDone, l, m)).
    Proof.
      unfold snext, stitch_pure. rewrite open_band_pure.
      destruct (ob_pure pre keep a n None [] 0) as [[l ac] me].
      rewrite after_band_pure. destruct (closed a (N.of_nat n)); [reflexivity | apply below_pure_ok].
    Qed.
  End Stitched.

  Lemma band_opens_status b : band_opens a b = true <-> head_status (rd a (PHead b)) = HOk.
  Proof. unfold band_opens. destruct (head_status (rd a (PHead b))); split; congruence. Qed.

  Lemma validate_bands_pure ids : forall lens errs k,
    fin (validate_bands ids lens errs k) a
    = let '(l, e) := vb_pure pre a ids lens errs in fin (k l e) a.
  Proof.
    induction ids as [|b ids IH]; intros lens errs k; cbn [validate_bands vb_pure]; [reflexivity|].
    rewrite fin_read. unfold band_opens.
    destruct (head_status (rd a (PHead b))) eqn:E;
      [| apply IH | exfalso; exact (head_status_not_panic _ E)].
    rewrite fin_list. destruct (ls pre a (DBand b)) as [|e|c|ds fs|ne]; try apply IH.
    rewrite fin_read, E. rewrite fin_bind, snext_pure.
    destruct (stitch_pure pre keep_all a (N.to_nat b)) as [[l es] merr]. apply IH.
  Qed.

  Lemma list_blocks_v_pure subs : forall acc failed k,
    (forall s, In s subs -> has_dir a (DBlockSub s) = true) ->
    fin (list_blocks_v subs acc failed k) a
    = fin (k (if failed then None
              else Some (acc ++ flat_map (fun s => listed_blocks (children_files pre a (DBlockSub s))) subs))) a.
  Proof.
    induction subs as [|s subs IH]; intros acc failed k Hs; cbn [list_blocks_v flat_map].
    - rewrite app_nil_r. reflexivity.
    - rewrite fin_list. unfold ls. rewrite (Hs s (or_introl eq_refl)).
      fold (listed_blocks (children_files pre a (DBlockSub s))).
      rewrite app_assoc. apply IH. intros s' Hs'. apply Hs. right. exact Hs'.
  Qed.

  Lemma read_all_pure l : forall acc errs k,
    fin (read_all l acc errs k) a = let '(bl, e) := ra_pure a l acc errs in fin (k bl e) a.
  Proof.
    induction l as [|c l IH]; intros acc errs k; cbn [read_all ra_pure]; [reflexivity|].
    rewrite fin_read.
    destruct (rd a (PBlock c)) as [|e|x|ds fs|ne]; try apply IH.
    destruct x as [p| |]; try apply IH. destruct p as [|v|t|es|d]; try apply IH.
    destruct (str_eqb d c); apply IH.
  Qed.

  (** validate, without faults, in ANY state: the state is unchanged and the result is the
      pure validation of the state *)
  Theorem validate_pure_ok skip hint :
    fin (validate_prog skip hint) a = (a, Done (validate_pure pre a skip hint)).
  Proof.
    unfold validate_prog, validate_pure. rewrite fin_read.
    destruct (rd a PHeader) as [|e|c|ds fs|ne]; try reflexivity.
    destruct c as [p| |]; try reflexivity. destruct p; try reflexivity.
    rewrite fin_list. unfold ls at 1. destruct (has_dir a DRoot) eqn:HR; [|reflexivity].
    rewrite fin_list. unfold ls at 1. rewrite HR.
    rewrite validate_bands_pure.
    destruct (vb_pure pre a (sorted_N (band_ids (children_dirs a DRoot))) [] 0) as [lens errs].
    rewrite fin_list. unfold ls at 1. destruct (has_dir a DBlocks); [|reflexivity].
    rewrite list_blocks_v_pure by apply block_subdir_listed. cbn [app].
    fold (present0 pre a).
    destruct skip; [reflexivity|].
    rewrite read_all_pure.
    destruct (ra_pure a (order_by hint (dedup (present0 pre a))) [] errs) as [blens errs'].
    reflexivity.
  Qed.

  Corollary validate_run skip hint :
    exists tr, run pre (validate_prog skip hint) a [] = (tr, a, Done (validate_pure pre a skip hint)).
  Proof. apply fin_run. apply validate_pure_ok. Qed.
End Corr.

(* ------------------------------------------------------------------------- *)
(** * 3. What a listing shows (lists without repetition)                      *)
(* ------------------------------------------------------------------------- *)

Lemma Ncmp_order : CmpOrder N.compare.
Proof.
  constructor.
  - intros x y. apply N.compare_eq_iff.
  - intros x y. apply N.compare_antisym.
  - intros x y z. rewrite !N.compare_lt_iff. lia.
Qed.

Lemma isort_N_sorted_lt l : NoDup l -> StronglySorted N.lt (isort_by N.compare (fun x => x) l).
Proof.
  intros ND.
  assert (ND' : NoDup (isort_by N.compare (fun x => x) l)).
  { eapply Permutation_NoDup; [symmetry; apply isort_perm | exact ND]. }
  pose proof (isort_sorted N.compare (fun x : N => x) Ncmp_order l) as S.
  induction S as [|x l' S' IH F]; [constructor|].
  inversion ND' as [|? ? Hni ND'']; subst. constructor; [apply IH; exact ND''|].
  rewrite Forall_forall in *. intros y Hy. pose proof (F y Hy) as Hle.
  rewrite N.compare_gt_iff in Hle. assert (x <> y) by (intros ->; contradiction). lia.
Qed.

(* at most one output per element, outputs determine the key *)
Lemma NoDup_flat_map_single {A B K} (key : A -> K) (g : A -> list B) l :
  NoDup (map key l) ->
  (forall p, In p l -> (length (g p) <= 1)%nat) ->
  (forall p q h, In p l -> In q l -> In h (g p) -> In h (g q) -> key p = key q) ->
  NoDup (flat_map g l).
Proof.
  induction l as [|x l IH]; intros ND H1 Hinj; cbn [flat_map]; [constructor|].
  inversion ND as [|? ? Hni ND']; subst.
  assert (IH' : NoDup (flat_map g l)).
  { apply IH; auto. - intros p Hp. apply H1. right. exact Hp.
    - intros p q h Hp Hq. apply Hinj; right; assumption. }
  pose proof (H1 x (or_introl eq_refl)) as Hl.
  destruct (g x) as [|h [|h' t]] eqn:Eg; cbn [app]; [exact IH' | | cbn [length] in Hl; lia].
  constructor; [|exact IH']. intros Hh. apply in_flat_map in Hh. destruct Hh as [q [Hq Hhq]].
  apply Hni. rewrite (Hinj x q h); [apply in_map; exact Hq | left; reflexivity | right; exact Hq | rewrite Eg; left; reflexivity | exact Hhq].
Qed.

(* a strictly increasing list whose members are exactly i..n-1 *)
Lemma sorted_range hs : forall i n,
  StronglySorted N.lt hs -> (forall h, In h hs <-> i <= h < n) ->
  consecutive hs i = true /\ i + N.of_nat (length hs) = N.max i n.
Proof.
  induction hs as [|x hs IH]; intros i n S Hin; cbn [consecutive length].
  - split; [reflexivity|]. destruct (N.lt_ge_cases i n) as [H|H]; [|lia].
    exfalso. apply (proj2 (Hin i)). lia.
  - inversion S as [|? ? S' F]; subst. rewrite Forall_forall in F.
    assert (Hx : i <= x < n) by (apply Hin; left; reflexivity).
    assert (x = i).
    { destruct (proj2 (Hin i)) as [E|Hi]; [lia | congruence|]. pose proof (F _ Hi). lia. }
    subst x. rewrite N.eqb_refl. cbn [andb].
    destruct (IH (i + 1) n S') as [C L].
    { intros h. split.
      - intros Hh. pose proof (F _ Hh). pose proof (proj1 (Hin h) (or_intror Hh)). lia.
      - intros Hh. destruct (proj2 (Hin h)) as [E|H]; [lia | lia | exact H]. }
    split; [exact C|]. lia.
Qed.

Lemma In_keys_get (a : arch) f : In f (map fst (files a)) -> get a f <> None.
Proof. intros Hin E. apply (lookup_None_notin _ _ E). exact Hin. Qed.

Lemma get_In_keys (a : arch) f : get a f <> None -> In f (map fst (files a)).
Proof.
  intros H. destruct (get a f) as [x|] eqn:G; [|congruence].
  destruct (lookup_Some_In _ _ _ G) as [g [Hin [-> _]]]. apply (in_map fst) in Hin. exact Hin.
Qed.

Lemma get_In_files (a : arch) f x : get a f = Some x -> In (f, x) (files a).
Proof. intros G. destruct (lookup_Some_In _ _ _ G) as [g [Hin [-> _]]]. exact Hin. Qed.

Section Listing.
  Variable pre : bytes -> N.
  Variable a : arch.

  (* a listed hunk number is the number of a hunk file of this band *)
  Lemma hunk_listed b s h :
    In h (hunk_numbers (children_files pre a (DHunkSub b s))) ->
    In (PHunk b h) (map fst (files a)) /\ h / HUNKS_PER_SUBDIR = s.
  Proof.
    unfold hunk_numbers. rewrite in_isort_N, in_flat_map. intros [[f ne] [Hf Hh]].
    unfold children_files in Hf. apply in_map_iff in Hf. destruct Hf as [[g x] [E Hg]].
    cbn [fst snd] in E. inversion E; subst f ne. clear E.
    apply filter_In in Hg. destruct Hg as [Hg Hp]. cbn [fst] in Hp, Hh.
    destruct g as [| |b'|b'|b' h'|c]; try contradiction. destruct Hh as [->|[]].
    cbn [parent_f] in Hp. destruct (dpath_eqb_spec (DHunkSub b' (h / HUNKS_PER_SUBDIR)) (DHunkSub b s)) as [E|]; [|discriminate].
    inversion E; subst. split; [|reflexivity]. apply in_map_iff. exists (PHunk b h, x). auto.
  Qed.

  Lemma listed_hunks_exist b h : In h (listed_hunks pre a b) -> get a (PHunk b h) <> None.
  Proof.
    unfold listed_hunks. rewrite in_flat_map. intros [s [_ Hh]]. apply In_keys_get. apply (hunk_listed b s h Hh).
  Qed.

  (* every hunk file whose sub-directory exists is listed *)
  Lemma hunk_file_listed b h :
    get a (PHunk b h) <> None -> In (DHunkSub b (h / HUNKS_PER_SUBDIR)) (dirs a) ->
    In h (listed_hunks pre a b).
  Proof.
    intros Hg Hsub. apply get_In_keys in Hg.
    unfold listed_hunks. apply in_flat_map. exists (h / HUNKS_PER_SUBDIR). split.
    - unfold subdir_numbers. rewrite in_isort_N, in_flat_map. exists (DHunkSub b (h / HUNKS_PER_SUBDIR)).
      split; [|left; reflexivity]. unfold children_dirs. apply filter_In. split; [exact Hsub|].
      cbn [parent_d]. destruct (dpath_eqb_spec (DIndex b) (DIndex b)); congruence.
    - unfold hunk_numbers. rewrite in_isort_N, in_flat_map.
      apply in_map_iff in Hg. destruct Hg as [[g x] [E Hg]]. cbn [fst] in E. subst g.
      exists (PHunk b h, nonempty x). split; [|left; reflexivity].
      unfold children_files. apply in_map_iff. exists (PHunk b h, x). split; [reflexivity|].
      apply filter_In. split; [exact Hg|]. cbn [fst parent_f].
      destruct (dpath_eqb_spec (DHunkSub b (h / HUNKS_PER_SUBDIR)) (DHunkSub b (h / HUNKS_PER_SUBDIR))); congruence.
  Qed.

  Hypothesis NDd : NoDup (dirs a).
  Hypothesis NDf : FilesND a.

  Definition hnum (p : fpath * bool) : list N := match fst p with PHunk _ h => [h] | _ => [] end.

  Lemma sub_hunks_sorted n s : StronglySorted N.lt (hunk_numbers (children_files pre a (DHunkSub n s))).
  Proof.
    unfold hunk_numbers. apply isort_N_sorted_lt. fold hnum.
    apply (NoDup_flat_map_single fst hnum).
    - unfold children_files. rewrite map_map. cbn [fst].
      apply (filter_keys_nodup (fun f => dpath_eqb (parent_f pre f) (DHunkSub n s))). exact NDf.
    - intros p _. unfold hnum. destruct (fst p); cbn; lia.
    - intros p q h Hp Hq Hhp Hhq.
      assert (X : forall r, In r (children_files pre a (DHunkSub n s)) -> In h (hnum r) -> fst r = PHunk n h).
      { intros r Hr Hh. unfold children_files in Hr. apply in_map_iff in Hr. destruct Hr as [[g x] [E Hg]].
        apply filter_In in Hg. destruct Hg as [_ Hpar]. subst r. cbn [fst snd] in *.
        unfold hnum in Hh. cbn [fst] in Hh. destruct g as [| |b'|b'|b' h'|c]; try contradiction.
        destruct Hh as [->|[]]. cbn [parent_f] in Hpar.
        destruct (dpath_eqb_spec (DHunkSub b' (h / HUNKS_PER_SUBDIR)) (DHunkSub n s)) as [E|]; [|discriminate].
        inversion E; subst. reflexivity. }
      rewrite (X p Hp Hhp), (X q Hq Hhq). reflexivity.
  Qed.

  Definition dnum (d : dpath) : list N := match d with DHunkSub _ s => [s] | _ => [] end.

  Lemma subdirs_sorted n : StronglySorted N.lt (subdir_numbers (children_dirs a (DIndex n))).
  Proof.
    unfold subdir_numbers. apply isort_N_sorted_lt. fold dnum.
    apply (NoDup_flat_map_single (fun d => d) dnum).
    - rewrite map_id. unfold children_dirs. apply NoDup_filter. exact NDd.
    - intros p _. destruct p; cbn; lia.
    - intros p q s Hp Hq Hsp Hsq.
      assert (X : forall r, In r (children_dirs a (DIndex n)) -> In s (dnum r) -> r = DHunkSub n s).
      { intros r Hr Hs. unfold children_dirs in Hr. apply filter_In in Hr. destruct Hr as [_ Hpar].
        destruct r as [| |b'|b'|b' s'|s']; try contradiction. destruct Hs as [->|[]].
        cbn [parent_d] in Hpar. destruct (dpath_eqb_spec (DIndex b') (DIndex n)) as [E|]; [|discriminate].
        inversion E; subst. reflexivity. }
      rewrite (X p Hp Hsp), (X q Hq Hsq). reflexivity.
  Qed.

  Lemma flat_map_sorted (F : N -> list N) subs :
    StronglySorted N.lt subs ->
    (forall s, StronglySorted N.lt (F s)) ->
    (forall s h, In h (F s) -> h / HUNKS_PER_SUBDIR = s) ->
    StronglySorted N.lt (flat_map F subs).
  Proof.
    intros S HF Hdiv. induction S as [|s subs S' IH Fs]; cbn [flat_map]; [constructor|].
    apply SS_app; [apply HF | exact IH|].
    intros x y Hx Hy. apply in_flat_map in Hy. destruct Hy as [s' [Hs' Hy]].
    rewrite Forall_forall in Fs. pose proof (Fs s' Hs') as Hlt.
    apply Hdiv in Hx, Hy. subst s s'.
    destruct (N.lt_ge_cases x y) as [H|H]; [exact H|].
    apply (N.div_le_mono _ _ HUNKS_PER_SUBDIR) in H; [lia | discriminate].
  Qed.

  Lemma listed_hunks_sorted n : StronglySorted N.lt (listed_hunks pre a n).
  Proof.
    unfold listed_hunks.
    apply flat_map_sorted; [apply subdirs_sorted | intros s; apply sub_hunks_sorted|].
    intros s h Hh. apply (hunk_listed n s h Hh).
  Qed.
End Listing.

(* ------------------------------------------------------------------------- *)
(** * 4. C09: a healthy archive validates silently                            *)
(* ------------------------------------------------------------------------- *)

Lemma filter_none {A} (f : A -> bool) l : (forall x, In x l -> f x = false) -> filter f l = [].
Proof.
  induction l as [|x l IH]; intros H; cbn [filter]; [reflexivity|].
  rewrite (H x (or_introl eq_refl)). apply IH. intros y Hy. apply H. right. exact Hy.
Qed.

Lemma In_mem_bytes c l : In c l -> mem_bytes c l = true.
Proof.
  intros H. unfold mem_bytes. apply existsb_exists. exists c. split; [exact H | apply str_eqb_refl].
Qed.

Lemma mem_bytes_iff c l : mem_bytes c l = true <-> In c l.
Proof. split; [apply mem_bytes_In | apply In_mem_bytes]. Qed.

Lemma In_dedup c l : In c (dedup l) <-> In c l.
Proof.
  induction l as [|x l IH]; cbn [dedup]; [reflexivity|].
  destruct (mem_bytes x l) eqn:M.
  - rewrite IH. cbn [In]. split; [auto|]. intros [<-|H]; [apply mem_bytes_In; exact M | exact H].
  - cbn [In]. rewrite IH. reflexivity.
Qed.

Lemma NoDup_dedup l : NoDup (dedup l).
Proof.
  induction l as [|x l IH]; cbn [dedup]; [constructor|].
  destruct (mem_bytes x l) eqn:M; [exact IH|].
  constructor; [|exact IH]. rewrite In_dedup. intros Hin. apply In_mem_bytes in Hin. congruence.
Qed.

Lemma In_order_by c hint s : In c (order_by hint s) <-> In c s.
Proof.
  unfold order_by. rewrite in_app_iff, !filter_In. split.
  - intros [[_ M]|[H _]]; [apply mem_bytes_In; exact M | exact H].
  - intros H. destruct (mem_bytes c hint) eqn:M.
    + left. split; [apply mem_bytes_In; exact M | apply In_mem_bytes; exact H].
    + right. split; [exact H | reflexivity].
Qed.

(* lengths needed per block: every one is within its (present, good) block *)
Definition LensOK (a : arch) (lens : list (bytes * N)) : Prop :=
  forall h len, In (h, len) lens -> block_ok a h /\ len <= N.of_nat (length h).

Lemma upd_max_ok a h len lens :
  block_ok a h -> len <= N.of_nat (length h) -> LensOK a lens -> LensOK a (upd_max h len lens).
Proof.
  intros Hb Hl HL. unfold upd_max.
  destruct (existsb (fun p => str_eqb (fst p) h) lens).
  - intros h' len' Hin. apply in_map_iff in Hin. destruct Hin as [[h0 l0] [E Hin]].
    cbn [fst snd] in E. destruct (str_eqb h0 h) eqn:Eh.
    + inversion E; subst. apply str_eqb_eq in Eh. subst h0.
      split; [exact Hb|]. destruct (HL _ _ Hin) as [_ H0]. lia.
    + inversion E; subst. apply HL. exact Hin.
  - intros h' len' Hin. apply in_app_iff in Hin. destruct Hin as [Hin|[E|[]]]; [apply HL; exact Hin|].
    inversion E; subst. auto.
Qed.

Lemma addrs_lens_ok a addrs : forall lens,
  Forall (addr_ok a) addrs -> LensOK a lens ->
  LensOK a (fold_left (fun m ad => upd_max (a_hash ad) (a_start ad + a_len ad) m) addrs lens).
Proof.
  induction addrs as [|ad addrs IH]; intros lens Hok HL; cbn [fold_left]; [exact HL|].
  inversion Hok as [|? ? [Hb Hl] Hok']; subst. apply IH; [exact Hok'|]. apply upd_max_ok; assumption.
Qed.

Lemma entry_lens_ok a es : forall lens,
  Forall (entry_ok a) es -> LensOK a lens -> LensOK a (entry_lens es lens).
Proof.
  unfold entry_lens. induction es as [|e es IH]; intros lens Hok HL; cbn [fold_left]; [exact HL|].
  inversion Hok as [|? ? He Hok']; subst. apply IH; [exact Hok'|].
  destruct (e_kind e); auto. apply addrs_lens_ok; assumption.
Qed.

Lemma ra_pure_all_ok a l : forall acc errs,
  Forall (block_ok a) l ->
  ra_pure a l acc errs = (acc ++ map (fun c => (c, N.of_nat (length c))) l, errs).
Proof.
  induction l as [|c l IH]; intros acc errs Hok; cbn [ra_pure map]; [rewrite app_nil_r; reflexivity|].
  inversion Hok as [|? ? Hc Hok']; subst. unfold rd. unfold block_ok in Hc. rewrite Hc.
  rewrite str_eqb_refl. rewrite IH by exact Hok'. rewrite <- app_assoc. reflexivity.
Qed.

Lemma find_len_map h l :
  In h l ->
  find (fun q : bytes * N => str_eqb (fst q) h) (map (fun c => (c, N.of_nat (length c))) l)
  = Some (h, N.of_nat (length h)).
Proof.
  induction l as [|c l IH]; [intros []|]. intros Hin. cbn [map find fst].
  destruct (str_eqb c h) eqn:E; [apply str_eqb_eq in E; subst; reflexivity|].
  destruct Hin as [->|Hin]; [rewrite str_eqb_refl in E; discriminate | auto].
Qed.

Section HealthyRun.
  Variable pre : bytes -> N.
  Variable a : arch.
  Hypothesis HH : Healthy pre a.

  Let WF : WFdirs pre a := proj1 HH.
  Let AI : AInv a := proj1 (proj2 HH).
  Let RI : RefInt a := proj1 AI.
  Let NDf : FilesND a := proj2 (proj2 AI).
  Let NDd : NoDup (dirs a) := proj1 WF.

  Lemma file_parent_dir f x : get a f = Some x -> In (parent_f pre f) (dirs a).
  Proof.
    intros G. pose proof WF as WF'; destruct WF' as (_ & _ & _ & Hfp & _). apply (Hfp f x). apply get_In_files. exact G.
  Qed.

  Lemma file_parent_dir' f : get a f <> None -> In (parent_f pre f) (dirs a).
  Proof. destruct (get a f) as [x|] eqn:G; [intros _; eapply file_parent_dir; eauto | congruence]. Qed.

  Lemma band_healthy b : In (DBand b) (dirs a) -> BandHealthy a b.
  Proof. pose proof HH as HH'; destruct HH' as (_ & _ & _ & HB). apply HB. Qed.

  Lemma band_index_dir b : In (DBand b) (dirs a) -> has_dir a (DIndex b) = true.
  Proof. intros Hb. pose proof WF as WF'; destruct WF' as (_ & _ & _ & _ & _ & Hi). apply has_dir_In. apply Hi. exact Hb. Qed.

  (* the listing of a healthy band shows the hunks 0..n-1 *)
  Lemma healthy_listed b n :
    (forall h, get a (PHunk b h) <> None -> h < n) ->
    (forall h, h < n -> exists es, get a (PHunk b h) = Some (Good (PlHunk es))) ->
    consecutive (listed_hunks pre a b) 0 = true /\ N.of_nat (length (listed_hunks pre a b)) = n
    /\ (forall h, In h (listed_hunks pre a b) -> h < n).
  Proof.
    intros H1 H2.
    assert (Hin : forall h, In h (listed_hunks pre a b) <-> 0 <= h < n).
    { intros h. split.
      - intros Hh. apply listed_hunks_exist in Hh. apply H1 in Hh. lia.
      - intros [_ Hh]. destruct (H2 h Hh) as [es G].
        apply hunk_file_listed; [congruence|].
        apply (file_parent_dir (PHunk b h) _ G). }
    destruct (sorted_range _ 0 n (listed_hunks_sorted pre a NDd NDf b) Hin) as [C L].
    split; [exact C|]. split; [lia|]. intros h Hh. apply Hin in Hh. lia.
  Qed.

  Section Keep.
    Variable keep : entry -> bool.

    Lemma hl_pure_healthy n hs : forall after last acc merr,
      (forall h, In h hs -> exists es, get a (PHunk (N.of_nat n) h) = Some (Good (PlHunk es))) ->
      Forall (entry_ok a) acc ->
      snd (hl_pure keep a n hs after last acc merr) = merr
      /\ Forall (entry_ok a) (snd (fst (hl_pure keep a n hs after last acc merr))).
    Proof.
      induction hs as [|h hs IH]; intros after last acc merr Hhs Hacc; cbn [hl_pure]; [auto|].
      destruct (Hhs h (or_introl eq_refl)) as [es G]. unfold rd. rewrite G.
      assert (Hhs' : forall h', In h' hs -> exists es, get a (PHunk (N.of_nat n) h') = Some (Good (PlHunk es)))
        by (intros h' Hh'; apply Hhs; right; exact Hh').
      destruct (phstep (Some es) after) as [[out|] after'] eqn:E; [|apply IH; assumption].
      apply IH; [exact Hhs'|]. apply Forall_app. split; [exact Hacc|].
      pose proof (hstep_Forall (entry_ok a) _ _ _ _ E (RI _ _ _ G)) as Hout.
      rewrite Forall_forall in *. intros x Hx. apply filter_In in Hx. apply Hout. tauto.
    Qed.

    Lemma ob_pure_healthy n last acc merr :
      In (DBand (N.of_nat n)) (dirs a) -> Forall (entry_ok a) acc ->
      snd (ob_pure pre keep a n last acc merr) = merr
      /\ Forall (entry_ok a) (snd (fst (ob_pure pre keep a n last acc merr))).
    Proof.
      intros Hb Hacc. destruct (band_healthy _ Hb) as (Hhead & m & H1 & H2 & Ht).
      destruct (healthy_listed _ _ H1 H2) as (C & L & Hlt).
      assert (Hbad : numbers_bad (listed_hunks pre a (N.of_nat n)) (tail_count a (N.of_nat n)) = false).
      { unfold numbers_bad. rewrite C. cbn [negb orb]. unfold tail_count, rd.
        destruct Ht as [-> | ->]; [reflexivity|]. rewrite L, N.eqb_refl. reflexivity. }
      assert (E : ob_pure pre keep a n last acc merr
                  = hl_pure keep a n (listed_hunks pre a (N.of_nat n)) last last acc merr).
      { unfold ob_pure. unfold rd at 1. rewrite Hhead. cbn [head_status].
        unfold ls. rewrite (band_index_dir _ Hb). rewrite Hbad. reflexivity. }
      rewrite E. apply hl_pure_healthy; [|exact Hacc].
      intros h Hh. apply H2. apply Hlt. exact Hh.
    Qed.

    Lemma below_pure_healthy n : forall last acc merr,
      Forall (entry_ok a) acc ->
      snd (below_pure pre keep a n last acc merr) = merr
      /\ Forall (entry_ok a) (snd (fst (below_pure pre keep a n last acc merr))).
    Proof.
      induction n as [|m IH]; intros last acc merr Hacc; cbn [below_pure]; [auto|].
      destruct (meta_is_file (mt a (PHead (N.of_nat m)))) eqn:Em; [|apply IH; exact Hacc].
      assert (Hb : In (DBand (N.of_nat m)) (dirs a)).
      { apply (file_parent_dir' (PHead (N.of_nat m))). unfold mt in Em.
        destruct (get a (PHead (N.of_nat m))); [discriminate | discriminate Em]. }
      destruct (ob_pure_healthy m last acc merr Hb Hacc) as [E1 E2].
      destruct (ob_pure pre keep a m last acc merr) as [[l ac] me]. cbn [fst snd] in E1, E2. subst me.
      destruct (closed a (N.of_nat m)); [auto | apply IH; exact E2].
    Qed.

    Lemma stitch_pure_healthy n :
      In (DBand (N.of_nat n)) (dirs a) ->
      snd (stitch_pure pre keep a n) = 0
      /\ Forall (entry_ok a) (snd (fst (stitch_pure pre keep a n))).
    Proof.
      intros Hb. unfold stitch_pure.
      destruct (ob_pure_healthy n None [] 0 Hb (Forall_nil _)) as [E1 E2].
      destruct (ob_pure pre keep a n None [] 0) as [[l ac] me]. cbn [fst snd] in E1, E2. subst me.
      destruct (closed a (N.of_nat n)); [auto | apply below_pure_healthy; exact E2].
    Qed.
  End Keep.

  Lemma head_listed b x :
    get a (PHead b) = Some x ->
    existsb (fun p => fpath_eqb (fst p) (PHead b)) (children_files pre a (DBand b)) = true.
  Proof.
    intros G. apply existsb_exists. exists (PHead b, nonempty x). split; [|apply fpath_eqb_refl].
    unfold children_files. apply in_map_iff. exists (PHead b, x). split; [reflexivity|].
    apply filter_In. split; [apply get_In_files; exact G|]. cbn [fst parent_f].
    destruct (dpath_eqb_spec (DBand b) (DBand b)); congruence.
  Qed.

  Lemma vb_pure_healthy ids : forall lens errs,
    (forall b, In b ids -> In (DBand b) (dirs a)) -> LensOK a lens ->
    snd (vb_pure pre a ids lens errs) = errs /\ LensOK a (fst (vb_pure pre a ids lens errs)).
  Proof.
    induction ids as [|b ids IH]; intros lens errs Hids HL; cbn [vb_pure]; [auto|].
    assert (Hb : In (DBand b) (dirs a)) by (apply Hids; left; reflexivity).
    assert (Hids' : forall b', In b' ids -> In (DBand b') (dirs a)) by (intros b' Hb'; apply Hids; right; exact Hb').
    destruct (band_healthy _ Hb) as (Hhead & _).
    unfold band_opens, rd. rewrite Hhead. cbn [head_status].
    unfold ls. rewrite (proj2 (has_dir_In a (DBand b)) Hb).
    rewrite (head_listed _ _ Hhead).
    assert (Hb' : In (DBand (N.of_nat (N.to_nat b))) (dirs a)) by (rewrite N2Nat.id; exact Hb).
    destruct (stitch_pure_healthy keep_all (N.to_nat b) Hb') as [E1 E2].
    destruct (stitch_pure pre keep_all a (N.to_nat b)) as [[l es] merr]. cbn [fst snd] in E1, E2. subst merr.
    rewrite N.add_0_r. apply IH; [exact Hids'|]. apply entry_lens_ok; assumption.
  Qed.

  Lemma root_band_ids b : In b (sorted_N (band_ids (children_dirs a DRoot))) -> In (DBand b) (dirs a).
  Proof.
    unfold sorted_N. rewrite in_isort_N. unfold band_ids. rewrite in_flat_map.
    intros [d [Hd Hb]]. unfold children_dirs in Hd. apply filter_In in Hd. destruct Hd as [Hd _].
    destruct d; try contradiction. destruct Hb as [->|[]]. exact Hd.
  Qed.

  Lemma present0_ok c : In c (present0 pre a) -> block_ok a c.
  Proof.
    unfold present0. rewrite in_flat_map. intros [s [_ Hc]].
    unfold listed_blocks in Hc. apply in_flat_map in Hc. destruct Hc as [[f ne] [Hin Hc]].
    destruct f; try destruct Hc. destruct ne; [destruct Hc as [<-|[]] | destruct Hc].
    eapply listed_block_ok; eauto.
  Qed.

  Lemma block_present c : block_ok a c -> In c (present0 pre a).
  Proof.
    intros Hb. unfold block_ok in Hb.
    pose proof (file_parent_dir _ _ Hb) as Hsub. cbn [parent_f] in Hsub.
    unfold present0. apply in_flat_map. exists (pre c). split.
    - unfold block_subdirs. rewrite in_isort_N, in_flat_map. exists (DBlockSub (pre c)).
      split; [|left; reflexivity]. unfold children_dirs. apply filter_In. split; [exact Hsub | reflexivity].
    - unfold listed_blocks. apply in_flat_map. exists (PBlock c, true). split; [|left; reflexivity].
      unfold children_files. apply in_map_iff. exists (PBlock c, Good (PlBlock c)). split; [reflexivity|].
      apply filter_In. split; [apply get_In_files; exact Hb|]. cbn [fst parent_f].
      destruct (dpath_eqb_spec (DBlockSub (pre c)) (DBlockSub (pre c))); congruence.
  Qed.

  (** C09, soundness: a healthy archive validates with no error, with or without reading
      the blocks, whatever the iteration order *)
  Theorem validate_pure_healthy skip hint :
    validate_pure pre a skip hint = {| v_ok := true; v_errors := 0 |}.
  Proof.
    unfold validate_pure. pose proof HH as HH'; destruct HH' as (_ & _ & Hhdr & _). unfold rd. rewrite Hhdr.
    pose proof WF as WF'; destruct WF' as (_ & HRoot & HBlocks & _).
    rewrite (proj2 (has_dir_In a DRoot) HRoot), (proj2 (has_dir_In a DBlocks) HBlocks).
    destruct (vb_pure_healthy (sorted_N (band_ids (children_dirs a DRoot))) [] 0 root_band_ids) as [E1 E2].
    { intros h len []. }
    destruct (vb_pure pre a (sorted_N (band_ids (children_dirs a DRoot))) [] 0) as [lens errs].
    cbn [fst snd] in E1, E2. subst errs.
    assert (Hpres : forall h len, In (h, len) lens -> In h (dedup (present0 pre a))).
    { intros h len Hin. apply In_dedup. apply block_present. apply (E2 _ _ Hin). }
    destruct skip.
    - f_equal. cbn [N.add].
      rewrite filter_none; [reflexivity|].
      intros [h len] Hin. cbn [fst]. rewrite (In_mem_bytes _ _ (Hpres _ _ Hin)). reflexivity.
    - rewrite ra_pure_all_ok.
      2:{ apply Forall_forall. intros c Hc. apply (proj1 (In_order_by _ _ _)) in Hc. apply (proj1 (In_dedup _ _)) in Hc.
        apply present0_ok. exact Hc. }
      cbn [app]. f_equal.
      rewrite filter_none; [reflexivity|].
      intros [h len] Hin. unfold short_or_missing. cbn [fst snd].
      rewrite find_len_map by (apply In_order_by; eapply Hpres; eauto).
      apply N.ltb_ge. apply (E2 _ _ Hin).
  Qed.

  Theorem validate_healthy_silent skip hint :
    exists tr, run pre (validate_prog skip hint) a [] = (tr, a, Done {| v_ok := true; v_errors := 0 |}).
  Proof. rewrite <- (validate_pure_healthy skip hint). apply validate_run. Qed.
End HealthyRun.

(* ------------------------------------------------------------------------- *)
(** * 5. C16: the symlink guard of restore                                    *)
(* ------------------------------------------------------------------------- *)

(* no entry of the list lies strictly beneath an earlier (created) symlink entry of it *)
Fixpoint confined (created : entry -> bool) (ks : list entry) : Prop :=
  match ks with
  | [] => True
  | s :: ks' =>
      (e_kind s = KSymlink -> created s = true -> forall e, In e ks' -> beneath (e_apath s) e = false)
      /\ confined created ks'
  end.

Lemma confined_spec created ks l1 s l2 e l3 :
  confined created ks -> ks = l1 ++ s :: l2 ++ e :: l3 ->
  e_kind s = KSymlink -> created s = true -> beneath (e_apath s) e = false.
Proof.
  revert ks. induction l1 as [|x l1 IH]; intros ks Hc E Hk Hcr; subst ks; cbn [app confined] in Hc.
  - destruct Hc as [H _]. apply H; auto. apply in_or_app. right. left. reflexivity.
  - destruct Hc as [_ Hc]. eapply IH; eauto.
Qed.

Section Guard.
  Variable created : entry -> bool.

  Lemma guard_from_inv es : forall links,
    (forall e link, In e (fst (guard_links_from created links es)) -> In link links -> beneath link e = false)
    /\ confined created (fst (guard_links_from created links es))
    /\ (forall e, In e (fst (guard_links_from created links es)) -> In e es)
    /\ N.of_nat (length es)
       = N.of_nat (length (fst (guard_links_from created links es))) + snd (guard_links_from created links es).
  Proof.
    induction es as [|e0 es IH]; intros links; cbn [guard_links_from].
    - cbn. repeat split; auto; intros; contradiction.
    - destruct (existsb (fun link => beneath link e0) links) eqn:Ex.
      + destruct (IH links) as (I1 & I2 & I3 & I4).
        destruct (guard_links_from created links es) as [kept errs]. cbn [fst snd] in *.
        split; [exact I1|]. split; [exact I2|]. split; [intros e He; right; auto|].
        cbn [length]. lia.
      + set (links' := if kind_eqb (e_kind e0) KSymlink && created e0 then links ++ [e_apath e0] else links).
        assert (Hsub : forall l, In l links -> In l links').
        { intros l Hl. unfold links'. destruct (kind_eqb (e_kind e0) KSymlink && created e0); [|exact Hl].
          apply in_or_app. left. exact Hl. }
        destruct (IH links') as (I1 & I2 & I3 & I4).
        destruct (guard_links_from created links' es) as [kept errs]. cbn [fst snd] in *.
        split; [|split; [|split]].
        * intros e link [<-|He] Hl.
          -- destruct (beneath link e0) eqn:B; [|reflexivity].
             assert (X : existsb (fun l => beneath l e0) links = true)
               by (apply existsb_exists; exists link; auto). congruence.
          -- apply I1; auto.
        * cbn [confined]. split; [|exact I2]. intros Hk Hcr e He. apply I1; [exact He|].
          unfold links'. rewrite Hk, Hcr. cbn. apply in_or_app. right. left. reflexivity.
        * intros e [<-|He]; [left; reflexivity | right; auto].
        * cbn [length]. lia.
  Qed.

  (** every entry that is restored lies beneath no symlink restored before it *)
  Theorem guard_links_gen_confined es : confined created (fst (guard_links_gen created es)).
  Proof. apply (guard_from_inv es []). Qed.

  (* nothing is invented, and every skipped entry is counted as an error *)
  Theorem guard_links_gen_kept es :
    (forall e, In e (fst (guard_links_gen created es)) -> In e es)
    /\ N.of_nat (length es) = N.of_nat (length (fst (guard_links_gen created es))) + snd (guard_links_gen created es).
  Proof. destruct (guard_from_inv es []) as (_ & _ & H3 & H4). auto. Qed.

  Lemma guard_from_identity es : forall links,
    (forall link e, In link links -> In e es -> beneath link e = false) ->
    (forall s e, In s es -> In e es -> e_kind s = KSymlink -> beneath (e_apath s) e = false) ->
    guard_links_from created links es = (es, 0).
  Proof.
    induction es as [|e0 es IH]; intros links HL HP; cbn [guard_links_from]; [reflexivity|].
    assert (Ex : existsb (fun link => beneath link e0) links = false).
    { destruct (existsb (fun link => beneath link e0) links) eqn:Ex; [|reflexivity].
      apply existsb_exists in Ex. destruct Ex as [link [Hl B]].
      rewrite (HL link e0 Hl (or_introl eq_refl)) in B. discriminate. }
    rewrite Ex. rewrite IH; [reflexivity | |].
    - intros link e Hl He.
      destruct (kind_eqb (e_kind e0) KSymlink && created e0) eqn:K.
      + apply in_app_or in Hl. destruct Hl as [Hl|[<-|[]]]; [apply HL; [exact Hl | right; exact He]|].
        apply HP; [left; reflexivity | right; exact He|].
        apply andb_true_iff in K. destruct K as [K _]. destruct (e_kind e0); try discriminate. reflexivity.
      + apply HL; [exact Hl | right; exact He].
    - intros s e Hs He. apply HP; right; assumption.
  Qed.

  (** the entries of one tree (nothing lies beneath a symlink) are all restored *)
  Theorem guard_links_gen_tree_identity es :
    (forall s e, In s es -> In e es -> e_kind s = KSymlink -> beneath (e_apath s) e = false) ->
    guard_links_gen created es = (es, 0).
  Proof. intros H. apply guard_from_identity; [intros link e [] | exact H]. Qed.
End Guard.

Theorem guard_links_confined es l1 s l2 e l3 :
  fst (guard_links es) = l1 ++ s :: l2 ++ e :: l3 -> e_kind s = KSymlink ->
  (is_prefix_of (e_apath s) (e_apath e) = true /\ e_apath s <> e_apath e) -> False.
Proof.
  intros E Hk [Hp Hne].
  pose proof (confined_spec _ _ _ _ _ _ _ (guard_links_gen_confined (fun _ => true) es) E Hk eq_refl) as B.
  unfold beneath in B. rewrite Hp in B. cbn [andb] in B. apply negb_false_iff, str_eqb_eq in B. contradiction.
Qed.

Theorem guard_links_tree_identity es :
  (forall s e, In s es -> In e es -> e_kind s = KSymlink ->
     is_prefix_of (e_apath s) (e_apath e) = true -> e_apath s = e_apath e) ->
  guard_links es = (es, 0).
Proof.
  intros H. apply guard_links_gen_tree_identity. intros s e Hs He Hk. unfold beneath.
  destruct (is_prefix_of (e_apath s) (e_apath e)) eqn:P; [|reflexivity].
  rewrite (H s e Hs He Hk P), str_eqb_refl. reflexivity.
Qed.
