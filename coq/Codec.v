(* Pure data-path pieces of a backup: mtime encoding, chunking a file into
   blocks, combining small files into one block, reading addresses back,
   sorting an index hunk.
   Mirrors src/index/entry.rs (metadata_from / EntryTrait::mtime),
   src/unix_time.rs (to_file_time), src/backup.rs (store_file_content,
   FileCombiner), src/blockdir.rs (read_address), src/index/write.rs
   (finish_hunk).
   Model file: executable definitions only. *)
From Coq Require Import List NArith ZArith Bool.
From CV Require Import Base.Str Apath Entry.
Import ListNotations.

(* ------------------------------------------------------------------ *)
(* Time.  A jiff `Timestamp` is a total number of nanoseconds [t : Z].
   `as_second()` = Z.quot t 10^9 (truncation toward zero),
   `subsec_nanosecond()` = Z.rem t 10^9 (an i32 with the sign of t).     *)

Definition NANOS_N : N := 1000000000%N.
Definition TWO32 : Z := 4294967296%Z.

(* IndexEntry::metadata_from at the pinned commit:
     mtime: mtime.as_second(),
     mtime_nanos: mtime.subsec_nanosecond().try_into().unwrap()   (i32 -> u32)
   [None] = the `unwrap` panics (negative remainder). *)
Definition enc_time_trunc (t : Z) : option (Z * N) :=
  let r := Z.rem t NANOS in
  if (r <? 0)%Z then None else Some (Z.quot t NANOS, Z.to_N r).

(* The repaired encoding: floor division, 0 <= nanos < 10^9 always. *)
Definition enc_time_floor (t : Z) : Z * N :=
  (Z.div t NANOS, Z.to_N (Z.modulo t NANOS)).

(* What `Timestamp::new(sec, nanos)` denotes (it accepts mixed signs and
   normalises): sec * 10^9 + nanos. *)
Definition dec_time (sec : Z) (nanos : N) : Z := (sec * NANOS + Z.of_N nanos)%Z.

(* EntryTrait::mtime with its panics: `self.mtime_nanos.try_into().unwrap()`
   (u32 -> i32, panics from 2^31) then `Timestamp::new(..).expect(..)` (error
   unless |nanos| <= 999_999_999).  Both collapse to: nanos >= 10^9 panics.
   (jiff's range limit on the seconds is not modelled.) *)
Definition dec_time_rs (sec : Z) (nanos : N) : option Z :=
  if (nanos <? NANOS_N)%N then Some (dec_time sec nanos) else None.

(* to_file_time at the pinned commit:
     FileTime::from_unix_time(self.as_second(), self.subsec_nanosecond().cast_unsigned())
   `cast_unsigned` of a negative i32 wraps modulo 2^32. *)
Definition file_time_trunc (t : Z) : Z * N :=
  (Z.quot t NANOS, Z.to_N (Z.modulo (Z.rem t NANOS) TWO32)).

(* repaired *)
Definition file_time_floor (t : Z) : Z * N :=
  (Z.div t NANOS, Z.to_N (Z.modulo t NANOS)).

(* utimensat: the time set is sec*10^9 + nsec; tv_nsec >= 10^9 is EINVAL
   ([None]).  (UTIME_NOW / UTIME_OMIT = 2^30-1 / 2^30-2 are also >= 10^9; the
   values produced by the two functions above never hit them, see CodecP.) *)
Definition kernel_time (p : Z * N) : option Z :=
  let (sec, nsec) := p in
  if (nsec <? NANOS_N)%N then Some (sec * NANOS + Z.of_N nsec)%Z else None.

(* ------------------------------------------------------------------ *)
(* Chunking: store_file_content.
     loop { buffer = read up to max_block_size bytes;
            if buffer.is_empty() { break }
            addresses.push(Address{hash(buffer), start: 0, len: buffer.len()}) }
   [read_with_retries] fills the buffer unless the file ends, so each read
   is exactly [firstn n] of what is left.  With n = 0 the very first read is
   empty and the loop stops: no addresses (same in Rust).
   Fuel: one unit per read; [None] = out of fuel (CodecP: never with the fuel
   [S (length d)] that [chunks] supplies). *)
Fixpoint chunks_fuel (fuel n : nat) (d : bytes) : option (list bytes) :=
  match fuel with
  | O => None
  | S f =>
      match firstn n d with
      | [] => Some []
      | c => match chunks_fuel f n (skipn n d) with
             | Some l => Some (c :: l)
             | None => None
             end
      end
  end.

Definition chunks (n : nat) (d : bytes) : list bytes :=
  match chunks_fuel (S (length d)) n d with
  | Some l => l
  | None => []                                   (* unreachable: chunks_fuel_total *)
  end.

Definition chunk_addr (c : bytes) : addr :=
  {| a_hash := c; a_start := 0%N; a_len := N.of_nat (length c) |}.

Definition file_addrs (n : nat) (d : bytes) : list addr := map chunk_addr (chunks n d).

(* ------------------------------------------------------------------ *)
(* Reading back: BlockDir::read_address.
     end = start + len; if end > actual_len { Err(BlockTooShort) } else bytes.slice(start..end)
   (u64/usize overflow of start+len is not modelled: N is unbounded.) *)
Definition slice (d : bytes) (start len : N) : option bytes :=
  if (start + len <=? N.of_nat (length d))%N
  then Some (firstn (N.to_nat len) (skipn (N.to_nat start) d))
  else None.

Definition read_address (blocks : bytes -> option bytes) (a : addr) : option bytes :=
  match blocks (a_hash a) with
  | Some b => slice b (a_start a) (a_len a)
  | None => None
  end.

(* Content of a file = concatenation of its addresses, in order; [None] if
   any block is missing or too short. *)
Fixpoint read_addrs (blocks : bytes -> option bytes) (l : list addr) : option bytes :=
  match l with
  | [] => Some []
  | a :: l' =>
      match read_address blocks a with
      | None => None
      | Some s =>
          match read_addrs blocks l' with
          | None => None
          | Some r => Some (s ++ r)
          end
      end
  end.

(* The canonical block store holding exactly the blocks [stored]
   (hash := identity, so a block's name is its content). *)
Definition store_of (stored : list bytes) (h : bytes) : option bytes :=
  if existsb (bytes_eqb h) stored then Some h else None.

(* ------------------------------------------------------------------ *)
(* FileCombiner.  queue elements are (start, len, entry-without-addrs). *)
Record comb := {
  c_buf : bytes;
  c_queue : list (N * N * entry);
  c_finished : list entry
}.

Definition comb_init : comb := {| c_buf := []; c_queue := []; c_finished := [] |}.

Definition set_addrs (e : entry) (l : list addr) : entry :=
  {| e_apath := e_apath e; e_kind := e_kind e; e_mtime := e_mtime e; e_nanos := e_nanos e;
     e_mode := e_mode e; e_user := e_user e; e_group := e_group e;
     e_addrs := l; e_target := e_target e |}.

Definition queued_entry (blk : bytes) (q : N * N * entry) : entry :=
  let '(s, l, e) := q in set_addrs e [{| a_hash := blk; a_start := s; a_len := l |}].

(* FileCombiner::flush: nothing if the queue is empty; otherwise the whole
   buffer becomes ONE block and every queued file gets Address{hash,start,len}.
   Returns the emitted block, if any. *)
Definition flush (st : comb) : comb * option bytes :=
  match c_queue st with
  | [] => (st, None)
  | _ :: _ =>
      let blk := c_buf st in
      ({| c_buf := []; c_queue := [];
          c_finished := c_finished st ++ map (queued_entry blk) (c_queue st) |},
       Some blk)
  end.

(* FileCombiner::push_file, with [content] = the bytes the single `read`
   returned and [e] = IndexEntry::metadata_from(entry) (no addresses).
     start = buf.len();
     if nothing was read: finished.push(e); return        (NOT queued!)
     buf += content; queue.push((start, len, e));
     if buf.len() >= max_block_size { flush } *)
Definition push_small (max_block : N) (st : comb) (e : entry) (content : bytes)
  : comb * option bytes :=
  let start := N.of_nat (length (c_buf st)) in
  match content with
  | [] =>
      ({| c_buf := c_buf st; c_queue := c_queue st; c_finished := c_finished st ++ [e] |}, None)
  | _ :: _ =>
      let st' := {| c_buf := c_buf st ++ content;
                    c_queue := c_queue st ++ [(start, N.of_nat (length content), e)];
                    c_finished := c_finished st |} in
      if (max_block <=? N.of_nat (length (c_buf st')))%N then flush st' else (st', None)
  end.

(* A run of the combiner: pushes with interleaved explicit flushes. *)
Inductive comb_op := OpPush (e : entry) (content : bytes) | OpFlush.

Definition opt_list {A} (o : option A) : list A :=
  match o with Some x => [x] | None => [] end.

Definition comb_step (max_block : N) (st : comb) (o : comb_op) : comb * option bytes :=
  match o with
  | OpPush e c => push_small max_block st e c
  | OpFlush => flush st
  end.

(* state and the blocks emitted so far, in order *)
Fixpoint comb_run (max_block : N) (st : comb) (emitted : list bytes) (ops : list comb_op)
  : comb * list bytes :=
  match ops with
  | [] => (st, emitted)
  | o :: ops' =>
      let (st', ob) := comb_step max_block st o in
      comb_run max_block st' (emitted ++ opt_list ob) ops'
  end.

(* FileCombiner::drain after a run from the empty combiner: final flush, then
   take [finished]. *)
Definition comb_drain (max_block : N) (ops : list comb_op) : list entry * list bytes :=
  let (st1, em1) := comb_run max_block comb_init [] ops in
  let (st2, ob) := flush st1 in
  (c_finished st2, em1 ++ opt_list ob).

Fixpoint pushed_of (ops : list comb_op) : list (entry * bytes) :=
  match ops with
  | [] => []
  | OpPush e c :: ops' => (e, c) :: pushed_of ops'
  | OpFlush :: ops' => pushed_of ops'
  end.

Definition has_content (p : entry * bytes) : bool :=
  match snd p with [] => false | _ :: _ => true end.

(* ------------------------------------------------------------------ *)
(* IndexWriter::finish_hunk: entries.sort_unstable_by(|a, b| a.apath.cmp(&b.apath)).
   Insertion sort (stable); for pairwise distinct apaths -- which finish_hunk
   debug_asserts -- every correct sort gives the same list. *)
Fixpoint insert_entry (e : entry) (l : list entry) : list entry :=
  match l with
  | [] => [e]
  | x :: l' =>
      match apath_cmp (e_apath e) (e_apath x) with
      | Gt => x :: insert_entry e l'
      | _ => e :: l
      end
  end.

Definition sort_entries (l : list entry) : list entry := fold_right insert_entry [] l.
