(* Exclusions compose with the walk and the listing (C15). *)
From CV Require Import Base.Str Apath ApathP Glob GlobP Tree TreeP.

(* text-level exclusion as a boolean: parse errors / unsupported syntax exclude nothing here
   (conserve refuses such pattern sets before any walk starts) *)
Definition excl_text (pats : list str) (p : str) : bool :=
  match excl_str pats p with XBool b => b | _ => false end.

Lemma excl_text_closed pats a b :
  a <> [SLASH] -> excl_text pats a = true -> is_valid a = true -> is_valid b = true ->
  comp_prefix (comps a) (comps b) = true -> excl_text pats b = true.
Proof.
  unfold excl_text. intros Hnr Ha Va Vb Hp.
  destruct (excl_str pats a) as [x| | |] eqn:E; try discriminate. subst x.
  rewrite (excl_str_ancestor_closed pats a b Va Vb Hnr E Hp). reflexivity.
Qed.

Theorem walk_excl_text_eq_filter {M} (pats : list str) (t : tree M) :
  WFtree t ->
  tl (walk_rec (excl_text pats) t)
  = filter (fun it => negb (excl_text pats (path it))) (tl (walk_rec (fun _ => false) t)).
Proof.
  intros Hwf. apply walk_prune_eq_filter; [exact Hwf|].
  intros a b Hnr Ha Va Vb Hp. exact (excl_text_closed pats a b Hnr Ha Va Vb Hp).
Qed.

Theorem walk_excl_ast_eq_filter {M} (ps : list pattern) (t : tree M) :
  WFtree t ->
  tl (walk_rec (excl ps) t)
  = filter (fun it => negb (excl ps (path it))) (tl (walk_rec (fun _ => false) t)).
Proof.
  intros Hwf. apply walk_prune_eq_filter; [exact Hwf|].
  intros a b Hnr Ha Va Vb Hp. exact (excl_ancestor_closed_gen ps a b Va Vb Hnr Ha Hp).
Qed.
