(* Proofs about the source-tree walk model (Tree.v). *)
From Coq Require Import Lia Arith PeanoNat Sorting.Sorted Sorting.Permutation.
From CV Require Import Base.Str Base.Order Base.StrP Apath ApathP Entry Tree.
Local Open Scope nat_scope.

(* ------------------------------------------------------------------ *)
(* Small list facts.                                                    *)

Lemma filter_map_comm {A B} (f : A -> B) (g : B -> bool) l :
  filter g (map f l) = map f (filter (fun x => g (f x)) l).
Proof.
  induction l as [|x l IH]; cbn; [reflexivity|].
  destruct (g (f x)); cbn; rewrite IH; reflexivity.
Qed.

Lemma flat_map_map {A B C} (f : A -> B) (g : B -> list C) l :
  flat_map g (map f l) = flat_map (fun x => g (f x)) l.
Proof. induction l as [|x l IH]; cbn; [reflexivity|]. rewrite IH. reflexivity. Qed.

Lemma map_flat_map {A B C} (f : A -> list B) (g : B -> C) l :
  map g (flat_map f l) = flat_map (fun x => map g (f x)) l.
Proof.
  induction l as [|x l IH]; cbn; [reflexivity|]. rewrite map_app, IH. reflexivity.
Qed.

Lemma flat_map_ext_in {A B} (f g : A -> list B) l :
  (forall x, In x l -> f x = g x) -> flat_map f l = flat_map g l.
Proof.
  induction l as [|x l IH]; cbn; intros H; [reflexivity|].
  rewrite (H x) by (left; reflexivity). rewrite IH; [reflexivity|].
  intros y Hy. apply H. right. exact Hy.
Qed.

Lemma filter_flat_map {A B} (f : A -> list B) (g : B -> bool) l :
  filter g (flat_map f l) = flat_map (fun x => filter g (f x)) l.
Proof.
  induction l as [|x l IH]; cbn; [reflexivity|]. rewrite filter_app, IH. reflexivity.
Qed.

Lemma filter_comm {A} (f g : A -> bool) l :
  filter f (filter g l) = filter g (filter f l).
Proof.
  induction l as [|x l IH]; cbn; [reflexivity|].
  destruct (g x) eqn:Eg, (f x) eqn:Ef; cbn; rewrite ?Eg, ?Ef, IH; reflexivity.
Qed.

Lemma list_sum_cons a l : list_sum (a :: l) = a + list_sum l.
Proof. reflexivity. Qed.

Lemma list_sum_perm l l' : Permutation l l' -> list_sum l = list_sum l'.
Proof. induction 1; unfold list_sum in *; cbn [fold_right]; lia. Qed.

Lemma NoDup_map_filter {A B} (k : A -> B) (f : A -> bool) l :
  NoDup (map k l) -> NoDup (map k (filter f l)).
Proof.
  induction l as [|x l IH]; cbn; intros H; [constructor|].
  inversion H as [|? ? Hn Hd]; subst.
  destruct (f x); cbn; [constructor|]; auto.
  intros Hi. apply Hn. apply in_map_iff in Hi. destruct Hi as [y [Ey Hy]].
  apply in_map_iff. exists y. split; [exact Ey|]. apply filter_In in Hy. tauto.
Qed.

(* ------------------------------------------------------------------ *)
(* StronglySorted toolkit.                                              *)

Lemma SS_app {A} (R : A -> A -> Prop) l1 l2 :
  StronglySorted R l1 -> StronglySorted R l2 ->
  (forall x y, In x l1 -> In y l2 -> R x y) -> StronglySorted R (l1 ++ l2).
Proof.
  induction l1 as [|a l1 IH]; cbn; intros H1 H2 H; [exact H2|].
  inversion H1 as [|? ? Hs Hf]; subst. constructor.
  - apply IH; auto.
  - apply Forall_app. split; [exact Hf|].
    apply Forall_forall. intros y Hy. apply H; [left; reflexivity | exact Hy].
Qed.

Lemma SS_flat_map {A B} (Rk : A -> A -> Prop) (R : B -> B -> Prop) (h : A -> list B) L :
  StronglySorted Rk L ->
  (forall c, In c L -> StronglySorted R (h c)) ->
  (forall a b, In a L -> In b L -> Rk a b ->
               forall x y, In x (h a) -> In y (h b) -> R x y) ->
  StronglySorted R (flat_map h L).
Proof.
  induction 1 as [|a L HS IH HF]; cbn; intros Hs Hx; [constructor|].
  apply SS_app.
  - apply Hs. left. reflexivity.
  - apply IH.
    + intros c Hc. apply Hs. right. exact Hc.
    + intros c d Hc Hd. apply Hx; right; assumption.
  - intros x y Hxa Hy. apply in_flat_map in Hy. destruct Hy as [b [Hb Hy]].
    apply (Hx a b);
      [left; reflexivity | right; exact Hb
       | rewrite Forall_forall in HF; apply HF; exact Hb | exact Hxa | exact Hy].
Qed.

Lemma SS_map {A B} (R : B -> B -> Prop) (g : A -> B) l :
  StronglySorted (fun a b => R (g a) (g b)) l -> StronglySorted R (map g l).
Proof.
  induction 1 as [|a l HS IH HF]; cbn; constructor; [exact IH|].
  apply Forall_forall. intros y Hy. apply in_map_iff in Hy. destruct Hy as [b [<- Hb]].
  rewrite Forall_forall in HF. apply HF. exact Hb.
Qed.

Lemma SS_impl_in {A} (R1 R2 : A -> A -> Prop) l :
  StronglySorted R1 l ->
  (forall a b, In a l -> In b l -> R1 a b -> R2 a b) ->
  StronglySorted R2 l.
Proof.
  induction 1 as [|a l HS IH HF]; intros H; constructor.
  - apply IH. intros x y Hx Hy. apply H; right; assumption.
  - rewrite Forall_forall in *. intros y Hy. apply H; [left; reflexivity | right; exact Hy |].
    apply HF. exact Hy.
Qed.

Lemma SS_nodup {A K} (R : A -> A -> Prop) (k : A -> K) l :
  StronglySorted R l -> NoDup (map k l) ->
  StronglySorted (fun a b => R a b /\ k a <> k b) l.
Proof.
  induction 1 as [|a l HS IH HF]; cbn; intros Hn; constructor;
    inversion Hn as [|? ? Hni Hnd]; subst.
  - apply IH. exact Hnd.
  - rewrite Forall_forall in *. intros y Hy. split; [apply HF; exact Hy|].
    intros E. apply Hni. rewrite E. apply in_map. exact Hy.
Qed.

Lemma SS_NoDup {A} (R : A -> A -> Prop) l :
  (forall a, ~ R a a) -> StronglySorted R l -> NoDup l.
Proof.
  intros Hir. induction 1 as [|a l HS IH HF]; constructor; [|exact IH].
  intros Hi. rewrite Forall_forall in HF. apply (Hir a). apply HF. exact Hi.
Qed.

(* ------------------------------------------------------------------ *)
(* The insertion sort.                                                  *)

Section SortP.
  Context {A K : Type} (cmp : K -> K -> comparison) (key : A -> K).

  Lemma insert_perm x l : Permutation (insert_by cmp key x l) (x :: l).
  Proof.
    induction l as [|y l IH]; cbn; [reflexivity|].
    destruct (cmp (key x) (key y)); try reflexivity.
    rewrite IH. apply perm_swap.
  Qed.

  Lemma isort_perm l : Permutation (isort_by cmp key l) l.
  Proof.
    induction l as [|x l IH]; cbn; [reflexivity|].
    rewrite insert_perm, IH. reflexivity.
  Qed.

  Lemma in_isort x l : In x (isort_by cmp key l) <-> In x l.
  Proof.
    split; apply Permutation_in; [|symmetry]; apply isort_perm.
  Qed.

  Lemma insert_map {B} (f : B -> A) x l :
    insert_by cmp key (f x) (map f l) = map f (insert_by cmp (fun b => key (f b)) x l).
  Proof.
    induction l as [|y l IH]; cbn; [reflexivity|].
    destruct (cmp (key (f x)) (key (f y))); cbn; try reflexivity.
    rewrite IH. reflexivity.
  Qed.

  Lemma isort_map {B} (f : B -> A) l :
    isort_by cmp key (map f l) = map f (isort_by cmp (fun b => key (f b)) l).
  Proof.
    induction l as [|x l IH]; cbn; [reflexivity|].
    rewrite IH, insert_map. reflexivity.
  Qed.

  Context (O : CmpOrder cmp).
  Let le (a b : A) : Prop := cmp (key a) (key b) <> Gt.

  Lemma insert_sorted x l :
    StronglySorted le l -> StronglySorted le (insert_by cmp key x l).
  Proof.
    induction 1 as [|y l HS IH HF]; cbn; [repeat constructor|].
    assert (Hall : cmp (key x) (key y) <> Gt -> Forall (le x) (y :: l)).
    { intros E. constructor; [exact E|].
      rewrite Forall_forall in *. intros z Hz.
      apply (co_le_trans cmp O _ (key y)); [exact E | apply HF; exact Hz]. }
    destruct (cmp (key x) (key y)) eqn:E.
    - constructor; [constructor; assumption | apply Hall; discriminate].
    - constructor; [constructor; assumption | apply Hall; discriminate].
    - constructor; [exact IH|].
      eapply Permutation_Forall; [symmetry; apply insert_perm|].
      constructor; [|exact HF].
      unfold le. apply (co_gt_lt cmp O) in E. rewrite E. discriminate.
  Qed.

  Lemma isort_sorted l : StronglySorted le (isort_by cmp key l).
  Proof.
    induction l as [|x l IH]; cbn; [constructor|]. apply insert_sorted. exact IH.
  Qed.

  Lemma insert_first x l : Forall (le x) l -> insert_by cmp key x l = x :: l.
  Proof.
    destruct l as [|y l]; cbn; [reflexivity|]. intros H. inversion H as [|? ? Hy _]; subst.
    unfold le in Hy. destruct (cmp (key x) (key y)); congruence.
  Qed.

  Lemma insert_filter (f : A -> bool) x l :
    StronglySorted le l ->
    filter f (insert_by cmp key x l)
    = if f x then insert_by cmp key x (filter f l) else filter f l.
  Proof.
    induction 1 as [|y l HS IH HF].
    - cbn. destruct (f x); reflexivity.
    - cbn [insert_by].
      assert (Hfirst : cmp (key x) (key y) <> Gt ->
                       filter f (x :: y :: l)
                       = if f x then insert_by cmp key x (filter f (y :: l))
                         else filter f (y :: l)).
      { intros Exy.
        change (filter f (x :: y :: l))
          with (if f x then x :: filter f (y :: l) else filter f (y :: l)).
        destruct (f x); [|reflexivity].
        symmetry. apply insert_first.
        apply Forall_forall. intros z Hz. apply filter_In in Hz. destruct Hz as [Hz _].
        destruct Hz as [<-|Hz]; [exact Exy|].
        rewrite Forall_forall in HF.
        apply (co_le_trans cmp O _ (key y)); [exact Exy | apply HF; exact Hz]. }
      destruct (cmp (key x) (key y)) eqn:E.
      + apply Hfirst. discriminate.
      + apply Hfirst. discriminate.
      + clear Hfirst. cbn [filter]. rewrite IH.
        destruct (f y) eqn:Fy, (f x) eqn:Fx; cbn [insert_by]; rewrite ?E; reflexivity.
  Qed.

  Lemma isort_filter (f : A -> bool) l :
    isort_by cmp key (filter f l) = filter f (isort_by cmp key l).
  Proof.
    induction l as [|x l IH]; cbn [filter isort_by]; [reflexivity|].
    rewrite insert_filter by apply isort_sorted.
    destruct (f x); cbn [isort_by]; rewrite IH; reflexivity.
  Qed.
End SortP.

(* ------------------------------------------------------------------ *)
(* Induction over the nested tree type.                                 *)

Section TreeInd.
  Context {M : Type} (P : tree M -> Prop)
          (HL : forall k m, P (TLeaf k m))
          (HD : forall m chs, Forall (fun c => P (snd c)) chs -> P (TDir m chs)).

  Fixpoint tree_ind' (t : tree M) : P t :=
    match t with
    | TLeaf k m => HL k m
    | TDir m chs =>
        HD m chs
           ((fix go (l : list (str * tree M)) : Forall (fun c => P (snd c)) l :=
               match l with
               | [] => Forall_nil _
               | c :: l' => Forall_cons c (tree_ind' (snd c)) (go l')
               end) chs)
    end.
End TreeInd.

(* ------------------------------------------------------------------ *)
(* The specification, in its obvious recursive form.                    *)

Section WalkP.
  Context {M : Type}.
  Implicit Types (t : tree M) (chs : list (str * tree M)) (excl : str -> bool) (p : str).

  Definition kept excl p chs : list (str * tree M) :=
    filter (fun c => negb (excl (append p (fst c)))) chs.
  Definition subdirs chs : list (str * tree M) :=
    filter (fun c => is_dir (snd c)) chs.
  Definition child_item p (c : str * tree M) : item M :=
    mk_item (append p (fst c)) (snd c).
  Definition by_name chs := isort_by str_cmp (fun c : str * tree M => fst c) chs.
  Definition by_apath p chs :=
    isort_by apath_cmp (fun c : str * tree M => append p (fst c)) chs.

  Lemma dir_listing_eq (rec : str -> tree M -> list (item M)) excl p chs :
    dir_listing rec excl p chs
    = map (child_item p) (by_name (kept excl p chs))
      ++ flat_map (fun c => rec (append p (fst c)) (snd c))
                  (by_apath p (subdirs (kept excl p chs))).
  Proof.
    unfold dir_listing, by_name, by_apath, subdirs, kept, child_item.
    rewrite !filter_map_comm, !isort_map, map_map, flat_map_map. reflexivity.
  Qed.

  Lemma contents_eq excl p t :
    contents excl p t = dir_listing (contents excl) excl p (tchildren t).
  Proof. destruct t; reflexivity. Qed.

  (* the "obvious" equation of the specification *)
  Lemma contents_dir excl p m chs :
    contents excl p (TDir m chs)
    = map (child_item p) (by_name (kept excl p chs))
      ++ flat_map (fun c => contents excl (append p (fst c)) (snd c))
                  (by_apath p (subdirs (kept excl p chs))).
  Proof. cbn [contents]. apply dir_listing_eq. Qed.

  Lemma contents_leaf excl p k (m : M) : contents excl p (TLeaf k m) = [].
  Proof. reflexivity. Qed.

  (* ---------------------------------------------------------------- *)
  (* Theorem 1: the deque algorithm computes the specification.        *)

  Lemma scan_children excl p chs :
    snd (scan excl p chs) = map (fun c => (fst c, child_item p c)) (kept excl p chs).
  Proof.
    induction chs as [|c chs IH]; cbn [scan kept filter]; [reflexivity|].
    fold (kept excl p chs).
    destruct (excl (append p (fst c))); cbn [negb snd map]; rewrite IH; reflexivity.
  Qed.

  Lemma scan_subdirs excl p chs :
    fst (scan excl p chs)
    = map (fun c => (append p (fst c), tchildren (snd c))) (subdirs (kept excl p chs)).
  Proof.
    induction chs as [|c chs IH]; cbn [scan kept filter]; [reflexivity|].
    fold (kept excl p chs).
    destruct (excl (append p (fst c))); cbn [negb fst]; [exact IH|].
    unfold subdirs in *. cbn [filter]. rewrite IH.
    destruct (is_dir (snd c)); reflexivity.
  Qed.

  Definition csize chs : nat := list_sum (map (fun c => tsize (snd c)) chs).
  Definition dcost (d : dirent M) : nat := S (csize (snd d) + csize (snd d)).
  Definition cost (st : wstate M) : nat :=
    length (entry_deque st) + list_sum (map dcost (dir_deque st)).
  Definition dlist excl (d : dirent M) : list (item M) :=
    dir_listing (contents excl) excl (fst d) (snd d).

  Lemma tsize_pos t : 1 <= tsize t.
  Proof. destruct t; cbn; lia. Qed.

  Lemma scan_cost excl p chs :
    length (snd (scan excl p chs)) + list_sum (map dcost (fst (scan excl p chs)))
    <= csize chs + csize chs.
  Proof.
    induction chs as [|c chs IH]; cbn [scan]; [cbn; lia|].
    unfold csize in *. cbn [map]. rewrite list_sum_cons.
    destruct (excl (append p (fst c))); [lia|].
    cbn [fst snd length]. rewrite map_app, list_sum_app.
    destruct (snd c) as [k m|m cs]; cbn [is_dir tchildren map tsize].
    - cbn [list_sum fold_right]. unfold dirent, item in *. lia.
    - rewrite list_sum_cons. unfold dcost at 1. cbn [snd]. unfold csize.
      cbn [list_sum fold_right]. fold (list_sum (map (fun c => tsize (snd c)) cs)).
      unfold dirent, item in *. lia.
  Qed.

  Lemma visit_cost excl rest p chs :
    cost (visit_next_directory excl {| dir_deque := rest; entry_deque := [] |} p chs)
    <= csize chs + csize chs + list_sum (map dcost rest).
  Proof.
    unfold cost, visit_next_directory. cbn [entry_deque dir_deque app].
    rewrite map_length, map_app, list_sum_app.
    rewrite (Permutation_length (isort_perm _ _ _)).
    rewrite (list_sum_perm _ _ (Permutation_map dcost (isort_perm _ _ _))).
    pose proof (scan_cost excl p chs) as Hsc. unfold dirent, item in *. lia.
  Qed.

  Lemma visit_output excl rest p chs :
    let st := visit_next_directory excl {| dir_deque := rest; entry_deque := [] |} p chs in
    entry_deque st ++ flat_map (dlist excl) (dir_deque st)
    = dir_listing (contents excl) excl p chs ++ flat_map (dlist excl) rest.
  Proof.
    cbn zeta. unfold visit_next_directory. cbn [entry_deque dir_deque app].
    rewrite scan_children, scan_subdirs, !isort_map, map_map, flat_map_app, flat_map_map.
    rewrite dir_listing_eq, app_assoc. f_equal. f_equal.
    apply flat_map_ext_in. intros c _. unfold dlist. cbn [fst snd].
    symmetry. apply contents_eq.
  Qed.

  Lemma collect_spec excl fuel : forall st,
      cost st < fuel ->
      collect excl fuel st
      = Some (entry_deque st ++ flat_map (dlist excl) (dir_deque st)).
  Proof.
    induction fuel as [|f IH]; intros [dirs entries] Hc; [lia|].
    cbn [collect]. unfold next_iter. cbn [entry_deque dir_deque].
    destruct entries as [|e entries].
    - destruct dirs as [|d rest]; [reflexivity|].
      rewrite IH.
      + rewrite visit_output. reflexivity.
      + pose proof (visit_cost excl rest (fst d) (snd d)) as Hv.
        unfold cost in Hc. cbn [entry_deque dir_deque length map] in Hc.
        rewrite list_sum_cons in Hc. unfold dcost at 1 in Hc.
        unfold dirent, item in *. lia.
    - rewrite IH; [reflexivity|].
      unfold cost in *. cbn [entry_deque dir_deque length] in *. lia.
  Qed.

  Theorem walk_q_eq_rec excl t : walk_q excl t = Some (walk_rec excl t).
  Proof.
    unfold walk_q. rewrite collect_spec.
    - unfold iter_new, walk_rec. cbn [entry_deque dir_deque flat_map app].
      unfold dlist. cbn [fst snd]. rewrite app_nil_r, <- contents_eq. reflexivity.
    - unfold cost, iter_new, walk_fuel. cbn [entry_deque dir_deque length map].
      rewrite list_sum_cons. unfold dcost. cbn [snd list_sum fold_right].
      destruct t as [k m|m chs]; cbn [tchildren tsize].
      + cbn. lia.
      + fold (csize chs). lia.
  Qed.

  Corollary walk_q_fuel_suffices excl t : walk_q excl t <> None.
  Proof. rewrite walk_q_eq_rec. discriminate. Qed.

End WalkP.

(* ------------------------------------------------------------------ *)
(* Facts about appended paths (for any parent string).                  *)

(* directory key of a path: the dir_part of any child appended to it *)
Definition dkey (p : str) : list str :=
  if str_eqb p [SLASH] then [[]] else split_on SLASH p.

Lemma dir_part_app p n : ~ In SLASH n -> dir_part (append p n) = dkey p.
Proof.
  intros Hn. unfold dkey. destruct (str_eqb p [SLASH]) eqn:E.
  - apply str_eqb_eq in E. subst. apply dir_part_append_root. exact Hn.
  - apply dir_part_append; [|exact Hn]. intros ->. rewrite str_eqb_refl in E. discriminate.
Qed.

Lemma name_part_app p n : ~ In SLASH n -> name_part (append p n) = n.
Proof.
  intros Hn. unfold name_part, append. destruct (str_eqb p [SLASH]) eqn:E.
  - apply str_eqb_eq in E. subst. cbn [app split_on]. rewrite N.eqb_refl.
    rewrite split_on_nosep by exact Hn. reflexivity.
  - rewrite split_on_snoc_comp by exact Hn. apply last_last.
Qed.

Lemma append_not_root p n : n <> [] -> append p n <> [SLASH].
Proof.
  intros Hne. unfold append. destruct (str_eqb p [SLASH]) eqn:E.
  - apply str_eqb_eq in E. subst. cbn [app]. intros H. apply Hne. congruence.
  - destruct p as [|x p]; cbn [app]; intros H.
    + apply Hne. congruence.
    + destruct p; cbn [app] in H; congruence.
Qed.

Lemma dkey_append p n : n <> [] -> ~ In SLASH n -> dkey (append p n) = dkey p ++ [n].
Proof.
  intros Hne Hn. unfold dkey at 1.
  destruct (str_eqb (append p n) [SLASH]) eqn:E.
  - apply str_eqb_eq in E. exfalso. exact (append_not_root p n Hne E).
  - unfold dkey, append. destruct (str_eqb p [SLASH]) eqn:Ep.
    + apply str_eqb_eq in Ep. subst. cbn [app split_on]. rewrite N.eqb_refl.
      rewrite split_on_nosep by exact Hn. reflexivity.
    + apply split_on_snoc_comp. exact Hn.
Qed.

(* siblings compare by name *)
Lemma apath_cmp_siblings p a b :
  ~ In SLASH a -> ~ In SLASH b -> apath_cmp (append p a) (append p b) = str_cmp a b.
Proof.
  intros Ha Hb. rewrite apath_cmp_dir_name, !dir_part_app, !name_part_app by assumption.
  rewrite (co_refl (lexc str_cmp) (lexc_order str_cmp str_order)). reflexivity.
Qed.

Lemma lexc_app_diff (l : list str) a b r1 r2 :
  str_cmp a b = Lt -> lexc str_cmp (l ++ a :: r1) (l ++ b :: r2) = Lt.
Proof.
  intros Hab. induction l as [|w l IH]; cbn.
  - rewrite Hab. reflexivity.
  - rewrite (co_refl str_cmp str_order). exact IH.
Qed.

(* paths lying in (or below) two different sibling directories compare like
   the directory names *)
Lemma apath_lt_cousins x y l a b r1 r2 :
  dir_part x = l ++ a :: r1 -> dir_part y = l ++ b :: r2 -> str_cmp a b = Lt ->
  apath_cmp x y = Lt.
Proof.
  intros Hx Hy Hab. rewrite apath_cmp_dir_name, Hx, Hy, lexc_app_diff by exact Hab.
  reflexivity.
Qed.

Lemma comp_ok_ne n : comp_ok n -> n <> [].
Proof. unfold comp_ok. tauto. Qed.
Lemma comp_ok_noslash n : comp_ok n -> ~ In SLASH n.
Proof. unfold comp_ok. tauto. Qed.

(* the root precedes every path below it *)
Lemma root_lt_below q n r :
  comp_ok n -> dkey q = dkey [SLASH] ++ r -> apath_cmp [SLASH] (append q n) = Lt.
Proof.
  intros Hn Hq.
  assert (Hd : dir_part (append q n) = dir_part [SLASH] ++ r).
  { rewrite dir_part_app by (apply comp_ok_noslash; exact Hn). exact Hq. }
  destruct r as [|r0 r].
  - rewrite apath_cmp_dir_name, Hd, app_nil_r.
    rewrite (co_refl (lexc str_cmp) (lexc_order str_cmp str_order)).
    rewrite name_part_app by (apply comp_ok_noslash; exact Hn).
    change (name_part [SLASH]) with (@nil N).
    apply comp_ok_ne in Hn. destruct n; [congruence | reflexivity].
  - apply (children_before_grandchildren _ _ (r0 :: r)); [discriminate | exact Hd].
Qed.

(* ------------------------------------------------------------------ *)
(* Well-formed trees.                                                   *)

Inductive WFtree {M : Type} : tree M -> Prop :=
| WF_leaf k m : WFtree (TLeaf k m)
| WF_dir m chs :
    Forall comp_ok (map fst chs) ->
    NoDup (map fst chs) ->
    Forall (fun c => WFtree (snd c)) chs ->
    WFtree (TDir m chs).

Lemma WF_dir_inv {M} (m : M) chs :
  WFtree (TDir m chs) ->
  Forall comp_ok (map fst chs) /\ NoDup (map fst chs)
  /\ Forall (fun c => WFtree (snd c)) chs.
Proof. intros H. inversion H; subst. auto. Qed.

Definition lt_ap (a b : str) : Prop := apath_cmp a b = Lt.

Section SortedP.
  Context {M : Type}.
  Implicit Types (t : tree M) (chs : list (str * tree M)) (excl : str -> bool) (p : str).

  Lemma child_ok chs c : Forall comp_ok (map fst chs) -> In c chs -> comp_ok (fst c).
  Proof. intros H Hc. rewrite Forall_forall in H. apply H. apply in_map. exact Hc. Qed.

  Lemma in_by_name_kept excl p chs c :
    In c (by_name (kept excl p chs)) <-> In c chs /\ excl (append p (fst c)) = false.
  Proof.
    unfold by_name, kept. rewrite in_isort, filter_In, negb_true_iff. reflexivity.
  Qed.

  Lemma in_by_apath_subdirs excl p chs c :
    In c (by_apath p (subdirs (kept excl p chs)))
    <-> In c chs /\ excl (append p (fst c)) = false /\ is_dir (snd c) = true.
  Proof.
    unfold by_apath, subdirs, kept. rewrite in_isort, !filter_In, negb_true_iff. tauto.
  Qed.

  (* every listed path is a chain of well-formed names appended to [p] *)
  Lemma contents_paths (Q : str -> Prop) excl :
    (forall q n, Q q -> comp_ok n -> Q (append q n)) ->
    forall t p, WFtree t -> Q p ->
      forall x, In x (contents excl p t) ->
        exists q n, path x = append q n /\ Q q /\ comp_ok n.
  Proof.
    intros HQ t. induction t as [k m|m chs IH] using tree_ind'; intros p Hwf Hp x Hx.
    - rewrite contents_leaf in Hx. destruct Hx.
    - rewrite contents_dir in Hx. apply WF_dir_inv in Hwf. destruct Hwf as [Hok [Hnd Hsub]].
      apply in_app_or in Hx. destruct Hx as [Hx|Hx].
      + apply in_map_iff in Hx. destruct Hx as [c [<- Hc]].
        apply in_by_name_kept in Hc. destruct Hc as [Hc _].
        exists p, (fst c). split; [reflexivity|]. split; [exact Hp|].
        eapply child_ok; eauto.
      + apply in_flat_map in Hx. destruct Hx as [c [Hc Hx]].
        apply in_by_apath_subdirs in Hc. destruct Hc as [Hc _].
        rewrite Forall_forall in IH, Hsub.
        apply (IH c Hc (append p (fst c))); [apply Hsub; exact Hc | | exact Hx].
        apply HQ; [exact Hp | eapply child_ok; eauto].
  Qed.

  Lemma contents_under excl t p x :
    WFtree t -> In x (contents excl p t) ->
    exists q n r, path x = append q n /\ comp_ok n /\ dkey q = dkey p ++ r.
  Proof.
    intros Hwf Hx.
    destruct (contents_paths (fun q => exists r, dkey q = dkey p ++ r) excl) with (t := t) (p := p) (x := x)
      as [q [n [E [[r Hr] Hn]]]]; auto.
    - intros q n [r Hr] Hn. exists (r ++ [n]).
      rewrite dkey_append, Hr, app_assoc;
        [reflexivity | apply comp_ok_ne; exact Hn | apply comp_ok_noslash; exact Hn].
    - exists []. rewrite app_nil_r. reflexivity.
    - exists q, n, r. auto.
  Qed.

  Lemma contents_dir_part excl t p x :
    WFtree t -> In x (contents excl p t) -> exists r, dir_part (path x) = dkey p ++ r.
  Proof.
    intros Hwf Hx. destruct (contents_under excl t p x Hwf Hx) as [q [n [r [E [Hn Hr]]]]].
    exists r. rewrite E, dir_part_app by (apply comp_ok_noslash; exact Hn). exact Hr.
  Qed.

  (* sorting distinct names: strictly increasing by name, under either key *)
  Definition name_lt (a b : str * tree M) : Prop := str_cmp (fst a) (fst b) = Lt.

  Lemma by_name_sorted (l : list (str * tree M)) :
    NoDup (map fst l) -> StronglySorted name_lt (by_name l).
  Proof.
    intros Hnd. unfold by_name.
    pose proof (isort_sorted str_cmp (fun c : str * tree M => fst c) str_order l) as Hs.
    apply (SS_nodup _ (fun c : str * tree M => fst c)) in Hs.
    - eapply SS_impl_in; [exact Hs|]. cbn beta. intros a b _ _ [Hle Hne]. unfold name_lt.
      destruct (str_cmp (fst a) (fst b)) eqn:E; [|reflexivity|congruence].
      apply str_cmp_eq in E. contradiction.
    - eapply Permutation_NoDup; [|exact Hnd].
      apply Permutation_map. symmetry. apply isort_perm.
  Qed.

  Lemma by_apath_sorted p (l : list (str * tree M)) :
    NoDup (map fst l) -> (forall c, In c l -> ~ In SLASH (fst c)) ->
    StronglySorted name_lt (by_apath p l).
  Proof.
    intros Hnd Hns. unfold by_apath.
    pose proof (isort_sorted apath_cmp (fun c : str * tree M => append p (fst c)) apath_order l) as Hs.
    apply (SS_nodup _ (fun c : str * tree M => fst c)) in Hs.
    - eapply SS_impl_in; [exact Hs|]. cbn beta. intros a b Ha Hb [Hle Hne]. unfold name_lt.
      apply in_isort in Ha, Hb.
      rewrite apath_cmp_siblings in Hle by (apply Hns; assumption).
      destruct (str_cmp (fst a) (fst b)) eqn:E; [|reflexivity|congruence].
      apply str_cmp_eq in E. contradiction.
    - eapply Permutation_NoDup; [|exact Hnd].
      apply Permutation_map. symmetry. apply isort_perm.
  Qed.

  Lemma contents_sorted excl t : forall p,
      WFtree t -> StronglySorted lt_ap (map path (contents excl p t)).
  Proof.
    induction t as [k m|m chs IH] using tree_ind'; intros p Hwf.
    - rewrite contents_leaf. constructor.
    - rewrite contents_dir, map_app, map_map, map_flat_map.
      apply WF_dir_inv in Hwf. destruct Hwf as [Hok [Hnd Hsub]].
      assert (Hns : forall c, In c chs -> ~ In SLASH (fst c)).
      { intros c Hc. apply comp_ok_noslash. eapply child_ok; eauto. }
      assert (HndK : NoDup (map fst (kept excl p chs))) by (apply NoDup_map_filter; exact Hnd).
      apply SS_app.
      + (* the children of this directory, by name *)
        apply SS_map. eapply SS_impl_in; [apply by_name_sorted; exact HndK|].
        intros a b Ha Hb Hlt. apply in_by_name_kept in Ha, Hb.
        unfold lt_ap. change (apath_cmp (append p (fst a)) (append p (fst b)) = Lt).
        rewrite apath_cmp_siblings by (apply Hns; tauto). exact Hlt.
      + (* the listings of the sub-directories, in apath order *)
        apply SS_flat_map with (Rk := name_lt).
        * apply by_apath_sorted.
          -- apply NoDup_map_filter. exact HndK.
          -- intros c Hc. unfold subdirs, kept in Hc. rewrite !filter_In in Hc. apply Hns. tauto.
        * intros c Hc. apply in_by_apath_subdirs in Hc. destruct Hc as [Hc _].
          rewrite Forall_forall in IH, Hsub. apply IH; [exact Hc | apply Hsub; exact Hc].
        * intros a b Ha Hb Hlt x y Hx Hy.
          apply in_by_apath_subdirs in Ha, Hb. destruct Ha as [Ha _], Hb as [Hb _].
          apply in_map_iff in Hx, Hy. destruct Hx as [x' [<- Hx]], Hy as [y' [<- Hy]].
          rewrite Forall_forall in Hsub.
          apply contents_dir_part in Hx; [|apply Hsub; exact Ha].
          apply contents_dir_part in Hy; [|apply Hsub; exact Hb].
          destruct Hx as [r1 Hx], Hy as [r2 Hy].
          pose proof (child_ok chs a Hok Ha) as Oka. pose proof (child_ok chs b Hok Hb) as Okb.
          rewrite dkey_append, <- app_assoc in Hx
            by (apply comp_ok_ne || apply comp_ok_noslash; assumption).
          rewrite dkey_append, <- app_assoc in Hy
            by (apply comp_ok_ne || apply comp_ok_noslash; assumption).
          exact (apath_lt_cousins _ _ _ _ _ _ _ Hx Hy Hlt).
      + (* children precede everything inside sub-directories *)
        intros x y Hx Hy.
        apply in_map_iff in Hx. destruct Hx as [a [<- Ha]].
        apply in_by_name_kept in Ha. destruct Ha as [Ha _].
        apply in_flat_map in Hy. destruct Hy as [b [Hb Hy]].
        apply in_by_apath_subdirs in Hb. destruct Hb as [Hb _].
        apply in_map_iff in Hy. destruct Hy as [y' [<- Hy]].
        rewrite Forall_forall in Hsub.
        apply contents_dir_part in Hy; [|apply Hsub; exact Hb]. destruct Hy as [r2 Hy].
        pose proof (child_ok chs b Hok Hb) as Okb.
        rewrite dkey_append, <- app_assoc in Hy
          by (apply comp_ok_ne || apply comp_ok_noslash; assumption).
        unfold lt_ap. change (path (child_item p a)) with (append p (fst a)).
        apply (children_before_grandchildren _ _ ([fst b] ++ r2)); [discriminate|].
        rewrite dir_part_app by (apply Hns; exact Ha). exact Hy.
  Qed.

  (* Theorem 2 *)
  Theorem walk_strictly_sorted excl t :
    WFtree t -> StronglySorted lt_ap (map path (walk_rec excl t)).
  Proof.
    intros Hwf. unfold walk_rec. cbn [map]. constructor.
    - apply contents_sorted. exact Hwf.
    - apply Forall_forall. intros y Hy. apply in_map_iff in Hy. destruct Hy as [x [<- Hx]].
      destruct (contents_under excl t [SLASH] x Hwf Hx) as [q [n [r [E [Hn Hr]]]]].
      change (path (mk_item [SLASH] t)) with [SLASH]. rewrite E.
      unfold lt_ap. eapply root_lt_below; eauto.
  Qed.

  (* each element precedes its successor (the weak, local form) *)
  Corollary walk_locally_sorted excl t :
    WFtree t -> Sorted lt_ap (map path (walk_rec excl t)).
  Proof. intros H. apply StronglySorted_Sorted. apply walk_strictly_sorted. exact H. Qed.

  Corollary walk_paths_nodup excl t :
    WFtree t -> NoDup (map path (walk_rec excl t)).
  Proof.
    intros H. apply (SS_NoDup lt_ap); [|apply walk_strictly_sorted; exact H].
    intros a. unfold lt_ap. rewrite apath_cmp_refl. discriminate.
  Qed.
End SortedP.

(* ------------------------------------------------------------------ *)
(* Valid paths under append.                                            *)

Lemma join_ne cs : cs <> [] -> Forall comp_ok cs -> join SLASH cs <> [].
Proof.
  intros Hne Hok J. destruct cs as [|w [|v cs]]; [congruence| |].
  - cbn in J. subst w. inversion Hok as [|? ? Hw _]; subst. apply comp_ok_ne in Hw. congruence.
  - rewrite join_cons2 in J. destruct w; discriminate.
Qed.

Lemma valid_cases p :
  is_valid p = true ->
  exists cs, Forall comp_ok cs /\ comps p = cs
             /\ forall n, append p n = SLASH :: join SLASH (cs ++ [n]).
Proof.
  intros Hp. apply valid_iff in Hp. destruct Hp as [->|[cs [Hne [Hok ->]]]].
  - exists []. split; [constructor|]. split; [reflexivity|]. intros n. reflexivity.
  - exists cs. split; [exact Hok|]. split; [apply comps_join; assumption|].
    intros n. unfold append.
    destruct (str_eqb (SLASH :: join SLASH cs) [SLASH]) eqn:E.
    + apply str_eqb_eq in E. inversion E as [J]. exfalso. exact (join_ne cs Hne Hok J).
    + rewrite join_app by (assumption || discriminate). reflexivity.
Qed.

Lemma snoc_ne {A} (l : list A) x : l ++ [x] <> [].
Proof. destruct l; discriminate. Qed.

Lemma valid_append p n : is_valid p = true -> comp_ok n -> is_valid (append p n) = true.
Proof.
  intros Hp Hn. destruct (valid_cases p Hp) as [cs [Hok [_ Ha]]].
  apply valid_iff. right. exists (cs ++ [n]). split; [apply snoc_ne|].
  split; [|apply Ha]. apply Forall_app. split; [exact Hok | constructor; [exact Hn | constructor]].
Qed.

Lemma comps_append p n :
  is_valid p = true -> comp_ok n -> comps (append p n) = comps p ++ [n].
Proof.
  intros Hp Hn. destruct (valid_cases p Hp) as [cs [Hok [Hc Ha]]].
  rewrite Ha, Hc. apply comps_join; [apply snoc_ne|].
  apply Forall_app. split; [exact Hok | constructor; [exact Hn | constructor]].
Qed.

Lemma comp_prefix_refl l : comp_prefix l l = true.
Proof. apply comp_prefix_spec. exists []. rewrite app_nil_r. reflexivity. Qed.

Lemma comp_prefix_trans l m n :
  comp_prefix l m = true -> comp_prefix m n = true -> comp_prefix l n = true.
Proof.
  rewrite !comp_prefix_spec. intros [r ->] [r' ->]. exists (r ++ r').
  rewrite app_assoc. reflexivity.
Qed.

(* ------------------------------------------------------------------ *)
(* More list facts (permutations, filters).                             *)

Lemma perm_flat_map_cons {A B} (g : A -> B) (h : A -> list B) l :
  Permutation (flat_map (fun c => g c :: h c) l) (map g l ++ flat_map h l).
Proof.
  induction l as [|a l IH]; cbn; [constructor|].
  apply perm_skip. rewrite IH, !app_assoc.
  apply Permutation_app_tail. apply Permutation_app_comm.
Qed.

Lemma perm_flat_map_pointwise {A B} (f g : A -> list B) l :
  (forall x, In x l -> Permutation (f x) (g x)) ->
  Permutation (flat_map f l) (flat_map g l).
Proof.
  induction l as [|a l IH]; cbn; intros H; [constructor|].
  apply Permutation_app; [apply H; left; reflexivity|].
  apply IH. intros x Hx. apply H. right. exact Hx.
Qed.

Lemma flat_map_filter {A B} (f : A -> list B) (g : A -> bool) l :
  flat_map f (filter g l) = flat_map (fun c => if g c then f c else []) l.
Proof.
  induction l as [|a l IH]; cbn; [reflexivity|].
  destruct (g a); cbn; rewrite IH; reflexivity.
Qed.

Lemma filter_nil {A} (f : A -> bool) l : (forall x, In x l -> f x = false) -> filter f l = [].
Proof.
  induction l as [|a l IH]; cbn; intros H; [reflexivity|].
  rewrite (H a) by (left; reflexivity). apply IH. intros x Hx. apply H. right. exact Hx.
Qed.

Lemma filter_true {A} (l : list A) : filter (fun _ => true) l = l.
Proof. induction l as [|a l IH]; cbn; [reflexivity|]. rewrite IH. reflexivity. Qed.

Section CompleteP.
  Context {M : Type}.
  Implicit Types (t : tree M) (chs : list (str * tree M)) (excl : str -> bool) (p : str).

  Definition no_excl : str -> bool := fun _ => false.

  Lemma kept_none p chs : kept no_excl p chs = chs.
  Proof. unfold kept, no_excl. cbn [negb]. apply filter_true. Qed.

  (* ---------------------------------------------------------------- *)
  (* Theorem 4: every listed path is a valid apath.                    *)

  Lemma contents_desc excl t p x :
    WFtree t -> is_valid p = true -> In x (contents excl p t) ->
    is_valid (path x) = true /\ comp_prefix (comps p) (comps (path x)) = true.
  Proof.
    intros Hwf Hp Hx.
    destruct (@contents_paths M
                (fun q => is_valid q = true /\ comp_prefix (comps p) (comps q) = true) excl)
      with (t := t) (p := p) (x := x) as [q [n [E [[Hq Hpre] Hn]]]]; auto.
    - intros q n [Hq Hpre] Hn. split; [apply valid_append; assumption|].
      rewrite comps_append by assumption.
      apply comp_prefix_spec in Hpre. destruct Hpre as [r ->].
      apply comp_prefix_spec. exists (r ++ [n]). rewrite app_assoc. reflexivity.
    - split; [exact Hp | apply comp_prefix_refl].
    - rewrite E. split; [apply valid_append; assumption|].
      rewrite comps_append by assumption.
      apply comp_prefix_spec in Hpre. destruct Hpre as [r ->].
      apply comp_prefix_spec. exists (r ++ [n]). rewrite app_assoc. reflexivity.
  Qed.

  Theorem walk_valid excl t :
    WFtree t -> Forall (fun p => is_valid p = true) (map path (walk_rec excl t)).
  Proof.
    intros Hwf. unfold walk_rec. cbn [map]. constructor; [reflexivity|].
    apply Forall_forall. intros y Hy. apply in_map_iff in Hy. destruct Hy as [x [<- Hx]].
    apply (contents_desc excl t [SLASH] x Hwf); [reflexivity | exact Hx].
  Qed.

  (* ---------------------------------------------------------------- *)
  (* Theorem 3: with no exclusions the walk lists exactly the nodes.   *)

  Lemma contents_perm t : forall p,
      Permutation (contents no_excl p t) (nodes_below p t).
  Proof.
    induction t as [k m|m chs IH] using tree_ind'; intros p.
    - constructor.
    - rewrite contents_dir, kept_none. cbn [nodes_below].
      change (fun c : str * tree M =>
                mk_item (append p (fst c)) (snd c) :: nodes_below (append p (fst c)) (snd c))
        with (fun c : str * tree M =>
                child_item p c :: nodes_below (append p (fst c)) (snd c)).
      rewrite perm_flat_map_cons.
      apply Permutation_app.
      + apply Permutation_map. apply isort_perm.
      + unfold by_apath. rewrite (Permutation_flat_map _ (isort_perm _ _ _)).
        unfold subdirs. rewrite flat_map_filter.
        apply perm_flat_map_pointwise. intros c Hc.
        rewrite Forall_forall in IH.
        destruct (snd c) as [k' m'|m' cs] eqn:Ec; cbn [is_dir].
        * constructor.
        * rewrite <- Ec. apply IH. exact Hc.
  Qed.

  Theorem walk_perm t : Permutation (walk_rec no_excl t) (nodes t).
  Proof. unfold walk_rec, nodes. apply perm_skip. apply contents_perm. Qed.

  Theorem walk_complete t :
    WFtree t -> forall p, In p (map path (walk_rec no_excl t)) <-> In p (paths_of t).
  Proof.
    intros _ p. unfold paths_of.
    split; apply Permutation_in; apply Permutation_map; [|symmetry]; apply walk_perm.
  Qed.

  (* the node paths of a well-formed tree are pairwise distinct *)
  Corollary paths_of_nodup t : WFtree t -> NoDup (paths_of t).
  Proof.
    intros Hwf. unfold paths_of.
    eapply Permutation_NoDup; [apply Permutation_map; apply walk_perm|].
    apply walk_paths_nodup. exact Hwf.
  Qed.

  (* ---------------------------------------------------------------- *)
  (* Theorem 5: pruning = filtering, for descendant-closed exclusions.  *)

  Definition desc_closed excl : Prop :=
    forall a b, a <> [SLASH] -> excl a = true -> is_valid a = true -> is_valid b = true ->
                comp_prefix (comps a) (comps b) = true -> excl b = true.

  Lemma contents_prune excl t :
    desc_closed excl -> forall p, WFtree t -> is_valid p = true ->
    contents excl p t
    = filter (fun it => negb (excl (path it))) (contents no_excl p t).
  Proof.
    intros Hcl. induction t as [k m|m chs IH] using tree_ind'; intros p Hwf Hp.
    - reflexivity.
    - rewrite !contents_dir, kept_none, filter_app.
      apply WF_dir_inv in Hwf. destruct Hwf as [Hok [Hnd Hsub]].
      f_equal.
      + rewrite filter_map_comm. f_equal. unfold by_name, kept.
        rewrite <- (isort_filter str_cmp _ str_order). reflexivity.
      + rewrite filter_flat_map.
        unfold subdirs, kept. rewrite filter_comm. unfold by_apath.
        rewrite (isort_filter apath_cmp _ apath_order), flat_map_filter.
        apply flat_map_ext_in. intros c Hc.
        apply in_isort, filter_In in Hc. destruct Hc as [Hc _].
        rewrite Forall_forall in IH, Hsub.
        pose proof (child_ok chs c Hok Hc) as Okc.
        assert (Hv : is_valid (append p (fst c)) = true) by (apply valid_append; assumption).
        destruct (excl (append p (fst c))) eqn:Ex; cbn [negb].
        * symmetry. apply filter_nil. intros x Hx.
          destruct (contents_desc no_excl (snd c) _ x (Hsub c Hc) Hv Hx) as [Hvx Hpre].
          assert (Hnr : append p (fst c) <> [SLASH]).
          { apply append_not_root. destruct Okc as [Hne _]. exact Hne. }
          rewrite (Hcl _ _ Hnr Ex Hv Hvx Hpre). reflexivity.
        * apply IH; [exact Hc | apply Hsub; exact Hc | exact Hv].
  Qed.

  Theorem walk_prune_eq_filter excl t :
    WFtree t ->
    (forall a b, a <> [SLASH] -> excl a = true -> is_valid a = true -> is_valid b = true ->
                 comp_prefix (comps a) (comps b) = true -> excl b = true) ->
    tl (walk_rec excl t)
    = filter (fun it => negb (excl (path it))) (tl (walk_rec (fun _ => false) t)).
  Proof.
    intros Hwf Hcl. unfold walk_rec. cbn [tl].
    apply (contents_prune excl t Hcl [SLASH] Hwf). reflexivity.
  Qed.

  (* ---------------------------------------------------------------- *)
  (* The executable well-formedness check decides WFtree.               *)

  Lemma name_ok_spec n : name_ok n = true <-> comp_ok n.
  Proof.
    unfold name_ok, comp_ok.
    rewrite andb_true_iff, part_ok_spec, negb_true_iff, mem_byte_false. tauto.
  Qed.

  Lemma distinct_spec (l : list str) : distinct l = true <-> NoDup l.
  Proof.
    induction l as [|x l IH]; cbn [distinct].
    - split; [constructor | reflexivity].
    - rewrite andb_true_iff, negb_true_iff, IH.
      assert (Hex : existsb (str_eqb x) l = false <-> ~ In x l).
      { split.
        - intros E Hi. assert (existsb (str_eqb x) l = true); [|congruence].
          apply existsb_exists. exists x. split; [exact Hi | apply str_eqb_refl].
        - intros Hn. destruct (existsb (str_eqb x) l) eqn:E; [|reflexivity].
          apply existsb_exists in E. destruct E as [y [Hy Exy]].
          apply str_eqb_eq in Exy. subst y. contradiction. }
      rewrite Hex. split.
      + intros [Hn Hd]. constructor; assumption.
      + intros H. inversion H; subst. auto.
  Qed.

  Theorem wf_treeb_spec t : wf_treeb t = true <-> WFtree t.
  Proof.
    induction t as [k m|m chs IH] using tree_ind'.
    - split; [constructor | reflexivity].
    - cbn [wf_treeb]. rewrite !andb_true_iff, distinct_spec, !forallb_forall.
      rewrite Forall_forall in IH. split.
      + intros [[Hok Hnd] Hsub]. constructor; [|exact Hnd|].
        * apply Forall_forall. intros n Hn. apply name_ok_spec. apply Hok. exact Hn.
        * apply Forall_forall. intros c Hc. apply IH; [exact Hc | apply Hsub; exact Hc].
      + intros H. apply WF_dir_inv in H. destruct H as [Hok [Hnd Hsub]].
        rewrite Forall_forall in Hok, Hsub. split; [split; [|exact Hnd]|].
        * intros n Hn. apply name_ok_spec. apply Hok. exact Hn.
        * intros c Hc. apply IH; [exact Hc | apply Hsub; exact Hc].
  Qed.
End CompleteP.

(* ------------------------------------------------------------------ *)
(* The debug-build order assertion never fires on a well-formed tree.   *)

Section DebugP.
  Context {M : Type}.

  Fixpoint chain_ok (last : option str) (ps : list str) : Prop :=
    match ps with
    | [] => True
    | a :: ps' => order_ok last a = true /\ chain_ok (Some a) ps'
    end.

  Lemma sorted_chain_ok a ps : Sorted lt_ap (a :: ps) -> chain_ok (Some a) ps.
  Proof.
    revert a. induction ps as [|b ps IH]; intros a H; cbn [chain_ok]; [exact I|].
    inversion H as [|? ? Hs Hr]; subst. inversion Hr as [|? ? Hab]; subst.
    split; [|apply IH; exact Hs].
    unfold order_ok, apath_ltb. unfold lt_ap in Hab. rewrite Hab. reflexivity.
  Qed.

  Lemma collect_dbg_ok (excl : str -> bool) fuel : forall last (st : wstate M) l,
      collect excl fuel st = Some l -> chain_ok last (map path l) ->
      collect_dbg excl fuel last st = WOk l.
  Proof.
    induction fuel as [|f IH]; intros last st l Hc Hch; [discriminate|].
    cbn [collect collect_dbg] in *.
    destruct (next_iter excl st) as [e st'|st'|].
    - destruct (collect excl f st') as [l0|] eqn:E; [|discriminate].
      cbn [option_map] in Hc. inversion Hc; subst l. cbn [map chain_ok] in Hch.
      destruct Hch as [Ho Hch]. rewrite Ho, (IH _ _ _ E Hch). reflexivity.
    - apply IH; assumption.
    - inversion Hc; subst. reflexivity.
  Qed.

  Theorem walk_q_dbg_no_panic (excl : str -> bool) (t : tree M) :
    WFtree t -> walk_q_dbg excl t = WOk (walk_rec excl t).
  Proof.
    intros Hwf. unfold walk_q_dbg. apply collect_dbg_ok.
    - apply walk_q_eq_rec.
    - pose proof (walk_locally_sorted excl t Hwf) as Hs.
      unfold walk_rec in *. cbn [map chain_ok] in *. split; [reflexivity|].
      apply sorted_chain_ok. exact Hs.
  Qed.
End DebugP.

(* ------------------------------------------------------------------ *)
(* Examples (non-vacuity; expected order on a concrete tree).           *)

Section Examples.
  Local Open Scope N_scope.
  Definition ex_file (n : N) : tree N := TLeaf KFile n.
  Local Notation f := ex_file.

  (* Metadata = a node number.  Names, in readdir (arbitrary) order:
       /z  /a/{x, d/{q, a.b -> symlink}, "a b"}  /a-b/{é, b/}  /a.b  /"a b"/{c}  /é/{a}
     with '-'=45 '.'=46 ' '=32 all below '/'=47, and é = C3 A9. *)
  Definition ex_tree : tree N :=
    TDir 0
      [ ([122], f 1);
        ([97], TDir 2 [ ([120], f 3);
                        ([100], TDir 4 [ ([113], f 5); ([97;46;98], TLeaf KSymlink 6) ]);
                        ([97;32;98], f 7) ]);
        ([97;45;98], TDir 8 [ ([195;169], f 9); ([98], TDir 10 []) ]);
        ([97;46;98], f 11);
        ([97;32;98], TDir 12 [ ([99], f 13) ]);
        ([195;169], TDir 14 [ ([97], f 15) ]) ].

  Example ex_wf : WFtree ex_tree.
  Proof. apply wf_treeb_spec. vm_compute. reflexivity. Qed.

  (* /  /a  "/a b"  /a-b  /a.b  /z  /é   then inside /a, "/a b", /a-b, /é;
     /a/d's contents come right after /a's own entries *)
  Example ex_walk_q :
    walk_q no_excl ex_tree
    = Some [ ([47], KDir, 0);
             ([47;97], KDir, 2);
             ([47;97;32;98], KDir, 12);
             ([47;97;45;98], KDir, 8);
             ([47;97;46;98], KFile, 11);
             ([47;122], KFile, 1);
             ([47;195;169], KDir, 14);
             ([47;97;47;97;32;98], KFile, 7);
             ([47;97;47;100], KDir, 4);
             ([47;97;47;120], KFile, 3);
             ([47;97;47;100;47;97;46;98], KSymlink, 6);
             ([47;97;47;100;47;113], KFile, 5);
             ([47;97;32;98;47;99], KFile, 13);
             ([47;97;45;98;47;98], KDir, 10);
             ([47;97;45;98;47;195;169], KFile, 9);
             ([47;195;169;47;97], KFile, 15) ].
  Proof. vm_compute. reflexivity. Qed.

  Example ex_walk_q_eq_rec : walk_q no_excl ex_tree = Some (walk_rec no_excl ex_tree).
  Proof. vm_compute. reflexivity. Qed.

  Example ex_walk_q_dbg : walk_q_dbg no_excl ex_tree = WOk (walk_rec no_excl ex_tree).
  Proof. vm_compute. reflexivity. Qed.

  (* the order, checked by evaluation: every adjacent pair is apath_cmp-Lt *)
  Fixpoint adjacent_lt (l : list str) : bool :=
    match l with
    | a :: (b :: _) as l' => apath_ltb a b && adjacent_lt l'
    | _ => true
    end.
  Example ex_sorted : adjacent_lt (map path (walk_rec no_excl ex_tree)) = true.
  Proof. vm_compute. reflexivity. Qed.

  Example ex_valid : forallb is_valid (map path (walk_rec no_excl ex_tree)) = true.
  Proof. vm_compute. reflexivity. Qed.

  Example ex_nodes :
    map imeta (nodes ex_tree) = [0;1;2;3;4;5;6;7;8;9;10;11;12;13;14;15]
    /\ map imeta (walk_rec no_excl ex_tree) = [0;2;12;8;11;1;14;7;4;3;6;5;13;10;9;15].
  Proof. vm_compute. split; reflexivity. Qed.

  (* an exclusion closed under descendants: "/a" and everything below it *)
  Definition ex_excl (b : str) : bool := comp_prefix [[97]] (comps b).

  Example ex_excl_closed : desc_closed ex_excl.
  Proof.
    intros a b _ Ha _ _ Hab. unfold ex_excl in *. eapply comp_prefix_trans; eauto.
  Qed.

  Example ex_prune :
    map imeta (walk_rec ex_excl ex_tree) = [0;12;8;11;1;14;13;10;9;15]
    /\ walk_q ex_excl ex_tree = Some (walk_rec ex_excl ex_tree)
    /\ tl (walk_rec ex_excl ex_tree)
       = filter (fun it => negb (ex_excl (path it))) (tl (walk_rec no_excl ex_tree)).
  Proof. vm_compute. repeat split; reflexivity. Qed.

  (* the root is never tested against the exclusions *)
  Example ex_root_not_excluded :
    walk_q (fun _ => true) ex_tree = Some [([47], KDir, 0)].
  Proof. vm_compute. reflexivity. Qed.

  (* a root that is not a directory: just the root entry *)
  Example ex_leaf_root : walk_q no_excl (f 3) = Some [([47], KFile, 3)].
  Proof. vm_compute. reflexivity. Qed.

  (* Theorem 5 needs the closure hypothesis: excluding the directory /a but
     not what is below it prunes /a/... from the walk, while filtering the
     full walk keeps them. *)
  Definition ex_excl_open (b : str) : bool := str_eqb b [47;97].
  Example walk_prune_needs_closure :
    WFtree ex_tree
    /\ tl (walk_rec ex_excl_open ex_tree)
       <> filter (fun it => negb (ex_excl_open (path it))) (tl (walk_rec no_excl ex_tree)).
  Proof. split; [exact ex_wf|]. vm_compute. discriminate. Qed.

  (* Theorems 2 and the debug assertion need WFtree: two children with the
     same name (impossible on a real filesystem) give an unsorted listing
     and trip the assertion. *)
  Definition ex_dup : tree N := TDir 0 [ ([97], f 1); ([97], f 2) ].
  Example ex_dup_panics :
    wf_treeb ex_dup = false /\ walk_q_dbg no_excl ex_dup = WPanic
    /\ walk_q no_excl ex_dup = Some [([47], KDir, 0); ([47;97], KFile, 1); ([47;97], KFile, 2)].
  Proof. vm_compute. repeat split; reflexivity. Qed.
End Examples.
