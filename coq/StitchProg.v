(* The stitched index reader as a program over storage: Band::open, hunks_available,
   IndexHunkIter, Stitch::next and previous_existing_band issue exactly the transport
   operations of the Rust code, in order.  Model file: definitions only. *)
From CV Require Import Base.Str Apath Entry Store Stitch Tree.
Local Open Scope N_scope.

Section StitchProg.
  Variable pre : bytes -> N.
  Notation prog := (Store.prog).
  Notation hstep := (hunk_step str apath_cmp entry e_apath).
  Notation nlast := (newlast str entry e_apath).

  (* state of a Stitch between two calls of next() *)
  Inductive sstate :=
  | SDone
  | SBefore (n : nat)
  | SInBand (n : nat) (hs : list N) (buf : list entry) (after : option str)
  | SAfter (n : nat).

  (* skipped entries (consumed by the caller's predicate), the entry found, new state,
     last_apath, monitor-error count *)
  Definition sres := (list entry * option entry * sstate * option str * N)%type.

  (* [keep]: Stitch's own yield-time filter (subtree / exclusions);
     [skip]: entries the caller consumes without stopping (merge: basis-only entries). *)
  Variables (keep skip : entry -> bool).

  Fixpoint scan_buf (buf acc : list entry) : list entry * option (entry * list entry) :=
    match buf with
    | [] => (acc, None)
    | e :: buf' =>
        if keep e then (if skip e then scan_buf buf' (acc ++ [e]) else (acc, Some (e, buf')))
        else scan_buf buf' acc
    end.

  Definition meta_is_file (r : reply) : bool := match r with RMeta _ => true | _ => false end.
  (* band_is_closed: only a NON-EMPTY tail closes a band ("fix: a zero-length BANDTAIL ...") *)
  Definition meta_is_closed (r : reply) : bool := match r with RMeta true => true | _ => false end.

  Inductive hstatus := HOk | HErr | HPanic.
  (* Band::open: read_json(BANDHEAD) then the version / flags checks *)
  Definition head_status (r : reply) : hstatus :=
    match r with
    | RData (Good (PlHead HvOk)) | RData (Good (PlHead HvNone)) => HOk
    (* an unparsable version string is an unsupported version (after "fix: an unparsable
       band_format_version ..."); HPanic is no longer produced *)
    | _ => HErr
    end.

  Definition hunk_numbers (fs : list (fpath * bool)) : list N :=
    isort_by N.compare (fun x => x)
      (flat_map (fun p => match fst p with PHunk _ h => [h] | _ => [] end) fs).
  Definition subdir_numbers (ds : list dpath) : list N :=
    isort_by N.compare (fun x => x)
      (flat_map (fun d => match d with DHunkSub _ s => [s] | _ => [] end) ds).

  (* IndexRead::hunks_available: list i/, then each sub-directory in name order.
     A failure makes try_iter_available_hunks return Err ([kfail]). *)
  Fixpoint list_subdirs (b : N) (subs : list N) (acc : list N) (kfail : prog sres) (k : list N -> prog sres)
    : prog sres :=
    match subs with
    | [] => k acc
    | s :: subs' =>
        Do (OpList (DHunkSub b s)) (fun r =>
          match r with
          | RList _ fs => list_subdirs b subs' (acc ++ hunk_numbers fs) kfail k
          | _ => kfail
          end)
    end.

  (* IndexHunkIter::next + the InBand arm of Stitch::next, over the remaining hunks *)
  Fixpoint hunks_loop (n : nat) (hs : list N) (after last : option str) (acc : list entry) (merr : N)
           (k_after : option str -> list entry -> N -> prog sres) : prog sres :=
    match hs with
    | [] => k_after last acc merr
    | h :: hs' =>
        Do (OpRead (PHunk (N.of_nat n) h)) (fun r =>
          match r with
          | RErr ENotFound => k_after last acc merr            (* read_hunk: Ok(None) ends the band *)
          | RData (Good (PlHunk es)) =>
              match hstep (Some es) after with
              | (None, after') => hunks_loop n hs' after' last acc merr k_after
              | (Some out, after') =>
                  let last' := nlast out last in
                  match scan_buf out acc with
                  | (acc', Some (e, buf')) => Ret (acc', Some e, SInBand n hs' buf' after', last', merr)
                  | (acc', None) => hunks_loop n hs' after' last' acc' merr k_after
                  end
              end
          | _ => hunks_loop n hs' after last acc (merr + 1) k_after
              (* Err(err) => { self.errors.push(err); continue }: Stitch reports it to the monitor *)
          end)
    end.

  Fixpoint consecutive (hs : list N) (i : N) : bool :=
    match hs with [] => true | h :: hs' => N.eqb h i && consecutive hs' (i + 1) end.

  (* State::BeforeBand *)
  Definition open_band (n : nat) (last : option str) (acc : list entry) (merr : N)
             (k_after : option str -> list entry -> N -> prog sres) : prog sres :=
    Do (OpRead (PHead (N.of_nat n))) (fun r =>
      match head_status r with
      | HPanic => Panic
      | HErr => k_after last acc (merr + 1)                    (* monitor.error(err); AfterBand *)
      | HOk =>
          Do (OpList (DIndex (N.of_nat n))) (fun r2 =>
            match r2 with
            | RList ds _ =>
                list_subdirs (N.of_nat n) (subdir_numbers ds) [] (k_after last acc (merr + 1))
                  (fun hs =>
                     (* check_hunk_numbers: band.get_info() reads the tail *)
                     Do (OpRead (PTail (N.of_nat n))) (fun r3 =>
                       let count := match r3 with RData (Good (PlTail c)) => c | _ => None end in
                       let bad := negb (consecutive hs 0)
                                  || match count with Some c => negb (N.eqb c (N.of_nat (length hs))) | None => false end in
                       hunks_loop n hs last last acc (if bad then merr + 1 else merr) k_after))
            | _ => k_after last acc (merr + 1)        (* monitor.error(err); AfterBand *)
            end)
      end).

  (* State::AfterBand: closed => Done, else the nearest earlier existing band *)
  Definition after_band (n : nat) (below : option str -> list entry -> N -> prog sres)
             (last : option str) (acc : list entry) (merr : N) : prog sres :=
    Do (OpMeta (PTail (N.of_nat n))) (fun r =>
      if meta_is_closed r then Ret (acc, None, SDone, last, merr) else below last acc merr).

  (* previous_existing_band fused with what follows, structural on the band number *)
  Fixpoint below (n : nat) (last : option str) (acc : list entry) (merr : N) : prog sres :=
    match n with
    | O => Ret (acc, None, SDone, last, merr)
    | S m =>
        Do (OpMeta (PHead (N.of_nat m))) (fun r =>
          if meta_is_file r then open_band m last acc merr (after_band m (below m))
          else below m last acc merr)
    end.

  (* one call of Stitch::next (iterated while the caller's [skip] holds) *)
  Definition snext (st : sstate) (last : option str) (merr : N) : prog sres :=
    match st with
    | SDone => Ret ([], None, SDone, last, merr)
    | SBefore n => open_band n last [] merr (after_band n (below n))
    | SInBand n hs buf after =>
        match scan_buf buf [] with
        | (acc, Some (e, buf')) => Ret (acc, Some e, SInBand n hs buf' after, last, merr)
        | (acc, None) => hunks_loop n hs after last acc merr (after_band n (below n))
        end
    | SAfter n => after_band n (below n) last [] merr
    end.
End StitchProg.
