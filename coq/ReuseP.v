(* C14, the positive half: a backup REUSES the recorded addresses of every file that is
   unchanged with respect to its basis.  Definitions: Reuse.v.

   A. The lazily stitched basis reader, called with ANY [skip] predicate in ANY state of the
      reader, yields a prefix of [rem] and leaves a state whose [rem] is the rest.
   B. The full listing [rem a (SBefore n) None] is the pure [stitch_pure], and is strictly
      sorted in a conforming archive.
   C. The fault-free logic: combination rules.
   D. The writer: what is pending or recorded stays recorded.
   E. The merge loop finds every reusable basis entry.
   F. The theorems.
   G. Examples. *)
From Coq Require Import Lia Sorted Permutation.
From CV Require Import Base.Str Base.StrP Base.Order Apath ApathP Entry Stitch StitchP Tree Codec CodecP Store
  StitchProg Backup Ops Delete Read SafeP Inv RefIntP FrameP Valid ValidP Truth TruthP Conf ConfP E2E E2EP
  History HistoryP DiffP Reuse.
From CV Require HealthyP.
Local Open Scope N_scope.

(* ------------------------------------------------------------------------- *)
(** * A. The lazy reader                                                       *)
(* ------------------------------------------------------------------------- *)
Section Lazy.
  Variable pre : bytes -> N.
  Variable a : arch.
  Variable skip : entry -> bool.
  Notation fin := (ValidP.fin pre).
  Notation rem := (Reuse.rem pre).
  Notation tail_rest := (Reuse.tail_rest pre).
  Notation below_rest := (Reuse.below_rest pre).
  Notation ob_rest := (Reuse.ob_rest pre).

  (* the result of one call: the skipped entries (appended to [acc]) and the entry found
     are a prefix of [R]; the new state yields the rest *)
  Definition LZ (top : nat) (R acc : list entry) (res : arch * outcome sres) : Prop :=
    exists sk na st' last' merr',
      res = (a, Done (acc ++ sk, na, st', last', merr'))
      /\ forallb skip sk = true
      /\ (st_top st' <= top)%nat
      /\ match na with
         | Some e => skip e = false /\ R = sk ++ e :: rem a st' last'
         | None => st' = SDone /\ R = sk
         end.

  Lemma LZ_mono top top' R acc res : (top <= top')%nat -> LZ top R acc res -> LZ top' R acc res.
  Proof.
    intros Hle (sk & na & st' & last' & merr' & E & H1 & H2 & H3).
    exists sk, na, st', last', merr'. repeat split; auto. lia.
  Qed.

  Lemma LZ_pre top R acc pr res :
    forallb skip pr = true -> LZ top R (acc ++ pr) res -> LZ top (pr ++ R) acc res.
  Proof.
    intros Hpr (sk & na & st' & last' & merr' & E & H1 & H2 & H3).
    exists (pr ++ sk), na, st', last', merr'. rewrite app_assoc.
    split; [exact E|]. split; [rewrite forallb_app, Hpr, H1; reflexivity|]. split; [exact H2|].
    destruct na as [e|].
    - destruct H3 as [Se ->]. split; [exact Se|]. rewrite app_assoc. reflexivity.
    - destruct H3 as [-> ->]. split; reflexivity.
  Qed.

  Lemma LZ_done top acc last merr : LZ top [] acc (a, Done (acc, None, SDone, last, merr)).
  Proof.
    exists [], None, SDone, last, merr. rewrite app_nil_r.
    split; [reflexivity|]. split; [reflexivity|]. split; [cbn [st_top]; lia|]. split; reflexivity.
  Qed.

  Lemma LZ_ext top R R' acc res : R = R' -> LZ top R acc res -> LZ top R' acc res.
  Proof. intros ->. auto. Qed.

  Section Band.
    Variable n : nat.
    Notation kaft := (after_band n (below keep_all skip n)).
    Hypothesis Hk : forall last acc merr, LZ n (tail_rest a n last) acc (fin (kaft last acc merr) a).

    Lemma hunks_loop_lazy hs : forall after last acc merr,
      LZ n (let '(r, l) := hl_rest a n hs after last in r ++ tail_rest a n l) acc
         (fin (hunks_loop keep_all skip n hs after last acc merr kaft) a).
    Proof.
      induction hs as [|h hs IH]; intros after last acc merr; cbn [hunks_loop hl_rest].
      - cbn [app]. apply Hk.
      - rewrite fin_read.
        destruct (rd a (PHunk (N.of_nat n) h)) as [|e|x|ds fs|ne]; try apply IH.
        + destruct e; try apply IH. cbn [app]. apply Hk.
        + destruct x as [p| |]; try apply IH. destruct p as [|v|t|es|c0]; try apply IH.
          destruct (phstep (Some es) after) as [[out|] after']; [|apply IH].
          destruct (hl_rest a n hs after' (pnlast out last)) as [r l] eqn:Er.
          destruct (scan_buf keep_all skip out acc) as [acc' o] eqn:Es.
          destruct (FrameP.scan_buf_spec skip _ _ _ _ Es) as [pr [-> [Hpr Ho]]].
          destruct o as [[e buf']|].
          * destruct Ho as [Eo Se]. rewrite fin_Ret.
            exists pr, (Some e), (SInBand n hs buf' after'), (pnlast out last), merr.
            split; [reflexivity|]. split; [exact Hpr|]. split; [cbn [st_top]; lia|].
            split; [exact Se|]. cbn [Reuse.rem]. rewrite Er, Eo, <- !app_assoc. reflexivity.
          * subst out. apply (LZ_ext n (pr ++ (r ++ tail_rest a n l))); [apply app_assoc|].
            apply LZ_pre; [exact Hpr|].
            eapply LZ_ext; [|apply IH]. rewrite Er. reflexivity.
    Qed.

    Lemma open_band_lazy last acc merr :
      LZ n (let '(r, l) := ob_rest a n last in r ++ tail_rest a n l) acc
         (fin (open_band keep_all skip n last acc merr kaft) a).
    Proof.
      unfold open_band, Reuse.ob_rest. rewrite fin_read.
      destruct (head_status (rd a (PHead (N.of_nat n)))) eqn:E;
        [| cbn [app]; apply Hk | exfalso; exact (head_status_not_panic _ E)].
      rewrite fin_list. unfold ls at 1 2. destruct (has_dir a (DIndex (N.of_nat n))); [|cbn [app]; apply Hk].
      rewrite list_subdirs_pure by apply subdir_listed_v. cbn [app].
      rewrite fin_read. fold (hunks_listed pre a (N.of_nat n)).
      apply hunks_loop_lazy.
    Qed.
  End Band.

  Lemma after_band_lazy n :
    (forall last acc merr, LZ n (below_rest a n last) acc (fin (below keep_all skip n last acc merr) a)) ->
    forall last acc merr,
      LZ n (tail_rest a n last) acc (fin (after_band n (below keep_all skip n) last acc merr) a).
  Proof.
    intros Hb last acc merr. rewrite after_band_pure. unfold Reuse.tail_rest.
    destruct (closed a (N.of_nat n)); [|apply Hb]. apply LZ_done.
  Qed.

  Lemma below_lazy n : forall last acc merr,
    LZ n (below_rest a n last) acc (fin (below keep_all skip n last acc merr) a).
  Proof.
    induction n as [|m IH]; intros last acc merr; cbn [below Reuse.below_rest].
    - rewrite fin_Ret. apply LZ_done.
    - rewrite fin_meta. destruct (meta_is_file (mt a (PHead (N.of_nat m)))).
      + apply (LZ_mono m); [lia|].
        eapply LZ_ext; [|apply (open_band_lazy m (after_band_lazy m IH))].
        unfold Reuse.tail_rest. reflexivity.
      + apply (LZ_mono m); [lia|]. apply IH.
  Qed.

  (** one call of Stitch::next with the caller's [skip], in any state of the reader *)
  Theorem snext_lazy st last merr :
    LZ (st_top st) (rem a st last) [] (fin (snext keep_all skip st last merr) a).
  Proof.
    destruct st as [|n|n hs buf after|n]; cbn [snext Reuse.rem st_top].
    - rewrite fin_Ret. apply (LZ_done 0 []).
    - apply (open_band_lazy n (after_band_lazy n (below_lazy n))).
    - destruct (scan_buf keep_all skip buf []) as [acc o] eqn:Es.
      destruct (FrameP.scan_buf_spec skip _ _ _ _ Es) as [pr [-> [Hpr Ho]]]. cbn [app].
      destruct o as [[e buf']|].
      + destruct Ho as [-> Se]. rewrite fin_Ret.
        exists pr, (Some e), (SInBand n hs buf' after), last, merr.
        split; [reflexivity|]. split; [exact Hpr|]. split; [cbn [st_top]; lia|].
        split; [exact Se|]. cbn [Reuse.rem]. rewrite <- app_assoc. reflexivity.
      + subst buf. apply LZ_pre; [exact Hpr|]. cbn [app].
        apply (hunks_loop_lazy n (after_band_lazy n (below_lazy n))).
    - apply (after_band_lazy n (below_lazy n)).
  Qed.
End Lazy.

(* ------------------------------------------------------------------------- *)
(** * B. The full listing                                                      *)
(* ------------------------------------------------------------------------- *)
Definition skT1 (e : entry) : bool := true.

Section Full.
  Variable pre : bytes -> N.
  Variable a : arch.
  Notation rem := (Reuse.rem pre).

  (* run to the end, the reader yields exactly [rem] *)
  Lemma snext_all st last merr :
    exists lastf merrf,
      ValidP.fin pre (snext keep_all skT1 st last merr) a = (a, Done (rem a st last, None, SDone, lastf, merrf)).
  Proof.
    destruct (snext_lazy pre a skT1 st last merr) as (sk & na & st' & last' & merr' & E & _ & _ & H).
    destruct na as [e|]; [destruct H as [H _]; discriminate H|].
    destruct H as [-> ->]. exists last', merr'. exact E.
  Qed.

  (** the full listing from [SBefore n] is the pure stitched listing of ValidP *)
  Theorem rem_stitch_pure n :
    rem a (SBefore n) None = snd (fst (stitch_pure pre keep_all a n)).
  Proof.
    destruct (snext_all (SBefore n) None 0) as (lastf & merrf & E).
    change skT1 with (fun _ : entry => true) in E. rewrite snext_pure in E.
    destruct (stitch_pure pre keep_all a n) as [[l ac] m]. cbn [fst snd].
    inversion E. reflexivity.
  Qed.

  (** ... and the pure stitch of the view (Stitch.v) *)
  Theorem rem_pstitch n :
    WFbands a -> rem a (SBefore n) None = pstitch_keep keep_all (lview pre a) n.
  Proof.
    intros WB.
    destruct (snext_all (SBefore n) None 0) as (lastf & merrf & E).
    destruct (FrameP.snext_refines pre keep_all a WB n 0) as (lastf' & merrf' & Ev).
    destruct (evals_run_ret pre a _ _ Ev) as [tr Hr].
    apply (run_fin pre) in Hr. change skT with skT1 in Hr. rewrite Hr in E.
    inversion E as [E1]. symmetry. exact E1.
  Qed.
End Full.

(* the concatenation of the good hunks of a conforming band, in increasing hunk number,
   is strictly sorted *)
Lemma hunks_concat_sorted (a : arch) b hs :
  HunksSorted a b -> StronglySorted N.lt hs ->
  ksorted str apath_cmp entry e_apath (hunks_entries entry (map (hunk_content a b) hs)).
Proof.
  intros [S1 S2] Hs. induction Hs as [|h hs Hs IH Hlt].
  - constructor.
  - cbn [map]. unfold hunks_entries. cbn [map concat]. fold (hunks_entries entry (map (hunk_content a b) hs)).
    apply (ksorted_app str apath_cmp entry e_apath); [| exact IH |].
    + unfold hunk_content. destruct (get a (PHunk b h)) as [[[| | |es|]| |]|] eqn:G; try constructor.
      apply (S1 h es) in G. apply (SS_map (klt str apath_cmp) e_apath). exact G.
    + intros e e' He He'.
      unfold hunk_content in He. destruct (get a (PHunk b h)) as [[[| | |es|]| |]|] eqn:G; try destruct He.
      unfold hunks_entries in He'. apply in_concat in He'. destruct He' as [l [Hl He']].
      apply in_map_iff in Hl. destruct Hl as [o [<- Ho]]. apply in_map_iff in Ho. destruct Ho as [h' [<- Hh']].
      unfold hunk_content in He'. destruct (get a (PHunk b h')) as [[[| | |es'|]| |]|] eqn:G'; try destruct He'.
      rewrite Forall_forall in Hlt. exact (S2 h h' es es' e e' (Hlt h' Hh') G G' He He').
Qed.

Section Sorted.
  Variable pre : bytes -> N.
  Variable a : arch.
  Hypothesis WF : WFidx a.
  Hypothesis HC : Conf a.

  Lemma lview_sorted : BandsSorted str apath_cmp entry e_apath (lview pre a).
  Proof.
    intros n. unfold Stitch.entries. destruct (Stitch.band_opens (lview pre a) n); [|constructor].
    unfold Stitch.band_hunks, lview, mk_view. destruct (has_dir a (DBand (N.of_nat n))); [|constructor].
    cbn [b_hunks]. apply hunks_concat_sorted; [apply (HC (N.of_nat n))|].
    apply (listed_hunks_sorted pre a WF).
  Qed.

  (** the listing the basis reader yields from any band is strictly sorted by apath *)
  Theorem rem_sorted n : asorted (map e_apath (Reuse.rem pre a (SBefore n) None)).
  Proof.
    rewrite rem_pstitch by apply WF.
    exact (proj1 (stitch_from_strictly_sorted str apath_cmp entry e_apath apath_order keep_all
                    (lview pre a) n None lview_sorted)).
  Qed.

  Corollary basis_sorted : asorted (map e_apath (basis_of pre a)).
  Proof.
    unfold basis_of. destruct (newest a) as [b|]; [|constructor].
    rewrite <- rem_stitch_pure. apply rem_sorted.
  Qed.
End Sorted.

(** [basis_of] is what the basis reader of [backup_prog] (started, as the program does, at
    [SBefore] of the newest band directory with no last_apath) yields when run to its end *)
Theorem basis_reader_yields_basis_of pre a b :
  newest a = Some b ->
  exists l m,
    ValidP.fin pre (snext keep_all (fun _ => true) (SBefore (N.to_nat b)) None 0) a
    = (a, Done (basis_of pre a, None, SDone, l, m)).
Proof.
  intros Hnew. rewrite snext_pure. unfold basis_of. rewrite Hnew.
  destruct (stitch_pure pre keep_all a (N.to_nat b)) as [[l ac] m]. exists l, m. reflexivity.
Qed.

(* ------------------------------------------------------------------------- *)
(** * C. The fault-free logic: combination rules                               *)
(* ------------------------------------------------------------------------- *)
Section NFRules.
  Variable pre : bytes -> N.
  Notation nf := (E2E.nf pre).

  (* the run is deterministic: two postconditions proved separately hold together *)
  Lemma nf_conj {R} (Q1 Q2 : R -> arch -> Prop) (p : prog R) : forall a,
    nf Q1 p a -> nf Q2 p a -> nf (fun r a' => Q1 r a' /\ Q2 r a') p a.
  Proof. induction p as [r|o k IH|]; intros a H1 H2; cbn [E2E.nf] in *; auto. Qed.

  (* what holds under every fault list holds without faults *)
  Lemma nf_safe {R} (J : arch -> Prop) (Q1 Q2 : R -> arch -> Prop) (p : prog R) : forall a,
    nf Q1 p a -> Inv.safe pre J Q2 p a -> nf (fun r a' => Q1 r a' /\ Q2 r a') p a.
  Proof.
    induction p as [r|o k IH|]; intros a H1 H2; cbn [E2E.nf Inv.safe] in *; auto.
    destruct H2 as [H2 _]. destruct (H2 NoFault) as [_ H3]. cbn [exec] in H3. apply IH; assumption.
  Qed.

  (* a state invariant kept by every operation of the class the program emits *)
  Lemma nf_inv {R} (P : op -> Prop) (J : arch -> Prop) (Q : R -> arch -> Prop) (p : prog R) :
    (forall a o, P o -> J a -> J (fst (exec_ok pre a o))) ->
    emits_only P p -> forall a, J a -> nf Q p a -> nf (fun r a' => Q r a' /\ J a') p a.
  Proof.
    intros HJ He. induction He as [r| |o k Ho _ IH]; intros a Ha H; cbn [E2E.nf] in *; auto.
  Qed.

  (* a reading program: the state does not change, the result is that of [run] *)
  Lemma nf_reads_out {R} (Q : R -> arch -> Prop) (p : prog R) a r :
    emits_only reads_only p -> snd (run pre p a []) = Done r -> Q r a -> nf Q p a.
  Proof.
    intros He. induction He as [r0| |o k Ho _ IH]; intros Hr HQ; cbn [E2E.nf].
    - cbn in Hr. inversion Hr; subst. exact HQ.
    - cbn in Hr. discriminate Hr.
    - rewrite run_Do in Hr. cbn [hdf tl exec snd] in Hr.
      rewrite (FrameP.exec_ok_read_same pre a o Ho) in *. apply IH; assumption.
  Qed.
End NFRules.

(* ------------------------------------------------------------------------- *)
(** * D. The writer: what is pending or recorded stays recorded                *)
(* ------------------------------------------------------------------------- *)
Lemma Recorded_same a a' b e : HunksSame a a' -> Recorded a b e -> Recorded a' b e.
Proof. intros HS (h & es & G & Hin). exists h, es. rewrite HS. auto. Qed.

Section Writer.
  Variable pre : bytes -> N.
  Variable bnew : N.
  Notation nf := (E2E.nf pre).
  Notation csafe := (Inv.safe pre (fun _ => True)).

  (* in the index writer's hands, or already in a hunk of the new band *)
  Definition Pend (a : arch) (w : wst) (e : entry) : Prop := In e (w_entries w) \/ Recorded a bnew e.

  (* what a backup records for [it] when [copy_entry] is handed the basis entry [b] *)
  Definition reuses (c : cfg) (w : wst) (basis : option entry) (it : sitem) (w' : wst) : Prop :=
    forall b, basis = Some b -> s_kind (si_e it) = KFile ->
              unchanged w (si_e it) b && blocks_present w b = true ->
              In (reused_entry c it b) (w_entries w').

  Definition CEQ (c : cfg) (a : arch) (w : wst) (basis : option entry) (it : sitem)
             (rw : bool * wst) (a' : arch) : Prop :=
    HunksSame a a' /\ incl (w_entries w) (w_entries (snd rw)) /\ reuses c w basis it (snd rw).

  Lemma copy_entry_k c w basis it a : csafe (CEQ c a w basis it) (copy_entry pre c w basis it) a.
  Proof.
    unfold copy_entry.
    assert (Hpush : forall w1 e, w_entries w1 = w_entries w ->
              (forall b, basis = Some b -> s_kind (si_e it) = KFile ->
                 unchanged w (si_e it) b && blocks_present w b = true -> e = reused_entry c it b) ->
              forall a1, HunksSame a a1 -> CEQ c a w basis it (true, push_entry w1 e) a1).
    { intros w1 e Ew He a1 HS. split; [exact HS|]. cbn [snd push_entry upd_index w_entries]. rewrite Ew. split.
      - intros x Hx. apply in_or_app. left. exact Hx.
      - intros b Eb Hk Hc. apply in_or_app. right. left. apply He; assumption. }
    destruct (s_kind (si_e it)) eqn:Ek.
    - destruct basis as [b|].
      + destruct (unchanged w (si_e it) b && blocks_present w b) eqn:Ec.
        * cbn [Inv.safe]. apply Hpush; [reflexivity | | apply HunksSame_refl].
          intros b' Eb _ _. inversion Eb; subst. reflexivity.
        * assert (Hno : forall e b', Some b = Some b' -> KFile = KFile ->
                    unchanged w (si_e it) b' && blocks_present w b' = true -> e = reused_entry c it b').
          { intros e b' Eb _ Hc. inversion Eb; subst. congruence. }
          destruct (s_size (si_e it) =? 0);
            [cbn [Inv.safe]; apply Hpush; [reflexivity | apply Hno | apply HunksSame_refl]|].
          destruct (s_size (si_e it) <=? c_sfc c).
          -- eapply gsafe_weaken; [|apply comb_push_c].
             intros rw a1 (HS & (_ & _ & _ & I4 & _) & _). split; [exact HS|]. split.
             ++ rewrite I4. apply incl_refl.
             ++ intros b' Eb _ Hc. inversion Eb; subst. congruence.
          -- eapply gsafe_bind; [|apply store_chunks_c].
             intros [o w'] a1 [HS (ex & wr & E)]. cbn [snd] in E. subst w'.
             destruct o as [addrs|]; cbn [Inv.safe].
             ++ apply Hpush; [reflexivity | apply Hno | exact HS].
             ++ split; [exact HS|]. split; [apply incl_refl|].
                intros b' Eb _ Hc. inversion Eb; subst. congruence.
      + assert (Hno : forall e b', @None entry = Some b' -> KFile = KFile ->
                  unchanged w (si_e it) b' && blocks_present w b' = true -> e = reused_entry c it b')
          by (intros e b' Eb; discriminate Eb).
        destruct (s_size (si_e it) =? 0);
          [cbn [Inv.safe]; apply Hpush; [reflexivity | apply Hno | apply HunksSame_refl]|].
        destruct (s_size (si_e it) <=? c_sfc c).
        * eapply gsafe_weaken; [|apply comb_push_c].
          intros rw a1 (HS & (_ & _ & _ & I4 & _) & _). split; [exact HS|]. split.
          -- rewrite I4. apply incl_refl.
          -- intros b' Eb. discriminate Eb.
        * eapply gsafe_bind; [|apply store_chunks_c].
          intros [o w'] a1 [HS (ex & wr & E)]. cbn [snd] in E. subst w'.
          destruct o as [addrs|]; cbn [Inv.safe].
          -- apply Hpush; [reflexivity | apply Hno | exact HS].
          -- split; [exact HS|]. split; [apply incl_refl|]. intros b' Eb. discriminate Eb.
    - cbn [Inv.safe]. apply Hpush; [reflexivity | intros b' _ Hk; discriminate Hk | apply HunksSame_refl].
    - cbn [Inv.safe]. apply Hpush; [reflexivity | intros b' _ Hk; discriminate Hk | apply HunksSame_refl].
    - cbn [Inv.safe]. split; [apply HunksSame_refl|]. split; [apply incl_refl|].
      intros b' _ Hk. congruence.
  Qed.

  (* success, the writer invariant, the band, nothing pending, everything recorded *)
  Definition FLQ (a : arch) (w : wst) (rw : bool * wst) (a' : arch) : Prop :=
    fst rw = true /\ WI a' (snd rw) /\ w_band (snd rw) = bnew /\ w_entries (snd rw) = []
    /\ forall e, Pend a w e -> Recorded a' bnew e.

  Lemma finish_hunk_r w a : WI a w -> w_band w = bnew -> nf (FLQ a w) (finish_hunk w) a.
  Proof.
    intros HW Hb. unfold finish_hunk. destruct (w_entries w) as [|e0 es0] eqn:Ee.
    - cbn [E2E.nf]. unfold FLQ, Pend. cbn [fst snd].
      split; [reflexivity|]. split; [exact HW|]. split; [exact Hb|]. split; [exact Ee|].
      intros e [Hin|H]; [rewrite Ee in Hin; destruct Hin | exact H].
    - pose proof HW as (H1 & H2 & H3 & H4 & H5 & H6 & H7 & H8 & H9 & H10).
      assert (Hwrite : forall a1, files a1 = files a -> (forall x, has_dir a x = true -> has_dir a1 x = true) ->
                has_dir a1 (DHunkSub (w_band w) (w_seq w / HUNKS_PER_SUBDIR)) = true ->
                nf (FLQ a w)
                  (Do (OpWrite (PHunk (w_band w) (w_seq w)) (PlHunk (sort_entries (e0 :: es0))) CreateNew)
                      (fun r => if is_ok r then Ret (true, upd_index w [] (w_seq w + 1) (w_hunks w + 1))
                                else Ret (false, w))) a1).
      { intros a1 Hf Hm Hd. pose proof (WI_dirs a a1 w Hf Hm HW) as HW1.
        assert (G1 : forall f, get a1 f = get a f) by (intros f; unfold get; rewrite Hf; reflexivity).
        apply nf_write_new; [exact Hd | |].
        - left. destruct HW1 as (_ & _ & _ & _ & H5' & _). apply H5'. lia.
        - cbn [is_ok E2E.nf]. unfold FLQ. cbn [fst snd].
          split; [reflexivity|]. split; [apply WI_hunk_written; assumption|].
          split; [exact Hb|]. split; [reflexivity|].
          intros e [Hin|(h & es & G & Hin)].
          + exists (w_seq w), (sort_entries (e0 :: es0)). rewrite Hb. split; [apply get_set_same|].
            rewrite Ee in Hin. eapply Permutation_in; [apply Permutation_sym, sort_entries_perm | exact Hin].
          + exists h, es. split; [|exact Hin]. rewrite get_set_other; [rewrite G1; exact G|].
            intros E. inversion E; subst. rewrite H5 in G; [discriminate G | lia]. }
      destruct (N.eqb (w_seq w mod HUNKS_PER_SUBDIR) 0) eqn:Em.
      + apply (nf_mkdir pre _ _ (DIndex (w_band w))); [reflexivity | exact H3|].
        intros a1 Hf Hm Hd. cbn [is_ok]. apply Hwrite; assumption.
      + apply Hwrite; auto. apply H4. apply N.eqb_neq. exact Em.
  Qed.

  Lemma flush_group_r w a : WI a w -> w_band w = bnew -> nf (FLQ a w) (flush_group pre w) a.
  Proof.
    intros HW Hb. unfold flush_group.
    eapply nf_bind; [|apply (nf_safe pre _ _ _ _ a (comb_flush_nf pre w a HW) (comb_flush_c pre w a))].
    intros [ok w1] a1 [(Hok & HW1 & Hb1) ((HS & (I1 & I2 & I3 & I4 & I5) & _) & _)]. cbn [fst snd] in *. subst ok.
    set (w1' := upd_comb (upd_index w1 (w_entries w1 ++ w_fin w1) (w_seq w1) (w_hunks w1)) (w_buf w1) (w_queue w1) []).
    assert (HW1' : WI a1 w1') by (eapply WI_ext; [| | | |exact HW1]; reflexivity).
    eapply nf_weaken; [|apply (finish_hunk_r w1' a1 HW1'); unfold w1'; wsimpl; congruence].
    intros [ok2 w2] a2 (F1 & F2 & F3 & F4 & F5). unfold FLQ. cbn [fst snd] in *.
    split; [exact F1|]. split; [exact F2|]. split; [exact F3|]. split; [exact F4|].
    intros e [Hin|Hrec]; apply F5.
    - left. unfold w1'. wsimpl. rewrite I4. apply in_or_app. left. exact Hin.
    - right. eapply Recorded_same; eassumption.
  Qed.
End Writer.

(* ------------------------------------------------------------------------- *)
(** * E. The merge loop finds every reusable basis entry                       *)
(* ------------------------------------------------------------------------- *)
Lemma nonempty_not_Empty x : nonempty x = true -> x <> Empty.
Proof. intros H ->. discriminate H. Qed.

Section Merge.
  Variable pre : bytes -> N.
  Variable c : cfg.
  Variable a0 : arch.
  Variables bp bnew : N.                  (* the basis band, the band being written *)
  Hypothesis Hlt : bp < bnew.
  Notation nf := (E2E.nf pre).
  Notation rem := (Reuse.rem pre a0).
  Notation Pend := (Pend bnew).

  (* the bands up to [bp] are literally those of [a0]; nothing of [a0] is lost *)
  Definition SI (a : arch) : Prop := Frame bp a0 a /\ Old a0 a.

  Lemma SI_step a o : body_op bnew o -> SI a -> SI (fst (exec_ok pre a o)).
  Proof.
    intros Ho [FR HO]. split.
    - exact (exec_high_frame pre bp a0 a o NoFault (body_high bp bnew o Hlt Ho) FR).
    - eapply Old_trans; [exact HO|]. exact (exec_add_Old pre a o NoFault (body_add bnew o Ho)).
  Qed.

  Lemma snext_low_any keep skip st last merr :
    N.of_nat (st_top st) <= bp -> emits_only (low_op bp) (snext keep skip st last merr).
  Proof.
    intros Hn. destruct st as [|n|n hs buf after|n]; cbn [st_top] in Hn.
    - constructor.
    - apply snext_low. exact Hn.
    - unfold snext. destruct (scan_buf keep skip buf []) as [acc [[e buf']|]]; [constructor|].
      apply hunks_loop_low; [exact Hn|]. intros l x m. apply after_band_low; [exact Hn|]. apply below_low. lia.
    - unfold snext. apply after_band_low; [exact Hn|]. apply below_low. lia.
  Qed.

  (* one call of the basis reader in a later state of the backup: what it returns is
     determined by [a0] *)
  Lemma snext_call a skip st last merr (Q : sres -> arch -> Prop) :
    Frame bp a0 a -> N.of_nat (st_top st) <= bp ->
    (forall sk na st' last' merr',
        forallb skip sk = true -> (st_top st' <= st_top st)%nat ->
        match na with
        | Some e => skip e = false /\ rem st last = sk ++ e :: rem st' last'
        | None => st' = SDone /\ rem st last = sk
        end -> Q (sk, na, st', last', merr') a) ->
    nf Q (snext keep_all skip st last merr) a.
  Proof.
    intros FR Hn HQ.
    destruct (snext_lazy pre a0 skip st last merr) as (sk & na & st' & last' & merr' & E & H1 & H2 & H3).
    cbn [app] in E. unfold ValidP.fin in E. pose proof (f_equal snd E) as E2. cbn [snd] in E2.
    destruct (low_run pre bp a0 a FR _ (snext_low_any keep_all skip st last merr Hn) []) as [_ Eo].
    apply (nf_reads_out pre Q _ a (sk, na, st', last', merr')).
    - apply snext_eo. auto.
    - rewrite Eo. exact E2.
    - apply HQ; assumption.
  Qed.

  Notation spath := Conf.spath.

  (* the continuation of the merge loop once the basis has been advanced *)
  Definition kbody (it : sitem) (src : list sitem) (w : wst)
             (skipped : list entry) (na : option entry) (st' : sstate) (last' : option str) (merr : N) : prog bres :=
    let w0 := upd_counts w (w_errors w) merr (w_deleted w + N.of_nat (length skipped)) in
    let '(basis, na') :=
      match na with
      | Some e => match apath_cmp (e_apath e) (s_apath (si_e it)) with
                  | Eq => (Some e, None) | _ => (None, na) end
      | None => (None, None)
      end in
    bind (copy_entry pre c w0 basis it) (fun rw =>
      let '(ok, w1) := rw in
      let w2 := if ok then w1 else upd_counts w1 (w_errors w1 + 1) (w_merr w1 + 1) (w_deleted w1) in
      if ok && (c_meph c <=? N.of_nat (length (w_entries w2)) + N.of_nat (length (w_queue w2))) then
        bind (flush_group pre w2) (fun rw2 =>
          let '(ok2, w3) := rw2 in
          if ok2 then merge_loop pre c src na' st' last' w3 else Ret (fail w3))
      else merge_loop pre c src na' st' last' w2).

  (* the postcondition: what was pending or recorded is recorded, and every file item still
     to come is recorded with the addresses of its reusable basis entry *)
  Definition MQ (a : arch) (w : wst) (X : list entry) (src : list sitem) (r : bres) (a' : arch) : Prop :=
    (forall e, Pend a w e -> Recorded a' bnew e)
    /\ (forall it be, In it src -> In be X -> Reusable a0 it be -> Recorded a' bnew (reused_entry c it be)).

  Lemma reusable_present a w it be :
    WI a w -> SI a -> Reusable a0 it be ->
    unchanged w (si_e it) be && blocks_present w be = true.
  Proof.
    intros HW [_ [_ HOf]] (_ & _ & Hs & Hb).
    change (unchanged w (si_e it) be) with (same_meta (si_e it) be). rewrite Hs. cbn [andb].
    unfold blocks_present. apply forallb_forall. intros ad Had.
    destruct (Hb ad Had) as (x & G & Hx).
    destruct HW as (_ & _ & _ & _ & _ & _ & H7 & _).
    apply (H7 _ x); [|exact Hx]. apply HOf; [exact G | apply nonempty_not_Empty; exact Hx].
  Qed.

  Lemma merge_loop_reuse src : forall peek st last w a,
    WI a w -> SI a -> w_band w = bnew -> N.of_nat (st_top st) <= bp ->
    asorted (map e_apath (opt_list peek ++ rem st last)) ->
    SrcSorted src ->
    nf (MQ a w (opt_list peek ++ rem st last) src) (merge_loop pre c src peek st last w) a.
  Proof.
    induction src as [|it src IH]; intros peek st last w a HW HS Hb Hn Hsort Hsrc; cbn [merge_loop].
    - apply (nf_bind pre (fun _ a' => a' = a)); [|apply snext_nf; intros r; reflexivity].
      intros [[[[skipped na] st'] last'] merr] a' ->.
      set (w1 := upd_counts w (w_errors w) merr
                   (w_deleted w + N.of_nat (length skipped) + match peek with Some _ => 1 | None => 0 end)).
      assert (HW1 : WI a w1) by (eapply WI_ext; [| | | |exact HW]; reflexivity).
      eapply nf_bind; [|apply (flush_group_r pre bnew w1 a HW1 Hb)].
      intros [ok w2] a2 (Hok & HW2 & Hb2 & He2 & Hrec). cbn [fst snd] in *. subst ok.
      pose proof HW2 as (_ & H2 & _ & _ & _ & H6 & _).
      apply nf_write_new; [exact H2 | left; exact H6 |].
      cbn [is_ok E2E.nf]. split.
      + intros e He. destruct (Hrec e He) as (h & es & G & Hin).
        exists h, es. split; [|exact Hin]. rewrite get_set_other by discriminate. exact G.
      + intros it be [].
    - set (p := s_apath (si_e it)).
      set (X := opt_list peek ++ rem st last) in *.
      unfold SrcSorted in Hsrc. cbn [map] in Hsrc.
      assert (Hsrc' : SrcSorted src) by (inversion Hsrc; assumption).
      assert (Hlater : forall it', In it' src -> apath_cmp p (spath it') = Lt).
      { intros it' Hin. inversion Hsrc as [|? ? _ F]; subst. rewrite Forall_forall in F.
        apply (F (spath it') (in_map spath _ _ Hin)). }
      assert (Hp_le : forall it', In it' (it :: src) -> apath_cmp p (spath it') <> Gt).
      { intros it' [<-|Hin]; [unfold p, spath; rewrite (co_refl apath_cmp apath_order); discriminate|].
        rewrite (Hlater it' Hin). discriminate. }
      (* the continuation after the basis has been advanced to the first entry not before p *)
      assert (Hk : forall (skipped : list entry) na st' last' merr,
        N.of_nat (st_top st') <= bp -> (na = None -> rem st' last' = []) ->
        asorted (map e_apath (opt_list na ++ rem st' last')) ->
        match na with Some e => beforeb p e = false | None => True end ->
        (forall it' be, In it' (it :: src) -> In be X -> Reusable a0 it' be -> In be (opt_list na ++ rem st' last')) ->
        nf (MQ a w X (it :: src)) (kbody it src w skipped na st' last' merr) a).
      { intros skipped na st' last' merr Hn' Hnone Hsort' Hnb Htr. unfold kbody. cbv zeta.
        set (w0 := upd_counts w (w_errors w) merr (w_deleted w + N.of_nat (length skipped))).
        assert (HW0 : WI a w0) by (eapply WI_ext; [| | | |exact HW]; reflexivity).
        assert (Hb0 : w_band w0 = bnew) by exact Hb.
        fold p.
        destruct (match na with
                  | Some e => match apath_cmp (e_apath e) p with Eq => (Some e, None) | _ => (None, na) end
                  | None => (None, None)
                  end) as [basis na'] eqn:Eb.
        (* a reusable entry for [it] is the one handed to copy_entry *)
        assert (HA : forall be, In be (opt_list na ++ rem st' last') -> Reusable a0 it be -> basis = Some be).
        { intros be Hin (_ & Hap & _). fold p in Hap.
          destruct na as [e|]; [|rewrite (Hnone eq_refl) in Hin; destruct Hin].
          cbn [opt_list app] in Hin, Hsort'. destruct Hin as [<-|Hin].
          - rewrite Hap, (co_refl apath_cmp apath_order) in Eb. inversion Eb. reflexivity.
          - exfalso. pose proof (sorted_head_min e _ be Hsort' Hin) as Hl. rewrite Hap in Hl.
            apply beforeb_true in Hl. congruence. }
        (* what remains for the later items *)
        assert (HB : asorted (map e_apath (opt_list na' ++ rem st' last'))
                     /\ (na' = None \/ na' = na)
                     /\ forall it' be, In it' src -> In be (opt_list na ++ rem st' last') ->
                                       Reusable a0 it' be -> In be (opt_list na' ++ rem st' last')).
        { destruct na as [e|].
          - destruct (apath_cmp (e_apath e) p) eqn:Ec; inversion Eb; subst basis na'.
            + apply (co_eq apath_cmp apath_order) in Ec.
              split; [cbn [opt_list app map] in Hsort' |- *; inversion Hsort'; assumption|].
              split; [left; reflexivity|].
              intros it' be Hin' Hbe (_ & Hap & _). cbn [opt_list app] in Hbe |- *.
              destruct Hbe as [<-|Hbe]; [|exact Hbe]. exfalso.
              pose proof (Hlater it' Hin') as Hl. unfold spath in Hl. rewrite <- Hap, Ec in Hl.
              exact (co_lt_irrefl apath_cmp apath_order _ Hl).
            + unfold beforeb in Hnb. rewrite Ec in Hnb. discriminate Hnb.
            + split; [exact Hsort'|]. split; [right; reflexivity|]. intros it' be _ Hbe _. exact Hbe.
          - inversion Eb; subst basis na'. split; [exact Hsort'|]. split; [left; reflexivity|].
            intros it' be _ Hbe _. exact Hbe. }
        destruct HB as (Hsort2 & Hna' & Htr2).
        (* the rest of the loop, from any later writer state that holds what it must *)
        assert (Hcont : forall w' a',
          WI a' w' -> SI a' -> w_band w' = bnew ->
          (forall e, Pend a w e -> Pend a' w' e) ->
          (forall be, In be X -> Reusable a0 it be -> Pend a' w' (reused_entry c it be)) ->
          nf (MQ a w X (it :: src)) (merge_loop pre c src na' st' last' w') a').
        { intros w' a' HW' HS' Hb' Hp' Hr'.
          eapply nf_weaken; [|apply (IH na' st' last' w' a' HW' HS' Hb' Hn' Hsort2 Hsrc')].
          intros r af [Q1 Q2]. split.
          - intros e He. apply Q1. apply Hp'. exact He.
          - intros it' be [<-|Hin'] Hbe Hre.
            + apply Q1. apply Hr'; assumption.
            + apply Q2; [exact Hin' | | exact Hre].
              apply (Htr2 it' be Hin'); [|exact Hre]. apply (Htr it' be); [right; exact Hin' | exact Hbe | exact Hre]. }
        pose proof (nf_inv pre (body_op bnew) SI _ _ SI_step
                     (ep_eo _ _ _ (copy_entry_ep pre bnew c w0 basis it Hb0)) a HS
                     (nf_safe pre _ _ _ _ a (copy_entry_nf pre c w0 basis it a HW0)
                        (copy_entry_k pre c w0 basis it a))) as Hce.
        eapply nf_bind; [|exact Hce]. clear Hce.
        intros [ok w1] a1 (((Hok & HW1 & Hb1) & (HSm & Hincl & Hreuse)) & HS1). cbn [fst snd] in *. subst ok.
        cbn [andb]. rewrite Hb0 in Hb1.
        assert (Hp1 : forall e, Pend a w e -> Pend a1 w1 e).
        { intros e [Hin|Hrec]; [left; apply Hincl; exact Hin | right; eapply Recorded_same; eassumption]. }
        assert (Hr1 : forall be, In be X -> Reusable a0 it be -> In (reused_entry c it be) (w_entries w1)).
        { intros be Hbe Hre.
          pose proof (Htr it be (or_introl eq_refl) Hbe Hre) as Hbe'.
          apply (Hreuse be); [apply HA; assumption | apply Hre |].
          apply (reusable_present a w0 it be HW0 HS Hre). }
        match goal with |- E2E.nf _ _ (if ?x then _ else _) _ => destruct x end.
        + pose proof (nf_inv pre (body_op bnew) SI _ _ SI_step
                       (ep_eo _ _ _ (flush_group_ep pre bnew w1 Hb1)) a1 HS1
                       (flush_group_r pre bnew w1 a1 HW1 Hb1)) as Hfl.
          eapply nf_bind; [|exact Hfl]. clear Hfl.
          intros [ok2 w3] a3 ((F1 & F2 & F3 & F4 & F5) & HS3). cbn [fst snd] in *. subst ok2.
          apply Hcont; auto.
          * intros e He. right. apply F5. apply Hp1. exact He.
          * intros be Hbe Hre. right. apply F5. left. apply Hr1; assumption.
        + apply Hcont; auto. intros be Hbe Hre. left. apply Hr1; assumption. }
      (* advancing the basis *)
      assert (Hadv : forall (e0s : list entry),
        (forall e, In e e0s -> beforeb p e = true) ->
        asorted (map e_apath (e0s ++ rem st last)) ->
        (forall it' be, In it' (it :: src) -> In be X -> Reusable a0 it' be -> In be (e0s ++ rem st last)) ->
        nf (MQ a w X (it :: src))
          (bind (snext keep_all (beforeb p) st last (w_merr w)) (fun r =>
             let '(skipped, na, st', last', merr) := r in kbody it src w (e0s ++ skipped) na st' last' merr)) a).
      { intros e0s He0 Hsort0 Htr0.
        eapply nf_bind; [|apply (snext_call a (beforeb p) st last (w_merr w)
                                   (fun r a' => a' = a /\
                                      let '(sk, na, st', last', _) := r in
                                      forallb (beforeb p) sk = true /\ (st_top st' <= st_top st)%nat /\
                                      match na with
                                      | Some e => beforeb p e = false /\ rem st last = sk ++ e :: rem st' last'
                                      | None => st' = SDone /\ rem st last = sk
                                      end) (proj1 HS) Hn); intros; auto].
        intros [[[[sk na] st'] last'] merr] a' [-> (Hsk & Htop & Hrem)].
        assert (Hrem' : rem st last = sk ++ opt_list na ++ rem st' last' /\ (na = None -> rem st' last' = [])
                        /\ match na with Some e => beforeb p e = false | None => True end).
        { destruct na as [e|]; [destruct Hrem as [Hbf ->]; cbn [opt_list app]; repeat split; auto; discriminate|].
          destruct Hrem as [-> ->]. cbn [opt_list Reuse.rem app]. rewrite app_nil_r. auto. }
        destruct Hrem' as (Er & Hnone & Hnb).
        assert (Hsk' : forall e, In e (e0s ++ sk) -> apath_cmp (e_apath e) p = Lt).
        { intros e Hin. apply beforeb_true. apply in_app_or in Hin. destruct Hin as [Hin|Hin]; [apply He0; exact Hin|].
          rewrite forallb_forall in Hsk. apply Hsk. exact Hin. }
        rewrite Er, app_assoc in Hsort0, Htr0.
        apply Hk.
        - lia.
        - exact Hnone.
        - rewrite map_app in Hsort0. apply SS_app_r in Hsort0. exact Hsort0.
        - exact Hnb.
        - intros it' be Hin' Hbe Hre. pose proof (Htr0 it' be Hin' Hbe Hre) as H.
          apply in_app_or in H. destruct H as [H|H]; [|exact H]. exfalso.
          pose proof (Hsk' be H) as Hl. destruct Hre as (_ & Hap & _). rewrite Hap in Hl.
          pose proof (Hp_le it' Hin') as Hle. unfold spath in Hle.
          destruct (apath_cmp p (s_apath (si_e it'))) eqn:Ec; [| |congruence].
          + apply (co_eq apath_cmp apath_order) in Ec. rewrite <- Ec in Hl.
            exact (co_lt_irrefl apath_cmp apath_order _ Hl).
          + pose proof (co_trans apath_cmp apath_order _ _ _ Hl Ec) as Hbad.
            exact (co_lt_irrefl apath_cmp apath_order _ Hbad). }
      destruct peek as [e0|].
      + fold p. fold (beforeb p). fold (beforeb p e0). destruct (beforeb p e0) eqn:Eb0.
        * apply (Hadv [e0]);
            [intros e [<-|[]]; exact Eb0 | exact Hsort | intros it' be _ Hbe _; exact Hbe].
        * apply (Hk [] (Some e0) st last (w_merr w));
            [exact Hn | discriminate | exact Hsort | exact Eb0 | intros it' be _ Hbe _; exact Hbe].
      + fold p. fold (beforeb p).
        apply (Hadv []); [intros e [] | exact Hsort | intros it' be _ Hbe _; exact Hbe].
  Qed.
End Merge.

(* ------------------------------------------------------------------------- *)
(** * F. The whole backup                                                      *)
(* ------------------------------------------------------------------------- *)
Section Top.
  Variable pre : bytes -> N.
  Notation nf := (E2E.nf pre).

  Lemma exec_mkdir_ok (a : arch) d p :
    parent_d d = Some p -> has_dir a p = true ->
    snd (exec_ok pre a (OpMkdir d)) = ROk
    /\ files (fst (exec_ok pre a (OpMkdir d))) = files a
    /\ (forall x, has_dir a x = true -> has_dir (fst (exec_ok pre a (OpMkdir d))) x = true)
    /\ has_dir (fst (exec_ok pre a (OpMkdir d))) d = true.
  Proof.
    intros Hp Hd. cbn [exec_ok]. destruct (has_dir a d) eqn:E; cbn [fst snd]; [auto|].
    rewrite Hp, Hd. cbn [fst snd]. split; [reflexivity|]. split; [reflexivity|]. split.
    - intros x Hx. rewrite has_dir_snoc, Hx. reflexivity.
    - rewrite has_dir_snoc. destruct (dpath_eqb_spec d d) as [_|N]; [apply orb_true_r | congruence].
  Qed.

  Lemma exec_write_ok (a : arch) f p :
    has_dir a (parent_f pre f) = true -> get a f = None ->
    exec_ok pre a (OpWrite f p CreateNew)
    = ({| dirs := dirs a; files := set_file f (Good p) (files a) |}, ROk).
  Proof. intros Hd Hg. cbn [exec_ok]. rewrite Hd, Hg. reflexivity. Qed.

  Lemma SI_step_high a0 bp a o : high_op bp o -> add_only o -> SI a0 bp a -> SI a0 bp (fst (exec_ok pre a o)).
  Proof.
    intros Ho Ha [FR HO]. split.
    - exact (exec_high_frame pre bp a0 a o NoFault Ho FR).
    - eapply Old_trans; [exact HO|]. exact (exec_add_Old pre a o NoFault Ha).
  Qed.

  Lemma backup_reuse_nf c src a0 bp :
    Startable pre a0 -> newest a0 = Some bp ->
    asorted (map e_apath (basis_of pre a0)) -> SrcSorted src ->
    nf (fun _ a1 => ReusesAll pre c src a0 a1) (backup_prog pre c src) a0.
  Proof.
    intros (Hh & Hl & Hb & HW) Hnew Hsort Hsrc. pose proof HW as [HF HD].
    assert (Hroot : has_dir a0 DRoot = true) by (apply (HF PHeader _ Hh)).
    destruct (new_band_fresh pre a0 HW) as (Hfresh & Hhead & Htail & Hhunks).
    assert (Enew : new_band a0 = bp + 1) by (unfold new_band; unfold newest in Hnew; rewrite Hnew; reflexivity).
    assert (Ebasis : basis_of pre a0 = Reuse.rem pre a0 (SBefore (N.to_nat bp)) None)
      by (unfold basis_of; rewrite Hnew, rem_stitch_pure; reflexivity).
    unfold ReusesAll. rewrite Enew in *. rewrite Ebasis in *. clear Enew Ebasis.
    unfold backup_prog, open_archive.
    apply nf_read. unfold rd. rewrite Hh.
    apply nf_meta. unfold mt. rewrite Hl.
    apply nf_list. unfold ls at 1. rewrite Hroot.
    apply nf_list. unfold ls at 1. rewrite Hroot. cbv zeta.
    unfold newest in Hnew. rewrite Hnew.
    set (id := bp + 1) in *.
    assert (Hid : bp < id) by (unfold id; lia).
    assert (HS0 : SI a0 bp a0) by (split; [apply Frame_refl | apply Old_refl]).
    (* Band::create *)
    cbn [E2E.nf].
    destruct (exec_mkdir_ok a0 (DBand id) DRoot eq_refl Hroot) as (R3 & Hf3 & Hm3 & Hd3).
    pose proof (SI_step_high a0 bp a0 (OpMkdir (DBand id)) Hid Logic.I HS0) as HS3.
    set (a3 := fst (exec_ok pre a0 (OpMkdir (DBand id)))) in *. rewrite R3. cbn [is_ok].
    cbn [E2E.nf].
    destruct (exec_mkdir_ok a3 (DIndex id) (DBand id) eq_refl Hd3) as (R4 & Hf4 & Hm4 & Hd4).
    pose proof (SI_step_high a0 bp a3 (OpMkdir (DIndex id)) Hid Logic.I HS3) as HS4.
    set (a4 := fst (exec_ok pre a3 (OpMkdir (DIndex id)))) in *. rewrite R4. cbn [is_ok].
    assert (G4 : forall f, get a4 f = get a0 f) by (intros f; unfold get; rewrite Hf4, Hf3; reflexivity).
    cbn [E2E.nf].
    pose proof (SI_step_high a0 bp a4 (OpWrite (PHead id) (PlHead HvOk) CreateNew) Hid Logic.I HS4) as HS5.
    rewrite (exec_write_ok a4 (PHead id) (PlHead HvOk)) in *
      by (try (cbn [parent_f]; apply Hm4; exact Hd3); rewrite G4; exact Hhead).
    cbn [fst snd is_ok] in *.
    set (a5 := {| dirs := dirs a4; files := set_file (PHead id) (Good (PlHead HvOk)) (files a4) |}) in *.
    assert (G5 : forall f, f <> PHead id -> get a5 f = get a0 f).
    { intros f Hf. unfold a5. rewrite get_set_other by exact Hf. apply G4. }
    assert (D5 : forall x, has_dir a0 x = true -> has_dir a5 x = true).
    { intros x Hx. change (has_dir a4 x = true). auto. }
    apply nf_list. unfold ls at 1. rewrite (D5 _ Hroot).
    rewrite no_lock_listed by (rewrite G5 by discriminate; exact Hl).
    apply nf_list. unfold ls at 1. rewrite (D5 _ Hb).
    apply list_blocks_nf; [intros s Hs; apply (ValidP.block_subdir_listed a5 s Hs)|]. cbn [app].
    eapply nf_weaken;
      [|apply (merge_loop_reuse pre c a0 bp id Hid src None (SBefore (N.to_nat bp)) None _ a5)].
    - intros r a1 [_ Q2] it be Hin Hbe Hre. apply Q2; assumption.
    - unfold WI. cbn [w_band w_seq w_exists w_errors].
      split; [apply D5; exact Hb|]. split; [change (has_dir a4 (DBand id) = true); auto|].
      split; [exact Hd4|]. split; [intros H; exfalso; apply H; reflexivity|].
      split; [intros h _; rewrite G5 by discriminate; apply Hhunks|].
      split; [rewrite G5 by discriminate; exact Htail|].
      split; [|split; [reflexivity | split; [unfold a5; apply get_set_same | rewrite G5 by discriminate; exact Hl]]].
      intros c0 x G Hx. apply In_mem_bytes.
      apply (E2EP.block_listed pre a5 c0 x G Hx). apply D5. rewrite G5 in G by discriminate.
      exact (HF _ _ G).
    - exact HS5.
    - reflexivity.
    - cbn [st_top]. rewrite N2Nat.id. lia.
    - exact Hsort.
    - exact Hsrc.
  Qed.

  (** C14 (a)/(b), general form.  From a state a backup can start in, without faults, for
      ANY configuration and any strictly sorted source: the backup succeeds, and for EVERY
      file item [it] of the source and EVERY entry [be] of the basis listing (the stitched
      listing of the newest band there is, however incomplete) that has the item's apath,
      kind, mtime and size and names only blocks the block directory shows as present, the
      new band RECORDS the item with exactly the addresses of [be]. *)
  Theorem backup_reuses_basis_sorted c src a0 :
    Startable pre a0 -> asorted (map e_apath (basis_of pre a0)) -> SrcSorted src ->
    exists tr a1 r,
      run pre (backup_prog pre c src) a0 [] = (tr, a1, Done r)
      /\ b_ok r = true /\ b_errors r = 0 /\ b_band r = Some (new_band a0)
      /\ ReusesAll pre c src a0 a1.
  Proof.
    intros HSt Hsort Hsrc.
    destruct (newest a0) as [bp|] eqn:Hnew.
    - pose proof (nf_conj pre _ _ _ a0 (backup_nf pre c src a0 HSt)
                    (backup_reuse_nf c src a0 bp HSt Hnew Hsort Hsrc)) as H.
      destruct (nf_sound pre _ _ a0 H) as (tr & a1 & r & E & (S1 & S2 & S3 & _) & HR).
      exists tr, a1, r. auto.
    - destruct (backup_succeeds pre c src a0 HSt) as (tr & a1 & r & E & S1 & S2 & S3 & _).
      exists tr, a1, r. repeat split; auto.
      intros it be _ Hbe. unfold basis_of in Hbe. rewrite Hnew in Hbe. destruct Hbe.
  Qed.

  (* what the general form needs of the state is what every operation maintains *)
  Theorem backup_reuses_basis c src a0 :
    Ready pre a0 -> SrcSorted src ->
    exists tr a1 r,
      run pre (backup_prog pre c src) a0 [] = (tr, a1, Done r)
      /\ b_ok r = true /\ b_errors r = 0 /\ b_band r = Some (new_band a0)
      /\ ReusesAll pre c src a0 a1.
  Proof.
    intros HR Hsrc. apply backup_reuses_basis_sorted; [apply HR | | exact Hsrc].
    apply basis_sorted; [apply (Ready_WFidx pre a0 HR) | apply HR].
  Qed.

  (** ... and no block that is present is written again: for every fault list, no block
      write of the run names a block the archive already holds *)
  Theorem present_blocks_not_rewritten c src a0 phi i c' p m rep :
    BlocksInDirs pre a0 -> block_ok a0 c' ->
    nth_error (fst (fst (run pre (backup_prog pre c src) a0 phi))) i = Some (OpWrite (PBlock c') p m, rep) ->
    False.
  Proof.
    intros BD Hok Hi.
    destruct (backup_never_rewrites_present pre c src a0 phi i c' p m rep BD Hi) as (ab & Hs & Hn).
    apply Hn. unfold state_before in Hs. apply nth_error_In in Hs.
    destruct (backup_write_once pre c src a0 phi) as [W1 _].
    assert (HO : Old a0 ab).
    { destruct Hs as [<-|Hs]; [apply Old_refl|]. rewrite Forall_forall in W1. auto. }
    unfold block_ok in *. apply (proj2 HO); [exact Hok | discriminate].
  Qed.
End Top.

(* ------------------------------------------------------------------------- *)
(** * F2. What the newest band records is in the basis                         *)
(* ------------------------------------------------------------------------- *)
Lemma hl_rest_all a n hs :
  (forall h, In h hs -> get a (PHunk (N.of_nat n) h) <> None) ->
  forall last h es e,
    In h hs -> get a (PHunk (N.of_nat n) h) = Some (Good (PlHunk es)) -> In e es ->
    In e (fst (hl_rest a n hs None last)).
Proof.
  induction hs as [|h0 hs IH]; intros Hex last h es e Hh G He; [destruct Hh|].
  assert (Hex' : forall h', In h' hs -> get a (PHunk (N.of_nat n) h') <> None)
    by (intros h' Hh'; apply Hex; right; exact Hh').
  cbn [hl_rest]. unfold rd.
  destruct Hh as [->|Hh].
  - rewrite G. destruct es as [|e0 es]; [destruct He|]. cbn [hunk_step].
    destruct (hl_rest a n hs None (pnlast (e0 :: es) last)) as [r l]. cbn [fst].
    apply in_or_app. left. exact He.
  - destruct (get a (PHunk (N.of_nat n) h0)) as [x|] eqn:G0;
      [|exfalso; apply (Hex h0); [left; reflexivity | exact G0]].
    destruct x as [[| | |es0|]| |]; try (apply (IH Hex' _ h es e); assumption).
    destruct es0 as [|e0 es0]; cbn [hunk_step]; [apply (IH Hex' _ h es e); assumption|].
    pose proof (IH Hex' (pnlast (e0 :: es0) last) h es e Hh G He) as H.
    destruct (hl_rest a n hs None (pnlast (e0 :: es0) last)) as [r l]. cbn [fst] in *.
    apply in_or_app. right. exact H.
Qed.

Section InBasis.
  Variable pre : bytes -> N.

  (** every entry of every good hunk of the newest band, when its head opens, is yielded by
      the basis reader, whether or not the band is complete *)
  Theorem recorded_in_basis a b e :
    RInv pre a -> newest a = Some b -> head_opens a b = true ->
    Recorded a b e -> In e (basis_of pre a).
  Proof.
    intros HI Hnew Ho (h & es & G & He).
    pose proof (RInv_LWF pre a HI) as HL. pose proof (RInv_WFidx pre a HI) as (_ & _ & W3 & W4 & _).
    unfold basis_of. rewrite Hnew, <- rem_stitch_pure. cbn [Reuse.rem]. unfold Reuse.ob_rest.
    rewrite N2Nat.id.
    assert (Hs : head_status (rd a (PHead b)) = HOk).
    { unfold head_opens in Ho. unfold rd. destruct (get a (PHead b)) as [x|]; [|discriminate].
      destruct (head_status (RData x)); [reflexivity | discriminate | discriminate]. }
    rewrite Hs.
    assert (Hd : has_dir a (DIndex b) = true).
    { apply (W4 b (h / HUNKS_PER_SUBDIR)). apply W3. rewrite G. discriminate. }
    unfold ls. rewrite Hd.
    pose proof (hl_rest_all a (N.to_nat b) (hunks_listed pre a b)) as H. rewrite N2Nat.id in H.
    specialize (H (fun h' Hh' => proj1 (hunks_listed_iff pre a b h' HL) Hh') None h es e).
    destruct (hl_rest a (N.to_nat b) (hunks_listed pre a b) None None) as [r l]. cbn [fst] in H.
    apply in_or_app. left. apply H; [|exact G | exact He].
    apply (hunks_listed_iff pre a b h HL). rewrite G. discriminate.
  Qed.
End InBasis.

(* with referential integrity every block a recorded entry names is present *)
Lemma recorded_blocks_listed a b e : AInv a -> Recorded a b e -> blocks_listed a e.
Proof.
  intros (HR & _) (h & es & G & He) ad Had.
  pose proof (HR _ _ _ G) as Hes. rewrite Forall_forall in Hes.
  pose proof (Hes e He) as Hok. unfold entry_ok in Hok. rewrite Forall_forall in Hok.
  destruct (Hok ad Had) as [Hb _]. exists (Good (PlBlock (a_hash ad))). split; [exact Hb | reflexivity].
Qed.

Lemma meta_from_ts o s : e_ts (meta_from o s) = s_mtime s.
Proof.
  unfold meta_from. pose proof (time_roundtrip_floor (s_mtime s)) as H.
  destruct (enc_time_floor (s_mtime s)) as [sec nanos]. destruct H as [H _]. exact H.
Qed.

Section Newest.
  Variable pre : bytes -> N.

  (** C14 in terms of the newest band: whatever the newest band [b] records (complete or
      interrupted, as long as its head opens) for the path of a file item with that item's
      kind, mtime and size is recorded again, with the same addresses, by a fault-free
      backup. *)
  Theorem backup_reuses_newest_band c src a0 b :
    Ready pre a0 -> SrcSorted src -> newest a0 = Some b -> head_opens a0 b = true ->
    exists tr a1 r,
      run pre (backup_prog pre c src) a0 [] = (tr, a1, Done r)
      /\ b_ok r = true /\ b_errors r = 0 /\ b_band r = Some (new_band a0)
      /\ forall it be, In it src -> s_kind (si_e it) = KFile ->
           Recorded a0 b be -> e_apath be = s_apath (si_e it) -> same_meta (si_e it) be = true ->
           Recorded a1 (new_band a0) (reused_entry c it be).
  Proof.
    intros HR Hsrc Hnew Ho.
    destruct (backup_reuses_basis pre c src a0 HR Hsrc) as (tr & a1 & r & E & S1 & S2 & S3 & HA).
    exists tr, a1, r. repeat split; auto.
    intros it be Hin Hk Hrec Hap Hs. apply HA; [exact Hin | |].
    - apply (recorded_in_basis pre a0 b be); auto. apply Ready_RInv in HR. apply HR.
    - split; [exact Hk|]. split; [exact Hap|]. split; [exact Hs|].
      apply (recorded_blocks_listed a0 b be); [apply HR | exact Hrec].
  Qed.
End Newest.

(* ------------------------------------------------------------------------- *)
(** * F3. (a) An unchanged tree is recorded with identical addresses           *)
(* ------------------------------------------------------------------------- *)
Lemma newest_spec a b :
  newest a = Some b <-> has_dir a (DBand b) = true /\ (forall b', has_dir a (DBand b') = true -> b' <= b).
Proof.
  unfold newest. split.
  - intros E. assert (Hin : In b (band_ids (children_dirs a DRoot))).
    { destruct (band_ids (children_dirs a DRoot)) as [|x l]; [discriminate|]. cbn [max_id] in E. inversion E.
      clear. revert x. induction l as [|y l IH]; intros x; cbn [fold_left]; [left; reflexivity|].
      destruct (IH (N.max x y)) as [H|H].
      - rewrite <- H. destruct (N.max_spec x y) as [[_ E]|[_ E]]; rewrite E; [right; left; reflexivity | left; reflexivity].
      - right. right. exact H. }
    split; [apply FrameP.root_band_ids; exact Hin|].
    intros b' Hb'. apply FrameP.root_band_ids in Hb'.
    destruct (max_id_ge _ _ Hb') as [m [Em Hm]]. rewrite E in Em. inversion Em; subst. exact Hm.
  - intros [Hd Hmax]. apply max_id_newest; [apply FrameP.root_band_ids; exact Hd|].
    intros y Hy. apply Hmax. apply FrameP.root_band_ids. exact Hy.
Qed.

Section Unchanged.
  Variable pre : bytes -> N.

  Lemma Recorded_band_entries a b e : WFidx a -> Recorded a b e -> In e (FrameP.band_entries a b).
  Proof.
    intros WF (h & es & G & He). unfold FrameP.band_entries, hunks_entries. apply in_concat.
    exists es. split; [|exact He]. apply in_map_iff. exists (Some es). split; [reflexivity|].
    apply in_map_iff. exists h. split; [unfold hunk_content; rewrite G; reflexivity|].
    apply hunk_files_In. apply get_In_keys. rewrite G. discriminate.
  Qed.

  (** C14 (a).  The newest band [b] is complete and records every file of the source with its
      kind, mtime and size (e.g. it was made from the same tree).  Then a fault-free backup,
      under ANY configuration, succeeds; every file item is recorded in the new band with the
      metadata of the item and exactly the addresses band [b] has for it; that is the ONLY
      entry the new band has for the path; and no block is written at all. *)
  Theorem unchanged_tree_same_addresses c src a0 b :
    Ready pre a0 -> SrcSorted src -> newest a0 = Some b -> complete a0 b -> UnchangedSince a0 b src ->
    exists tr a1 r,
      run pre (backup_prog pre c src) a0 [] = (tr, a1, Done r)
      /\ b_ok r = true /\ b_errors r = 0 /\ b_band r = Some (new_band a0)
      /\ (forall it, In it src -> s_kind (si_e it) = KFile ->
            exists be, Recorded a0 b be /\ e_apath be = s_apath (si_e it)
                       /\ Recorded a1 (new_band a0) (reused_entry c it be)
                       /\ forall e', Recorded a1 (new_band a0) e' -> e_apath e' = s_apath (si_e it) ->
                                     e' = reused_entry c it be)
      /\ Forall (fun x => ~ is_block_write (fst x)) tr.
  Proof.
    intros HR Hsrc Hnew Hcomp Hun.
    destruct (backup_reuses_newest_band pre c src a0 b HR Hsrc Hnew (proj1 Hcomp))
      as (tr & a1 & r & E & S1 & S2 & S3 & HA).
    exists tr, a1, r. split; [exact E|]. split; [exact S1|]. split; [exact S2|]. split; [exact S3|].
    pose proof HR as ((Hh & Hl & Hbl & HWp) & NDd & HAi & HCo).
    pose proof (Ready_WFidx pre a0 HR) as WF.
    split.
    - assert (ND : NoDup (map (fun it => s_apath (si_e it)) src)) by (apply sorted_paths_NoDup; exact Hsrc).
      assert (H0 : forall h, get a0 (PHunk (new_band a0) h) = None)
        by (apply (new_band_no_hunks pre), WFparents_DirsWF; exact HWp).
      pose proof (backup_success_exactly_one pre c src a0 [] r H0 ND) as X.
      rewrite E in X. cbn [fst snd] in X.
      destruct (X eq_refl S1 S2) as (n & all & _ & _ & _ & _ & Huniq & _).
      intros it Hin Hk. destruct (Hun it Hin Hk) as (be & Hrec & Hap & Hs).
      exists be. split; [exact Hrec|]. split; [exact Hap|].
      pose proof (HA it be Hin Hk Hrec Hap Hs) as Hnewrec. split; [exact Hnewrec|].
      intros e' He' Hp'.
      destruct (Huniq it Hin) as (e & _ & _ & Hu); [rewrite Hk; reflexivity|].
      rewrite (Hu e' He' Hp'). symmetry. apply Hu; [exact Hnewrec|].
      unfold reused_entry. cbn [with_addrs e_apath]. apply meta_from_apath.
    - assert (Hb : BlocksInDirs pre a0).
      { intros c0 Hc0. destruct (get a0 (PBlock c0)) as [x|] eqn:G; [|congruence]. exact (proj1 HWp _ _ G). }
      pose proof (unchanged_tree_no_block_writes pre c a0 b WF Hcomp HAi Hb (proj1 (newest_spec a0 b) Hnew)) as T.
      assert (Bs : asorted (map e_apath (FrameP.band_entries a0 b))).
      { apply hunks_concat_sorted; [apply (HCo b) | apply hunk_files_sorted; exact WF]. }
      specialize (T Bs src Hsrc).
      assert (HM : forall it, In it src -> Match (FrameP.band_entries a0 b) it).
      { intros it Hin Hk. destruct (Hun it Hin Hk) as (be & Hrec & Hap & Hs).
        exists be. split; [apply Recorded_band_entries; assumption | split; assumption]. }
      specialize (T HM). rewrite E in T. cbn [fst] in T.
      eapply Forall_impl; [|exact T]. intros x [Hx _]. exact Hx.
  Qed.
End Unchanged.

(* ------------------------------------------------------------------------- *)
(** * F4. (b) A resumed backup reuses what the interrupted one recorded        *)
(* ------------------------------------------------------------------------- *)
Section BandDirs.
  Variable pre : bytes -> N.
  Variable a0 : arch.

  (* the only band directory a backup creates is that of its own band *)
  Definition BandDirs (a : arch) : Prop :=
    forall b', has_dir a (DBand b') = true -> has_dir a0 (DBand b') = true \/ b' = new_band a0.

  Definition bd_op (o : op) : Prop :=
    match o with
    | OpMkdir (DBand b') => b' = new_band a0
    | OpRemoveFile _ | OpRemoveDirAll _ => False
    | _ => True
    end.

  Lemma exec_ok_dirs a o x :
    bd_op o -> has_dir (fst (exec_ok pre a o)) x = true -> has_dir a x = true \/ o = OpMkdir x.
  Proof.
    intros Ho H. destruct o as [f|f p m|d|d|f|f|d]; cbn [bd_op] in Ho; try contradiction; cbn [exec_ok] in H.
    - destruct (get a f); left; exact H.
    - destruct (has_dir a (parent_f pre f)); [|left; exact H].
      destruct (get a f) as [[q| |]|]; destruct m; left; exact H.
    - destruct (has_dir a d); left; exact H.
    - destruct (has_dir a d) eqn:Ed; [left; exact H|].
      assert (Hs : has_dir {| dirs := dirs a ++ [d]; files := files a |} x = true -> has_dir a x = true \/ OpMkdir d = OpMkdir x).
      { rewrite has_dir_snoc. intros H'. apply orb_true_iff in H'. destruct H' as [H'|H']; [left; exact H'|].
        right. destruct (dpath_eqb_spec x d); [subst; reflexivity | discriminate]. }
      destruct (parent_d d) as [q|]; [destruct (has_dir a q)|]; cbn [fst] in H; auto.
    - destruct (get a f); left; exact H.
  Qed.

  Lemma BandDirs_exec a o f : bd_op o -> BandDirs a -> BandDirs (fst (exec pre a o f)).
  Proof.
    intros Ho HJ. destruct f; cbn [exec fst]; try exact HJ;
      (intros b' Hb'; destruct (exec_ok_dirs a o (DBand b') Ho Hb') as [H| ->]; [apply HJ; exact H|];
       right; exact Ho).
  Qed.

  Lemma BandDirs_empty a o : BandDirs a -> BandDirs (exec_empty pre a o).
  Proof.
    intros HJ. destruct o as [f|f p m|d|d|f|f|d]; cbn [exec_empty]; try exact HJ.
    destruct (has_dir a (parent_f pre f)); [|exact HJ]. destruct (get a f); exact HJ.
  Qed.

  Lemma body_bd id o : body_op id o -> bd_op o.
  Proof.
    destruct o as [f|f p m|d|d|f|f|d]; cbn; auto. destruct d; cbn; auto; contradiction.
  Qed.

  Lemma backup_band_dirs_safe c src :
    Inv.safe pre BandDirs (fun _ _ => True) (backup_prog pre c src) a0.
  Proof.
    assert (J0 : BandDirs a0) by (intros b' H; left; exact H).
    unfold backup_prog, open_archive.
    apply gsafe_read; [exact Logic.I | exact J0|]. intros f0.
    destruct (snd (exec pre a0 (OpRead PHeader) f0)) as [| |[[| | | |]| |]| |]; try exact Logic.I.
    apply gsafe_read; [exact Logic.I | exact J0|]. intros f1.
    destruct (snd (exec pre a0 (OpMeta PLock) f1)) as [|[| | |]| | |]; try exact Logic.I.
    apply gsafe_read; [exact Logic.I | exact J0|]. intros f2.
    destruct (snd (exec pre a0 (OpList DRoot) f2)) as [| | |ds1 fs1|]; try exact Logic.I.
    apply gsafe_read; [exact Logic.I | exact J0|]. intros f3.
    destruct (snd (exec pre a0 (OpList DRoot) f3)) as [| | |ds2 fs2|] eqn:E3; try exact Logic.I.
    destruct (HealthyP.exec_list_reply pre a0 DRoot f3 ds2 fs2 E3) as (-> & _ & _).
    cbv zeta.
    change (match max_id (band_ids (children_dirs a0 DRoot)) with Some m => m + 1 | None => 0 end)
      with (new_band a0).
    apply (gsafe_eo pre BandDirs bd_op).
    - intros x o f Ho Hx. apply BandDirs_exec; assumption.
    - intros x o _ Hx. apply BandDirs_empty; assumption.
    - apply eo_do; [reflexivity|]. intros r3. destruct (is_ok r3); [|constructor].
      apply eo_do; [exact Logic.I|]. intros r4. destruct (is_ok r4); [|constructor].
      apply eo_do; [exact Logic.I|]. intros r5. destruct (is_ok r5); [|constructor].
      apply (eo_mono (body_op (new_band a0))); [intros o; apply body_bd|].
      repeat eo_step. apply list_blocks_eo; [apply reads_body|].
      intros [ex|]; [|constructor]. apply merge_loop_eo. reflexivity.
    - exact J0.
  Qed.

  Theorem backup_band_dirs c src phi :
    BandDirs (snd (fst (run pre (backup_prog pre c src) a0 phi))).
  Proof.
    apply (FrameP.gsafe_sound pre BandDirs (fun _ _ => True)); [intros b' H; left; exact H|].
    apply backup_band_dirs_safe.
  Qed.
End BandDirs.

Section Resume.
  Variable pre : bytes -> N.

  (** C14 (b).  A backup of [src] from a ready state under ANY fault list -- storage
      failures, a kill at any point, a torn write -- leaves [a1].  If the band it was writing
      has a head that opens, a fault-free backup of the same source from [a1] succeeds and
      records again, unchanged, EVERY file entry the interrupted band holds in a good hunk:
      the same metadata and the same addresses. *)
  Theorem resumed_backup_reuses_interrupted_entries c src a0 phi :
    Ready pre a0 -> SrcSorted src -> SrcValid src -> SrcWF src -> cfg_ok c ->
    let a1 := snd (fst (run pre (backup_prog pre c src) a0 phi)) in
    head_opens a1 (new_band a0) = true ->
    Ready pre a1
    /\ newest a1 = Some (new_band a0)
    /\ exists tr a2 r,
         run pre (backup_prog pre c src) a1 [] = (tr, a2, Done r)
         /\ b_ok r = true /\ b_errors r = 0 /\ b_band r = Some (new_band a1)
         /\ forall e, Recorded a1 (new_band a0) e -> e_kind e = KFile -> Recorded a2 (new_band a1) e.
  Proof.
    intros HR Hs Hv Hw Hc a1 Ho.
    assert (HR1 : Ready pre a1).
    { pose proof (backup_ready_all pre c src a0 phi HR Hs Hv Hw) as H. rewrite Forall_forall in H.
      apply H. apply (all_states_final pre). }
    split; [exact HR1|].
    pose proof HR as ((Hh & Hl & Hbl & HWp) & NDd & HAi & HCo).
    pose proof HR1 as ((_ & _ & _ & HWp1) & _ & HAi1 & _).
    assert (Hnew1 : newest a1 = Some (new_band a0)).
    { apply newest_spec.
      assert (Hd : has_dir a1 (DBand (new_band a0)) = true).
      { unfold head_opens in Ho. destruct (get a1 (PHead (new_band a0))) as [x|] eqn:G; [|discriminate].
        exact (proj1 HWp1 _ _ G). }
      split; [exact Hd|]. intros b' Hb'.
      destruct (backup_band_dirs pre a0 c src phi b' Hb') as [H0| ->]; [|lia].
      assert (Hin : In (DBand b') (children_dirs a0 DRoot)).
      { unfold children_dirs. apply filter_In. split; [apply has_dir_In; exact H0 | reflexivity]. }
      pose proof (next_id_fresh _ _ Hin) as Hlt. fold (new_band a0) in Hlt. lia. }
    split; [exact Hnew1|].
    destruct (backup_reuses_newest_band pre c src a1 (new_band a0) HR1 Hs Hnew1 Ho)
      as (tr & a2 & r & E & S1 & S2 & S3 & HA).
    exists tr, a2, r. split; [exact E|]. split; [exact S1|]. split; [exact S2|]. split; [exact S3|].
    intros e Hrec Hk.
    destruct (backup_conf_full pre c src a0 phi Hs Hv Hw HCo (WFparents_NoOrphans pre a0 HWp)) as (_ & _ & HNew).
    fold a1 in HNew. pose proof Hrec as (h & es & G & He).
    assert (Hfresh : has_dir a0 (DBand (new_band a0)) = false) by (apply (E2EP.new_band_fresh pre a0 HWp)).
    pose proof (HNew _ _ _ Hfresh G) as Hall. rewrite Forall_forall in Hall.
    destruct (Hall e He) as (it & Hin & Em & Hsz).
    assert (Hki : s_kind (si_e it) = KFile).
    { rewrite Em in Hk. cbn [with_addrs e_kind] in Hk. rewrite meta_from_kind in Hk. exact Hk. }
    assert (Hap : e_apath e = s_apath (si_e it)).
    { rewrite Em. cbn [with_addrs e_apath]. apply meta_from_apath. }
    assert (Hsm : same_meta (si_e it) e = true).
    { assert (Hc' : 0 < c_mbs c) by (unfold cfg_ok in Hc; lia).
      unfold same_meta. rewrite (Hsz Hki Hc'), N.eqb_refl.
      assert (Ets : e_ts e = s_mtime (si_e it)).
      { rewrite Em. unfold e_ts. cbn [with_addrs e_mtime e_nanos]. apply meta_from_ts. }
      rewrite Ets, Z.eqb_refl. rewrite Hk, Hki. reflexivity. }
    pose proof (HA it e Hin Hki Hrec Hap Hsm) as H.
    unfold reused_entry in H. rewrite <- Em in H. exact H.
  Qed.
End Resume.

(* ------------------------------------------------------------------------- *)
(** * G. Checkers and examples (non-vacuity)                                   *)
(* ------------------------------------------------------------------------- *)
Lemma band_entries_Recorded a b e : FilesND a -> In e (Truth.band_entries a b) -> Recorded a b e.
Proof.
  intros ND Hin. unfold Truth.band_entries in Hin. apply in_flat_map in Hin. destruct Hin as [[h es] [Hh He]].
  cbn [snd] in He. unfold Truth.band_hunks in Hh. apply in_flat_map in Hh. destruct Hh as [[f x] [Hf Hx]].
  destruct f as [| |b'|b'|b' h'|c']; try destruct Hx.
  destruct x as [[| | |es'|]| |]; try destruct Hx.
  destruct (N.eqb_spec b' b) as [->|]; [|destruct Hx]. destruct Hx as [E|[]]. inversion E; subst.
  exists h, es. split; [|exact He]. unfold get. apply lookup_In_nodup; assumption.
Qed.

Lemma unchanged_since_b_sound a b src :
  FilesND a -> unchanged_since_b a b src = true -> UnchangedSince a b src.
Proof.
  intros ND H it Hin Hk. unfold unchanged_since_b in H. rewrite forallb_forall in H.
  specialize (H it Hin). rewrite Hk in H. apply existsb_exists in H. destruct H as [be [Hbe Hc]].
  apply andb_true_iff in Hc. destruct Hc as [Hp Hs]. apply str_eqb_eq in Hp.
  exists be. split; [apply band_entries_Recorded; assumption | split; assumption].
Qed.

Module ReuseExamples.
  Import SafeExamples E2EExamples ConfExamples.

  (* ---- (a): [ex_a3] holds bands 0 and 1; band 1 was made from [ex_src 7] ---- *)
  Example ex_a3_basis :
    newest ex_a3 = Some 1 /\ new_band ex_a3 = 2
    /\ map (fun e => (e_apath e, length (e_addrs e))) (basis_of ex_pre ex_a3)
       = [([47], 0%nat); ([47;97], 1%nat); ([47;98], 2%nat)]
    /\ unchanged_since_b ex_a3 1 (ex_src 7) = true
    /\ reuse_count ex_a3 (basis_of ex_pre ex_a3) (ex_src 7) = 2%nat.
  Proof. vm_compute. repeat split; reflexivity. Qed.

  (* computed: the third backup records both files with the addresses of band 1 and writes
     no block *)
  Example ex_unchanged_computed :
    reuse_check ex_cfg ex_a3 (basis_of ex_pre ex_a3) (ex_src 7) (final (backup 7) ex_a3 []) 2 = true
    /\ snd (run ex_pre (backup 7) ex_a3 [])
       = Done {| b_ok := true; b_errors := 0; b_merr := 0; b_written := 0; b_deleted := 0; b_band := Some 2 |}
    /\ file_entries_kept ex_a3 1 (final (backup 7) ex_a3 []) 2 = true
    /\ file_entries_count ex_a3 1 = 2%nat.
  Proof. vm_compute. repeat split; reflexivity. Qed.

  Example ex_a3_complete : complete ex_a3 1.
  Proof. split; vm_compute; reflexivity. Qed.

  Example ex_a3_unchanged : UnchangedSince ex_a3 1 (ex_src 7).
  Proof.
    apply unchanged_since_b_sound; [|vm_compute; reflexivity].
    destruct ex_ready_a3 as (_ & _ & (_ & _ & ND) & _). exact ND.
  Qed.

  (* the same as an instance of the theorem *)
  Example ex_unchanged_thm :
    exists tr a1 r,
      run ex_pre (backup_prog ex_pre ex_cfg (ex_src 7)) ex_a3 [] = (tr, a1, Done r)
      /\ b_ok r = true /\ b_errors r = 0 /\ b_band r = Some (new_band ex_a3)
      /\ (forall it, In it (ex_src 7) -> s_kind (si_e it) = KFile ->
            exists be, Recorded ex_a3 1 be /\ e_apath be = s_apath (si_e it)
                       /\ Recorded a1 (new_band ex_a3) (reused_entry ex_cfg it be)
                       /\ forall e', Recorded a1 (new_band ex_a3) e' -> e_apath e' = s_apath (si_e it) ->
                                     e' = reused_entry ex_cfg it be)
      /\ Forall (fun x => ~ is_block_write (fst x)) tr.
  Proof.
    destruct (ex_src_ok 7 (or_intror eq_refl)) as (H1 & _ & _).
    apply (unchanged_tree_same_addresses ex_pre ex_cfg (ex_src 7) ex_a3 1 ex_ready_a3 H1);
      [vm_compute; reflexivity | exact ex_a3_complete | exact ex_a3_unchanged].
  Qed.

  (* the general form on a source that changed: "/b" has other bytes but the mtime and size
     band 1 recorded, "/e" and "/f/x" are new *)
  Example ex_general_thm :
    exists tr a1 r,
      run ex_pre (backup_prog ex_pre e5_cfg (e5_src other_b)) ex_a3 [] = (tr, a1, Done r)
      /\ b_ok r = true /\ b_errors r = 0 /\ b_band r = Some (new_band ex_a3)
      /\ ReusesAll ex_pre e5_cfg (e5_src other_b) ex_a3 a1.
  Proof.
    destruct (e5_src_ok other_b eq_refl) as (H1 & _ & _).
    exact (backup_reuses_basis ex_pre e5_cfg (e5_src other_b) ex_a3 ex_ready_a3 H1).
  Qed.
  Example ex_general_count :
    reuse_count ex_a3 (basis_of ex_pre ex_a3) (e5_src other_b) = 2%nat
    /\ reuse_check e5_cfg ex_a3 (basis_of ex_pre ex_a3) (e5_src other_b)
         (final (backup_prog ex_pre e5_cfg (e5_src other_b)) ex_a3 []) 2 = true.
  Proof. vm_compute. split; reflexivity. Qed.

  (* ---- (b): the second backup killed ---- *)
  Example ex_ready_a2 : Ready ex_pre ex_a2.
  Proof. apply ready_b_sound. vm_compute. reflexivity. Qed.

  (* killed before its 21st operation (the first hunk of band 1, with "/" and "/a", is written;
     "/b" is being stored) *)
  Definition ex_phi_kill : list fault := repeat NoFault 20 ++ [Crash].
  Example ex_kill_state :
    let a1 := final (backup 7) ex_a2 ex_phi_kill in
    snd (run ex_pre (backup 7) ex_a2 ex_phi_kill) = Crashed
    /\ get a1 (PTail 1) = None
    /\ head_opens a1 1 = true
    /\ file_entries_count a1 1 = 1%nat
    /\ file_entries_kept a1 1 (final (backup 7) a1 []) 2 = true.
  Proof. vm_compute. repeat split; reflexivity. Qed.

  Example ex_resumed_thm :
    let a1 := snd (fst (run ex_pre (backup_prog ex_pre ex_cfg (ex_src 7)) ex_a2 ex_phi_kill)) in
    Ready ex_pre a1
    /\ newest a1 = Some (new_band ex_a2)
    /\ exists tr a2 r,
         run ex_pre (backup_prog ex_pre ex_cfg (ex_src 7)) a1 [] = (tr, a2, Done r)
         /\ b_ok r = true /\ b_errors r = 0 /\ b_band r = Some (new_band a1)
         /\ forall e, Recorded a1 (new_band ex_a2) e -> e_kind e = KFile -> Recorded a2 (new_band a1) e.
  Proof.
    destruct (ex_src_ok 7 (or_intror eq_refl)) as (H1 & H2 & H3).
    apply (resumed_backup_reuses_interrupted_entries ex_pre ex_cfg (ex_src 7) ex_a2 ex_phi_kill ex_ready_a2 H1 H2 H3).
    - unfold cfg_ok. cbn. lia.
    - vm_compute. reflexivity.
  Qed.

  (* the kill of SafeExamples (the write of the first hunk torn: a zero-length hunk file):
     the interrupted band records nothing, the resumed backup stitches on into band 0 *)
  Example ex_resumed_torn_thm :
    let a1 := snd (fst (run ex_pre (backup_prog ex_pre ex_cfg (ex_src 7)) ex_a2 ex_phi_crash)) in
    Ready ex_pre a1
    /\ newest a1 = Some (new_band ex_a2)
    /\ exists tr a2 r,
         run ex_pre (backup_prog ex_pre ex_cfg (ex_src 7)) a1 [] = (tr, a2, Done r)
         /\ b_ok r = true /\ b_errors r = 0 /\ b_band r = Some (new_band a1)
         /\ forall e, Recorded a1 (new_band ex_a2) e -> e_kind e = KFile -> Recorded a2 (new_band a1) e.
  Proof.
    destruct (ex_src_ok 7 (or_intror eq_refl)) as (H1 & H2 & H3).
    apply (resumed_backup_reuses_interrupted_entries ex_pre ex_cfg (ex_src 7) ex_a2 ex_phi_crash ex_ready_a2 H1 H2 H3).
    - unfold cfg_ok. cbn. lia.
    - vm_compute. reflexivity.
  Qed.
  Example ex_resumed_torn_computed :
    let a1 := final (backup 7) ex_a2 ex_phi_crash in
    get a1 (PHunk 1 0) = Some Empty
    /\ map e_apath (basis_of ex_pre a1) = [[47]; [47;97]; [47;98]]
    /\ reuse_count a1 (basis_of ex_pre a1) (ex_src 7) = 1%nat
    /\ reuse_check ex_cfg a1 (basis_of ex_pre a1) (ex_src 7) (final (backup 7) a1 []) 2 = true.
  Proof. vm_compute. repeat split; reflexivity. Qed.
End ReuseExamples.

(* ------------------------------------------------------------------------- *)
(** * H. "Every block it names is present" is necessary                        *)
(* ------------------------------------------------------------------------- *)
Lemma Recorded_recorded_b a b e : Recorded a b e -> recorded_b a b e = true.
Proof.
  intros (h & es & G & He). unfold recorded_b. apply existsb_exists. exists e.
  split; [|apply DiffP.entry_eqb_eq; reflexivity].
  unfold Truth.band_entries. apply in_flat_map. exists (h, es). split; [|exact He].
  unfold Truth.band_hunks. apply in_flat_map. exists (PHunk b h, Good (PlHunk es)).
  split; [apply ValidP.get_In_files; exact G|]. rewrite N.eqb_refl. left. reflexivity.
Qed.

(* FALSE (the clause "reuses its recorded entries for unchanged files" read without the
   proviso that the blocks are still there):

     forall pre c src a0, Startable pre a0 -> SrcSorted src ->
       forall it be, In it src -> s_kind (si_e it) = KFile -> In be (basis_of pre a0) ->
         e_apath be = s_apath (si_e it) -> same_meta (si_e it) be = true ->
         Recorded (final state) (new_band a0) (reused_entry c it be).

   When a block the basis entry names is missing, [blocks_present] fails, the file is read and
   stored afresh, and the entry recorded carries the addresses of what was read.  Witness:
   [ex_a3] without the block [5;7] of "/b", and a "/b" with the same mtime and size but other
   bytes.  The true form is [backup_reuses_basis] ([Reusable] includes [blocks_listed]);
   with referential integrity ([AInv]) the blocks of every recorded entry are present
   ([recorded_blocks_listed]). *)
Module ReuseRefuted.
  Import SafeExamples E2EExamples.
  Definition a_bad : arch := remove_path ex_a3 (PBlock [5;7]).
  Definition it_b : sitem := nth 2 (e5_src other_b) {| si_e := mk_s [] KUnknown 0 0; si_data := [] |}.
  Definition be_b : entry := nth 2 (basis_of ex_pre a_bad) (meta_from false (si_e it_b)).

  Theorem reuse_without_present_blocks_refuted :
    Startable ex_pre a_bad /\ SrcSorted (e5_src other_b)
    /\ In it_b (e5_src other_b) /\ s_kind (si_e it_b) = KFile
    /\ In be_b (basis_of ex_pre a_bad)
    /\ e_apath be_b = s_apath (si_e it_b) /\ same_meta (si_e it_b) be_b = true
    /\ blocks_listed_b a_bad be_b = false
    /\ exists r, snd (run ex_pre (backup_prog ex_pre e5_cfg (e5_src other_b)) a_bad []) = Done r
                 /\ b_ok r = true /\ b_errors r = 0 /\ b_band r = Some (new_band a_bad)
                 /\ ~ Recorded (snd (fst (run ex_pre (backup_prog ex_pre e5_cfg (e5_src other_b)) a_bad [])))
                               (new_band a_bad) (reused_entry e5_cfg it_b be_b).
  Proof.
    split; [apply startable_b_sound; vm_compute; reflexivity|].
    split; [apply (e5_src_ok other_b eq_refl)|].
    split; [apply nth_In; vm_compute; lia|].
    split; [vm_compute; reflexivity|].
    split; [apply nth_In; vm_compute; lia|].
    split; [vm_compute; reflexivity|].
    split; [vm_compute; reflexivity|].
    split; [vm_compute; reflexivity|].
    eexists. split; [vm_compute; reflexivity|].
    split; [reflexivity|]. split; [reflexivity|]. split; [vm_compute; reflexivity|].
    intros H. apply Recorded_recorded_b in H. vm_compute in H. discriminate H.
  Qed.
End ReuseRefuted.

Print Assumptions snext_lazy.
Print Assumptions rem_stitch_pure.
Print Assumptions basis_sorted.
Print Assumptions basis_reader_yields_basis_of.
Print Assumptions recorded_in_basis.
Print Assumptions backup_band_dirs.
Print Assumptions backup_reuses_basis_sorted.
Print Assumptions backup_reuses_basis.
Print Assumptions present_blocks_not_rewritten.
Print Assumptions backup_reuses_newest_band.
Print Assumptions unchanged_tree_same_addresses.
Print Assumptions resumed_backup_reuses_interrupted_entries.
Print Assumptions ReuseRefuted.reuse_without_present_blocks_refuted.
