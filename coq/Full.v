(* C01, both halves joined: `conserve restore` as a whole (src/restore.rs, `restore`).

   The archive side ([Read.restore_prog]: open the stored tree, read the stitched listing,
   read every file's blocks) hands over a list of [rfile]s; the destination side
   ([Dest.restore_into]) makes the file-system calls for the entries of that list, in order,
   writing for each file the bytes the archive side read for it.

   A file the archive side could not read completely ([RFile e None]): the real code reports
   an error and leaves the file created with the blocks read so far; the model writes it
   EMPTY.  Every theorem of FullP.v is about runs in which no such file occurs.

   Model file: executable definitions only. *)
From Coq Require Import List NArith Bool.
From CV Require Import Base.Str Apath Entry Store Stitch Backup Read Tree Valid Truth E2E Dest.
Import ListNotations.
Local Open Scope N_scope.

Definition rf_entry (rf : rfile) : entry := match rf with RFile e _ => e end.
Definition rf_data (rf : rfile) : option bytes := match rf with RFile _ d => d end.

(* the bytes restore_file writes for entry [e]: what the archive side read for its path *)
Definition content_from (rfs : list rfile) (e : entry) : bytes :=
  match find (fun rf => str_eqb (e_apath (rf_entry rf)) (e_apath e)) rfs with
  | Some (RFile _ (Some d)) => d
  | _ => []
  end.

Inductive full_result :=
| FArchiveError                                (* the stored tree could not be opened: nothing is touched *)
| FRefused (rr : rres)                         (* DestinationNotEmpty *)
| FRestored (rr : rres) (s : dstate).

(* restore(archive, destination, {band_selection, overwrite}) *)
Definition full_restore (pre : bytes -> N) (p : policy) (overwrite : bool) (a : arch) (dest : fs)
  : full_result :=
  match run pre (restore_prog p keep_all) a [] with
  | (_, _, Store.Done rr) =>
      if r_ok rr then
        match restore_into (content_from (r_files rr)) overwrite dest (map rf_entry (r_files rr)) with
        | Some s => FRestored rr s
        | None => FRefused rr
        end
      else FArchiveError
  | _ => FArchiveError
  end.

(* ---- the shape of a listing: paths and kinds ---- *)
Definition shape := list (str * kind).

Definition src_shape (src : list sitem) : shape :=
  map (fun it => (s_apath (si_e it), s_kind (si_e it))) src.
Definition walk_shape {M} (l : list (item M)) : shape :=
  map (fun it => (path it, ikind it)) l.

(* the node restore makes of a source item (an item of unknown kind is not recorded) *)
Definition src_node (it : sitem) : node :=
  match s_kind (si_e it) with
  | KDir => NDir
  | KFile => NFile (si_data it)
  | KSymlink => match s_target (si_e it) with Some t => NLink t | None => NDir end   (* None: excluded *)
  | KUnknown => NDir                                                                  (* excluded *)
  end.

(* the source item at destination path p *)
Definition src_at (src : list sitem) (p : rpath) : option sitem :=
  find (fun it => rpath_eqb (comps (s_apath (si_e it))) p) src.

(* ---- "the listing is tree-shaped" ---- *)
(* every item's parent directories occur earlier in the listing, as directories
   (q ranges over the proper non-empty prefixes of the item's path: DestP.ppre) *)
Definition shape_parents_first (sh : shape) : Prop :=
  forall l1 a k l2 q, sh = l1 ++ (a, k) :: l2 ->
    (q <> [] /\ exists c rest, comps a = q ++ c :: rest) ->
    exists d, In (d, KDir) l1 /\ comps d = q.

(* what a walk of a real tree yields (FullP.walk_is_tree_shaped): symlinks have targets, the
   root is a directory, directories come before their contents *)
Definition SrcTree (src : list sitem) : Prop :=
  (forall it, In it src -> s_kind (si_e it) = KSymlink -> s_target (si_e it) <> None)
  /\ (forall it, In it src -> comps (s_apath (si_e it)) = [] -> s_kind (si_e it) = KDir)
  /\ shape_parents_first (src_shape src).

(* ---- its checker (quadratic) ---- *)
Fixpoint shape_parentsb (dirs : list rpath) (sh : shape) : bool :=
  match sh with
  | [] => true
  | (a, k) :: sh' =>
      let p := comps a in
      (match parent p with [] => true | par => mem_rpath par dirs end)
      && shape_parentsb (if kind_eqb k KDir then p :: dirs else dirs) sh'
  end.

Definition src_treeb (src : list sitem) : bool :=
  forallb (fun it => negb (kind_eqb (s_kind (si_e it)) KSymlink)
                     || match s_target (si_e it) with Some _ => true | None => false end) src
  && forallb (fun it => negb (match comps (s_apath (si_e it)) with [] => true | _ => false end)
                        || kind_eqb (s_kind (si_e it)) KDir) src
  && shape_parentsb [] (src_shape src).

(* the whole statement, for the examples: backup [src] into [a0], restore the new band into
   the empty destination, and compare what is there with the source, path by path *)
Definition node_eqb (x y : node) : bool :=
  match x, y with
  | NDir, NDir => true
  | NFile c, NFile d => str_eqb c d
  | NLink t, NLink u => str_eqb t u
  | _, _ => false
  end.

Definition full_check (pre : bytes -> N) (c : cfg) (src : list sitem) (a0 : arch) : bool :=
  match run pre (backup_prog pre c src) a0 [] with
  | (_, a1, Store.Done r) =>
      b_ok r && N.eqb (b_errors r) 0
      && match full_restore pre (Specified (new_band a0)) false a1 [] with
         | FRestored rr s =>
             N.eqb (r_merr rr) 0 && N.eqb (d_esc s) 0 && N.eqb (d_errs s) 0
             (* every recorded source item is there, with its kind, bytes or target *)
             && forallb (fun it => match comps (s_apath (si_e it)) with
                                   | [] => true
                                   | p => match node_at (d_fs s) p with
                                          | Some n => node_eqb n (src_node it)
                                          | None => false
                                          end
                                   end) (known_items src)
             (* and nothing else is *)
             && forallb (fun b => existsb (fun it => rpath_eqb (comps (s_apath (si_e it))) (fst b))
                                          (known_items src)) (d_fs s)
         | _ => false
         end
  | _ => false
  end.
