(* Proofs about Glob.v.
   1. [seq_match_lang], [tok_match_*]: the backtracking matcher decides the regex semantics
      of globset's token sequence (denotation [tok_lang]/[seq_lang]).
   2. [glob_shape], [glob_suffix_closed], [glob_suffix_intro]: the `/**` variant of a pattern.
   3. [excl_ancestor_closed] (AST patterns) and [excl_str_ancestor_closed] (ANY pattern text
      accepted by the transcribed parser): an excluded non-root apath has all its
      descendants excluded.  False at the root: [excl_ancestor_closed_refuted].
   4. [parse_sfx]: tokens of P ++ "/**" versus tokens of P, for every glob text P.
   5. [parse_show_segs], [excl_str_show]: the structural tokenizer of the pattern AST equals
      the transcribed globset parser run on the printed pattern. *)
From CV Require Import Base.Str Base.StrP Apath ApathP Glob.
From Coq Require Import Lia.

(* ------------------------------------------------------------------ *)
(** * The three search loops *)

Lemma star_noslash_spec k s :
  star_noslash k s = true <-> exists a b, s = a ++ b /\ ~ In SLASH a /\ k b = true.
Proof.
  induction s as [|c s IH]; cbn [star_noslash].
  - rewrite orb_false_r. split.
    + intros K. exists [], []. cbn. auto.
    + intros (a & b & E & _ & K). symmetry in E. apply app_eq_nil in E.
      destruct E as [_ ->]. exact K.
  - rewrite orb_true_iff, andb_true_iff, negb_true_iff, N.eqb_neq, IH. split.
    + intros [K | (Hc & a & b & E & Ha & K)].
      * exists [], (c :: s). cbn. auto.
      * exists (c :: a), b. subst s. split; [reflexivity|]. split; [|exact K].
        intros [E|I]; [congruence | tauto].
    + intros (a & b & E & Ha & K). destruct a as [|x a].
      * left. cbn in E. subst b. exact K.
      * right. cbn in E. injection E as E1 E2. subst x s. split.
        -- intros E. apply Ha. left. exact E.
        -- exists a, b. split; [reflexivity|]. split; [|exact K].
           intros I. apply Ha. right. exact I.
Qed.

Lemma any_then_spec k s :
  any_then k s = true <-> exists a b, s = a ++ b /\ k b = true.
Proof.
  induction s as [|c s IH]; cbn [any_then].
  - rewrite orb_false_r. split.
    + intros K. exists [], []. auto.
    + intros (a & b & E & K). symmetry in E. apply app_eq_nil in E.
      destruct E as [_ ->]. exact K.
  - rewrite orb_true_iff, IH. split.
    + intros [K | (a & b & E & K)].
      * exists [], (c :: s). auto.
      * exists (c :: a), b. subst s. auto.
    + intros (a & b & E & K). destruct a as [|x a].
      * left. cbn in E. subst b. exact K.
      * right. cbn in E. injection E as E1 E2. subst x s. exists a, b. auto.
Qed.

Lemma upto_slash_then_spec k s :
  upto_slash_then k s = true <-> exists a b, s = a ++ SLASH :: b /\ k b = true.
Proof.
  induction s as [|c s IH]; cbn [upto_slash_then].
  - split; [discriminate|]. intros (a & b & E & _). destruct a; discriminate.
  - rewrite orb_true_iff, andb_true_iff, N.eqb_eq, IH. split.
    + intros [[Hc K] | (a & b & E & K)].
      * exists [], s. subst c. auto.
      * exists (c :: a), b. subst s. auto.
    + intros (a & b & E & K). destruct a as [|x a].
      * left. cbn in E. injection E as E1 E2. subst c s. auto.
      * right. cbn in E. injection E as E1 E2. subst x s. exists a, b. auto.
Qed.

(* ------------------------------------------------------------------ *)
(** * Denotational (regex) semantics of a token sequence *)

(* The set of strings one token's regex fragment matches. *)
Definition tok_lang (t : token) (a : str) : Prop :=
  match t with
  | Literal b => a = [b]
  | Any => exists c, a = [c] /\ c <> SLASH                        (* [^/]        *)
  | Class neg rs => exists c, a = [c] /\ class_match neg rs c = true
  | ZeroOrMore => ~ In SLASH a                                    (* [^/]*       *)
  | RecursivePrefix => a = [] \/ exists x, a = x ++ [SLASH]       (* (?:/?|.*/)  *)
  | RecursiveSuffix => exists x, a = SLASH :: x                   (* /.*         *)
  | RecursiveZeroOrMore => a = [SLASH] \/ exists x, a = SLASH :: x ++ [SLASH]   (* (?:/|/.*/) *)
  end.

(* Concatenation of the fragments, anchored at both ends. *)
Fixpoint seq_lang (ts : list token) (s : str) : Prop :=
  match ts with
  | [] => s = []
  | t :: ts' => exists a b, s = a ++ b /\ tok_lang t a /\ seq_lang ts' b
  end.

Lemma seq_match_nil s : seq_match [] s = true <-> s = [].
Proof. destruct s; cbn; split; congruence. Qed.

Lemma one_byte_step (P : N -> bool) (k : str -> bool) s :
  match s with c :: s' => P c && k s' | [] => false end = true <->
  exists a b, s = a ++ b /\ (exists c, a = [c] /\ P c = true) /\ k b = true.
Proof.
  split.
  - destruct s as [|c s']; [discriminate|]. rewrite andb_true_iff. intros [Hc K].
    exists [c], s'. split; [reflexivity|]. split; [exists c; auto | exact K].
  - intros (a & b & E & (c & Ea & Hc) & K). subst a s. cbn. rewrite Hc, K. reflexivity.
Qed.

Lemma seq_match_cons t ts s :
  seq_match (t :: ts) s = true <->
  exists a b, s = a ++ b /\ tok_lang t a /\ seq_match ts b = true.
Proof.
  destruct t as [b0| | | | | |neg rs]; cbn [seq_match tok_lang].
  - (* Literal *)
    rewrite (one_byte_step (fun c => N.eqb c b0)). split.
    + intros (a & b & E & (c & Ea & Hc) & K). apply N.eqb_eq in Hc. subst c.
      exists a, b. auto.
    + intros (a & b & E & Ea & K). exists a, b. split; [exact E|]. split; [|exact K].
      exists b0. rewrite N.eqb_refl. auto.
  - (* Any *)
    rewrite (one_byte_step (fun c => negb (N.eqb c SLASH))). split.
    + intros (a & b & E & (c & Ea & Hc) & K). apply negb_true_iff, N.eqb_neq in Hc.
      exists a, b. split; [exact E|]. split; [exists c; auto | exact K].
    + intros (a & b & E & (c & Ea & Hc) & K). exists a, b. split; [exact E|]. split; [|exact K].
      exists c. split; [exact Ea|]. apply negb_true_iff, N.eqb_neq. exact Hc.
  - (* ZeroOrMore *)
    apply star_noslash_spec.
  - (* RecursivePrefix *)
    rewrite orb_true_iff, upto_slash_then_spec. split.
    + intros [K | (a & b & E & K)].
      * exists [], s. auto.
      * exists (a ++ [SLASH]), b. rewrite <- app_assoc. cbn. split; [exact E|].
        split; [right; exists a; reflexivity | exact K].
    + intros (a & b & E & [Ea | (x & Ea)] & K); subst a.
      * left. cbn in E. subst b. exact K.
      * right. exists x, b. rewrite <- app_assoc in E. cbn in E. auto.
  - (* RecursiveSuffix *)
    split.
    + destruct s as [|c s']; [discriminate|]. rewrite andb_true_iff, N.eqb_eq, any_then_spec.
      intros [Hc (a & b & E & K)]. subst c s'.
      exists (SLASH :: a), b. split; [reflexivity|]. split; [exists a; reflexivity | exact K].
    + intros (a & b & E & (x & Ea) & K). subst a s. cbn [app].
      rewrite N.eqb_refl. cbn [andb]. apply any_then_spec. exists x, b. auto.
  - (* RecursiveZeroOrMore *)
    split.
    + destruct s as [|c s']; [discriminate|].
      rewrite andb_true_iff, N.eqb_eq, orb_true_iff, upto_slash_then_spec.
      intros [Hc [K | (a & b & E & K)]]; subst c.
      * exists [SLASH], s'. auto.
      * subst s'. exists (SLASH :: a ++ [SLASH]), b. cbn. rewrite <- app_assoc. cbn.
        split; [reflexivity|]. split; [right; exists a; reflexivity | exact K].
    + intros (a & b & E & [Ea | (x & Ea)] & K); subst a s; cbn [app];
        rewrite N.eqb_refl; cbn [andb]; apply orb_true_iff.
      * left. exact K.
      * right. apply upto_slash_then_spec. exists x, b. rewrite <- app_assoc. auto.
  - (* Class *)
    rewrite (one_byte_step (class_match neg rs)). reflexivity.
Qed.

(* The matcher decides the regex semantics, whatever its search order. *)
Theorem seq_match_lang ts : forall s, seq_match ts s = true <-> seq_lang ts s.
Proof.
  induction ts as [|t ts IH]; intros s.
  - apply seq_match_nil.
  - rewrite seq_match_cons. cbn [seq_lang]. split.
    + intros (a & b & E & Ha & K). exists a, b. rewrite <- IH. auto.
    + intros (a & b & E & Ha & K). exists a, b. rewrite IH. auto.
Qed.

Lemma seq_lang_app ts1 ts2 : forall s,
  seq_lang (ts1 ++ ts2) s <-> exists a b, s = a ++ b /\ seq_lang ts1 a /\ seq_lang ts2 b.
Proof.
  induction ts1 as [|t ts1 IH]; intros s; cbn [app seq_lang].
  - split.
    + intros H. exists [], s. auto.
    + intros (a & b & E & Ea & H). subst a s. exact H.
  - split.
    + intros (a & b & E & Ha & H). apply IH in H. destruct H as (a1 & b1 & E1 & H1 & H2).
      exists (a ++ a1), b1. subst b s. rewrite app_assoc. split; [reflexivity|].
      split; [|exact H2]. exists a, a1. auto.
    + intros (a & b & E & (a0 & a1 & Ea & Ht & H1) & H2). subst a s.
      exists a0, (a1 ++ b). rewrite app_assoc. split; [reflexivity|]. split; [exact Ht|].
      apply IH. exists a1, b. auto.
Qed.

Theorem seq_match_app ts1 ts2 s :
  seq_match (ts1 ++ ts2) s = true <->
  exists a b, s = a ++ b /\ seq_match ts1 a = true /\ seq_match ts2 b = true.
Proof.
  rewrite seq_match_lang, seq_lang_app. split; intros (a & b & E & H1 & H2); exists a, b.
  - rewrite !seq_match_lang. auto.
  - rewrite <- !seq_match_lang. auto.
Qed.

(* ------------------------------------------------------------------ *)
(** * Per-token characterisations of [tok_match] *)

Lemma tok_match_seq ts s : ts <> [RecursivePrefix] -> tok_match ts s = seq_match ts s.
Proof.
  intros H. unfold tok_match. destruct ts as [|t ts]; [reflexivity|].
  destruct t; try reflexivity. destruct ts; [congruence | reflexivity].
Qed.

Lemma tok_match_cons_seq t ts s :
  t <> RecursivePrefix -> tok_match (t :: ts) s = seq_match (t :: ts) s.
Proof. intros H. apply tok_match_seq. congruence. Qed.

Theorem tok_match_globstar_only s : tok_match [RecursivePrefix] s = true.
Proof. reflexivity. Qed.

Theorem tok_match_nil s : tok_match [] s = true <-> s = [].
Proof. apply seq_match_nil. Qed.

Theorem tok_match_Literal b ts s :
  tok_match (Literal b :: ts) s = true <-> exists s', s = b :: s' /\ seq_match ts s' = true.
Proof.
  rewrite tok_match_cons_seq by discriminate. rewrite seq_match_cons. cbn [tok_lang]. split.
  - intros (a & r & E & Ea & K). subst a s. exists r. auto.
  - intros (s' & E & K). exists [b], s'. auto.
Qed.

Theorem tok_match_Any ts s :
  tok_match (Any :: ts) s = true <->
  exists c s', s = c :: s' /\ c <> SLASH /\ seq_match ts s' = true.
Proof.
  rewrite tok_match_cons_seq by discriminate. rewrite seq_match_cons. cbn [tok_lang]. split.
  - intros (a & r & E & (c & Ea & Hc) & K). subst a s. exists c, r. auto.
  - intros (c & s' & E & Hc & K). exists [c], s'. split; [exact E|]. split; [exists c; auto | exact K].
Qed.

Theorem tok_match_Class neg rs ts s :
  tok_match (Class neg rs :: ts) s = true <->
  exists c s', s = c :: s' /\ class_match neg rs c = true /\ seq_match ts s' = true.
Proof.
  rewrite tok_match_cons_seq by discriminate. rewrite seq_match_cons. cbn [tok_lang]. split.
  - intros (a & r & E & (c & Ea & Hc) & K). subst a s. exists c, r. auto.
  - intros (c & s' & E & Hc & K). exists [c], s'. split; [exact E|]. split; [exists c; auto | exact K].
Qed.

Theorem tok_match_ZeroOrMore ts s :
  tok_match (ZeroOrMore :: ts) s = true <->
  exists a b, s = a ++ b /\ ~ In SLASH a /\ seq_match ts b = true.
Proof. rewrite tok_match_cons_seq by discriminate. apply seq_match_cons. Qed.

(* `**/` in front of something: nothing, or any text up to and including a '/'. *)
Theorem tok_match_RecursivePrefix t ts s :
  tok_match (RecursivePrefix :: t :: ts) s = true <->
  seq_match (t :: ts) s = true \/
  exists a b, s = a ++ SLASH :: b /\ seq_match (t :: ts) b = true.
Proof.
  rewrite tok_match_seq by discriminate. rewrite seq_match_cons. cbn [tok_lang]. split.
  - intros (a & b & E & [Ea | (x & Ea)] & K); subst a.
    + left. cbn in E. subst b. exact K.
    + right. exists x, b. rewrite <- app_assoc in E. auto.
  - intros [K | (a & b & E & K)].
    + exists [], s. auto.
    + exists (a ++ [SLASH]), b. rewrite <- app_assoc. split; [exact E|].
      split; [right; exists a; reflexivity | exact K].
Qed.

(* `/**` : a '/', then any text (possibly empty). *)
Theorem tok_match_RecursiveSuffix ts s :
  tok_match (RecursiveSuffix :: ts) s = true <->
  exists a b, s = SLASH :: a ++ b /\ seq_match ts b = true.
Proof.
  rewrite tok_match_cons_seq by discriminate. rewrite seq_match_cons. cbn [tok_lang]. split.
  - intros (a & b & E & (x & Ea) & K). subst a s. exists x, b. auto.
  - intros (a & b & E & K). exists (SLASH :: a), b. split; [exact E|].
    split; [exists a; reflexivity | exact K].
Qed.

(* `/**/` : a single '/', or '/' .. '/'. *)
Theorem tok_match_RecursiveZeroOrMore ts s :
  tok_match (RecursiveZeroOrMore :: ts) s = true <->
  exists r, s = SLASH :: r /\
    (seq_match ts r = true \/ exists a b, r = a ++ SLASH :: b /\ seq_match ts b = true).
Proof.
  rewrite tok_match_cons_seq by discriminate. rewrite seq_match_cons. cbn [tok_lang]. split.
  - intros (a & b & E & [Ea | (x & Ea)] & K); subst a s.
    + exists b. auto.
    + exists (x ++ SLASH :: b). cbn. rewrite <- app_assoc. split; [reflexivity|].
      right. exists x, b. auto.
  - intros (r & E & [K | (a & b & Er & K)]); subst s.
    + exists [SLASH], r. auto.
    + subst r. exists (SLASH :: a ++ [SLASH]), b. cbn. rewrite <- app_assoc.
      split; [reflexivity|]. split; [right; exists a; reflexivity | exact K].
Qed.

(* A glob ending in `/**`. *)
Lemma snoc_RS_not_RP X : X ++ [RecursiveSuffix] <> [RecursivePrefix].
Proof.
  intros H. apply (f_equal (@rev token)) in H. rewrite rev_app_distr in H. cbn in H. congruence.
Qed.

Theorem tok_match_snoc_RS X s :
  tok_match (X ++ [RecursiveSuffix]) s = true <->
  exists u v, s = u ++ SLASH :: v /\ seq_match X u = true.
Proof.
  rewrite tok_match_seq by apply snoc_RS_not_RP. rewrite seq_match_app. split.
  - intros (a & b & E & H1 & H2). apply seq_match_cons in H2.
    destruct H2 as (a2 & b2 & E2 & (x & Ex) & H3). apply seq_match_nil in H3. subst b2 a2 b s.
    exists a, x. rewrite app_nil_r. auto.
  - intros (u & v & E & H). exists u, (SLASH :: v). split; [exact E|]. split; [exact H|].
    apply seq_match_cons. exists (SLASH :: v), []. rewrite app_nil_r.
    split; [reflexivity|]. split; [exists v; reflexivity | reflexivity].
Qed.

(* ------------------------------------------------------------------ *)
(** * Shape of the two globs conserve registers *)

Lemma forallb_gs_snoc ss :
  forallb is_globstar (ss ++ [Globstar]) = forallb is_globstar ss.
Proof. rewrite forallb_app. cbn. rewrite andb_true_r. reflexivity. Qed.

Lemma body_snoc ss : forall c,
  body c (ss ++ [Globstar]) = body c ss ++ [RecursiveSuffix] \/
  (body c (ss ++ [Globstar]) = body c ss /\
   ((c = true /\ forallb is_globstar ss = true) \/ exists X, body c ss = X ++ [RecursiveSuffix])).
Proof.
  induction ss as [|sg ss IH]; intros c.
  - destruct c; cbn; [right | left]; auto.
  - destruct sg as [|l]; cbn [app body].
    + destruct c.
      * destruct (IH true) as [E | (E & [(_ & F) | (X & EX)])].
        -- left. exact E.
        -- right. split; [exact E|]. left. cbn. auto.
        -- right. split; [exact E|]. right. exists X. exact EX.
      * rewrite forallb_gs_snoc. destruct (forallb is_globstar ss) eqn:F.
        -- right. split; [reflexivity|]. right. exists []. reflexivity.
        -- destruct (IH true) as [E | (E & [(_ & F') | (X & EX)])].
           ++ left. rewrite E. reflexivity.
           ++ congruence.
           ++ right. rewrite E. split; [reflexivity|]. right.
              exists (RecursiveZeroOrMore :: X). rewrite EX. reflexivity.
    + destruct (IH false) as [E | (E & [(F & _) | (X & EX)])].
      * left. rewrite E. rewrite !app_assoc. reflexivity.
      * discriminate.
      * right. rewrite E. split; [reflexivity|]. right.
        exists ((if c then [] else [Literal SLASH]) ++ map atom_tok l ++ X).
        rewrite EX. rewrite !app_assoc. reflexivity.
Qed.

Lemma conserve_segs_anchored p :
  anchored p = true -> conserve_segs p <> [].
Proof. unfold conserve_segs. intros ->. destruct (segs p); discriminate. Qed.

Lemma segs_toks_lead ss : ss <> [] -> segs_toks true ss = body false ss.
Proof. destruct ss; [congruence | reflexivity]. Qed.

(* Either the `/**` variant is the pattern's own glob with one RecursiveSuffix appended,
   or (when the pattern already ends in a `**` component) it is the SAME glob, which
   then is `**` alone or already ends in RecursiveSuffix. *)
Theorem glob_shape p :
  glob_sfx p = glob_own p ++ [RecursiveSuffix] \/
  (glob_sfx p = glob_own p /\
   (glob_own p = [RecursivePrefix] \/ exists X, glob_own p = X ++ [RecursiveSuffix])).
Proof.
  unfold glob_sfx, glob_own. destruct (anchored p) eqn:A.
  - pose proof (conserve_segs_anchored p A) as Hne.
    rewrite (segs_toks_lead (conserve_segs p)) by exact Hne.
    rewrite (segs_toks_lead (conserve_segs p ++ [Globstar]))
      by (intros H; apply app_eq_nil in H; destruct H; discriminate).
    destruct (body_snoc (conserve_segs p) false) as [E | (E & [(F & _) | HX])].
    + left. exact E.
    + discriminate.
    + right. auto.
  - unfold conserve_segs. rewrite A. set (cs := match segs p with [] => [Atoms []] | _ :: _ => _ end).
    cbn [app segs_toks]. rewrite forallb_gs_snoc.
    destruct (forallb is_globstar cs) eqn:F.
    + right. auto.
    + destruct (body_snoc cs true) as [E | (E & [(_ & F') | (X & EX)])].
      * left. rewrite E. reflexivity.
      * congruence.
      * right. rewrite E. split; [reflexivity|]. right.
        exists (RecursivePrefix :: X). rewrite EX. reflexivity.
Qed.

Corollary glob_sfx_shape p :
  glob_sfx p = [RecursivePrefix] \/ exists X, glob_sfx p = X ++ [RecursiveSuffix].
Proof.
  destruct (glob_shape p) as [E | (E & [E1 | (X & EX)])].
  - right. eauto.
  - left. congruence.
  - right. exists X. congruence.
Qed.

(* ------------------------------------------------------------------ *)
(** * Closure of a single pattern *)

(* `/.*`: the text after the '/' may be empty, so [r] is arbitrary. *)
Theorem glob_suffix_closed p a r :
  tok_match (glob_sfx p) a = true -> tok_match (glob_sfx p) (a ++ SLASH :: r) = true.
Proof.
  destruct (glob_sfx_shape p) as [E | (X & E)]; rewrite E.
  - reflexivity.
  - rewrite !tok_match_snoc_RS. intros (u & v & Ea & H). subst a.
    exists u, (v ++ SLASH :: r). rewrite <- app_assoc. auto.
Qed.

Lemma toks_RP_dec (ts : list token) : ts = [RecursivePrefix] \/ ts <> [RecursivePrefix].
Proof.
  destruct ts as [|t [|t' ts]]; try (right; discriminate).
  destruct t; try (right; discriminate). left. reflexivity.
Qed.

Lemma any_then_nil_true s : any_then (seq_match []) s = true.
Proof. apply any_then_spec. exists s, []. rewrite app_nil_r. auto. Qed.

Theorem glob_suffix_intro p a r :
  tok_match (glob_own p) a = true ->
  (glob_own p <> [RecursivePrefix] \/ exists a', a = SLASH :: a') ->
  tok_match (glob_sfx p) (a ++ SLASH :: r) = true.
Proof.
  intros M Hside. destruct (glob_shape p) as [E | (E & _)].
  - rewrite E. destruct Hside as [Hne | (a' & Ea)].
    + apply tok_match_snoc_RS. exists a, r. rewrite <- tok_match_seq by exact Hne. auto.
    + destruct (toks_RP_dec (glob_own p)) as [EO | Hne].
      * rewrite EO. subst a. cbn [app tok_match seq_match].
        rewrite N.eqb_refl, any_then_nil_true. reflexivity.
      * apply tok_match_snoc_RS. exists a, r. rewrite <- tok_match_seq by exact Hne. auto.
  - pose proof (glob_suffix_closed p a r) as C. rewrite E in C. rewrite E. apply C. exact M.
Qed.

(* For apaths (which start with '/') no side condition is needed. *)
Corollary glob_suffix_intro_valid p a r :
  is_valid a = true -> tok_match (glob_own p) a = true ->
  tok_match (glob_sfx p) (a ++ SLASH :: r) = true.
Proof.
  intros V M. apply glob_suffix_intro; [exact M|]. right.
  destruct a as [|c a']; [discriminate|]. cbn in V.
  destruct (N.eqb c SLASH) eqn:Ec; [|discriminate]. apply N.eqb_eq in Ec. subst c. eauto.
Qed.

(* The side condition of [glob_suffix_intro] is needed: the empty pattern "" becomes the
   globs "**/" (= `**`, matches everything) and "**//**" = (?:/?|.*/)/.* ; "b" matches the
   first but "b/" does not match the second. *)
Theorem glob_suffix_intro_refuted :
  exists p a r, pat_ok p = true /\ tok_match (glob_own p) a = true /\
                tok_match (glob_sfx p) (a ++ SLASH :: r) = false.
Proof. exists (mkPat false []), [98], []. vm_compute. auto. Qed.

(* ------------------------------------------------------------------ *)
(** * Exclusion *)

Theorem excl_nil s : excl [] s = false.
Proof. reflexivity. Qed.

Theorem excl_app ps qs s : excl (ps ++ qs) s = excl ps s || excl qs s.
Proof. unfold excl. apply existsb_app. Qed.

Lemma excl_cons p ps s :
  excl (p :: ps) s = (tok_match (glob_own p) s || tok_match (glob_sfx p) s) || excl ps s.
Proof. unfold excl. cbn [existsb conserve_globs]. rewrite orb_false_r. reflexivity. Qed.

Theorem excl_spec ps s :
  excl ps s = true <->
  exists p, In p ps /\ (tok_match (glob_own p) s = true \/ tok_match (glob_sfx p) s = true).
Proof.
  unfold excl. rewrite existsb_exists. split; intros (p & Hin & H); exists p; (split; [exact Hin|]).
  - cbn [existsb conserve_globs] in H. rewrite orb_false_r in H. apply orb_true_iff. exact H.
  - cbn [existsb conserve_globs]. rewrite orb_false_r. apply orb_true_iff. exact H.
Qed.

(* Paths beneath a non-root apath, by whole components, extend it by "/..." *)
Lemma descend_decomp a b :
  is_valid a = true -> is_valid b = true -> a <> [SLASH] ->
  comp_prefix (comps a) (comps b) = true ->
  b = a \/ exists r, b = a ++ SLASH :: r.
Proof.
  intros Va Vb Hroot Hpre.
  apply valid_iff in Va. destruct Va as [Ea | (ca & Hca & Oka & Ea)]; [congruence|].
  apply comp_prefix_spec in Hpre. destruct Hpre as (r & Er).
  subst a. rewrite (comps_join ca Hca Oka) in Er.
  apply valid_iff in Vb. destruct Vb as [Eb | (cb & Hcb & Okb & Eb)]; subst b.
  - rewrite comps_root in Er. symmetry in Er. apply app_eq_nil in Er. destruct Er. congruence.
  - rewrite (comps_join cb Hcb Okb) in Er. subst cb. destruct r as [|w r].
    + left. rewrite app_nil_r. reflexivity.
    + right. exists (join SLASH (w :: r)). rewrite join_app by (try exact Hca; discriminate).
      reflexivity.
Qed.

(* One step: an excluded path stays excluded when "/r" is appended. *)
Theorem excl_extend ps a r :
  (exists a', a = SLASH :: a') -> excl ps a = true -> excl ps (a ++ SLASH :: r) = true.
Proof.
  intros Hsl H. apply excl_spec in H. destruct H as (p & Hin & [M | M]); apply excl_spec; exists p;
    (split; [exact Hin|]); right.
  - apply glob_suffix_intro; [exact M | right; exact Hsl].
  - apply glob_suffix_closed. exact M.
Qed.

(* MAIN.  Requested statement (for every valid a, including the root):

     forall ps a b, pats_ok ps -> is_valid a = true -> is_valid b = true ->
       excl ps a = true -> comp_prefix (comps a) (comps b) = true -> excl ps b = true

   is FALSE for a = "/" (see [excl_ancestor_closed_refuted] below): the root is an
   ancestor of everything, but a child "/x" is not "/" ++ "/" ++ r, so the `/**` glob,
   whose regex ends in `/.*`, does not cover it.  It holds for every non-root a, for ALL patterns of the
   AST (well-formedness of the patterns is not needed). *)
Theorem excl_ancestor_closed_gen ps a b :
  is_valid a = true -> is_valid b = true -> a <> [SLASH] ->
  excl ps a = true -> comp_prefix (comps a) (comps b) = true -> excl ps b = true.
Proof.
  intros Va Vb Hroot Ha Hpre.
  destruct (descend_decomp a b Va Vb Hroot Hpre) as [-> | (r & ->)]; [exact Ha|].
  apply excl_extend; [|exact Ha].
  destruct a as [|c a']; [discriminate|]. cbn in Va.
  destruct (N.eqb c SLASH) eqn:Ec; [|discriminate]. apply N.eqb_eq in Ec. subst c. eauto.
Qed.

Theorem excl_ancestor_closed ps a b :
  pats_ok ps -> is_valid a = true -> is_valid b = true -> a <> [SLASH] ->
  excl ps a = true -> comp_prefix (comps a) (comps b) = true -> excl ps b = true.
Proof. intros _. apply excl_ancestor_closed_gen. Qed.

(* Counterexamples at the root.
   (1) The pattern "/" (globs "/" and "//**") excludes the root and nothing else.
   (2) "[!a]": globs "**/[!a]" and "**/[!a]/**"; a negated class matches '/', so
       (?:/?|.*/)[^a] matches "/" (empty prefix, then '/'), but "/a" is matched by neither. *)
Definition pat_slash : pattern := mkPat true [].
Definition pat_not_a : pattern := mkPat false [Atoms [Cls true [(97, 97)]]].

Theorem excl_ancestor_closed_refuted :
  exists ps a b, pats_ok ps /\ is_valid a = true /\ is_valid b = true /\
    excl ps a = true /\ comp_prefix (comps a) (comps b) = true /\ excl ps b = false.
Proof. exists [pat_slash], [SLASH], [SLASH; 97]. vm_compute. auto 10. Qed.

Theorem excl_ancestor_closed_refuted_negclass :
  pats_ok [pat_not_a] /\ show pat_not_a = [LBRACK; BANG; 97; RBRACK] /\
  is_valid [SLASH] = true /\ is_valid [SLASH; 97] = true /\
  excl [pat_not_a] [SLASH] = true /\ comp_prefix (comps [SLASH]) (comps [SLASH; 97]) = true /\
  excl [pat_not_a] [SLASH; 97] = false.
Proof. vm_compute. auto 10. Qed.

(* ------------------------------------------------------------------ *)
(** * Examples *)

(* "*.o" : un-anchored, matches the last component at any depth, and everything below *)
Definition pat_star_o : pattern := mkPat false [Atoms [Star; Lit 46; Lit 111]].
Example ex_star_o_show : show pat_star_o = [42; 46; 111].
Proof. reflexivity. Qed.
Example ex_star_o_globs :
  conserve_globs pat_star_o =
  [[RecursivePrefix; ZeroOrMore; Literal 46; Literal 111];
   [RecursivePrefix; ZeroOrMore; Literal 46; Literal 111; RecursiveSuffix]].
Proof. reflexivity. Qed.
Example ex_star_o :
  excl [pat_star_o] [47; 97; 47; 98; 46; 111] = true            (* /a/b.o   *)
  /\ excl [pat_star_o] [47; 98; 46; 111] = true                 (* /b.o     *)
  /\ excl [pat_star_o] [47; 97; 46; 111; 46; 120] = false       (* /a.o.x   *)
  /\ excl [pat_star_o] [47; 97; 46; 111; 47; 120] = true        (* /a.o/x   *)
  /\ excl [pat_star_o] [47; 97; 46; 111; 120; 47; 121] = false. (* /a.ox/y  *)
Proof. vm_compute. auto 10. Qed.

(* "/a" : anchored *)
Definition pat_slash_a : pattern := mkPat true [Atoms [Lit 97]].
Example ex_slash_a :
  show pat_slash_a = [47; 97]
  /\ excl [pat_slash_a] [47; 97] = true                         (* /a    *)
  /\ excl [pat_slash_a] [47; 97; 47; 98] = true                 (* /a/b  *)
  /\ excl [pat_slash_a] [47; 97; 98] = false                    (* /ab   *)
  /\ excl [pat_slash_a] [47; 120; 47; 97] = false.              (* /x/a  *)
Proof. vm_compute. auto 10. Qed.

(* "a?c" : `?` is [^/], one byte *)
Definition pat_aqc : pattern := mkPat false [Atoms [Lit 97; AnyChar; Lit 99]].
Example ex_aqc :
  show pat_aqc = [97; 63; 99]
  /\ excl [pat_aqc] [47; 120; 47; 97; 47; 99] = false           (* /x/a/c  : ? does not match '/' *)
  /\ excl [pat_aqc] [47; 120; 47; 97; 98; 99] = true            (* /x/abc  *)
  /\ excl [pat_aqc] [47; 97; 195; 177; 99] = false              (* /añc    : ñ is two bytes *)
  /\ excl [pat_aqc] [47; 97; 98; 99; 47; 100] = true.           (* /abc/d  *)
Proof. vm_compute. auto 10. Qed.

(* "**/x" : conserve prepends another "**/"; both collapse into one RecursivePrefix *)
Definition pat_gs_x : pattern := mkPat false [Globstar; Atoms [Lit 120]].
Example ex_gs_x :
  show pat_gs_x = [42; 42; 47; 120]
  /\ conserve_globs pat_gs_x =
     [[RecursivePrefix; Literal 120]; [RecursivePrefix; Literal 120; RecursiveSuffix]]
  /\ excl [pat_gs_x] [47; 120] = true                           (* /x      *)
  /\ excl [pat_gs_x] [47; 97; 47; 98; 47; 120] = true           (* /a/b/x  *)
  /\ excl [pat_gs_x] [47; 97; 47; 120; 47; 98] = true           (* /a/x/b  *)
  /\ excl [pat_gs_x] [47; 97; 120] = false.                     (* /ax     *)
Proof. vm_compute. auto 10. Qed.

(* "/a/**/b" and a pattern that already ends in "/**" (the second glob is the same) *)
Definition pat_a_gs_b : pattern := mkPat true [Atoms [Lit 97]; Globstar; Atoms [Lit 98]].
Definition pat_a_gs : pattern := mkPat true [Atoms [Lit 97]; Globstar].
Example ex_inner_globstar :
  conserve_globs pat_a_gs_b =
    [[Literal 47; Literal 97; RecursiveZeroOrMore; Literal 98];
     [Literal 47; Literal 97; RecursiveZeroOrMore; Literal 98; RecursiveSuffix]]
  /\ conserve_globs pat_a_gs =
    [[Literal 47; Literal 97; RecursiveSuffix]; [Literal 47; Literal 97; RecursiveSuffix]]
  /\ excl [pat_a_gs_b] [47; 97; 47; 98] = true                  (* /a/b     *)
  /\ excl [pat_a_gs_b] [47; 97; 47; 120; 47; 121; 47; 98] = true (* /a/x/y/b *)
  /\ excl [pat_a_gs_b] [47; 97; 47; 120; 98] = false            (* /a/xb    *)
  /\ excl [pat_a_gs] [47; 97] = false                           (* /a  : "/a/**" needs the '/' *)
  /\ excl [pat_a_gs] [47; 97; 47; 120] = true.                  (* /a/x     *)
Proof. vm_compute. auto 10. Qed.

(* classes: "bar[abc]" and "[!a-z]" (conserve's own unit test) *)
Definition pat_bar_abc : pattern :=
  mkPat false [Atoms [Lit 98; Lit 97; Lit 114; Cls false [(97, 97); (98, 98); (99, 99)]]].
Definition pat_not_az : pattern := mkPat false [Atoms [Cls true [(97, 122)]]].
Example ex_class :
  show pat_bar_abc = [98; 97; 114; 91; 97; 98; 99; 93]
  /\ show pat_not_az = [91; 33; 97; 45; 122; 93]
  /\ excl [pat_bar_abc] [47; 98; 97; 114] = false               (* /bar   *)
  /\ excl [pat_bar_abc] [47; 98; 97; 114; 97] = true            (* /bara  *)
  /\ excl [pat_bar_abc] [47; 98; 97; 114; 100] = false          (* /bard  *)
  /\ excl [pat_not_az] [47; 49] = true                          (* /1     *)
  /\ excl [pat_not_az] [47; 97] = false                         (* /a     *)
  /\ excl [pat_not_az] [47] = true.                             (* /   : [^a-z] matches '/' *)
Proof. vm_compute. auto 10. Qed.

(* patterns "**" and "/**" exclude everything *)
Example ex_everything :
  conserve_globs (mkPat false [Globstar]) = [[RecursivePrefix]; [RecursivePrefix]]
  /\ conserve_globs (mkPat true [Globstar]) = [[RecursiveSuffix]; [RecursiveSuffix]]
  /\ excl [mkPat false [Globstar]] [47] = true
  /\ excl [mkPat true [Globstar]] [47] = true
  /\ excl [mkPat true [Globstar]] [47; 97; 47; 98] = true.
Proof. vm_compute. auto 10. Qed.

(* non-vacuity of the main theorem: "/a/b.o" is excluded by ["/q"; "*.o"], hence so is
   "/a/b.o/c/d" *)
Example ex_main_instance :
  let ps := [mkPat true [Atoms [Lit 113]]; pat_star_o] in
  let a := [47; 97; 47; 98; 46; 111] in
  let b := [47; 97; 47; 98; 46; 111; 47; 99; 47; 100] in
  pats_ok ps /\ is_valid a = true /\ is_valid b = true /\ a <> [SLASH] /\
  excl ps a = true /\ comp_prefix (comps a) (comps b) = true /\ excl ps b = true.
Proof. vm_compute. repeat split; congruence. Qed.

(* ================================================================== *)
(** * The parser on raw glob text: appending "/**" *)

Local Notation SFX := [SLASH; STAR; STAR].

(* relation between the tokens of P and those of P ++ "/**" *)
Definition sfx_rel (T T' : list token) : Prop :=
  T' = T ++ [RecursiveSuffix] \/
  (T' = T /\ (T = [RecursivePrefix] \/ exists X, T = X ++ [RecursiveSuffix])).

(* RecursivePrefix can only be the first token of the glob (bottom of the stack) *)
Definition rp_inv (acc : list token) : Prop := ~ In RecursivePrefix (removelast acc).

Lemma rp_inv_nil : rp_inv [].
Proof. intros H. exact H. Qed.

Lemma rp_inv_single t : rp_inv [t].
Proof. intros H. exact H. Qed.

Lemma rp_inv_push t acc : rp_inv acc -> t <> RecursivePrefix -> rp_inv (t :: acc).
Proof.
  unfold rp_inv. intros Hacc Ht. destruct acc as [|a acc']; [intros H; exact H|].
  change (removelast (t :: a :: acc')) with (t :: removelast (a :: acc')).
  intros [E | I]; [congruence | tauto].
Qed.

Lemma star_top_not_RP f top : top <> RecursivePrefix -> star_top f top <> RecursivePrefix.
Proof. destruct top, f; cbn; congruence. Qed.

Lemma rp_inv_star_top f top rest : rp_inv (top :: rest) -> rp_inv (star_top f top :: rest).
Proof.
  destruct rest as [|r rest']; [intros _; apply rp_inv_single|].
  unfold rp_inv. change (removelast (?x :: r :: rest')) with (x :: removelast (r :: rest')).
  intros H [E | I].
  - apply (star_top_not_RP f top); [|exact E]. intros E'. apply H. left. exact E'.
  - apply H. right. exact I.
Qed.

Lemma star_top_idem t : star_top true (star_top false t) = star_top true t.
Proof. destruct t; reflexivity. Qed.

Lemma star_top_final top rest :
  rp_inv (top :: rest) ->
  rev (star_top true top :: rest) = [RecursivePrefix] \/
  exists X, rev (star_top true top :: rest) = X ++ [RecursiveSuffix].
Proof.
  intros Hinv. cbn [rev].
  assert (Hc : (top = RecursivePrefix /\ star_top true top = RecursivePrefix) \/
               star_top true top = RecursiveSuffix) by (destruct top; cbn; auto).
  destruct Hc as [[Et E] | E]; rewrite E.
  - left. destruct rest as [|r rest']; [reflexivity|]. exfalso. apply Hinv.
    change (removelast (top :: r :: rest')) with (top :: removelast (r :: rest')). left. exact Et.
  - right. exists (rev rest). reflexivity.
Qed.

Lemma go_sfx_end prev acc : go MNormal prev acc SFX = POk (rev acc ++ [RecursiveSuffix]).
Proof. reflexivity. Qed.

Lemma go_normal_cons prev acc c s1 :
  go MNormal prev acc (c :: s1) =
  if N.eqb c QMARK then go MNormal (Some c) (Any :: acc) s1
  else if N.eqb c STAR then
    match s1 with
    | [] => go MNormal (Some c) (ZeroOrMore :: acc) s1
    | c2 :: s2 =>
        if negb (N.eqb c2 STAR) then go MNormal (Some c) (ZeroOrMore :: acc) s1
        else
          match acc with
          | [] =>
              match s2 with
              | [] => POk [RecursivePrefix]
              | c3 :: s3 =>
                  if is_sep c3 then go MNormal (Some c3) [RecursivePrefix] s3
                  else go MNormal (Some STAR) [ZeroOrMore; ZeroOrMore] s2
              end
          | top :: rest =>
              if negb (opt_is_sep prev)
              then go MNormal (Some STAR) (ZeroOrMore :: ZeroOrMore :: acc) s2
              else
                match s2 with
                | [] => POk (rev (star_top true top :: rest))
                | c3 :: s3 =>
                    if is_sep c3 then go MNormal (Some c3) (star_top false top :: rest) s3
                    else go MNormal (Some STAR) (ZeroOrMore :: ZeroOrMore :: acc) s2
                end
          end
    end
  else if N.eqb c LBRACK then
    match s1 with
    | [] => go (MClass false true false []) (Some c) acc s1
    | c2 :: s2 =>
        if N.eqb c2 BANG || N.eqb c2 CARET
        then go (MClass true true false []) (Some c2) acc s2
        else go (MClass false true false []) (Some c) acc s1
    end
  else if N.eqb c LBRACE || N.eqb c RBRACE || N.eqb c BACKSLASH then PUnsupported
  else go MNormal (Some c) (Literal c :: acc) s1.
Proof. reflexivity. Qed.

Lemma go_class_cons neg first in_range ranges prev acc c s1 :
  go (MClass neg first in_range ranges) prev acc (c :: s1) =
  if 128 <=? c then PUnsupported
  else if N.eqb c RBRACK && negb first then
    go MNormal (Some c)
       (Class neg (rev (if in_range then (DASH, DASH) :: ranges else ranges)) :: acc) s1
  else if first && (N.eqb c RBRACK || N.eqb c DASH) then
    go (MClass neg false in_range ((c, c) :: ranges)) (Some c) acc s1
  else if N.eqb c DASH && negb in_range then
    match ranges with
    | [] => PPanic
    | _ => go (MClass neg false true ranges) (Some c) acc s1
    end
  else if in_range then
    match ranges with
    | [] => PPanic
    | (lo, _) :: rs =>
        if c <? lo then PErr (InvalidRange lo c)
        else go (MClass neg false false ((lo, c) :: rs)) (Some c) acc s1
    end
  else go (MClass neg false false ((c, c) :: ranges)) (Some c) acc s1.
Proof. reflexivity. Qed.

Lemma go_sfx_gen n : forall s, (length s <= n)%nat -> forall m prev acc T,
  rp_inv acc -> go m prev acc s = POk T ->
  exists T', go m prev acc (s ++ SFX) = POk T' /\ sfx_rel T T'.
Proof.
  induction n as [|n IH]; intros s Hlen m prev acc T Hinv H.
  { destruct s; [|cbn in Hlen; lia]. destruct m; [|discriminate H].
    cbn in H. injection H as <-. exists (rev acc ++ [RecursiveSuffix]).
    split; [apply go_sfx_end | left; reflexivity]. }
  destruct s as [|c s1].
  { destruct m; [|discriminate H].
    cbn in H. injection H as <-. exists (rev acc ++ [RecursiveSuffix]).
    split; [apply go_sfx_end | left; reflexivity]. }
  assert (Hl1 : (length s1 <= n)%nat) by (cbn in Hlen; lia).
  destruct m as [|neg first inr rs].
  - (* normal mode *)
    rewrite go_normal_cons in H. cbn [app]. rewrite go_normal_cons.
    destruct (N.eqb c QMARK).
    { apply IH; [exact Hl1 | apply rp_inv_push; [exact Hinv | discriminate] | exact H]. }
    destruct (N.eqb c STAR).
    { destruct s1 as [|c2 s2].
      - (* "*" at the end: the next char is now '/' *)
        cbn [app]. change (negb (N.eqb SLASH STAR)) with true. cbv iota.
        apply (IH [] (le_0_n n) MNormal (Some c) (ZeroOrMore :: acc) T);
          [apply rp_inv_push; [exact Hinv | discriminate] | exact H].
      - cbn [app]. destruct (negb (N.eqb c2 STAR)).
        { apply (IH (c2 :: s2) Hl1);
            [apply rp_inv_push; [exact Hinv | discriminate] | exact H]. }
        assert (Hl2 : (length s2 <= n)%nat) by (cbn in Hl1; lia).
        destruct acc as [|top rest].
        + (* "**" with no tokens yet *)
          destruct s2 as [|c3 s3].
          * injection H as <-. exists [RecursivePrefix]. split; [reflexivity|].
            right. split; [reflexivity | left; reflexivity].
          * cbn [app]. destruct (is_sep c3).
            -- apply IH; [cbn in Hl2; lia | apply rp_inv_single | exact H].
            -- apply (IH (c3 :: s3) Hl2); [|exact H].
               apply rp_inv_push; [apply rp_inv_single | discriminate].
        + destruct (negb (opt_is_sep prev)).
          { apply IH; [exact Hl2 | | exact H].
            apply rp_inv_push; [apply rp_inv_push; [exact Hinv | discriminate] | discriminate]. }
          destruct s2 as [|c3 s3].
          * (* a whole-component "**" at the end of P *)
            injection H as <-. cbn [app]. change (is_sep SLASH) with true. cbv iota.
            exists (rev (star_top true top :: rest)). split.
            -- rewrite go_normal_cons. cbn. rewrite star_top_idem. reflexivity.
            -- right. split; [reflexivity|]. apply star_top_final. exact Hinv.
          * cbn [app]. destruct (is_sep c3).
            -- apply IH; [cbn in Hl2; lia | apply rp_inv_star_top; exact Hinv | exact H].
            -- apply (IH (c3 :: s3) Hl2); [|exact H].
               apply rp_inv_push; [apply rp_inv_push; [exact Hinv | discriminate] | discriminate]. }
    destruct (N.eqb c LBRACK).
    { destruct s1 as [|c2 s2].
      - cbn [app]. change (N.eqb SLASH BANG || N.eqb SLASH CARET) with false. cbv iota.
        apply (IH [] (le_0_n n)); [exact Hinv | exact H].
      - cbn [app]. destruct (N.eqb c2 BANG || N.eqb c2 CARET).
        + apply IH; [cbn in Hl1; lia | exact Hinv | exact H].
        + apply (IH (c2 :: s2) Hl1); [exact Hinv | exact H]. }
    destruct (N.eqb c LBRACE || N.eqb c RBRACE || N.eqb c BACKSLASH); [discriminate H|].
    apply IH; [exact Hl1 | apply rp_inv_push; [exact Hinv | discriminate] | exact H].
  - (* inside a character class: no look-ahead *)
    rewrite go_class_cons in H. cbn [app]. rewrite go_class_cons.
    destruct (128 <=? c); [discriminate H|].
    destruct (N.eqb c RBRACK && negb first).
    { apply IH; [exact Hl1 | apply rp_inv_push; [exact Hinv | discriminate] | exact H]. }
    destruct (first && (N.eqb c RBRACK || N.eqb c DASH)).
    { apply IH; [exact Hl1 | exact Hinv | exact H]. }
    destruct (N.eqb c DASH && negb inr).
    { destruct rs as [|r0 rs']; [discriminate H|]. apply IH; [exact Hl1 | exact Hinv | exact H]. }
    destruct inr.
    { destruct rs as [|[lo hi] rs']; [discriminate H|].
      destruct (c <? lo); [discriminate H|]. apply IH; [exact Hl1 | exact Hinv | exact H]. }
    apply IH; [exact Hl1 | exact Hinv | exact H].
Qed.

(* For every glob text P that parses: the tokens of P ++ "/**" are those of P plus one
   RecursiveSuffix, or, when P already ends in a `**` component, exactly those of P. *)
Theorem parse_sfx P T :
  parse P = POk T -> exists T', parse (P ++ SFX) = POk T' /\ sfx_rel T T'.
Proof.
  unfold parse. intros H.
  apply (go_sfx_gen (length P) P (le_n _) MNormal None [] T rp_inv_nil H).
Qed.

(* What [sfx_rel] buys: a path matched by either glob stays matched by the second
   one when "/r" is appended (paths starting with '/'). *)
Lemma sfx_rel_match T T' a r :
  sfx_rel T T' -> (exists a', a = SLASH :: a') ->
  tok_match T a = true \/ tok_match T' a = true ->
  tok_match T' (a ++ SLASH :: r) = true.
Proof.
  intros [E | (E & [E1 | (X & EX)])] (a' & Ea) M; subst T'.
  - destruct M as [M | M].
    + destruct (toks_RP_dec T) as [ET | Hne].
      * subst T a. cbn [app tok_match seq_match].
        rewrite N.eqb_refl, any_then_nil_true. reflexivity.
      * apply tok_match_snoc_RS. exists a, r. rewrite <- tok_match_seq by exact Hne. auto.
    + apply tok_match_snoc_RS in M. destruct M as (u & v & Eu & M).
      apply tok_match_snoc_RS. exists u, (v ++ SLASH :: r). rewrite Eu, <- app_assoc. auto.
  - subst T. reflexivity.
  - assert (M' : tok_match T a = true) by tauto. clear M. subst T.
    apply tok_match_snoc_RS in M'. destruct M' as (u & v & Eu & M).
    apply tok_match_snoc_RS. exists u, (v ++ SLASH :: r). rewrite Eu, <- app_assoc. auto.
Qed.

Definition conserve_P (pat : str) : str :=
  if starts_with pat [SLASH] then pat else [STAR; STAR; SLASH] ++ pat.

Lemma conserve_glob_strs_eq pat :
  conserve_glob_strs pat = [conserve_P pat; conserve_P pat ++ SFX].
Proof. reflexivity. Qed.

Lemma parse_globs_cons g gs l :
  parse_globs (g :: gs) = COk l <->
  exists T l', parse g = POk T /\ parse_globs gs = COk l' /\ l = T :: l'.
Proof.
  cbn [parse_globs]. destruct (parse g) as [T| | |].
  - destruct (parse_globs gs) as [l'| | |].
    + split.
      * intros E. injection E as <-. exists T, l'. auto.
      * intros (T0 & l0 & E1 & E2 & E3). injection E1 as <-. injection E2 as <-. subst l. reflexivity.
    + split; [discriminate|]. intros (T0 & l0 & _ & E2 & _). discriminate.
    + split; [discriminate|]. intros (T0 & l0 & _ & E2 & _). discriminate.
    + split; [discriminate|]. intros (T0 & l0 & _ & E2 & _). discriminate.
  - split; [discriminate|]. intros (T0 & l0 & E1 & _). discriminate.
  - split; [discriminate|]. intros (T0 & l0 & E1 & _). discriminate.
  - split; [discriminate|]. intros (T0 & l0 & E1 & _). discriminate.
Qed.

Lemma compiled_extend pats : forall gs a r,
  parse_globs (flat_map conserve_glob_strs pats) = COk gs ->
  (exists a', a = SLASH :: a') ->
  existsb (fun g => tok_match g a) gs = true ->
  existsb (fun g => tok_match g (a ++ SLASH :: r)) gs = true.
Proof.
  induction pats as [|pat pats IH]; intros gs a r Hc Hsl M.
  - cbn in Hc. injection Hc as <-. discriminate M.
  - cbn [flat_map] in Hc. rewrite conserve_glob_strs_eq in Hc. cbn [app] in Hc.
    apply parse_globs_cons in Hc. destruct Hc as (T & l1 & HT & Hc & ->).
    apply parse_globs_cons in Hc. destruct Hc as (T' & l2 & HT' & Hc & ->).
    destruct (parse_sfx _ _ HT) as (T'' & HT'' & Hrel). rewrite HT' in HT''.
    injection HT'' as <-.
    cbn [existsb] in M |- *. rewrite !orb_true_iff in M. rewrite !orb_true_iff.
    destruct M as [M | [M | M]].
    + right. left. apply (sfx_rel_match T T'); auto.
    + right. left. apply (sfx_rel_match T T'); auto.
    + right. right. apply IH; assumption.
Qed.

Lemma excl_str_true pats path :
  excl_str pats path = XBool true <->
  exists gs, parse_globs (flat_map conserve_glob_strs pats) = COk gs /\
             existsb (fun g => tok_match g path) gs = true.
Proof.
  unfold excl_str. destruct (parse_globs _) as [gs| | |].
  - split.
    + intros E. injection E as E. exists gs. auto.
    + intros (gs' & E & M). injection E as <-. rewrite M. reflexivity.
  - split; [discriminate | intros (gs' & E & _); discriminate].
  - split; [discriminate | intros (gs' & E & _); discriminate].
  - split; [discriminate | intros (gs' & E & _); discriminate].
Qed.

(* Closure on RAW pattern text: for every list of pattern strings that globset accepts
   (in the modelled grammar: anything without '{', '}', '\'), whatever their shape. *)
Theorem excl_str_extend pats a r :
  (exists a', a = SLASH :: a') ->
  excl_str pats a = XBool true -> excl_str pats (a ++ SLASH :: r) = XBool true.
Proof.
  intros Hsl H. apply excl_str_true in H. destruct H as (gs & Hc & M).
  apply excl_str_true. exists gs. split; [exact Hc|]. apply (compiled_extend pats); assumption.
Qed.

Theorem excl_str_ancestor_closed pats a b :
  is_valid a = true -> is_valid b = true -> a <> [SLASH] ->
  excl_str pats a = XBool true -> comp_prefix (comps a) (comps b) = true ->
  excl_str pats b = XBool true.
Proof.
  intros Va Vb Hroot Ha Hpre.
  destruct (descend_decomp a b Va Vb Hroot Hpre) as [-> | (r & ->)]; [exact Ha|].
  apply excl_str_extend; [|exact Ha].
  destruct a as [|c a']; [discriminate|]. cbn in Va.
  destruct (N.eqb c SLASH) eqn:Ec; [|discriminate]. apply N.eqb_eq in Ec. subst c. eauto.
Qed.

(* "a**" "[!a-c]x" "*/" : shapes outside the pattern AST *)
Example ex_str_instance :
  let pats := [[97; 42; 42]; [91; 33; 97; 45; 99; 93; 120]; [42; 47]] in
  let a := [47; 113; 47; 97; 98; 99] in            (* /q/abc    *)
  let b := [47; 113; 47; 97; 98; 99; 47; 100] in   (* /q/abc/d  *)
  is_valid a = true /\ is_valid b = true /\ a <> [SLASH] /\
  excl_str pats a = XBool true /\ comp_prefix (comps a) (comps b) = true /\
  excl_str pats b = XBool true.
Proof. vm_compute. repeat split; congruence. Qed.

Example ex_str_errors :
  excl_str [[91; 97]] [47; 97] = XError                    (* "[a"   : unclosed class  *)
  /\ excl_str [[91; 98; 45; 97; 93]] [47; 97] = XError     (* "[b-a]": invalid range   *)
  /\ excl_str [[123; 97; 125]] [47; 97] = XUnsupported.    (* "{a}"  : not modelled    *)
Proof. vm_compute. auto. Qed.

(* ================================================================== *)
(** * The pattern AST against the parser: [parse (show ..) = tokens] *)

Definition hd_not_star (s : str) : bool :=
  match s with [] => true | c :: _ => negb (N.eqb c STAR) end.

Lemma lit_ok_facts b :
  lit_ok b = true ->
  N.eqb b QMARK = false /\ N.eqb b STAR = false /\ N.eqb b LBRACK = false /\
  (N.eqb b LBRACE || N.eqb b RBRACE || N.eqb b BACKSLASH) = false /\
  N.eqb b SLASH = false /\ N.eqb b BANG = false /\ N.eqb b RBRACK = false.
Proof.
  unfold lit_ok. rewrite !andb_true_iff, !negb_true_iff.
  intros H. decompose [and] H. clear H.
  repeat match goal with E : N.eqb _ _ = false |- _ => rewrite E; clear E end.
  repeat split; reflexivity.
Qed.

Lemma cls_ok_facts c :
  cls_ok c = true ->
  (128 <=? c) = false /\ N.eqb c RBRACK = false /\ N.eqb c DASH = false /\
  N.eqb c BANG = false /\ N.eqb c CARET = false.
Proof.
  unfold cls_ok. rewrite !andb_true_iff, !negb_true_iff. intros [[[L H128] HD] HC].
  destruct (lit_ok_facts c L) as (_ & _ & _ & _ & _ & HB & HR).
  repeat split; try assumption.
  apply N.leb_gt. apply N.ltb_lt. exact H128.
Qed.

Lemma go_slash prev acc s :
  go MNormal prev acc (SLASH :: s) = go MNormal (Some SLASH) (Literal SLASH :: acc) s.
Proof. reflexivity. Qed.

Lemma go_qmark prev acc s :
  go MNormal prev acc (QMARK :: s) = go MNormal (Some QMARK) (Any :: acc) s.
Proof. reflexivity. Qed.

Lemma go_lit b prev acc s :
  lit_ok b = true -> go MNormal prev acc (b :: s) = go MNormal (Some b) (Literal b :: acc) s.
Proof.
  intros L. destruct (lit_ok_facts b L) as (E1 & E2 & E3 & E4 & _).
  rewrite go_normal_cons, E1, E2, E3, E4. reflexivity.
Qed.

Lemma go_star_single prev acc s1 :
  hd_not_star s1 = true ->
  go MNormal prev acc (STAR :: s1) = go MNormal (Some STAR) (ZeroOrMore :: acc) s1.
Proof.
  intros H. rewrite go_normal_cons.
  change (N.eqb STAR QMARK) with false. change (N.eqb STAR STAR) with true. cbv iota.
  destruct s1 as [|c2 s2]; [reflexivity|]. cbn [hd_not_star] in H. rewrite H. reflexivity.
Qed.

Lemma go_star_double prev acc c3 s3 :
  is_sep c3 = false ->
  go MNormal prev acc (STAR :: STAR :: c3 :: s3) =
  go MNormal (Some STAR) (ZeroOrMore :: ZeroOrMore :: acc) (c3 :: s3).
Proof.
  intros H. rewrite go_normal_cons.
  change (N.eqb STAR QMARK) with false. change (N.eqb STAR STAR) with true.
  cbv iota. change (negb true) with false. cbv iota. rewrite H.
  destruct acc; [reflexivity|]. destruct (negb (opt_is_sep prev)); reflexivity.
Qed.

Lemma go_star_double_mid prev acc s2 :
  opt_is_sep prev = false -> acc <> [] ->
  go MNormal prev acc (STAR :: STAR :: s2) =
  go MNormal (Some STAR) (ZeroOrMore :: ZeroOrMore :: acc) s2.
Proof.
  intros H Hacc. rewrite go_normal_cons.
  change (N.eqb STAR QMARK) with false. change (N.eqb STAR STAR) with true.
  cbv iota. change (negb true) with false. cbv iota. rewrite H.
  destruct acc; [congruence|]. reflexivity.
Qed.

Lemma go_prev_irrel p1 p2 acc s :
  hd_not_star s = true -> go MNormal p1 acc s = go MNormal p2 acc s.
Proof.
  intros H. destruct s as [|c s1]; [reflexivity|]. cbn [hd_not_star] in H.
  apply negb_true_iff in H. rewrite !go_normal_cons, H. reflexivity.
Qed.

(* character classes *)
Lemma go_ranges neg acc rest : forall rs racc first prev,
  (first = true -> rs <> []) -> forallb range_ok rs = true ->
  go (MClass neg first false racc) prev acc (concat (map show_range rs) ++ RBRACK :: rest) =
  go MNormal (Some RBRACK) (Class neg (rev racc ++ rs) :: acc) rest.
Proof.
  induction rs as [|[lo hi] rs IH]; intros racc first prev Hfirst Hok.
  - destruct first; [exfalso; apply Hfirst; reflexivity|].
    cbn [map concat app]. rewrite go_class_cons.
    change (128 <=? RBRACK) with false. change (N.eqb RBRACK RBRACK && negb false) with true.
    cbv iota. rewrite app_nil_r. reflexivity.
  - cbn [forallb] in Hok. apply andb_true_iff in Hok. destruct Hok as [Hr Hok].
    unfold range_ok in Hr. cbn [fst snd] in Hr. rewrite !andb_true_iff in Hr.
    destruct Hr as [[Hlo Hhi] Hle].
    destruct (cls_ok_facts lo Hlo) as (L1 & L2 & L3 & _).
    destruct (cls_ok_facts hi Hhi) as (H1 & H2 & H3 & _).
    cbn [map concat]. unfold show_range at 1. cbn [fst snd].
    assert (Step1 : forall s, go (MClass neg first false racc) prev acc (lo :: s) =
                              go (MClass neg false false ((lo, lo) :: racc)) (Some lo) acc s).
    { intros s. rewrite go_class_cons, L1, L2, L3. cbn [andb orb]. rewrite andb_false_r.
      reflexivity. }
    destruct (N.eqb lo hi) eqn:Elh.
    + apply N.eqb_eq in Elh. subst hi. cbn [app]. rewrite Step1.
      rewrite IH; [|discriminate|exact Hok]. cbn [rev]. rewrite <- app_assoc. reflexivity.
    + cbn [app]. rewrite Step1.
      rewrite go_class_cons. change (128 <=? DASH) with false.
      change (N.eqb DASH RBRACK) with false. change (N.eqb DASH DASH) with true. cbn [andb orb negb].
      rewrite go_class_cons, H1, H2, H3. cbn [andb orb negb].
      assert (Hlt : (hi <? lo) = false) by (apply N.ltb_ge; apply N.leb_le; exact Hle).
      rewrite Hlt. rewrite IH; [|discriminate|exact Hok].
      cbn [rev]. rewrite <- app_assoc. reflexivity.
Qed.

Lemma go_cls neg rs prev acc s :
  atom_ok (Cls neg rs) = true ->
  go MNormal prev acc (show_atom (Cls neg rs) ++ s) =
  go MNormal (Some RBRACK) (Class neg rs :: acc) s.
Proof.
  cbn [atom_ok show_atom]. intros Hok.
  destruct rs as [|r0 rs']; [discriminate|].
  assert (Hne : r0 :: rs' <> []) by discriminate. set (rs := r0 :: rs') in *.
  cbn [app]. rewrite <- !app_assoc. cbn [app].
  rewrite go_normal_cons.
  change (N.eqb LBRACK QMARK) with false. change (N.eqb LBRACK STAR) with false.
  change (N.eqb LBRACK LBRACK) with true. cbv iota.
  destruct neg; cbn [app].
  - change (N.eqb BANG BANG || N.eqb BANG CARET) with true. cbv iota.
    rewrite go_ranges; [reflexivity | intros _; exact Hne | exact Hok].
  - (* the first member is not '!' or '^' *)
    subst rs. destruct r0 as [lo hi]. cbn [forallb] in Hok.
    pose proof Hok as Hok'. apply andb_true_iff in Hok'. destruct Hok' as [Hr _].
    unfold range_ok in Hr. cbn [fst snd] in Hr. rewrite !andb_true_iff in Hr.
    destruct Hr as [[Hlo _] _]. destruct (cls_ok_facts lo Hlo) as (_ & _ & _ & LB & LC).
    assert (Ehd : exists t, concat (map show_range ((lo, hi) :: rs')) ++ RBRACK :: s = lo :: t).
    { cbn [map concat]. unfold show_range at 1. cbn [fst snd].
      destruct (N.eqb lo hi); cbn [app]; eexists; reflexivity. }
    destruct Ehd as (t & Et).
    rewrite Et at 1. rewrite LB, LC. cbn [orb].
    rewrite go_ranges; [reflexivity | discriminate | exact Hok].
Qed.

Definition satoms (l : list atom) : str := concat (map show_atom l).

Lemma hd_not_star_atom a s : atom_ok a = true -> a <> Star -> hd_not_star (show_atom a ++ s) = true.
Proof.
  destruct a as [b| | |neg rs]; intros Hok Hns; cbn [show_atom app hd_not_star].
  - destruct (lit_ok_facts b Hok) as (_ & E & _). rewrite E. reflexivity.
  - reflexivity.
  - congruence.
  - reflexivity.
Qed.

Lemma hd_nonsep_atom a s :
  atom_ok a = true -> exists c t, show_atom a ++ s = c :: t /\ is_sep c = false.
Proof.
  destruct a as [b| | |neg rs]; intros Hok; cbn [show_atom app].
  - destruct (lit_ok_facts b Hok) as (_ & _ & _ & _ & E & _). exists b, s. auto.
  - exists QMARK, s. auto.
  - exists STAR, s. auto.
  - eexists _, _. split; [reflexivity | reflexivity].
Qed.

Lemma rev_map_cons_app (t : token) m acc : rev (t :: m) ++ acc = rev m ++ t :: acc.
Proof. cbn [rev]. rewrite <- app_assoc. reflexivity. Qed.

(* inside a component, after at least one atom: every `*` is a ZeroOrMore *)
Lemma go_atoms_mid n : forall l, (length l <= n)%nat -> forall prev acc rest,
  forallb atom_ok l = true -> opt_is_sep prev = false -> acc <> [] ->
  hd_not_star rest = true ->
  go MNormal prev acc (satoms l ++ rest) = go MNormal None (rev (map atom_tok l) ++ acc) rest.
Proof.
  induction n as [|n IH]; intros l Hlen prev acc rest Hok Hprev Hacc Hrest.
  { destruct l; [|cbn in Hlen; lia]. cbn. apply go_prev_irrel. exact Hrest. }
  destruct l as [|a l']; [cbn; apply go_prev_irrel; exact Hrest|].
  assert (Hl' : (length l' <= n)%nat) by (cbn in Hlen; lia).
  cbn [forallb] in Hok. apply andb_true_iff in Hok. destruct Hok as [Ha Hok'].
  unfold satoms. cbn [map concat]. fold (satoms l'). rewrite <- app_assoc.
  cbn [map]. rewrite rev_map_cons_app.
  destruct a as [b| | |neg rs].
  - cbn [show_atom app atom_tok]. rewrite go_lit by exact Ha.
    apply IH; try assumption; try discriminate.
    cbn [opt_is_sep]. destruct (lit_ok_facts b Ha) as (_ & _ & _ & _ & E & _). exact E.
  - cbn [show_atom app atom_tok]. rewrite go_qmark.
    apply IH; try assumption; try discriminate. reflexivity.
  - cbn [show_atom app atom_tok].
    destruct l' as [|a' l''].
    + cbn [satoms map concat app]. rewrite go_star_single by exact Hrest.
      cbn [map rev app]. apply go_prev_irrel. exact Hrest.
    + destruct a' as [b'| | |neg' rs'].
      * rewrite go_star_single.
        -- apply IH; try assumption; try discriminate. reflexivity.
        -- unfold satoms. cbn [map concat]. rewrite <- app_assoc.
           cbn [forallb] in Hok'. apply andb_true_iff in Hok'. destruct Hok' as [Ha' _].
           apply hd_not_star_atom; [exact Ha' | discriminate].
      * rewrite go_star_single by reflexivity.
        apply IH; try assumption; try discriminate. reflexivity.
      * (* `**` inside the component *)
        unfold satoms. cbn [map concat show_atom app]. fold (satoms l'').
        rewrite go_star_double_mid by assumption.
        cbn [map atom_tok]. rewrite rev_map_cons_app.
        cbn [forallb] in Hok'. apply andb_true_iff in Hok'. destruct Hok' as [_ Hok''].
        apply IH; try assumption; try discriminate; [cbn in Hl'; lia | reflexivity].
      * rewrite go_star_single by reflexivity.
        apply IH; try assumption; try discriminate. reflexivity.
  - cbn [atom_tok]. rewrite go_cls by exact Ha.
    apply IH; try assumption; try discriminate. reflexivity.
Qed.

(* a whole component that is not exactly `**` *)
Lemma go_atoms_start l prev acc rest :
  forallb atom_ok l = true -> is_two_stars l = false -> hd_not_star rest = true ->
  go MNormal prev acc (satoms l ++ rest) = go MNormal None (rev (map atom_tok l) ++ acc) rest.
Proof.
  intros Hok H2 Hrest.
  destruct l as [|a l']; [cbn; apply go_prev_irrel; exact Hrest|].
  cbn [forallb] in Hok. apply andb_true_iff in Hok. destruct Hok as [Ha Hok'].
  unfold satoms. cbn [map concat]. fold (satoms l'). rewrite <- app_assoc.
  cbn [map]. rewrite rev_map_cons_app.
  destruct a as [b| | |neg rs].
  - cbn [show_atom app atom_tok]. rewrite go_lit by exact Ha.
    apply (go_atoms_mid (length l')); try assumption; try discriminate; [apply le_n|].
    cbn [opt_is_sep]. destruct (lit_ok_facts b Ha) as (_ & _ & _ & _ & E & _). exact E.
  - cbn [show_atom app atom_tok]. rewrite go_qmark.
    apply (go_atoms_mid (length l')); try assumption; try discriminate; try apply le_n; try reflexivity.
  - cbn [show_atom app atom_tok].
    destruct l' as [|a' l''].
    + cbn [satoms map concat app]. rewrite go_star_single by exact Hrest.
      cbn [map rev app]. apply go_prev_irrel. exact Hrest.
    + destruct a' as [b'| | |neg' rs'].
      * rewrite go_star_single.
        -- apply (go_atoms_mid (length (Lit b' :: l''))); try assumption; try discriminate; try apply le_n; try reflexivity.
        -- unfold satoms. cbn [map concat]. rewrite <- app_assoc.
           cbn [forallb] in Hok'. apply andb_true_iff in Hok'. destruct Hok' as [Ha' _].
           apply hd_not_star_atom; [exact Ha' | discriminate].
      * rewrite go_star_single by reflexivity.
        apply (go_atoms_mid (length (AnyChar :: l''))); try assumption; try discriminate; try apply le_n; try reflexivity.
      * (* `**x..` at the start of a component: x is not a separator *)
        destruct l'' as [|a'' l''']; [discriminate H2|].
        cbn [forallb] in Hok'. apply andb_true_iff in Hok'. destruct Hok' as [_ Hok''].
        pose proof Hok'' as Hok3. cbn [forallb] in Hok3. apply andb_true_iff in Hok3.
        destruct Hok3 as [Ha'' _].
        unfold satoms. cbn [map concat show_atom app]. fold (satoms l''').
        rewrite <- app_assoc.
        destruct (hd_nonsep_atom a'' (satoms l''' ++ rest) Ha'') as (c3 & t & Et & Hc3).
        rewrite Et. rewrite go_star_double by exact Hc3. rewrite <- Et.
        cbn [map atom_tok]. rewrite rev_map_cons_app.
        rewrite app_assoc. change (show_atom a'' ++ satoms l''') with (satoms (a'' :: l''')).
        apply (go_atoms_mid (length (a'' :: l'''))); try assumption; try discriminate; try apply le_n; try reflexivity.
      * rewrite go_star_single by reflexivity.
        apply (go_atoms_mid (length (Cls neg' rs' :: l''))); try assumption; try discriminate; try apply le_n; try reflexivity.
  - cbn [atom_tok]. rewrite go_cls by exact Ha.
    apply (go_atoms_mid (length l')); try assumption; try discriminate; try apply le_n; try reflexivity.
Qed.

(* segments *)
Definition seg_wf (sg : seg) : bool :=
  match sg with
  | Globstar => true
  | Atoms l => forallb atom_ok l && negb (is_two_stars l)      (* may be empty *)
  end.

(* "/seg/seg/.." *)
Definition sstr (ss : list seg) : str := concat (map (fun sg => SLASH :: show_seg sg) ss).

Lemma sstr_cons sg ss : sstr (sg :: ss) = SLASH :: show_seg sg ++ sstr ss.
Proof. reflexivity. Qed.

Lemma hd_not_star_sstr ss : hd_not_star (sstr ss) = true.
Proof. destruct ss; reflexivity. Qed.

Lemma body_true_all_gs ss : forallb is_globstar ss = true -> body true ss = [].
Proof.
  induction ss as [|sg ss IH]; [reflexivity|]. cbn [forallb]. intros H.
  apply andb_true_iff in H. destruct H as [Hg H]. destruct sg; [|discriminate]. cbn [body]. auto.
Qed.

Lemma body_false_gs X :
  body false (Globstar :: X) =
  if forallb is_globstar X then [RecursiveSuffix] else RecursiveZeroOrMore :: body true X.
Proof. reflexivity. Qed.

Lemma rev_rev_app {A} (m : list A) x acc : rev (rev m ++ x :: acc) = rev acc ++ x :: m.
Proof. rewrite rev_app_distr, rev_involutive. cbn [rev]. rewrite <- app_assoc. reflexivity. Qed.

Lemma go_body ss : forallb seg_wf ss = true ->
  (forall prev acc, go MNormal prev acc (sstr ss) = POk (rev acc ++ body false ss)) /\
  (ss <> [] -> forall top rest, top = RecursivePrefix \/ top = RecursiveZeroOrMore ->
     go MNormal (Some SLASH) (top :: rest) (tl (sstr ss)) =
     POk (rev rest ++ (if forallb is_globstar ss then star_top true top else top) :: body true ss)).
Proof.
  induction ss as [|sg ss' IH]; intros Hwf.
  - split; [|congruence]. intros prev acc. cbn. rewrite app_nil_r. reflexivity.
  - cbn [forallb] in Hwf. apply andb_true_iff in Hwf. destruct Hwf as [Hsg Hwf'].
    destruct (IH Hwf') as [IHf IHt]. clear IH. split.
    + intros prev acc. rewrite sstr_cons, go_slash. destruct sg as [|l].
      * (* a `**` component after a '/' *)
        cbn [show_seg app]. rewrite go_normal_cons.
        change (N.eqb STAR QMARK) with false. change (N.eqb STAR STAR) with true.
        cbv iota. change (negb true) with false. cbv iota.
        change (negb (opt_is_sep (Some SLASH))) with false. cbv iota.
        destruct ss' as [|sg' ss''].
        -- reflexivity.
        -- rewrite sstr_cons. change (is_sep SLASH) with true. cbv iota.
           change (star_top false (Literal SLASH)) with RecursiveZeroOrMore.
           change (show_seg sg' ++ sstr ss'') with (tl (sstr (sg' :: ss''))).
           rewrite IHt; [|discriminate|right; reflexivity].
           rewrite body_false_gs. destruct (forallb is_globstar (sg' :: ss'')) eqn:F.
           ++ rewrite (body_true_all_gs _ F). reflexivity.
           ++ reflexivity.
      * cbn [seg_wf] in Hsg. apply andb_true_iff in Hsg. destruct Hsg as [Hok H2].
        apply negb_true_iff in H2.
        change (show_seg (Atoms l)) with (satoms l).
        rewrite go_atoms_start; [|exact Hok|exact H2|apply hd_not_star_sstr].
        rewrite IHf. rewrite rev_rev_app. cbn [body app]. rewrite <- app_assoc. reflexivity.
    + intros _ top rest Htop. rewrite sstr_cons. cbn [tl]. destruct sg as [|l].
      * cbn [show_seg app]. rewrite go_normal_cons.
        change (N.eqb STAR QMARK) with false. change (N.eqb STAR STAR) with true.
        cbv iota. change (negb true) with false. cbv iota.
        change (negb (opt_is_sep (Some SLASH))) with false. cbv iota.
        destruct ss' as [|sg' ss''].
        -- reflexivity.
        -- rewrite sstr_cons. change (is_sep SLASH) with true. cbv iota.
           change (show_seg sg' ++ sstr ss'') with (tl (sstr (sg' :: ss''))).
           assert (Est : star_top false top = top) by (destruct Htop; subst top; reflexivity).
           rewrite Est. rewrite IHt; [|discriminate|exact Htop]. reflexivity.
      * cbn [seg_wf] in Hsg. apply andb_true_iff in Hsg. destruct Hsg as [Hok H2].
        apply negb_true_iff in H2.
        change (show_seg (Atoms l)) with (satoms l).
        rewrite go_atoms_start; [|exact Hok|exact H2|apply hd_not_star_sstr].
        rewrite IHf. rewrite rev_rev_app. cbn [body app forallb is_globstar andb].
        rewrite <- app_assoc. reflexivity.
Qed.

Lemma join_sstr ss : forall sg, join SLASH (map show_seg (sg :: ss)) = show_seg sg ++ sstr ss.
Proof.
  induction ss as [|sg' ss IH]; intros sg.
  - cbn. rewrite app_nil_r. reflexivity.
  - cbn [map]. rewrite join_cons2. cbn [map] in IH. rewrite IH. reflexivity.
Qed.

(* The structural tokenizer [segs_toks] computes what the parser produces on the printed text *)
Theorem parse_show_segs lead ss :
  forallb seg_wf ss = true -> parse (show_segs lead ss) = POk (segs_toks lead ss).
Proof.
  intros Hwf. unfold show_segs, parse. destruct lead.
  - destruct ss as [|sg ss']; [reflexivity|].
    rewrite join_sstr. cbn [app]. rewrite <- sstr_cons.
    destruct (go_body _ Hwf) as [Hf _]. rewrite Hf. reflexivity.
  - destruct ss as [|sg ss']; [reflexivity|].
    rewrite join_sstr. cbn [app forallb] in *. apply andb_true_iff in Hwf.
    destruct Hwf as [Hsg Hwf']. destruct (go_body _ Hwf') as [Hf Ht].
    destruct sg as [|l].
    + cbn [show_seg app segs_toks]. rewrite go_normal_cons.
      change (N.eqb STAR QMARK) with false. change (N.eqb STAR STAR) with true.
      cbv iota. change (negb true) with false. cbv iota.
      destruct ss' as [|sg' ss'']; [reflexivity|].
      rewrite sstr_cons. change (is_sep SLASH) with true. cbv iota.
      change (show_seg sg' ++ sstr ss'') with (tl (sstr (sg' :: ss''))).
      rewrite Ht; [|discriminate|left; reflexivity]. cbn [rev app star_top].
      destruct (forallb is_globstar (sg' :: ss'')) eqn:F.
      * rewrite (body_true_all_gs _ F). reflexivity.
      * reflexivity.
    + cbn [seg_wf] in Hsg. apply andb_true_iff in Hsg. destruct Hsg as [Hok H2].
      apply negb_true_iff in H2. change (show_seg (Atoms l)) with (satoms l).
      rewrite go_atoms_start; [|exact Hok|exact H2|apply hd_not_star_sstr].
      rewrite Hf, app_nil_r, rev_involutive. reflexivity.
Qed.

Corollary parse_show p : pat_ok p = true -> parse (show p) = POk (tokens_of p).
Proof.
  intros Hok. apply parse_show_segs. unfold pat_ok in Hok.
  rewrite forallb_forall in Hok |- *. intros sg Hin. specialize (Hok sg Hin).
  destruct sg as [|l]; [reflexivity|]. cbn [seg_ok seg_wf] in *. destruct l; [discriminate|exact Hok].
Qed.

(* ------------------------------------------------------------------ *)
(** * conserve's two glob texts for a printed pattern *)

Lemma show_seg_hd sg :
  seg_ok sg = true -> exists c t, show_seg sg = c :: t /\ N.eqb c SLASH = false.
Proof.
  destruct sg as [|l]; cbn [seg_ok show_seg].
  - intros _. exists STAR, [STAR]. auto.
  - destruct l as [|a l']; [discriminate|]. intros H. apply andb_true_iff in H.
    destruct H as [H _]. cbn [forallb] in H. apply andb_true_iff in H. destruct H as [Ha _].
    cbn [map concat]. destruct (hd_nonsep_atom a (concat (map show_atom l')) Ha) as (c & t & E & Hc).
    exists c, t. auto.
Qed.

Lemma conserve_P_show p :
  pat_ok p = true -> conserve_P (show p) = show_segs (anchored p) (conserve_segs p).
Proof.
  intros Hok. unfold conserve_P, show, show_segs, conserve_segs, pat_ok in *.
  destruct (anchored p); destruct (segs p) as [|sg ss]; try reflexivity.
  cbn [forallb] in Hok. apply andb_true_iff in Hok. destruct Hok as [Hsg _].
  destruct (show_seg_hd sg Hsg) as (c & t & E & Hc).
  cbn [app]. rewrite join_sstr, E. cbn [app starts_with]. rewrite Hc. cbn [andb].
  change (c :: t ++ sstr ss) with ((c :: t) ++ sstr ss). rewrite <- E, <- join_sstr.
  cbn [map]. rewrite join_cons2. reflexivity.
Qed.

Lemma show_segs_snoc lead cs :
  cs <> [] -> show_segs lead (cs ++ [Globstar]) = show_segs lead cs ++ SFX.
Proof.
  intros Hne. unfold show_segs. rewrite map_app. cbn [map].
  rewrite join_app; [| destruct cs; [congruence | discriminate] | discriminate].
  cbn [join show_seg]. rewrite <- app_assoc. reflexivity.
Qed.

Lemma conserve_segs_ne p : conserve_segs p <> [].
Proof. unfold conserve_segs. destruct (anchored p); destruct (segs p); discriminate. Qed.

Lemma seg_ok_wf sg : seg_ok sg = true -> seg_wf sg = true.
Proof. destruct sg as [|l]; [reflexivity|]. cbn. destruct l; [discriminate | auto]. Qed.

Lemma conserve_segs_wf p : pat_ok p = true -> forallb seg_wf (conserve_segs p) = true.
Proof.
  unfold pat_ok, conserve_segs. intros Hok.
  assert (H : forallb seg_wf (segs p) = true).
  { rewrite forallb_forall in Hok |- *. intros sg Hin. apply seg_ok_wf. auto. }
  destruct (anchored p); destruct (segs p); try reflexivity; exact H.
Qed.

Lemma parse_conserve p :
  pat_ok p = true -> parse_globs (conserve_glob_strs (show p)) = COk (conserve_globs p).
Proof.
  intros Hok. rewrite conserve_glob_strs_eq, (conserve_P_show p Hok).
  rewrite <- show_segs_snoc by apply conserve_segs_ne.
  cbn [parse_globs]. rewrite !parse_show_segs.
  - reflexivity.
  - rewrite forallb_app, (conserve_segs_wf p Hok). reflexivity.
  - apply conserve_segs_wf. exact Hok.
Qed.

Lemma parse_globs_app g1 : forall l1 g2 l2,
  parse_globs g1 = COk l1 -> parse_globs g2 = COk l2 -> parse_globs (g1 ++ g2) = COk (l1 ++ l2).
Proof.
  induction g1 as [|g g1 IH]; intros l1 g2 l2 H1 H2.
  - cbn in H1. injection H1 as <-. exact H2.
  - apply parse_globs_cons in H1. destruct H1 as (T & l' & HT & H1 & ->).
    cbn [app]. apply parse_globs_cons. exists T, (l' ++ l2). split; [exact HT|].
    split; [apply IH; assumption | reflexivity].
Qed.

Lemma parse_conserve_all ps :
  pats_ok ps ->
  parse_globs (flat_map conserve_glob_strs (map show ps)) = COk (flat_map conserve_globs ps).
Proof.
  unfold pats_ok. induction ps as [|p ps IH]; [reflexivity|].
  cbn [forallb map flat_map]. intros H. apply andb_true_iff in H. destruct H as [Hp Hps].
  apply parse_globs_app; [apply parse_conserve; exact Hp | apply IH; exact Hps].
Qed.

Lemma existsb_flat_map {A B} (f : B -> bool) (g : A -> list B) l :
  existsb f (flat_map g l) = existsb (fun x => existsb f (g x)) l.
Proof.
  induction l as [|x l IH]; [reflexivity|]. cbn [flat_map existsb]. rewrite existsb_app, IH.
  reflexivity.
Qed.

(* LINK: on printed well-formed patterns, the text-level model (the transcribed parser run on
   conserve's two glob strings) and the AST-level model agree. *)
Theorem excl_str_show ps path :
  pats_ok ps -> excl_str (map show ps) path = XBool (excl ps path).
Proof.
  intros Hok. unfold excl_str. rewrite (parse_conserve_all ps Hok).
  unfold excl. rewrite existsb_flat_map. reflexivity.
Qed.

Example ex_link :
  let ps := [pat_star_o; pat_a_gs_b; pat_not_az; pat_gs_x; mkPat false []; mkPat true []] in
  pats_ok ps /\
  map show ps = [[42; 46; 111]; [47; 97; 47; 42; 42; 47; 98]; [91; 33; 97; 45; 122; 93];
                 [42; 42; 47; 120]; []; [47]] /\
  parse_globs (flat_map conserve_glob_strs (map show ps)) = COk (flat_map conserve_globs ps).
Proof. vm_compute. auto. Qed.
