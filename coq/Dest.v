(* The destination side of restore (src/restore.rs, `restore`, after "fix: restore with
   overwrite wrote through symlinks already in the destination").

   What lies at and below the destination directory is an association list from relative
   paths (lists of components) to nodes, as `lstat` sees them: nothing here follows a link.
   Every file-system call restore makes is a function on that list which says, besides its
   result, whether the kernel would have RESOLVED THE PATH THROUGH A SYMLINK (a link at a
   directory above the last component, or -- for the calls that follow it -- at the last
   component itself): such a call acts on whatever the link points to, which the model does
   not hold.  It is a distinguished outcome, counted in [d_esc]; the theorems of DestP.v say
   that it never happens, so what the model does afterwards (it skips the entry) is never
   observed.

   Not modelled: owners, modes, times and read errors of block data; the destination
   directory itself (`[]`) is the user's choice and always a directory. *)
From Coq Require Import List NArith Bool.
From CV Require Import Base.Str Apath Entry Valid.
Import ListNotations.
Local Open Scope N_scope.

Definition rpath := list str.

Inductive node := NDir | NFile (content : bytes) | NLink (target : str).

Definition fs := list (rpath * node).

Definition rpath_eqb (p q : rpath) : bool := list_eqb str_eqb p q.

Fixpoint lookup (f : fs) (p : rpath) : option node :=
  match f with
  | [] => None
  | (q, n) :: f' => if rpath_eqb q p then Some n else lookup f' p
  end.

(* lstat of destination/p *)
Definition node_at (f : fs) (p : rpath) : option node :=
  match p with [] => Some NDir | _ => lookup f p end.

Definition del (f : fs) (p : rpath) : fs := filter (fun b => negb (rpath_eqb (fst b) p)) f.
Definition put (f : fs) (p : rpath) (n : node) : fs := (p, n) :: del f p.

Definition is_link (o : option node) : bool := match o with Some (NLink _) => true | _ => false end.
Definition is_dir (o : option node) : bool := match o with Some NDir => true | _ => false end.
Definition is_file (o : option node) : bool := match o with Some (NFile _) => true | _ => false end.

(* the proper non-empty prefixes of p, shortest first: [a;b;c] gives [[a];[a;b]] *)
Fixpoint prefixes_from (done : rpath) (p : rpath) : list rpath :=
  match p with
  | [] => []
  | [_] => []
  | c :: rest => (done ++ [c]) :: prefixes_from (done ++ [c]) rest
  end.
Definition prefixes (p : rpath) : list rpath := prefixes_from [] p.

Definition parent (p : rpath) : rpath := removelast p.

(* the first symlink among the directories above p *)
Definition link_above (f : fs) (p : rpath) : option rpath :=
  find (fun q => is_link (node_at f q)) (prefixes p).

(* would the kernel resolve destination/p through a symlink? *)
Definition through (f : fs) (follow_last : bool) (p : rpath) : bool :=
  match link_above f p with
  | Some _ => true
  | None => follow_last && is_link (node_at f p)
  end.

Inductive res := ROk | RErr | REscaped.

(* std::fs::create_dir_all: succeeds when every existing path on the way (p included) is a
   directory, creating the missing ones; creates nothing when it fails. *)
Definition mkdir_all (f : fs) (p : rpath) : fs * res :=
  if through f true p then (f, REscaped)
  else
    let chain := prefixes p ++ [p] in
    if existsb (fun q => is_file (node_at f q)) chain then (f, RErr)
    else (fold_left (fun g q => match node_at g q with None => put g q NDir | Some _ => g end) chain f, ROk).

(* restore_dir: create_dir_all, where AlreadyExists (p itself is a regular file) counts as success *)
Definition restore_dir (f : fs) (p : rpath) : fs * res :=
  if through f true p then (f, REscaped)
  else if negb (existsb (fun q => is_file (node_at f q)) (prefixes p)) && is_file (node_at f p) then (f, ROk)
  else mkdir_all f p.

(* File::create + writing the content *)
Definition create_file (f : fs) (p : rpath) (c : bytes) : fs * res :=
  if through f true p then (f, REscaped)
  else if negb (is_dir (node_at f (parent p))) then (f, RErr)
  else if is_dir (node_at f p) then (f, RErr)
  else (put f p (NFile c), ROk).

(* symlink(target, p): never follows the last component *)
Definition make_link (f : fs) (p : rpath) (t : str) : fs * res :=
  if through f false p then (f, REscaped)
  else if negb (is_dir (node_at f (parent p))) then (f, RErr)
  else match node_at f p with
       | Some _ => (f, RErr)
       | None => (put f p (NLink t), ROk)
       end.

(* remove_file of a symlink *)
Definition unlink (f : fs) (p : rpath) : fs * res :=
  if through f false p then (f, REscaped) else (del f p, ROk).

(* Path::exists: follows every link *)
Definition exists_follow (f : fs) (p : rpath) : option bool :=
  if through f true p then None else Some (match node_at f p with Some _ => true | None => false end).

(* ------------------------------------------------------------------------- *)
Record dstate := {
  d_fs : fs;
  d_links : list str;        (* restored_symlinks *)
  d_failed : list str;       (* failed_dirs *)
  d_real : list rpath;       (* real_dirs *)
  d_defer : list rpath;      (* deferrals, in order *)
  d_done : list str;         (* apaths restored without error (the change callback) *)
  d_errs : N;                (* monitor.error calls *)
  d_esc : N                  (* calls that resolved through a symlink *)
}.

Definition with_fs (s : dstate) (f : fs) : dstate :=
  {| d_fs := f; d_links := d_links s; d_failed := d_failed s; d_real := d_real s; d_defer := d_defer s;
     d_done := d_done s; d_errs := d_errs s; d_esc := d_esc s |}.
Definition add_err (s : dstate) : dstate :=
  {| d_fs := d_fs s; d_links := d_links s; d_failed := d_failed s; d_real := d_real s; d_defer := d_defer s;
     d_done := d_done s; d_errs := d_errs s + 1; d_esc := d_esc s |}.
Definition add_esc (s : dstate) : dstate :=
  {| d_fs := d_fs s; d_links := d_links s; d_failed := d_failed s; d_real := d_real s; d_defer := d_defer s;
     d_done := d_done s; d_errs := d_errs s; d_esc := d_esc s + 1 |}.
Definition add_failed (s : dstate) (a : str) : dstate :=
  {| d_fs := d_fs s; d_links := d_links s; d_failed := d_failed s ++ [a]; d_real := d_real s; d_defer := d_defer s;
     d_done := d_done s; d_errs := d_errs s; d_esc := d_esc s |}.
Definition add_link (s : dstate) (a : str) : dstate :=
  {| d_fs := d_fs s; d_links := d_links s ++ [a]; d_failed := d_failed s; d_real := d_real s; d_defer := d_defer s;
     d_done := d_done s; d_errs := d_errs s; d_esc := d_esc s |}.
Definition add_defer (s : dstate) (p : rpath) : dstate :=
  {| d_fs := d_fs s; d_links := d_links s; d_failed := d_failed s; d_real := d_real s; d_defer := d_defer s ++ [p];
     d_done := d_done s; d_errs := d_errs s; d_esc := d_esc s |}.
Definition add_done (s : dstate) (a : str) : dstate :=
  {| d_fs := d_fs s; d_links := d_links s; d_failed := d_failed s; d_real := d_real s; d_defer := d_defer s;
     d_done := d_done s ++ [a]; d_errs := d_errs s; d_esc := d_esc s |}.
Definition with_real (s : dstate) (r : list rpath) : dstate :=
  {| d_fs := d_fs s; d_links := d_links s; d_failed := d_failed s; d_real := r; d_defer := d_defer s;
     d_done := d_done s; d_errs := d_errs s; d_esc := d_esc s |}.

Definition mem_rpath (p : rpath) (l : list rpath) : bool := existsb (rpath_eqb p) l.

(* symlink_above: walks down from the destination; directories seen not to be links are
   remembered.  Returns the remembered set and the link found, if any. *)
Fixpoint walk_above (f : fs) (real : list rpath) (qs : list rpath) : list rpath * option rpath :=
  match qs with
  | [] => (real, None)
  | q :: qs' =>
      if mem_rpath q real then walk_above f real qs'
      else match node_at f q with
           | Some (NLink _) => (real, Some q)
           | Some _ => walk_above f (q :: real) qs'
           | None => (real, None)
           end
  end.

Definition symlink_above (f : fs) (real : list rpath) (p : rpath) : list rpath * option rpath :=
  match parent p with
  | [] => (real, None)
  | par => if mem_rpath par real then (real, None) else walk_above f real (prefixes p)
  end.

Section Restore.
  Variable content_of : entry -> bytes.
  Variable overwrite : bool.

  (* one turn of restore's loop *)
  Definition restore_entry (s : dstate) (e : entry) : dstate :=
    let a := e_apath e in
    let p := comps a in
    if existsb (fun link => beneath link e) (d_links s) then add_err s
    else
      (* the overwrite checks *)
      let chk : dstate * bool :=
        if overwrite && negb (match p with [] => true | _ => false end) then
          let '(real', found) := symlink_above (d_fs s) (d_real s) p in
          let s1 := with_real s real' in
          match found with
          | Some _ => (add_err s1, false)
          | None =>
              if is_link (node_at (d_fs s1) p) then
                match unlink (d_fs s1) p with
                | (f', ROk) => (with_fs s1 f', true)
                | (_, REscaped) => (add_esc s1, false)
                | (_, RErr) => (add_err s1, false)
                end
              else (s1, true)
          end
        else (s, true) in
      let '(s2, go) := chk in
      if negb go then s2
      else
        (* a file or symlink whose parent is missing *)
        let par : dstate * bool :=
          if negb (kind_eqb (e_kind e) KDir) && negb (existsb (fun d => is_prefix_of d a) (d_failed s2)) then
            match exists_follow (d_fs s2) (parent p) with
            | None => (add_esc s2, false)
            | Some true => (s2, true)
            | Some false =>
                match mkdir_all (d_fs s2) (parent p) with
                | (f', ROk) => (with_fs s2 f', true)
                | (_, REscaped) => (add_esc s2, false)
                | (_, RErr) => (add_err s2, false)
                end
            end
          else (s2, true) in
        let '(s3, go3) := par in
        if negb go3 then s3
        else
          match e_kind e with
          | KDir =>
              match p with
              | [] => add_done (add_defer s3 p) a
              | _ =>
                  match restore_dir (d_fs s3) p with
                  | (f', ROk) => add_done (add_defer (with_fs s3 f') p) a
                  | (_, REscaped) => add_esc s3
                  | (_, RErr) => add_failed (add_err s3) a
                  end
              end
          | KFile =>
              match create_file (d_fs s3) p (content_of e) with
              | (f', ROk) => add_done (with_fs s3 f') a
              | (_, REscaped) => add_esc s3
              | (_, RErr) => add_err s3
              end
          | KSymlink =>
              match e_target e with
              | None => add_err s3
              | Some t =>
                  match make_link (d_fs s3) p t with
                  | (f', ROk) => add_done (add_link (with_fs s3 f') a) a
                  | (_, REscaped) => add_esc s3
                  | (_, RErr) => add_err s3
                  end
              end
          | KUnknown => add_done (add_err s3) a
          end.

  (* apply_deferrals: lchown, chmod and utimes of each directory restored; chmod and utimes
     follow links *)
  Definition apply_deferrals (s : dstate) : dstate :=
    fold_left (fun s' p => if through (d_fs s') true p then add_esc s' else s') (d_defer s) s.

  Definition start (f : fs) : dstate :=
    {| d_fs := f; d_links := []; d_failed := []; d_real := []; d_defer := []; d_done := []; d_errs := 0; d_esc := 0 |}.

  (* restore into a destination holding f: None = refused (DestinationNotEmpty), untouched *)
  Definition restore_into (f : fs) (es : list entry) : option dstate :=
    if negb overwrite && negb (match f with [] => true | _ => false end) then None
    else Some (apply_deferrals (fold_left restore_entry es (start f))).
End Restore.

(* the version of the loop before the fix: no look at what the destination holds *)
Definition restore_into_unchecked (content_of : entry -> bytes) (f : fs) (es : list entry) : dstate :=
  let step (s : dstate) (e : entry) := restore_entry content_of false s e in
  apply_deferrals (fold_left step es (start f)).
