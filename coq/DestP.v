(* Proofs about Dest.v: restore never acts through a symlink of the destination, and what it
   reports as restored is there.

   Main results (numbered as in the task):
   1. overwrite_never_resolves_through_a_link        (needs [tree_like f]; refuted without it)
   2. fresh_never_resolves_through_a_link, fresh_duplicate_path_refuted
   3. nonempty_destination_refused
   4. unchecked_loop_refuted, checked_loop_on_the_same_input
   5. restored_entries_are_there *)
From Coq Require Import List NArith Bool Lia Arith.
From CV Require Import Base.Str Base.StrP Apath ApathP Entry Valid Dest.
Import ListNotations.
Local Open Scope N_scope.

(* ------------------------------------------------------------------------- *)
(** * 1. Paths                                                                 *)
(* ------------------------------------------------------------------------- *)
Lemma rpath_eqb_eq (p : rpath) : forall q, rpath_eqb p q = true <-> p = q.
Proof.
  unfold rpath_eqb. induction p as [|x p IH]; intros [|y q]; cbn; try (split; congruence).
  rewrite andb_true_iff, str_eqb_eq, IH. split.
  - intros [-> ->]. reflexivity.
  - intros E. inversion E. auto.
Qed.

Lemma rpath_eqb_refl p : rpath_eqb p p = true.
Proof. apply rpath_eqb_eq. reflexivity. Qed.

Lemma rpath_eqb_neq p q : p <> q -> rpath_eqb p q = false.
Proof. intros H. destruct (rpath_eqb p q) eqn:E; [|reflexivity]. apply rpath_eqb_eq in E. congruence. Qed.

Lemma rpath_eq_dec (p q : rpath) : {p = q} + {p <> q}.
Proof.
  destruct (rpath_eqb p q) eqn:E.
  - left. apply rpath_eqb_eq. exact E.
  - right. intros ->. rewrite rpath_eqb_refl in E. discriminate.
Qed.

(* q is a proper, non-empty prefix of p: a directory strictly between the destination and p *)
Definition ppre (q p : rpath) : Prop := q <> [] /\ exists c rest, p = q ++ c :: rest.

Lemma prefixes_from_cons2 d x y t :
  prefixes_from d (x :: y :: t) = (d ++ [x]) :: prefixes_from (d ++ [x]) (y :: t).
Proof. reflexivity. Qed.

Lemma in_prefixes_from p : forall d r,
  In r (prefixes_from d p) <-> exists r' c rest, r' <> [] /\ r = d ++ r' /\ p = r' ++ c :: rest.
Proof.
  induction p as [|x p IH]; intros d r.
  - cbn. split; [tauto|]. intros [r' [c [rest [Hne [_ E]]]]]. destruct r'; [congruence|discriminate].
  - destruct p as [|y t].
    + cbn. split; [tauto|]. intros [r' [c [rest [Hne [_ E]]]]].
      destruct r' as [|a [|b r']]; [congruence| |]; cbn in E; inversion E.
    + rewrite prefixes_from_cons2. cbn [In]. rewrite IH. split.
      * intros [<-|[r' [c [rest [Hne [-> E]]]]]].
        -- exists [x], y, t. split; [discriminate|]. split; reflexivity.
        -- exists (x :: r'), c, rest. split; [discriminate|]. split.
           ++ rewrite <- app_assoc. reflexivity.
           ++ cbn. rewrite E. reflexivity.
      * intros [r' [c [rest [Hne [-> E]]]]].
        destruct r' as [|a r']; [congruence|]. cbn in E. inversion E as [[Ea Et]]. subst a.
        destruct r' as [|b r'].
        -- left. reflexivity.
        -- right. exists (b :: r'), c, rest. split; [discriminate|]. split.
           ++ rewrite <- app_assoc. reflexivity.
           ++ exact Et.
Qed.

Lemma in_prefixes q p : In q (prefixes p) <-> ppre q p.
Proof.
  unfold prefixes, ppre. rewrite in_prefixes_from. split.
  - intros [r' [c [rest [Hne [-> E]]]]]. cbn. split; [exact Hne|]. exists c, rest. exact E.
  - intros [Hne [c [rest E]]]. exists q, c, rest. cbn. auto.
Qed.

Lemma ppre_irrefl p : ~ ppre p p.
Proof.
  intros [_ [c [rest E]]]. apply (f_equal (@length _)) in E. rewrite app_length in E. cbn in E. lia.
Qed.

Lemma ppre_trans q r p : ppre q r -> ppre r p -> ppre q p.
Proof.
  intros [Hq [c [rest ->]]] [_ [c' [rest' ->]]]. split; [exact Hq|].
  exists c, (rest ++ c' :: rest'). rewrite <- app_assoc. reflexivity.
Qed.

Lemma ppre_nonempty q p : ppre q p -> p <> [].
Proof. intros [_ [c [rest ->]]]. destruct q; discriminate. Qed.

Lemma parent_snoc (q : rpath) c : parent (q ++ [c]) = q.
Proof. unfold parent. apply removelast_last. Qed.

Lemma snoc_parent (p : rpath) : p <> [] -> p = parent p ++ [last p []].
Proof. intros H. unfold parent. apply app_removelast_last. exact H. Qed.

(* the directories above p are its parent and the directories above the parent *)
Lemma ppre_parent q p : ppre q p <-> (p <> [] /\ parent p <> [] /\ (q = parent p \/ ppre q (parent p))).
Proof.
  split.
  - intros H. pose proof (ppre_nonempty _ _ H) as Hp. split; [exact Hp|].
    destruct H as [Hq [c [rest E]]].
    destruct (@exists_last _ (c :: rest) ltac:(discriminate)) as [m [z Em]].
    rewrite Em, app_assoc in E. subst p. rewrite parent_snoc.
    split; [destruct q; [congruence|discriminate]|].
    destruct m as [|c' m'].
    + left. rewrite app_nil_r. reflexivity.
    + right. split; [exact Hq|]. exists c', m'. reflexivity.
  - intros [Hp [Hpar [->|H]]].
    + split; [exact Hpar|]. exists (last p []), []. apply snoc_parent. exact Hp.
    + destruct H as [Hq [c [rest E]]]. split; [exact Hq|].
      exists c, (rest ++ [last p []]). rewrite (snoc_parent p Hp) at 1. rewrite E, <- app_assoc. reflexivity.
Qed.

Lemma parent_nil_prefixes p : parent p = [] -> prefixes p = [].
Proof.
  destruct p as [|c [|d r]]; [reflexivity|reflexivity|]. unfold parent. cbn. discriminate.
Qed.

Lemma parent_nil_no_ppre q p : parent p = [] -> ~ ppre q p.
Proof. intros H P. apply ppre_parent in P. tauto. Qed.

(* on the chain of p (the directories above p, then p) *)
Definition onchain (q p : rpath) : Prop := ppre q p \/ q = p.

Lemma in_chain q p : In q (prefixes p ++ [p]) <-> onchain q p.
Proof.
  rewrite in_app_iff, in_prefixes. cbn. unfold onchain. split.
  - intros [H|[H|H]]; [left; exact H|right; symmetry; exact H|contradiction].
  - intros [H|H]; [left; exact H|right; left; symmetry; exact H].
Qed.

Lemma onchain_ppre q r p : ppre q r -> onchain r p -> ppre q p.
Proof. intros H [H' | ->]; [eapply ppre_trans; eassumption|exact H]. Qed.

Fixpoint ordered_chain (qs : list rpath) : Prop :=
  match qs with
  | [] => True
  | q :: qs' => (forall r, In r qs' -> ppre q r) /\ ordered_chain qs'
  end.

Lemma ordered_prefixes_from p : forall d, ordered_chain (prefixes_from d p).
Proof.
  induction p as [|x p IH]; intros d; [exact I|].
  destruct p as [|y t]; [exact I|].
  rewrite prefixes_from_cons2. cbn [ordered_chain]. split; [|apply IH].
  intros r Hr. apply in_prefixes_from in Hr. destruct Hr as [r' [c [rest [Hne [-> _]]]]].
  split; [destruct d; discriminate|].
  destruct r' as [|a r']; [congruence|]. exists a, r'. reflexivity.
Qed.

Lemma ordered_prefixes p : ordered_chain (prefixes p).
Proof. apply ordered_prefixes_from. Qed.

(* ------------------------------------------------------------------------- *)
(** * 2. The association list, seen through [node_at]                          *)
(* ------------------------------------------------------------------------- *)
Lemma lookup_del f p q : lookup (del f p) q = if rpath_eqb p q then None else lookup f q.
Proof.
  unfold del. induction f as [|[k n] f IH]; cbn [filter lookup fst].
  - destruct (rpath_eqb p q); reflexivity.
  - destruct (rpath_eqb k p) eqn:Ekp; cbn [negb lookup].
    + apply rpath_eqb_eq in Ekp. subst k. rewrite IH. destruct (rpath_eqb p q); reflexivity.
    + rewrite IH. destruct (rpath_eqb k q) eqn:Ekq; [|reflexivity].
      apply rpath_eqb_eq in Ekq. subst k. rewrite rpath_eqb_neq; [reflexivity|].
      intros ->. rewrite rpath_eqb_refl in Ekp. discriminate.
Qed.

Lemma node_at_del f p q : p <> [] -> node_at (del f p) q = if rpath_eqb p q then None else node_at f q.
Proof.
  intros Hp. destruct q as [|c q].
  - cbn. rewrite rpath_eqb_neq by exact Hp. reflexivity.
  - unfold node_at. apply lookup_del.
Qed.

Lemma node_at_put f p n q : p <> [] -> node_at (put f p n) q = if rpath_eqb p q then Some n else node_at f q.
Proof.
  intros Hp. destruct q as [|c q].
  - cbn. rewrite rpath_eqb_neq by exact Hp. reflexivity.
  - unfold node_at, put. cbn [lookup]. destruct (rpath_eqb p (c :: q)) eqn:E; [reflexivity|].
    rewrite lookup_del, E. reflexivity.
Qed.

Lemma node_at_nil f : node_at f [] = Some NDir.
Proof. reflexivity. Qed.

Lemma node_at_none_nonempty f p : node_at f p = None -> p <> [].
Proof. intros H ->. discriminate. Qed.

(* present and not a symlink *)
Definition realn (o : option node) : bool :=
  match o with Some (NLink _) => false | Some _ => true | None => false end.

Lemma realn_not_link o : realn o = true -> is_link o = false.
Proof. destruct o as [[| |]|]; cbn; congruence. Qed.
Lemma realn_some o : realn o = true -> o <> None.
Proof. destruct o; cbn; congruence. Qed.
Lemma is_dir_realn o : is_dir o = true -> realn o = true.
Proof. destruct o as [[| |]|]; cbn; congruence. Qed.
Lemma is_file_realn o : is_file o = true -> realn o = true.
Proof. destruct o as [[| |]|]; cbn; congruence. Qed.
Lemma is_link_nil f : is_link (node_at f []) = false.
Proof. reflexivity. Qed.
Lemma is_link_nonempty f p : is_link (node_at f p) = true -> p <> [].
Proof. intros H ->. discriminate. Qed.
Lemma some_not_link_realn o : o <> None -> is_link o = false -> realn o = true.
Proof. destruct o as [[| |]|]; cbn; congruence. Qed.

(* the destination is a tree as a file system presents it, in the one respect that matters
   here: whatever exists lies beneath existing things that are not symlinks.  (Files may have
   children, keys may repeat.) *)
Definition tree_like (f : fs) : Prop :=
  forall q r, node_at f r <> None -> ppre q r -> realn (node_at f q) = true.

Definition tree_likeb (f : fs) : bool :=
  forallb (fun b => forallb (fun q => realn (node_at f q)) (prefixes (fst b))) f.

Lemma lookup_in f r : lookup f r <> None -> In r (map fst f).
Proof.
  induction f as [|[k n] f IH]; cbn; [congruence|].
  destruct (rpath_eqb k r) eqn:E; [apply rpath_eqb_eq in E; auto|]. auto.
Qed.

Lemma tree_likeb_sound f : tree_likeb f = true -> tree_like f.
Proof.
  unfold tree_likeb, tree_like. rewrite forallb_forall. intros H q r Hr P.
  destruct r as [|c r]; [exfalso; eapply ppre_nonempty; [exact P|reflexivity]|].
  unfold node_at in Hr. apply lookup_in in Hr. apply in_map_iff in Hr. destruct Hr as [b [Eb Hb]].
  specialize (H b Hb). rewrite forallb_forall in H. apply H. rewrite Eb. apply in_prefixes. exact P.
Qed.

Lemma tree_like_nil : tree_like [].
Proof. apply tree_likeb_sound. reflexivity. Qed.

(* what a real directory is: everything above an existing path is a directory *)
Definition dir_tree (f : fs) : Prop :=
  forall q r, node_at f r <> None -> ppre q r -> is_dir (node_at f q) = true.

Lemma dir_tree_tree_like f : dir_tree f -> tree_like f.
Proof. intros D q r Hr P. destruct (node_at f q) as [[| |]|] eqn:E; pose proof (D q r Hr P) as X; rewrite E in X; cbn in *; congruence. Qed.

(* ------------------------------------------------------------------------- *)
(** * 3. [through]                                                             *)
(* ------------------------------------------------------------------------- *)
Lemma link_above_none f p : link_above f p = None <-> forall q, ppre q p -> is_link (node_at f q) = false.
Proof.
  unfold link_above. split.
  - intros H q P. apply in_prefixes in P. exact (find_none _ _ H q P).
  - intros H. destruct (find _ _) as [q|] eqn:F; [|reflexivity].
    apply find_some in F. destruct F as [Hin Hl]. apply in_prefixes in Hin. rewrite (H q Hin) in Hl. discriminate.
Qed.

Lemma through_false_iff f b p :
  through f b p = false <->
  (forall q, ppre q p -> is_link (node_at f q) = false) /\ (b = true -> is_link (node_at f p) = false).
Proof.
  unfold through. destruct (link_above f p) eqn:L.
  - split; [discriminate|]. intros [H _]. apply (proj2 (link_above_none f p)) in H. congruence.
  - pose proof (proj1 (link_above_none f p) L) as L'. rewrite andb_false_iff. split.
    + intros [->|H]; split; auto; discriminate.
    + intros [_ H]. destruct b; [right; auto|left; reflexivity].
Qed.

Lemma through_true_false f p : through f true p = false -> through f false p = false.
Proof. rewrite !through_false_iff. intros [H _]. split; [exact H|discriminate]. Qed.

Lemma through_parent f b p : through f true p = false -> through f b (parent p) = false.
Proof.
  rewrite !through_false_iff. intros [H _]. split.
  - intros q P. apply H. apply ppre_parent.
    pose proof (ppre_nonempty _ _ P) as Hpar. split; [|split; [exact Hpar|right; exact P]].
    intros ->. apply Hpar. reflexivity.
  - intros _. destruct (parent p) eqn:E; [reflexivity|]. rewrite <- E. apply H. apply ppre_parent.
    split; [intros ->; discriminate|]. split; [congruence|left; reflexivity].
Qed.

Lemma through_nil f b : through f b [] = false.
Proof. unfold through. cbn. destruct b; reflexivity. Qed.

Lemma realn_through f p : tree_like f -> realn (node_at f p) = true -> through f true p = false.
Proof.
  intros W R. apply through_false_iff. split.
  - intros q P. apply realn_not_link. apply (W q p); [apply realn_some; exact R|exact P].
  - intros _. apply realn_not_link. exact R.
Qed.

(* a change that makes no symlink keeps [through] false *)
Definition no_new_links (f f' : fs) : Prop :=
  forall q, is_link (node_at f' q) = true -> is_link (node_at f q) = true.

Lemma through_no_new_links f f' b p : no_new_links f f' -> through f b p = false -> through f' b p = false.
Proof.
  intros N. rewrite !through_false_iff. intros [H1 H2]. split.
  - intros q P. specialize (H1 q P). destruct (is_link (node_at f' q)) eqn:E; [|reflexivity].
    apply N in E. congruence.
  - intros Hb. specialize (H2 Hb). destruct (is_link (node_at f' p)) eqn:E; [|reflexivity].
    apply N in E. congruence.
Qed.

(* ------------------------------------------------------------------------- *)
(** * 4. What one call changes                                                 *)
(* ------------------------------------------------------------------------- *)
(* at q nothing changed, or a directory was made where nothing was *)
Definition same_or_newdir (f f' : fs) (q : rpath) : Prop :=
  node_at f' q = node_at f q \/ (node_at f q = None /\ node_at f' q = Some NDir).

Definition evolve (f f' : fs) : Prop := forall q, same_or_newdir f f' q.

(* the frame of a step for path p: away from p, only missing directories appear *)
Definition step_rel (p : rpath) (f f' : fs) : Prop := forall q, q <> p -> same_or_newdir f f' q.

(* what is there and not a link stays there and not a link *)
Definition mono (f f' : fs) : Prop := forall q, realn (node_at f q) = true -> realn (node_at f' q) = true.

Lemma sond_refl f q : same_or_newdir f f q.
Proof. left. reflexivity. Qed.

Lemma sond_trans f g h q : same_or_newdir f g q -> same_or_newdir g h q -> same_or_newdir f h q.
Proof.
  intros [E1|[N1 D1]] [E2|[N2 D2]].
  - left. congruence.
  - right. split; congruence.
  - right. split; congruence.
  - congruence.
Qed.

Lemma step_rel_refl p f : step_rel p f f.
Proof. intros q _. apply sond_refl. Qed.

Lemma step_rel_trans p f g h : step_rel p f g -> step_rel p g h -> step_rel p f h.
Proof. intros A B q Hq. eapply sond_trans; [apply A|apply B]; exact Hq. Qed.

Lemma evolve_step_rel p f f' : evolve f f' -> step_rel p f f'.
Proof. intros E q _. apply E. Qed.

Lemma evolve_mono f f' : evolve f f' -> mono f f'.
Proof.
  intros E q R. destruct (E q) as [H|[H _]]; [rewrite H; exact R|].
  rewrite H in R. discriminate.
Qed.

Lemma evolve_no_new_links f f' : evolve f f' -> no_new_links f f'.
Proof. intros E q L. destruct (E q) as [H|[_ H]]; [rewrite <- H; exact L|]. rewrite H in L. discriminate. Qed.

Lemma mono_refl f : mono f f.
Proof. intros q H. exact H. Qed.

Lemma mono_trans f g h : mono f g -> mono g h -> mono f h.
Proof. intros A B q H. apply B, A, H. Qed.

(* -- put -- *)
Lemma put_step_rel f p n : p <> [] -> step_rel p f (put f p n).
Proof.
  intros Hp q Hq. left. rewrite node_at_put by exact Hp. rewrite rpath_eqb_neq; [reflexivity|congruence].
Qed.

Lemma put_at f p n : p <> [] -> node_at (put f p n) p = Some n.
Proof. intros Hp. rewrite node_at_put by exact Hp. rewrite rpath_eqb_refl. reflexivity. Qed.

Lemma put_mono f p n : p <> [] -> (node_at f p = None \/ realn (Some n) = true) -> mono f (put f p n).
Proof.
  intros Hp C q R. rewrite node_at_put by exact Hp. destruct (rpath_eqb p q) eqn:E; [|exact R].
  apply rpath_eqb_eq in E. subst q. destruct C as [C|C]; [rewrite C in R; discriminate|exact C].
Qed.

Lemma put_tree f p n :
  tree_like f -> p <> [] -> realn (node_at f (parent p)) = true ->
  (node_at f p = None \/ realn (Some n) = true) -> tree_like (put f p n).
Proof.
  intros W Hp Par C q r Hr P.
  assert (Rq : q <> p -> realn (node_at f q) = true -> realn (node_at (put f p n) q) = true).
  { intros Hq R. rewrite node_at_put by exact Hp. rewrite rpath_eqb_neq by congruence. exact R. }
  rewrite node_at_put in Hr by exact Hp. destruct (rpath_eqb p r) eqn:E.
  - apply rpath_eqb_eq in E. subst r. apply Rq; [intros ->; exact (ppre_irrefl _ P)|].
    apply ppre_parent in P. destruct P as [_ [Hpar [->|P]]]; [exact Par|].
    apply (W q (parent p)); [apply realn_some; exact Par|exact P].
  - pose proof (W q r Hr P) as R. destruct (rpath_eq_dec q p) as [->|Hq]; [|apply Rq; assumption].
    rewrite put_at by exact Hp. destruct C as [C|C]; [rewrite C in R; discriminate|exact C].
Qed.

(* -- del of a link -- *)
Lemma del_step_rel f p : p <> [] -> step_rel p f (del f p).
Proof.
  intros Hp q Hq. left. rewrite node_at_del by exact Hp. rewrite rpath_eqb_neq; [reflexivity|congruence].
Qed.

Lemma del_at f p : p <> [] -> node_at (del f p) p = None.
Proof. intros Hp. rewrite node_at_del by exact Hp. rewrite rpath_eqb_refl. reflexivity. Qed.

Lemma del_mono f p : is_link (node_at f p) = true -> mono f (del f p).
Proof.
  intros L q R. pose proof (is_link_nonempty _ _ L) as Hp. rewrite node_at_del by exact Hp.
  destruct (rpath_eqb p q) eqn:E; [|exact R]. apply rpath_eqb_eq in E. subst q.
  apply realn_not_link in R. congruence.
Qed.

Lemma del_tree f p : tree_like f -> is_link (node_at f p) = true -> tree_like (del f p).
Proof.
  intros W L q r Hr P. pose proof (is_link_nonempty _ _ L) as Hp.
  rewrite node_at_del in Hr by exact Hp. destruct (rpath_eqb p r) eqn:E; [congruence|].
  apply (del_mono f p L). exact (W q r Hr P).
Qed.

Lemma del_no_new_links f p : p <> [] -> no_new_links f (del f p).
Proof.
  intros Hp q L. rewrite node_at_del in L by exact Hp. destruct (rpath_eqb p q); [discriminate|exact L].
Qed.

(* -- create_dir_all -- *)
Definition mkstep (g : fs) (q : rpath) : fs :=
  match node_at g q with None => put g q NDir | Some _ => g end.
Definition mkdirs (f : fs) (p : rpath) : fs := fold_left mkstep (prefixes p ++ [p]) f.

Lemma mkfold_node l : forall f q,
  node_at (fold_left mkstep l f) q =
  match node_at f q with
  | Some n => Some n
  | None => if existsb (rpath_eqb q) l then Some NDir else None
  end.
Proof.
  induction l as [|a l IH]; intros f q; cbn [fold_left existsb].
  - destruct (node_at f q); reflexivity.
  - rewrite IH. unfold mkstep at 1. destruct (node_at f a) as [na|] eqn:Ea.
    + destruct (node_at f q) eqn:Eq; [reflexivity|].
      destruct (rpath_eqb q a) eqn:E; [|reflexivity].
      apply rpath_eqb_eq in E. subst a. congruence.
    + pose proof (node_at_none_nonempty _ _ Ea) as Ha.
      rewrite node_at_put by exact Ha. destruct (rpath_eqb a q) eqn:E.
      * apply rpath_eqb_eq in E. subst a. rewrite Ea, rpath_eqb_refl. reflexivity.
      * rewrite (rpath_eqb_neq q a); [reflexivity|].
        intros ->. rewrite rpath_eqb_refl in E. discriminate.
Qed.

Lemma existsb_chain q p : existsb (rpath_eqb q) (prefixes p ++ [p]) = true <-> onchain q p.
Proof.
  rewrite existsb_exists, <- in_chain. split.
  - intros [x [Hin E]]. apply rpath_eqb_eq in E. subst x. exact Hin.
  - intros H. exists q. split; [exact H|apply rpath_eqb_refl].
Qed.

Lemma mkdirs_node f p q :
  node_at (mkdirs f p) q =
  match node_at f q with
  | Some n => Some n
  | None => if existsb (rpath_eqb q) (prefixes p ++ [p]) then Some NDir else None
  end.
Proof. apply mkfold_node. Qed.

Lemma mkdirs_evolve f p : evolve f (mkdirs f p).
Proof.
  intros q. unfold same_or_newdir. rewrite mkdirs_node. destruct (node_at f q); [left; reflexivity|].
  destruct (existsb _ _); [right; split; reflexivity|left; reflexivity].
Qed.

Definition no_file_on_chain (f : fs) (p : rpath) : Prop :=
  forall q, onchain q p -> is_file (node_at f q) = false.

Lemma mkdirs_is_dir f p :
  through f true p = false -> no_file_on_chain f p -> is_dir (node_at (mkdirs f p) p) = true.
Proof.
  intros T NF. rewrite mkdirs_node.
  apply through_false_iff in T. destruct T as [_ T]. specialize (T eq_refl).
  specialize (NF p (or_intror eq_refl)).
  destruct (node_at f p) as [[| |]|] eqn:E; cbn in *; try congruence.
  assert (X : existsb (rpath_eqb p) (prefixes p ++ [p]) = true) by (apply existsb_chain; right; reflexivity).
  rewrite X. reflexivity.
Qed.

Lemma mkdirs_tree f p :
  tree_like f -> through f true p = false -> tree_like (mkdirs f p).
Proof.
  intros W T q r Hr P. rewrite mkdirs_node in Hr. rewrite mkdirs_node.
  destruct (node_at f r) as [nr|] eqn:Er.
  - assert (R : realn (node_at f q) = true) by (apply (W q r); [congruence|exact P]).
    destruct (node_at f q); [exact R|discriminate].
  - destruct (existsb (rpath_eqb r) (prefixes p ++ [p])) eqn:X; [|congruence].
    apply existsb_chain in X. pose proof (onchain_ppre _ _ _ P X) as Pq.
    apply through_false_iff in T. destruct T as [T _]. specialize (T q Pq).
    destruct (node_at f q) as [nq|] eqn:Eq.
    + apply some_not_link_realn; [congruence|exact T].
    + assert (Y : existsb (rpath_eqb q) (prefixes p ++ [p]) = true) by (apply existsb_chain; left; exact Pq).
      rewrite Y. reflexivity.
Qed.

Lemma existsb_false_forall {A} (g : A -> bool) l : existsb g l = false <-> forall x, In x l -> g x = false.
Proof.
  split.
  - intros H x Hx. destruct (g x) eqn:E; [|reflexivity].
    assert (existsb g l = true) by (apply existsb_exists; exists x; auto). congruence.
  - intros H. destruct (existsb g l) eqn:E; [|reflexivity].
    apply existsb_exists in E. destruct E as [x [Hx Gx]]. rewrite (H x Hx) in Gx. discriminate.
Qed.

Lemma mkdir_all_cases f p :
  (through f true p = true /\ mkdir_all f p = (f, REscaped)) \/
  (through f true p = false /\ mkdir_all f p = (f, RErr)) \/
  (through f true p = false /\ no_file_on_chain f p /\ mkdir_all f p = (mkdirs f p, ROk)).
Proof.
  unfold mkdir_all. destruct (through f true p) eqn:T; [left; auto|right].
  destruct (existsb (fun q => is_file (node_at f q)) (prefixes p ++ [p])) eqn:X; [left; auto|right].
  split; [reflexivity|]. split; [|reflexivity].
  intros q Hq. apply in_chain in Hq.
  exact (proj1 (existsb_false_forall _ _) X q Hq).
Qed.

Lemma restore_dir_cases f p :
  (through f true p = true /\ restore_dir f p = (f, REscaped)) \/
  (through f true p = false /\ restore_dir f p = (f, RErr)) \/
  (through f true p = false /\ is_file (node_at f p) = true /\ restore_dir f p = (f, ROk)) \/
  (through f true p = false /\ no_file_on_chain f p /\ restore_dir f p = (mkdirs f p, ROk)).
Proof.
  unfold restore_dir. destruct (through f true p) eqn:T; [left; auto|right].
  destruct (negb (existsb (fun q => is_file (node_at f q)) (prefixes p)) && is_file (node_at f p)) eqn:Q.
  - right. left. apply andb_true_iff in Q. tauto.
  - destruct (mkdir_all_cases f p) as [[T' _]|[[_ E]|[_ [NF E]]]]; [congruence| |]; rewrite E.
    + left. auto.
    + right. right. auto.
Qed.

Lemma create_file_cases f p c :
  (through f true p = true /\ create_file f p c = (f, REscaped)) \/
  (through f true p = false /\ create_file f p c = (f, RErr)) \/
  (through f true p = false /\ is_dir (node_at f (parent p)) = true /\ is_dir (node_at f p) = false /\
   create_file f p c = (put f p (NFile c), ROk)).
Proof.
  unfold create_file. destruct (through f true p) eqn:T; [left; auto|right].
  destruct (is_dir (node_at f (parent p))) eqn:D; cbn [negb]; [|left; auto].
  destruct (is_dir (node_at f p)) eqn:D'; [left; auto|right; auto].
Qed.

Lemma make_link_cases f p t :
  (through f false p = true /\ make_link f p t = (f, REscaped)) \/
  (through f false p = false /\ make_link f p t = (f, RErr)) \/
  (through f false p = false /\ is_dir (node_at f (parent p)) = true /\ node_at f p = None /\
   make_link f p t = (put f p (NLink t), ROk)).
Proof.
  unfold make_link. destruct (through f false p) eqn:T; [left; auto|right].
  destruct (is_dir (node_at f (parent p))) eqn:D; cbn [negb]; [|left; auto].
  destruct (node_at f p) eqn:N; [left; auto|right; auto].
Qed.

Lemma not_dir_nonempty f p : is_dir (node_at f p) = false -> p <> [].
Proof. intros H ->. discriminate. Qed.

(* ------------------------------------------------------------------------- *)
(** * 5. One turn of the loop, in three parts                                  *)
(* ------------------------------------------------------------------------- *)
Section Parts.
  Variable content_of : entry -> bytes.

  (* the overwrite checks *)
  Definition chk_part (overwrite : bool) (s : dstate) (p : rpath) : dstate * bool :=
    if overwrite && negb (match p with [] => true | _ => false end) then
      let '(real', found) := symlink_above (d_fs s) (d_real s) p in
      let s1 := with_real s real' in
      match found with
      | Some _ => (add_err s1, false)
      | None =>
          if is_link (node_at (d_fs s1) p) then
            match unlink (d_fs s1) p with
            | (f', ROk) => (with_fs s1 f', true)
            | (_, REscaped) => (add_esc s1, false)
            | (_, RErr) => (add_err s1, false)
            end
          else (s1, true)
      end
    else (s, true).

  (* a file or symlink whose parent is missing *)
  Definition par_part (s2 : dstate) (e : entry) (p : rpath) (a : str) : dstate * bool :=
    if negb (kind_eqb (e_kind e) KDir) && negb (existsb (fun d => is_prefix_of d a) (d_failed s2)) then
      match exists_follow (d_fs s2) (parent p) with
      | None => (add_esc s2, false)
      | Some true => (s2, true)
      | Some false =>
          match mkdir_all (d_fs s2) (parent p) with
          | (f', ROk) => (with_fs s2 f', true)
          | (_, REscaped) => (add_esc s2, false)
          | (_, RErr) => (add_err s2, false)
          end
      end
    else (s2, true).

  Definition kind_part (s3 : dstate) (e : entry) (p : rpath) (a : str) : dstate :=
    match e_kind e with
    | KDir =>
        match p with
        | [] => add_done (add_defer s3 p) a
        | _ =>
            match restore_dir (d_fs s3) p with
            | (f', ROk) => add_done (add_defer (with_fs s3 f') p) a
            | (_, REscaped) => add_esc s3
            | (_, RErr) => add_failed (add_err s3) a
            end
        end
    | KFile =>
        match create_file (d_fs s3) p (content_of e) with
        | (f', ROk) => add_done (with_fs s3 f') a
        | (_, REscaped) => add_esc s3
        | (_, RErr) => add_err s3
        end
    | KSymlink =>
        match e_target e with
        | None => add_err s3
        | Some t =>
            match make_link (d_fs s3) p t with
            | (f', ROk) => add_done (add_link (with_fs s3 f') a) a
            | (_, REscaped) => add_esc s3
            | (_, RErr) => add_err s3
            end
        end
    | KUnknown => add_done (add_err s3) a
    end.

  Lemma restore_entry_eq overwrite s e :
    restore_entry content_of overwrite s e =
    if existsb (fun link => beneath link e) (d_links s) then add_err s
    else
      let '(s2, go) := chk_part overwrite s (comps (e_apath e)) in
      if negb go then s2
      else
        let '(s3, go3) := par_part s2 e (comps (e_apath e)) (e_apath e) in
        if negb go3 then s3 else kind_part s3 e (comps (e_apath e)) (e_apath e).
  Proof. reflexivity. Qed.

  (* ----------------------------------------------------------------------- *)
  (** ** The invariant                                                         *)
  Definition Good (s : dstate) : Prop :=
    d_esc s = 0 /\ tree_like (d_fs s) /\
    (forall q, In q (d_real s) -> realn (node_at (d_fs s) q) = true) /\
    (forall q, In q (d_defer s) -> realn (node_at (d_fs s) q) = true).

  Lemma Good_with_fs s f' : Good s -> tree_like f' -> mono (d_fs s) f' -> Good (with_fs s f').
  Proof.
    intros [E [W [R D]]] W' M. repeat split; cbn; auto.
  Qed.
  Lemma Good_add_err s : Good s -> Good (add_err s).
  Proof. intros [E [W [R D]]]. repeat split; cbn; auto. Qed.
  Lemma Good_add_done s a : Good s -> Good (add_done s a).
  Proof. intros [E [W [R D]]]. repeat split; cbn; auto. Qed.
  Lemma Good_add_link s a : Good s -> Good (add_link s a).
  Proof. intros [E [W [R D]]]. repeat split; cbn; auto. Qed.
  Lemma Good_add_failed s a : Good s -> Good (add_failed s a).
  Proof. intros [E [W [R D]]]. repeat split; cbn; auto. Qed.
  Lemma Good_add_defer s p : Good s -> realn (node_at (d_fs s) p) = true -> Good (add_defer s p).
  Proof.
    intros [E [W [R D]]] H. repeat split; cbn; auto.
    intros q Hq. apply in_app_iff in Hq. destruct Hq as [Hq|[<-|[]]]; auto.
  Qed.
  Lemma Good_with_real s r :
    Good s -> (forall q, In q r -> realn (node_at (d_fs s) q) = true) -> Good (with_real s r).
  Proof. intros [E [W [R D]]] H. repeat split; cbn; auto. Qed.

  (* ----------------------------------------------------------------------- *)
  (** ** symlink_above                                                         *)
  Lemma mem_rpath_in p l : mem_rpath p l = true <-> In p l.
  Proof.
    unfold mem_rpath. rewrite existsb_exists. split.
    - intros [x [Hx E]]. apply rpath_eqb_eq in E. subst x. exact Hx.
    - intros H. exists p. split; [exact H|apply rpath_eqb_refl].
  Qed.

  Lemma walk_above_spec f (W : tree_like f) : forall qs real real' found,
    ordered_chain qs ->
    (forall q, In q real -> realn (node_at f q) = true) ->
    walk_above f real qs = (real', found) ->
    (forall q, In q real' -> realn (node_at f q) = true) /\
    (found = None -> forall q, In q qs -> is_link (node_at f q) = false).
  Proof.
    induction qs as [|q qs IH]; intros real real' found O R H; cbn [walk_above] in H.
    - inversion H; subst. split; [exact R|]. intros _ q [].
    - destruct O as [O1 O2].
      destruct (mem_rpath q real) eqn:M.
      + destruct (IH _ _ _ O2 R H) as [A B]. split; [exact A|].
        intros F r [<-|Hr]; [|apply B; assumption].
        apply realn_not_link, R, mem_rpath_in, M.
      + destruct (node_at f q) as [[| c | t]|] eqn:N.
        * assert (R' : forall r, In r (q :: real) -> realn (node_at f r) = true).
          { intros r [<-|Hr]; [rewrite N; reflexivity|apply R; exact Hr]. }
          destruct (IH _ _ _ O2 R' H) as [A B]. split; [exact A|].
          intros F r [<-|Hr]; [rewrite N; reflexivity|apply B; assumption].
        * assert (R' : forall r, In r (q :: real) -> realn (node_at f r) = true).
          { intros r [<-|Hr]; [rewrite N; reflexivity|apply R; exact Hr]. }
          destruct (IH _ _ _ O2 R' H) as [A B]. split; [exact A|].
          intros F r [<-|Hr]; [rewrite N; reflexivity|apply B; assumption].
        * inversion H; subst. split; [exact R|]. discriminate.
        * inversion H; subst. split; [exact R|].
          intros _ r [<-|Hr]; [rewrite N; reflexivity|].
          destruct (node_at f r) eqn:Nr; [|reflexivity].
          assert (X : realn (node_at f q) = true) by (apply (W q r); [congruence|apply O1; exact Hr]).
          rewrite N in X. discriminate.
  Qed.

  Lemma symlink_above_spec f (W : tree_like f) real p real' found :
    (forall q, In q real -> realn (node_at f q) = true) ->
    symlink_above f real p = (real', found) ->
    (forall q, In q real' -> realn (node_at f q) = true) /\
    (found = None -> through f false p = false).
  Proof.
    intros R H. unfold symlink_above in H.
    destruct (parent p) as [|c par] eqn:Ep.
    - inversion H; subst. split; [exact R|]. intros _. apply through_false_iff. split; [|discriminate].
      intros q P. exfalso. exact (parent_nil_no_ppre q p Ep P).
    - rewrite <- Ep in H. destruct (mem_rpath (parent p) real) eqn:M.
      + inversion H; subst. split; [exact R|]. intros _. apply through_false_iff. split; [|discriminate].
        apply mem_rpath_in in M. pose proof (R _ M) as Rp.
        intros q P. apply ppre_parent in P. destruct P as [_ [_ [->|P]]]; apply realn_not_link; [exact Rp|].
        apply (W q (parent p)); [apply realn_some; exact Rp|exact P].
      + destruct (walk_above_spec f W _ _ _ _ (ordered_prefixes p) R H) as [A B]. split; [exact A|].
        intros F. apply through_false_iff. split; [|discriminate].
        intros q P. apply (B F). apply in_prefixes. exact P.
  Qed.

  (* ----------------------------------------------------------------------- *)
  (** ** Each part keeps the invariant                                         *)
  Lemma chk_part_good s p s2 go :
    Good s -> chk_part true s p = (s2, go) ->
    Good s2 /\ (go = true -> through (d_fs s2) true p = false) /\
    d_links s2 = d_links s /\ d_done s2 = d_done s.
  Proof.
    intros G H. unfold chk_part in H. cbn [andb] in H.
    destruct p as [|c p'] eqn:Ep; cbn [negb] in H.
    - inversion H; subst. split; [exact G|]. split; [intros _; apply through_nil|]. split; reflexivity.
    - rewrite <- Ep in *. clear Ep c p'.
      destruct (symlink_above (d_fs s) (d_real s) p) as [real' found] eqn:S.
      destruct G as [E [W [R D]]].
      destruct (symlink_above_spec _ W _ _ _ _ R S) as [R' F].
      assert (G1 : Good (with_real s real')) by (apply Good_with_real; [repeat split; auto|exact R']).
      destruct found as [l|].
      + inversion H; subst. split; [apply Good_add_err; exact G1|]. split; [discriminate|]. split; reflexivity.
      + specialize (F eq_refl). cbn [with_real d_fs] in H.
        destruct (is_link (node_at (d_fs s) p)) eqn:L.
        * unfold unlink in H. rewrite F in H. inversion H; subst.
          split; [|split; [|split; reflexivity]].
          -- apply Good_with_fs; [exact G1|apply del_tree; assumption|apply del_mono; exact L].
          -- intros _. cbn [with_fs d_fs]. pose proof (is_link_nonempty _ _ L) as Hp.
             apply through_false_iff. split.
             ++ apply (through_no_new_links _ _ false p (del_no_new_links (d_fs s) p Hp)) in F.
                apply through_false_iff in F. tauto.
             ++ intros _. rewrite del_at by exact Hp. reflexivity.
        * inversion H; subst. split; [exact G1|]. split; [|split; reflexivity].
          intros _. cbn [with_real d_fs]. apply through_false_iff. apply through_false_iff in F.
          split; [tauto|intros _; exact L].
  Qed.

  Lemma par_part_good s2 e p a s3 go3 :
    Good s2 -> through (d_fs s2) true p = false -> par_part s2 e p a = (s3, go3) ->
    Good s3 /\ through (d_fs s3) true p = false /\ no_new_links (d_fs s2) (d_fs s3) /\
    d_links s3 = d_links s2.
  Proof.
    intros G T H. unfold par_part in H.
    assert (Same : Good s2 /\ through (d_fs s2) true p = false /\ no_new_links (d_fs s2) (d_fs s2) /\
                   d_links s2 = d_links s2).
    { split; [exact G|]. split; [exact T|]. split; [intros q L; exact L|reflexivity]. }
    assert (Err : Good (add_err s2) /\ through (d_fs (add_err s2)) true p = false /\
                  no_new_links (d_fs s2) (d_fs (add_err s2)) /\ d_links (add_err s2) = d_links s2).
    { split; [apply Good_add_err; exact G|]. split; [exact T|]. split; [intros q L; exact L|reflexivity]. }
    destruct (negb (kind_eqb (e_kind e) KDir) && negb (existsb (fun d => is_prefix_of d a) (d_failed s2))).
    - unfold exists_follow in H. rewrite (through_parent _ true p T) in H.
      destruct (node_at (d_fs s2) (parent p)) eqn:N.
      + inversion H; subst. exact Same.
      + destruct (mkdir_all_cases (d_fs s2) (parent p)) as [[T' _]|[[_ E]|[T' [NF E]]]].
        * rewrite (through_parent _ true p T) in T'. discriminate.
        * rewrite E in H. inversion H; subst. exact Err.
        * rewrite E in H. inversion H; subst. cbn [with_fs d_fs d_links].
          pose proof (mkdirs_evolve (d_fs s2) (parent p)) as Ev.
          split; [|split; [|split; [|reflexivity]]].
          -- apply Good_with_fs; [exact G| |apply evolve_mono; exact Ev].
             apply mkdirs_tree; [apply G|exact T'].
          -- eapply through_no_new_links; [apply evolve_no_new_links; exact Ev|exact T].
          -- apply evolve_no_new_links. exact Ev.
    - inversion H; subst. exact Same.
  Qed.

  Lemma kind_part_good s3 e p a :
    Good s3 -> through (d_fs s3) true p = false ->
    let s' := kind_part s3 e p a in
    Good s' /\
    (forall q, is_link (node_at (d_fs s') q) = true ->
               is_link (node_at (d_fs s3) q) = true \/ (q = p /\ In a (d_links s'))) /\
    (forall x, In x (d_links s') -> In x (d_links s3) \/ x = a) /\
    (forall x, In x (d_links s3) -> In x (d_links s')).
  Proof.
    intros G T s'. subst s'.
    assert (Keep : forall s', Good s' -> d_fs s' = d_fs s3 -> d_links s' = d_links s3 ->
       Good s' /\
       (forall q, is_link (node_at (d_fs s') q) = true ->
               is_link (node_at (d_fs s3) q) = true \/ (q = p /\ In a (d_links s'))) /\
       (forall x, In x (d_links s') -> In x (d_links s3) \/ x = a) /\
       (forall x, In x (d_links s3) -> In x (d_links s'))).
    { intros s' G' Ef El. rewrite Ef, El. split; [exact G'|]. repeat split; auto. }
    unfold kind_part. destruct (e_kind e).
    - (* file *)
      destruct (create_file_cases (d_fs s3) p (content_of e)) as [[T' _]|[[_ E]|[_ [Dp [Nd E]]]]]; [congruence| |]; rewrite E.
      + apply Keep; [apply Good_add_err; exact G|reflexivity|reflexivity].
      + pose proof (not_dir_nonempty _ _ Nd) as Hp.
        split; [|split; [|split]]; cbn [add_done with_fs d_fs d_links]; auto.
        * apply Good_add_done. apply Good_with_fs; [exact G| |].
          -- apply put_tree; [apply G|exact Hp|apply is_dir_realn; exact Dp|right; reflexivity].
          -- apply put_mono; [exact Hp|right; reflexivity].
        * intros q L. left. rewrite node_at_put in L by exact Hp.
          destruct (rpath_eqb p q); [discriminate|exact L].
    - (* directory *)
      destruct p as [|c p'] eqn:Ep.
      + apply Keep; [|reflexivity|reflexivity]. apply Good_add_done. apply Good_add_defer; [exact G|reflexivity].
      + rewrite <- Ep in *. clear Ep c p'.
        destruct (restore_dir_cases (d_fs s3) p) as [[T' _]|[[_ E]|[[_ [F E]]|[T' [NF E]]]]]; [congruence| | |]; rewrite E.
        * apply Keep; [|reflexivity|reflexivity]. apply Good_add_failed, Good_add_err, G.
        * apply Keep; [|reflexivity|reflexivity]. apply Good_add_done.
          apply Good_add_defer; [|apply is_file_realn; exact F].
          apply Good_with_fs; [exact G|apply G|apply mono_refl].
        * pose proof (mkdirs_evolve (d_fs s3) p) as Ev.
          split; [|split; [|split]]; cbn [add_done add_defer with_fs d_fs d_links]; auto.
          -- apply Good_add_done. apply Good_add_defer.
             ++ apply Good_with_fs; [exact G| |apply evolve_mono; exact Ev].
                apply mkdirs_tree; [apply G|exact T'].
             ++ cbn [with_fs d_fs]. apply is_dir_realn. apply mkdirs_is_dir; assumption.
          -- intros q L. left. apply (evolve_no_new_links _ _ Ev). exact L.
    - (* symlink *)
      destruct (e_target e) as [t|].
      + destruct (make_link_cases (d_fs s3) p t) as [[T' _]|[[_ E]|[_ [Dp [Np E]]]]].
        * rewrite (through_true_false _ _ T) in T'. discriminate.
        * rewrite E. apply Keep; [apply Good_add_err; exact G|reflexivity|reflexivity].
        * rewrite E. pose proof (node_at_none_nonempty _ _ Np) as Hp.
          split; [|split; [|split]]; cbn [add_done add_link with_fs d_fs d_links].
          -- apply Good_add_done, Good_add_link. apply Good_with_fs; [exact G| |].
             ++ apply put_tree; [apply G|exact Hp|apply is_dir_realn; exact Dp|left; exact Np].
             ++ apply put_mono; [exact Hp|left; exact Np].
          -- intros q L. rewrite node_at_put in L by exact Hp.
             destruct (rpath_eqb p q) eqn:Q; [|left; exact L].
             apply rpath_eqb_eq in Q. right. split; [congruence|]. apply in_app_iff. right. left. reflexivity.
          -- intros x Hx. apply in_app_iff in Hx. destruct Hx as [Hx|[<-|[]]]; auto.
          -- intros x Hx. apply in_app_iff. left. exact Hx.
      + apply Keep; [apply Good_add_err; exact G|reflexivity|reflexivity].
    - apply Keep; [apply Good_add_done, Good_add_err, G|reflexivity|reflexivity].
  Qed.
End Parts.

(* ------------------------------------------------------------------------- *)
(** * 6. The loop                                                              *)
(* ------------------------------------------------------------------------- *)
Lemma Good_start f : tree_like f -> Good (start f).
Proof. intros W. repeat split; cbn; auto; intros q []. Qed.

Lemma apply_deferrals_good s : Good s -> apply_deferrals s = s.
Proof.
  intros [E [W [R D]]]. unfold apply_deferrals.
  assert (X : forall l s', d_fs s' = d_fs s -> (forall p, In p l -> In p (d_defer s)) ->
              fold_left (fun s' p => if through (d_fs s') true p then add_esc s' else s') l s' = s').
  { induction l as [|p l IH]; intros s' Ef Hl; [reflexivity|]. cbn [fold_left].
    rewrite Ef, (realn_through _ _ W (D p (Hl p (or_introl eq_refl)))).
    apply IH; [exact Ef|]. intros q Hq. apply Hl. right. exact Hq. }
  apply X; auto.
Qed.

Lemma overwrite_step_good content_of s e : Good s -> Good (restore_entry content_of true s e).
Proof.
  intros G. rewrite restore_entry_eq.
  destruct (existsb (fun link => beneath link e) (d_links s)); [apply Good_add_err; exact G|].
  destruct (chk_part true s (comps (e_apath e))) as [s2 go] eqn:C.
  destruct (chk_part_good _ _ _ _ G C) as [G2 [T2 _]].
  destruct go; cbn [negb]; [|exact G2]. specialize (T2 eq_refl).
  destruct (par_part s2 e (comps (e_apath e)) (e_apath e)) as [s3 go3] eqn:P.
  destruct (par_part_good _ _ _ _ _ _ G2 T2 P) as [G3 [T3 _]].
  destruct go3; cbn [negb]; [|exact G3].
  apply (kind_part_good content_of s3 e _ _ G3 T3).
Qed.

Lemma overwrite_loop_good content_of es : forall s,
  Good s -> Good (fold_left (restore_entry content_of true) es s).
Proof.
  induction es as [|e es IH]; intros s G; [exact G|]. cbn [fold_left].
  apply IH. apply overwrite_step_good. exact G.
Qed.

(* (1) AS FIRST STATED -- for any association list f whatever --
         forall content_of f es s, restore_into content_of true f es = Some s -> d_esc s = 0
   IS FALSE: the overwrite check walks down from the destination and stops at the first
   path that does not exist; an association list may hold a link BELOW a path it does not
   hold (or below another link), which no directory tree can. *)
Definition mk_entry (a : str) (k : kind) (t : option str) : entry :=
  {| e_apath := a; e_kind := k; e_mtime := 0%Z; e_nanos := 0; e_mode := 0;
     e_user := None; e_group := None; e_addrs := []; e_target := t |}.

(* destination: a link at a/b, and no a.  entry: the file /a/b/c *)
Theorem overwrite_on_arbitrary_list_refuted :
  exists content_of f es s, restore_into content_of true f es = Some s /\ d_esc s <> 0.
Proof.
  exists (fun _ => [1; 2; 3]), [([[97]; [98]], NLink [120])],
         [mk_entry [47; 97; 47; 98; 47; 99] KFile None].
  eexists. split; [vm_compute; reflexivity|]. cbn. discriminate.
Qed.

(* nor is it enough that everything above an existing path exists: here a (a file), a/x and
   a/x/y (links) are all there; the symlink entry /a/x has the old link removed and then
   fails (a is no directory), which leaves a/x/y beneath nothing *)
Theorem overwrite_beneath_a_link_refuted :
  exists content_of f es s,
    (forall q r, node_at f r <> None -> ppre q r -> node_at f q <> None) /\
    restore_into content_of true f es = Some s /\ d_esc s <> 0.
Proof.
  exists (fun _ => [1; 2; 3]),
         [([[97]], NFile []); ([[97]; [120]], NLink [116]); ([[97]; [120]; [121]], NLink [116])],
         [mk_entry [47; 97; 47; 120] KSymlink (Some [117]);
          mk_entry [47; 97; 47; 120; 47; 121; 47; 122] KFile None].
  eexists. split; [|split; [vm_compute; reflexivity|cbn; discriminate]].
  intros q r Hr P. destruct r as [|c r'] eqn:Er; [exfalso; exact (ppre_nonempty _ _ P eq_refl)|].
  unfold node_at in Hr. rewrite <- Er in *. clear Er c r'. apply lookup_in in Hr. apply in_prefixes in P.
  cbn in Hr. destruct Hr as [<-|[<-|[<-|[]]]]; cbn in P;
    repeat (destruct P as [<-|P]; [discriminate|]); contradiction.
Qed.

(* (1), the true variant: the destination is a tree (what exists lies beneath existing
   non-links) -- as every real directory is. *)
Theorem overwrite_never_resolves_through_a_link :
  forall (content_of : entry -> bytes) (f : fs) (es : list entry) (s : dstate),
    tree_like f ->
    restore_into content_of true f es = Some s -> d_esc s = 0.
Proof.
  intros content_of f es s W H. unfold restore_into in H. cbn [negb andb] in H.
  inversion H as [Hs]. clear H.
  pose proof (overwrite_loop_good content_of es _ (Good_start f W)) as G.
  rewrite (apply_deferrals_good _ G). apply G.
Qed.

(* more: the destination stays a tree, and everything deferred is a real directory or file *)
Theorem overwrite_keeps_the_invariant :
  forall content_of f es s, tree_like f -> restore_into content_of true f es = Some s -> Good s.
Proof.
  intros content_of f es s W H. unfold restore_into in H. cbn [negb andb] in H.
  inversion H as [Hs]. clear H.
  pose proof (overwrite_loop_good content_of es _ (Good_start f W)) as G.
  rewrite (apply_deferrals_good _ G). exact G.
Qed.

(* ------------------------------------------------------------------------- *)
(** * 7. Without --overwrite: an empty destination                             *)
(* ------------------------------------------------------------------------- *)
Definition links_known (s : dstate) : Prop :=
  forall q, is_link (node_at (d_fs s) q) = true -> exists a, In a (d_links s) /\ comps a = q.

Definition links_fresh (s : dstate) (es : list entry) : Prop :=
  forall a, In a (d_links s) -> is_valid a = true /\ ~ In a (map e_apath es).

Lemma onchain_app q p : onchain q p -> exists r, p = q ++ r.
Proof.
  intros [[_ [c [rest E]]]| ->]; [exists (c :: rest); exact E|exists []; rewrite app_nil_r; reflexivity].
Qed.

Lemma fresh_step_clear s e es :
  links_known s -> links_fresh s (e :: es) -> is_valid (e_apath e) = true ->
  existsb (fun link => beneath link e) (d_links s) = false ->
  through (d_fs s) true (comps (e_apath e)) = false.
Proof.
  intros K F V B.
  assert (X : forall q, onchain q (comps (e_apath e)) -> is_link (node_at (d_fs s) q) = false).
  { intros q O. destruct (is_link (node_at (d_fs s) q)) eqn:L; [exfalso|reflexivity].
    destruct (K q L) as [a' [Ha' Ca']]. destruct (F a' Ha') as [Va' Na'].
    pose proof (proj1 (existsb_false_forall _ _) B a' Ha') as Bn. unfold beneath in Bn.
    assert (Ne : a' <> e_apath e) by (intros ->; apply Na'; left; reflexivity).
    assert (S : str_eqb a' (e_apath e) = false).
    { destruct (str_eqb a' (e_apath e)) eqn:S; [|reflexivity]. apply str_eqb_eq in S. congruence. }
    rewrite S in Bn. cbn [negb] in Bn. rewrite andb_true_r in Bn.
    unfold is_prefix_of in Bn. rewrite (is_prefix_of_spec _ _ Va' V), Ca' in Bn.
    assert (Y : comp_prefix q (comps (e_apath e)) = true) by (apply comp_prefix_spec, onchain_app, O).
    congruence. }
  apply through_false_iff. split.
  - intros q P. apply X. left. exact P.
  - intros _. apply X. right. reflexivity.
Qed.

Lemma fresh_step content_of s e es :
  Good s -> links_known s -> links_fresh s (e :: es) ->
  is_valid (e_apath e) = true -> ~ In (e_apath e) (map e_apath es) ->
  let s' := restore_entry content_of false s e in
  Good s' /\ links_known s' /\ links_fresh s' es.
Proof.
  intros G K F V Nd s'. subst s'. rewrite restore_entry_eq.
  assert (F' : links_fresh s es).
  { intros a Ha. destruct (F a Ha) as [Va Na]. split; [exact Va|]. intros H. apply Na. right. exact H. }
  destruct (existsb (fun link => beneath link e) (d_links s)) eqn:B.
  - split; [apply Good_add_err; exact G|]. split; [exact K|exact F'].
  - pose proof (fresh_step_clear s e es K F V B) as T.
    change (chk_part false s (comps (e_apath e))) with (s, true). cbn [negb].
    destruct (par_part s e (comps (e_apath e)) (e_apath e)) as [s3 go3] eqn:P.
    destruct (par_part_good _ _ _ _ _ _ G T P) as [G3 [T3 [NL EL]]].
    assert (K3 : links_known s3).
    { intros q L. rewrite EL. apply K. apply NL. exact L. }
    assert (F3 : links_fresh s3 es) by (intros a Ha; rewrite EL in Ha; apply F'; exact Ha).
    destruct go3; cbn [negb]; [|auto].
    destruct (kind_part_good content_of s3 e _ (e_apath e) G3 T3) as [G' [L' [In1 In2]]].
    split; [exact G'|]. split.
    + intros q L. destruct (L' q L) as [L3|[-> Ha]].
      * destruct (K3 q L3) as [a' [Ha' Ca']]. exists a'. split; [apply In2; exact Ha'|exact Ca'].
      * exists (e_apath e). split; [exact Ha|reflexivity].
    + intros a Ha. destruct (In1 a Ha) as [H3| ->]; [apply F3; exact H3|]. split; assumption.
Qed.

Lemma fresh_loop content_of es : forall s,
  Good s -> links_known s -> links_fresh s es ->
  (forall e, In e es -> is_valid (e_apath e) = true) -> NoDup (map e_apath es) ->
  Good (fold_left (restore_entry content_of false) es s).
Proof.
  induction es as [|e es IH]; intros s G K F V N; [exact G|]. cbn [fold_left].
  cbn [map] in N. inversion N as [|? ? Hn N']; subst.
  destruct (fresh_step content_of s e es G K F (V e (or_introl eq_refl)) Hn) as [G' [K' F']].
  apply IH; auto. intros e' He'. apply V. right. exact He'.
Qed.

Theorem fresh_never_resolves_through_a_link :
  forall content_of es s,
    (forall e, In e es -> is_valid (e_apath e) = true) ->
    NoDup (map e_apath es) ->
    restore_into content_of false [] es = Some s -> d_esc s = 0.
Proof.
  intros content_of es s V N H. unfold restore_into in H. cbn [negb andb] in H.
  inversion H as [Hs]. clear H.
  assert (G : Good (fold_left (restore_entry content_of false) es (start []))).
  { apply fresh_loop; auto.
    - apply Good_start, tree_like_nil.
    - intros q L. destruct q; discriminate.
    - intros a []. }
  rewrite (apply_deferrals_good _ G). apply G.
Qed.

(* NoDup is needed: a symlink entry, then a file entry with the same apath (the guard
   `beneath` is strict, so the file is written through the link just made) *)
Theorem fresh_duplicate_path_refuted :
  exists content_of es s,
    (forall e, In e es -> is_valid (e_apath e) = true) /\
    restore_into content_of false [] es = Some s /\ d_esc s <> 0.
Proof.
  exists (fun _ => [1; 2; 3]),
         [mk_entry [47] KDir None;
          mk_entry [47; 108] KSymlink (Some [46; 46; 47; 120]);      (* /l -> ../x *)
          mk_entry [47; 108] KFile None].
  eexists. split; [|split; [vm_compute; reflexivity|cbn; discriminate]].
  intros e [<-|[<-|[<-|[]]]]; reflexivity.
Qed.

(* (3) *)
Theorem nonempty_destination_refused :
  forall content_of f es, f <> [] -> restore_into content_of false f es = None.
Proof. intros content_of f es H. unfold restore_into. destruct f; [congruence|reflexivity]. Qed.

(* ------------------------------------------------------------------------- *)
(** * 8. What is reported restored is there                                    *)
(* ------------------------------------------------------------------------- *)
Definition outcome (content_of : entry -> bytes) (e : entry) (p : rpath) (f : fs) : Prop :=
  match e_kind e with
  | KFile => node_at f p = Some (NFile (content_of e))
  | KSymlink => exists t, e_target e = Some t /\ node_at f p = Some (NLink t)
  | KDir => is_dir (node_at f p) = true \/ is_file (node_at f p) = true
  | KUnknown => True
  end.

Lemma chk_part_frame ow s p s2 go :
  chk_part ow s p = (s2, go) -> step_rel p (d_fs s) (d_fs s2) /\ d_done s2 = d_done s.
Proof.
  unfold chk_part. intros H.
  destruct (ow && negb (match p with [] => true | _ => false end)).
  - destruct (symlink_above (d_fs s) (d_real s) p) as [real' found].
    destruct found as [l|].
    + inversion H; subst. split; [apply step_rel_refl|reflexivity].
    + cbn [with_real d_fs] in H. destruct (is_link (node_at (d_fs s) p)) eqn:L.
      * unfold unlink in H. destruct (through (d_fs s) false p); inversion H; subst.
        -- split; [apply step_rel_refl|reflexivity].
        -- split; [|reflexivity]. cbn [with_fs d_fs]. apply del_step_rel. exact (is_link_nonempty _ _ L).
      * inversion H; subst. split; [apply step_rel_refl|reflexivity].
  - inversion H; subst. split; [apply step_rel_refl|reflexivity].
Qed.

Lemma par_part_frame s2 e p a s3 go3 :
  par_part s2 e p a = (s3, go3) -> step_rel p (d_fs s2) (d_fs s3) /\ d_done s3 = d_done s2.
Proof.
  unfold par_part. intros H.
  destruct (negb (kind_eqb (e_kind e) KDir) && negb (existsb (fun d => is_prefix_of d a) (d_failed s2))).
  - destruct (exists_follow (d_fs s2) (parent p)) as [[|]|].
    + inversion H; subst. split; [apply step_rel_refl|reflexivity].
    + destruct (mkdir_all_cases (d_fs s2) (parent p)) as [[_ E]|[[_ E]|[_ [_ E]]]];
        rewrite E in H; inversion H; subst; (split; [|reflexivity]); try apply step_rel_refl.
      cbn [with_fs d_fs]. apply evolve_step_rel, mkdirs_evolve.
    + inversion H; subst. split; [apply step_rel_refl|reflexivity].
  - inversion H; subst. split; [apply step_rel_refl|reflexivity].
Qed.

Lemma kind_part_frame content_of s3 e p a :
  let s' := kind_part content_of s3 e p a in
  step_rel p (d_fs s3) (d_fs s') /\
  (d_done s' = d_done s3 \/ (d_done s' = d_done s3 ++ [a] /\ outcome content_of e p (d_fs s'))).
Proof.
  intros s'. subst s'. unfold kind_part, outcome. destruct (e_kind e).
  - destruct (create_file_cases (d_fs s3) p (content_of e)) as [[_ E]|[[_ E]|[_ [_ [Nd E]]]]]; rewrite E.
    + split; [apply step_rel_refl|left; reflexivity].
    + split; [apply step_rel_refl|left; reflexivity].
    + pose proof (not_dir_nonempty _ _ Nd) as Hp. cbn [add_done with_fs d_fs d_done]. split.
      * apply put_step_rel. exact Hp.
      * right. split; [reflexivity|apply put_at; exact Hp].
  - destruct p as [|c p'] eqn:Ep.
    + split; [apply step_rel_refl|]. right. split; [reflexivity|]. left. reflexivity.
    + rewrite <- Ep in *. clear Ep c p'.
      destruct (restore_dir_cases (d_fs s3) p) as [[_ E]|[[_ E]|[[_ [F E]]|[T [NF E]]]]]; rewrite E.
      * split; [apply step_rel_refl|left; reflexivity].
      * split; [apply step_rel_refl|left; reflexivity].
      * split; [apply step_rel_refl|]. right. split; [reflexivity|]. right. exact F.
      * cbn [add_done add_defer with_fs d_fs d_done]. split.
        -- apply evolve_step_rel, mkdirs_evolve.
        -- right. split; [reflexivity|]. left. apply mkdirs_is_dir; assumption.
  - destruct (e_target e) as [t|].
    + destruct (make_link_cases (d_fs s3) p t) as [[_ E]|[[_ E]|[_ [_ [Np E]]]]]; rewrite E.
      * split; [apply step_rel_refl|left; reflexivity].
      * split; [apply step_rel_refl|left; reflexivity].
      * pose proof (node_at_none_nonempty _ _ Np) as Hp. cbn [add_done add_link with_fs d_fs d_done]. split.
        -- apply put_step_rel. exact Hp.
        -- right. split; [reflexivity|]. exists t. split; [reflexivity|apply put_at; exact Hp].
    + split; [apply step_rel_refl|left; reflexivity].
  - split; [apply step_rel_refl|]. right. split; [reflexivity|exact I].
Qed.

(* the frame of one turn: away from the entry's own path only missing directories appear;
   and an entry reported restored is there *)
Lemma step_frame content_of ow s e :
  let s' := restore_entry content_of ow s e in
  step_rel (comps (e_apath e)) (d_fs s) (d_fs s') /\
  (d_done s' = d_done s \/
   (d_done s' = d_done s ++ [e_apath e] /\ outcome content_of e (comps (e_apath e)) (d_fs s'))).
Proof.
  intros s'. subst s'. rewrite restore_entry_eq.
  destruct (existsb (fun link => beneath link e) (d_links s)).
  - split; [apply step_rel_refl|left; reflexivity].
  - destruct (chk_part ow s (comps (e_apath e))) as [s2 go] eqn:C.
    destruct (chk_part_frame _ _ _ _ _ C) as [R2 D2].
    destruct go; cbn [negb]; [|split; [exact R2|left; exact D2]].
    destruct (par_part s2 e (comps (e_apath e)) (e_apath e)) as [s3 go3] eqn:P.
    destruct (par_part_frame _ _ _ _ _ _ P) as [R3 D3].
    destruct go3; cbn [negb].
    + destruct (kind_part_frame content_of s3 e (comps (e_apath e)) (e_apath e)) as [R4 D4].
      split; [eapply step_rel_trans; [exact R2|eapply step_rel_trans; [exact R3|exact R4]]|].
      rewrite D3, D2 in D4. exact D4.
    + split; [eapply step_rel_trans; eassumption|left; congruence].
Qed.

Lemma comps_inj a b : is_valid a = true -> is_valid b = true -> comps a = comps b -> a = b.
Proof.
  intros Va Vb E. apply valid_iff in Va, Vb.
  destruct Va as [->|[ca [Hca [Oka ->]]]]; destruct Vb as [->|[cb [Hcb [Okb ->]]]].
  - reflexivity.
  - rewrite comps_root, (comps_join cb Hcb Okb) in E. congruence.
  - rewrite comps_root, (comps_join ca Hca Oka) in E. congruence.
  - rewrite (comps_join ca Hca Oka), (comps_join cb Hcb Okb) in E. subst. reflexivity.
Qed.

Lemma outcome_kept content_of e p p' f f' :
  p' <> p -> step_rel p' f f' -> outcome content_of e p f -> outcome content_of e p f'.
Proof.
  intros Hne R O.
  assert (X : node_at f p <> None -> node_at f' p = node_at f p).
  { intros Hs. destruct (R p (not_eq_sym Hne)) as [H|[H _]]; [exact H|congruence]. }
  unfold outcome in *. destruct (e_kind e).
  - rewrite X; [exact O|congruence].
  - destruct O as [O|O]; (rewrite X; [auto|]); destruct (node_at f p); discriminate.
  - destruct O as [t [Et O]]. exists t. split; [exact Et|]. rewrite X; [exact O|congruence].
  - exact I.
Qed.

Lemma done_subset content_of ow es : forall s x,
  In x (d_done (fold_left (restore_entry content_of ow) es s)) -> In x (d_done s) \/ In x (map e_apath es).
Proof.
  induction es as [|e es IH]; intros s x H; [left; exact H|]. cbn [fold_left] in H.
  destruct (IH _ _ H) as [H1|H1]; [|right; right; exact H1].
  destruct (step_frame content_of ow s e) as [_ [D|[D _]]]; rewrite D in H1; [left; exact H1|].
  apply in_app_iff in H1. destruct H1 as [H1|[<-|[]]]; [left; exact H1|right; left; reflexivity].
Qed.

Lemma outcome_kept_loop content_of ow e es : forall s,
  is_valid (e_apath e) = true ->
  (forall e', In e' es -> is_valid (e_apath e') = true) ->
  ~ In (e_apath e) (map e_apath es) ->
  outcome content_of e (comps (e_apath e)) (d_fs s) ->
  outcome content_of e (comps (e_apath e)) (d_fs (fold_left (restore_entry content_of ow) es s)).
Proof.
  induction es as [|e' es IH]; intros s V Vs N O; [exact O|]. cbn [fold_left].
  apply IH; [exact V|intros x Hx; apply Vs; right; exact Hx|intros H; apply N; right; exact H|].
  destruct (step_frame content_of ow s e') as [R _].
  eapply outcome_kept; [|exact R|exact O].
  intros E. apply N. left. symmetry.
  apply comps_inj; [exact V|apply Vs; left; reflexivity|symmetry; exact E].
Qed.

Lemma done_loop content_of ow es : forall s e,
  (forall e', In e' es -> is_valid (e_apath e') = true) ->
  NoDup (map e_apath es) -> In e es -> ~ In (e_apath e) (d_done s) ->
  In (e_apath e) (d_done (fold_left (restore_entry content_of ow) es s)) ->
  outcome content_of e (comps (e_apath e)) (d_fs (fold_left (restore_entry content_of ow) es s)).
Proof.
  induction es as [|e0 es IH]; intros s e V N He Hs Hd; [contradiction|].
  cbn [map] in N. inversion N as [|? ? Hn N']; subst. cbn [fold_left] in *.
  destruct (step_frame content_of ow s e0) as [_ D].
  destruct He as [->|He].
  - destruct D as [D|[D O]].
    + exfalso. destruct (done_subset _ _ _ _ _ Hd) as [H|H]; [rewrite D in H; contradiction|contradiction].
    + apply outcome_kept_loop; [apply V; left; reflexivity|intros x Hx; apply V; right; exact Hx|exact Hn|exact O].
  - apply IH; [intros x Hx; apply V; right; exact Hx|exact N'|exact He| |exact Hd].
    assert (Ne : e_apath e <> e_apath e0).
    { intros E. apply Hn. rewrite <- E. apply in_map. exact He. }
    destruct D as [D|[D _]]; rewrite D; [exact Hs|].
    intros H. apply in_app_iff in H. destruct H as [H|[H|[]]]; [contradiction|congruence].
Qed.

Lemma apply_deferrals_same s : d_fs (apply_deferrals s) = d_fs s /\ d_done (apply_deferrals s) = d_done s.
Proof.
  unfold apply_deferrals. generalize (d_defer s). intros l. revert s.
  induction l as [|p l IH]; intros s; [split; reflexivity|]. cbn [fold_left].
  destruct (through (d_fs s) true p); [|apply IH].
  destruct (IH (add_esc s)) as [A B]. split; [rewrite A|rewrite B]; reflexivity.
Qed.

(* (5) for either mode and any destination the run accepts *)
Theorem restored_entries_are_there :
  forall content_of ow f es s e,
    (forall e', In e' es -> is_valid (e_apath e') = true) ->
    NoDup (map e_apath es) ->
    restore_into content_of ow f es = Some s ->
    In e es -> In (e_apath e) (d_done s) ->
    (e_kind e = KFile -> node_at (d_fs s) (comps (e_apath e)) = Some (NFile (content_of e))) /\
    (e_kind e = KSymlink ->
       exists t, e_target e = Some t /\ node_at (d_fs s) (comps (e_apath e)) = Some (NLink t)) /\
    (e_kind e = KDir ->
       is_dir (node_at (d_fs s) (comps (e_apath e))) = true \/
       is_file (node_at (d_fs s) (comps (e_apath e))) = true).
Proof.
  intros content_of ow f es s e V N H He Hd. unfold restore_into in H.
  destruct (negb ow && negb (match f with [] => true | _ => false end)); [discriminate|].
  injection H as <-.
  destruct (apply_deferrals_same (fold_left (restore_entry content_of ow) es (start f))) as [Ef Ed].
  rewrite Ed in Hd. rewrite Ef.
  pose proof (done_loop content_of ow es (start f) e V N He (fun x => x) Hd) as O.
  unfold outcome in O. repeat split; intros K; rewrite K in O; exact O.
Qed.

(* ------------------------------------------------------------------------- *)
(** * 9. The defect, and concrete instances                                    *)
(* ------------------------------------------------------------------------- *)
Definition content_bang (e : entry) : bytes := e_apath e ++ [33].

(* (4) the loop before the fix: the destination holds d -> ../outside/sdir, the tree holds
   the directory /d and the file /d/inner *)
Definition dest_with_link : fs :=
  [([[100]], NLink [46; 46; 47; 111; 117; 116; 115; 105; 100; 101; 47; 115; 100; 105; 114])].
Definition tree_d_inner : list entry :=
  [mk_entry [47] KDir None;
   mk_entry [47; 100] KDir None;
   mk_entry [47; 100; 47; 105; 110; 110; 101; 114] KFile None].

Theorem unchecked_loop_refuted :
  exists content_of f es, d_esc (restore_into_unchecked content_of f es) <> 0.
Proof. exists content_bang, dest_with_link, tree_d_inner. vm_compute. discriminate. Qed.

Example checked_loop_on_the_same_input :
  exists s, restore_into content_bang true dest_with_link tree_d_inner = Some s /\
    d_esc s = 0 /\ d_errs s = 0 /\
    node_at (d_fs s) [[100]] = Some NDir /\
    node_at (d_fs s) [[100]; [105; 110; 110; 101; 114]] =
      Some (NFile [47; 100; 47; 105; 110; 110; 101; 114; 33]).
Proof. eexists. split; [vm_compute; reflexivity|]. vm_compute. repeat split; reflexivity. Qed.

(* a destination with a directory a, a file a/x, links l and a/k, a file g (and a second,
   shadowed, binding of g) *)
Definition ex_dest : fs :=
  [ ([[97]], NDir); ([[97]; [120]], NFile [9]); ([[108]], NLink [46; 46; 47; 111; 117; 116]);
    ([[97]; [107]], NLink [47; 101; 116; 99]); ([[103]], NFile [7]); ([[103]], NDir) ].
(* / /a /a/x /a/k->t /l(a directory over the link) /l/in /g/sub(under a file) /a/n/deep *)
Definition ex_entries : list entry :=
  [ mk_entry [47] KDir None;
    mk_entry [47; 97] KDir None;
    mk_entry [47; 97; 47; 120] KFile None;
    mk_entry [47; 97; 47; 107] KSymlink (Some [116]);
    mk_entry [47; 108] KDir None;
    mk_entry [47; 108; 47; 105; 110] KFile None;
    mk_entry [47; 103; 47; 115; 117; 98] KFile None;
    mk_entry [47; 97; 47; 110; 47; 100; 101; 101; 112] KFile None ].

Lemma ex_entries_valid : forall e, In e ex_entries -> is_valid (e_apath e) = true.
Proof. intros e H. cbn in H. repeat (destruct H as [<-|H]; [reflexivity|]). contradiction. Qed.

Lemma ex_entries_nodup : NoDup (map e_apath ex_entries).
Proof. cbn. repeat (constructor; [cbn; intuition discriminate|]). constructor. Qed.

Example overwrite_example :
  tree_like ex_dest /\
  exists s, restore_into content_bang true ex_dest ex_entries = Some s /\
    d_esc s = 0 /\ d_errs s = 1 /\
    node_at (d_fs s) [[108]] = Some NDir /\
    node_at (d_fs s) [[108]; [105; 110]] = Some (NFile [47; 108; 47; 105; 110; 33]) /\
    node_at (d_fs s) [[97]; [107]] = Some (NLink [116]) /\
    node_at (d_fs s) [[103]] = Some (NFile [7]).
Proof.
  split; [apply tree_likeb_sound; vm_compute; reflexivity|].
  eexists. split; [vm_compute; reflexivity|]. vm_compute. repeat split; reflexivity.
Qed.

(* without --overwrite: / /a /a/x /a/k->t /a/k/u(beneath the link: skipped) /b/c/d /b *)
Definition ex_fresh_entries : list entry :=
  [ mk_entry [47] KDir None;
    mk_entry [47; 97] KDir None;
    mk_entry [47; 97; 47; 120] KFile None;
    mk_entry [47; 97; 47; 107] KSymlink (Some [116]);
    mk_entry [47; 97; 47; 107; 47; 117] KFile None;
    mk_entry [47; 98; 47; 99; 47; 100] KFile None;
    mk_entry [47; 98] KDir None ].

Example fresh_example :
  (forall e, In e ex_fresh_entries -> is_valid (e_apath e) = true) /\
  NoDup (map e_apath ex_fresh_entries) /\
  exists s, restore_into content_bang false [] ex_fresh_entries = Some s /\
    d_esc s = 0 /\ d_errs s = 1 /\
    d_done s = [[47]; [47; 97]; [47; 97; 47; 120]; [47; 97; 47; 107]; [47; 98; 47; 99; 47; 100]; [47; 98]].
Proof.
  split; [|split].
  - intros e H. cbn in H. repeat (destruct H as [<-|H]; [reflexivity|]). contradiction.
  - cbn. repeat (constructor; [cbn; intuition discriminate|]). constructor.
  - eexists. split; [vm_compute; reflexivity|]. vm_compute. repeat split; reflexivity.
Qed.

(* (5) on the overwrite example: what [d_done] names is there, as the theorem says *)
Example restored_example :
  exists s, restore_into content_bang true ex_dest ex_entries = Some s /\
    d_done s = [[47]; [47; 97]; [47; 97; 47; 120]; [47; 97; 47; 107]; [47; 108]; [47; 108; 47; 105; 110];
                [47; 97; 47; 110; 47; 100; 101; 101; 112]] /\
    node_at (d_fs s) (comps [47; 97; 47; 120]) = Some (NFile (content_bang (mk_entry [47; 97; 47; 120] KFile None))) /\
    node_at (d_fs s) (comps [47; 97; 47; 110; 47; 100; 101; 101; 112]) =
      Some (NFile [47; 97; 47; 110; 47; 100; 101; 101; 112; 33]) /\
    node_at (d_fs s) (comps [47; 97; 47; 107]) = Some (NLink [116]) /\
    is_dir (node_at (d_fs s) (comps [47; 108])) = true.
Proof. eexists. split; [vm_compute; reflexivity|]. vm_compute. repeat split; reflexivity. Qed.

(* the theorem applied to it *)
Example restored_example_by_theorem :
  forall s, restore_into content_bang true ex_dest ex_entries = Some s ->
  forall e, In e ex_entries -> In (e_apath e) (d_done s) -> e_kind e = KFile ->
  node_at (d_fs s) (comps (e_apath e)) = Some (NFile (content_bang e)).
Proof.
  intros s H e He Hd K.
  exact (proj1 (restored_entries_are_there content_bang true ex_dest ex_entries s e
                  ex_entries_valid ex_entries_nodup H He Hd) K).
Qed.

Print Assumptions overwrite_never_resolves_through_a_link.
Print Assumptions overwrite_on_arbitrary_list_refuted.
Print Assumptions overwrite_beneath_a_link_refuted.
Print Assumptions overwrite_keeps_the_invariant.
Print Assumptions fresh_never_resolves_through_a_link.
Print Assumptions fresh_duplicate_path_refuted.
Print Assumptions nonempty_destination_refused.
Print Assumptions unchecked_loop_refuted.
Print Assumptions checked_loop_on_the_same_input.
Print Assumptions restored_entries_are_there.
Print Assumptions overwrite_example.
Print Assumptions fresh_example.
Print Assumptions restored_example.
