(* C09 / C10 / C16 / C17: definitions.  Model file: executable definitions and predicates
   only (lemmas: ValidP.v).

   1. the fault-free replies of the reading operations and the PURE reading of an archive
      state: what the stitched reader / validate compute from a state, as functions of the
      state (ValidP.v proves the programs of StitchProg.v / Read.v compute exactly these);
   2. healthy archives (what fault-free operations produce) and their boolean checker;
   3. damage to one file;
   4. [no_panic];
   5. the symlink guard of restore ([guard_links], src/restore.rs after "fix: restoring an
      incomplete version could write through a symlink outside the destination"). *)
From Coq Require Import List NArith Bool.
From CV Require Import Base.Str Apath Entry Store Stitch StitchProg Codec Tree Backup Ops Delete Read Inv.
Import ListNotations.
Local Open Scope N_scope.

Notation arch := Store.arch.
Notation phstep := (hunk_step str apath_cmp entry e_apath).
Notation pnlast := (newlast str entry e_apath).

(* ------------------------------------------------------------------------- *)
(** * 1. Pure reading                                                          *)
(* ------------------------------------------------------------------------- *)
Section Pure.
  Variable pre : bytes -> N.

  (* replies of the reading operations without faults *)
  Definition rd (a : arch) (f : fpath) : reply :=
    match get a f with Some c => RData c | None => RErr ENotFound end.
  Definition mt (a : arch) (f : fpath) : reply :=
    match get a f with Some c => RMeta (nonempty c) | None => RErr ENotFound end.
  Definition ls (a : arch) (d : dpath) : reply :=
    if has_dir a d then RList (children_dirs a d) (children_files pre a d) else RErr ENotFound.

  (* IndexRead::hunks_available: sub-directories of i/ in number order, in each the hunk
     files in number order *)
  Definition hunks_listed (a : arch) (n : N) : list N :=
    flat_map (fun s => hunk_numbers (children_files pre a (DHunkSub n s)))
             (subdir_numbers (children_dirs a (DIndex n))).

  Variable keep : entry -> bool.

  (* hunks_loop, every entry consumed: (last_apath, entries, monitor errors) *)
  Fixpoint hl_pure (a : arch) (n : nat) (hs : list N) (after last : option str) (acc : list entry) (merr : N)
    : option str * list entry * N :=
    match hs with
    | [] => (last, acc, merr)
    | h :: hs' =>
        match rd a (PHunk (N.of_nat n) h) with
        | RErr ENotFound => (last, acc, merr)
        | RData (Good (PlHunk es)) =>
            match phstep (Some es) after with
            | (None, after') => hl_pure a n hs' after' last acc merr
            | (Some out, after') => hl_pure a n hs' after' (pnlast out last) (acc ++ filter keep out) merr
            end
        | _ => hl_pure a n hs' after last acc (merr + 1)
        end
    end.

  Definition tail_count (a : arch) (n : N) : option N :=
    match rd a (PTail n) with RData (Good (PlTail c)) => c | _ => None end.

  (* check_hunk_numbers *)
  Definition numbers_bad (hs : list N) (count : option N) : bool :=
    negb (consecutive hs 0)
    || match count with Some c => negb (N.eqb c (N.of_nat (length hs))) | None => false end.

  Definition ob_pure (a : arch) (n : nat) (last : option str) (acc : list entry) (merr : N)
    : option str * list entry * N :=
    match head_status (rd a (PHead (N.of_nat n))) with
    | HOk =>
        match ls a (DIndex (N.of_nat n)) with
        | RList _ _ =>
            let hs := hunks_listed a (N.of_nat n) in
            hl_pure a n hs last last acc
              (if numbers_bad hs (tail_count a (N.of_nat n)) then merr + 1 else merr)
        | _ => (last, acc, merr + 1)
        end
    | _ => (last, acc, merr + 1)
    end.

  Definition closed (a : arch) (n : N) : bool := meta_is_closed (mt a (PTail n)).

  Fixpoint below_pure (a : arch) (n : nat) (last : option str) (acc : list entry) (merr : N)
    : option str * list entry * N :=
    match n with
    | O => (last, acc, merr)
    | S m =>
        if meta_is_file (mt a (PHead (N.of_nat m))) then
          let '(l, ac, me) := ob_pure a m last acc merr in
          if closed a (N.of_nat m) then (l, ac, me) else below_pure a m l ac me
        else below_pure a m last acc merr
    end.

  (* snext from SBefore n, run to the end *)
  Definition stitch_pure (a : arch) (n : nat) : option str * list entry * N :=
    let '(l, ac, me) := ob_pure a n None [] 0 in
    if closed a (N.of_nat n) then (l, ac, me) else below_pure a n l ac me.
End Pure.

Section PureValidate.
  Variable pre : bytes -> N.

  Definition opens_b (a : arch) (b : N) : bool :=
    match head_status (rd a (PHead b)) with HOk => true | _ => false end.

  (* validate_bands *)
  Fixpoint vb_pure (a : arch) (ids : list N) (lens : list (bytes * N)) (errs : N) : list (bytes * N) * N :=
    match ids with
    | [] => (lens, errs)
    | b :: ids' =>
        if opens_b a b then
          match ls pre a (DBand b) with
          | RList _ fs =>
              let errs1 := if existsb (fun p => fpath_eqb (fst p) (PHead b)) fs then errs else errs + 1 in
              let '(_, es, merr) := stitch_pure pre keep_all a (N.to_nat b) in
              vb_pure a ids' (entry_lens es lens) (errs1 + merr)
          | _ => vb_pure a ids' lens (errs + 1)
          end
        else vb_pure a ids' lens (errs + 1)
    end.

  Definition listed_blocks (fs : list (fpath * bool)) : list bytes :=
    flat_map (fun p => match p with (PBlock c, true) => [c] | _ => [] end) fs.

  (* the blocks the listing of d/ shows as present (non-zero length) *)
  Definition present0 (a : arch) : list bytes :=
    flat_map (fun s => listed_blocks (children_files pre a (DBlockSub s)))
             (block_subdirs (children_dirs a DBlocks)).

  (* read_all: (lengths of the good blocks, errors) *)
  Fixpoint ra_pure (a : arch) (l : list bytes) (acc : list (bytes * N)) (errs : N) : list (bytes * N) * N :=
    match l with
    | [] => (acc, errs)
    | c :: l' =>
        match rd a (PBlock c) with
        | RData (Good (PlBlock d)) =>
            if str_eqb d c then ra_pure a l' (acc ++ [(c, N.of_nat (length d))]) errs
            else ra_pure a l' acc (errs + 1)
        | _ => ra_pure a l' acc (errs + 1)
        end
    end.

  Definition short_or_missing (blens : list (bytes * N)) (p : bytes * N) : bool :=
    match find (fun q => str_eqb (fst q) (fst p)) blens with
    | Some (_, actual) => actual <? snd p
    | None => true
    end.

  Definition vfail0 : vres := {| v_ok := false; v_errors := 0 |}.

  Definition validate_pure (a : arch) (skip_hashes : bool) (hint : list bytes) : vres :=
    match rd a PHeader with
    | RData (Good PlJson) =>
        if has_dir a DRoot then
          let '(lens, errs) := vb_pure a (sorted_N (band_ids (children_dirs a DRoot))) [] 0 in
          if has_dir a DBlocks then
            let present := dedup (present0 a) in
            if skip_hashes then
              {| v_ok := true;
                 v_errors := errs + N.of_nat (length (filter (fun p => negb (mem_bytes (fst p) present)) lens)) |}
            else
              let '(blens, errs') := ra_pure a (order_by hint present) [] errs in
              {| v_ok := true;
                 v_errors := errs' + N.of_nat (length (filter (short_or_missing blens) lens)) |}
          else {| v_ok := false; v_errors := errs |}
        else vfail0
    | _ => vfail0
    end.
End PureValidate.

(* ------------------------------------------------------------------------- *)
(** * 2. Healthy archives                                                      *)
(* ------------------------------------------------------------------------- *)
Section Healthy.
  Variable pre : bytes -> N.

  (* the directory structure: no directory twice; the root and d/ exist; every file lies in
     an existing directory, every directory in an existing directory; a band directory has
     its index directory *)
  Definition WFdirs (a : arch) : Prop :=
    NoDup (dirs a)
    /\ In DRoot (dirs a) /\ In DBlocks (dirs a)
    /\ (forall f x, In (f, x) (files a) -> In (parent_f pre f) (dirs a))
    /\ (forall d p, In d (dirs a) -> parent_d d = Some p -> In p (dirs a))
    /\ (forall b, In (DBand b) (dirs a) -> In (DIndex b) (dirs a)).

  (* band [b]: the head opens, the hunk files are numbered 0..n-1 and all decode, the tail
     (if there is one) states n *)
  Definition BandHealthy (a : arch) (b : N) : Prop :=
    get a (PHead b) = Some (Good (PlHead HvOk))
    /\ exists n,
         (forall h, get a (PHunk b h) <> None -> h < n)
         /\ (forall h, h < n -> exists es, get a (PHunk b h) = Some (Good (PlHunk es)))
         /\ (get a (PTail b) = None \/ get a (PTail b) = Some (Good (PlTail (Some n)))).

  Definition Healthy (a : arch) : Prop :=
    WFdirs a /\ AInv a /\ get a PHeader = Some (Good PlJson)
    /\ forall b, In (DBand b) (dirs a) -> BandHealthy a b.

  (* the same with any tail content that does not state a wrong count (a tail that does not
     decode states none): what the readers need *)
  Definition BandReadable (a : arch) (b : N) : Prop :=
    get a (PHead b) = Some (Good (PlHead HvOk))
    /\ exists n,
         (forall h, get a (PHunk b h) <> None -> h < n)
         /\ (forall h, h < n -> exists es, get a (PHunk b h) = Some (Good (PlHunk es)))
         /\ (tail_count a b = None \/ tail_count a b = Some n).

  Definition Readable (a : arch) : Prop :=
    WFdirs a /\ AInv a /\ get a PHeader = Some (Good PlJson)
    /\ forall b, In (DBand b) (dirs a) -> BandReadable a b.

  (* ---- boolean checkers (sound: ValidP.v) ---- *)
  Fixpoint nodup_dirs (l : list dpath) : bool :=
    match l with
    | [] => true
    | x :: l' => negb (existsb (dpath_eqb x) l') && nodup_dirs l'
    end.

  Definition wfdirs_b (a : arch) : bool :=
    nodup_dirs (dirs a)
    && has_dir a DRoot && has_dir a DBlocks
    && forallb (fun p => has_dir a (parent_f pre (fst p))) (files a)
    && forallb (fun d => match parent_d d with Some p => has_dir a p | None => true end) (dirs a)
    && forallb (fun d => match d with DBand b => has_dir a (DIndex b) | _ => true end) (dirs a).

  (* hunk numbers of the files of band [b], in file order *)
  Definition band_hunk_files (a : arch) (b : N) : list N :=
    flat_map (fun p => match fst p with PHunk b' h => if N.eqb b' b then [h] else [] | _ => [] end) (files a).

  Fixpoint count_from {A} (l : list A) (i : N) : list N :=
    match l with [] => [] | _ :: l' => i :: count_from l' (i + 1) end.

  Definition band_healthy_b (a : arch) (b : N) : bool :=
    let hs := band_hunk_files a b in
    let n := N.of_nat (length hs) in
    match get a (PHead b) with Some (Good (PlHead HvOk)) => true | _ => false end
    && forallb (fun h => h <? n) hs
    && forallb (fun h => match get a (PHunk b h) with Some (Good (PlHunk _)) => true | _ => false end)
         (count_from hs 0)
    && match get a (PTail b) with
       | None => true
       | Some (Good (PlTail (Some c))) => N.eqb c n
       | _ => false
       end.

  Definition healthy_b (a : arch) : bool :=
    wfdirs_b a && ainv_b a
    && match get a PHeader with Some (Good PlJson) => true | _ => false end
    && forallb (fun d => match d with DBand b => band_healthy_b a b | _ => true end) (dirs a).
End Healthy.

(* ------------------------------------------------------------------------- *)
(** * 3. Damage to one file                                                    *)
(* ------------------------------------------------------------------------- *)
Definition remove_path (a : arch) (f : fpath) : arch :=
  {| dirs := dirs a; files := remove_file f (files a) |}.
(* the content of an EXISTING file replaced *)
Definition replace_path (a : arch) (f : fpath) (x : fcontent) : arch :=
  match get a f with
  | Some _ => {| dirs := dirs a; files := set_file f x (files a) |}
  | None => a
  end.

(* undecodable / altered content for a file of each class *)
Definition bad_content (f : fpath) (x : fcontent) : Prop :=
  x = Empty \/ x = Garbage
  \/ match f with PBlock c => exists c', c' <> c /\ x = Good (PlBlock c') | _ => False end.

Inductive damaged (a : arch) (f : fpath) : arch -> Prop :=
| dmg_removed : get a f <> None -> damaged a f (remove_path a f)
| dmg_replaced : forall x, get a f <> None -> bad_content f x -> damaged a f (replace_path a f x).

(* ------------------------------------------------------------------------- *)
(** * 4. Programs that cannot panic                                            *)
(* ------------------------------------------------------------------------- *)
Inductive no_panic {R : Type} : prog R -> Prop :=
| np_ret : forall r, no_panic (Ret r)
| np_do : forall o k, (forall rep, no_panic (k rep)) -> no_panic (Do o k).

(* ------------------------------------------------------------------------- *)
(** * 5. The symlink guard of restore                                          *)
(* ------------------------------------------------------------------------- *)
(* [e] lies strictly beneath [link] *)
Definition beneath (link : str) (e : entry) : bool :=
  is_prefix_of link (e_apath e) && negb (str_eqb link (e_apath e)).

(* restore's loop: [links] = restored_symlinks.  An entry beneath a restored symlink is
   reported and skipped; a symlink entry that is kept and [created] (restore_symlink
   succeeded) is remembered. *)
Fixpoint guard_links_from (created : entry -> bool) (links : list str) (es : list entry) : list entry * N :=
  match es with
  | [] => ([], 0)
  | e :: es' =>
      if existsb (fun link => beneath link e) links then
        let '(kept, errs) := guard_links_from created links es' in (kept, errs + 1)
      else
        let links' := if kind_eqb (e_kind e) KSymlink && created e then links ++ [e_apath e] else links in
        let '(kept, errs) := guard_links_from created links' es' in (e :: kept, errs)
  end.

Definition guard_links_gen (created : entry -> bool) (es : list entry) : list entry * N :=
  guard_links_from created [] es.

(* every kept symlink entry is created (the file-system side is not modelled) *)
Definition guard_links (es : list entry) : list entry * N := guard_links_gen (fun _ => true) es.
