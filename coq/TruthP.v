(* C01 / C04, content half:

   "Whatever storage operations fail, every file entry that ends up recorded restores to
   exactly the bytes that file had in the source -- never another file's bytes; if the
   backup reports complete success the version holds the whole source."

   A. No program of this development ever panics ([no_panic], [never_panics]).
   B. The weakest-precondition rules of RefIntP.v for ANY state invariant kept by add-only
      operations ([gsafe_step], [gsafe_sound]), with a post-condition [xpost] that says
      exactly what each operation did.
   C. [backup_new_entries_truthful], [backup_recorded_truthful], [backup_reused_content]:
      invariant [J] (state) / [TW] (writer) / [TS] (stitched basis) carried through every
      sub-program of the backup, combined with [backup_ainv] of RefIntP.v.
   D. [backup_success_complete], [backup_success_exactly_one], [skip_is_reported]: an
      accounting invariant ([CI], [ALL]) carried through the same skeleton.
   E. Examples by computation on runs with faults (TruthExamples). *)
From Coq Require Import Lia Permutation.
From CV Require Import Base.Str Base.StrP Apath ApathP Entry Stitch Tree Codec CodecP Store StitchProg Backup
  Ops Delete Read SafeP Inv RefIntP Truth.
Local Open Scope N_scope.

(* ------------------------------------------------------------------------- *)
(** * A. No program ever panics                                               *)
(* ------------------------------------------------------------------------- *)

Lemma np_bind {A B} (p : prog A) (f : A -> prog B) :
  no_panic p -> (forall r, no_panic (f r)) -> no_panic (bind p f).
Proof. intros H Hf. induction H as [r|o k _ IH]; cbn [bind]; auto. constructor. auto. Qed.

Lemma np_inv {R} (p : prog R) :
  no_panic p -> match p with Do _ k => forall rep, no_panic (k rep) | Panic => False | Ret _ => True end.
Proof. intros H. destruct H; auto. Qed.

(* soundness: under every fault list, from every state, the outcome is not a panic *)
Lemma no_panic_sound {R} pre (p : prog R) :
  no_panic p -> forall a phi, snd (run pre p a phi) <> Panicked.
Proof.
  intros H. induction H as [r|o k _ IH]; intros a phi.
  - cbn. discriminate.
  - rewrite run_Do. destruct (hdf phi) as [|e| |]; cbn [snd]; try discriminate; apply IH.
Qed.

Ltac np_step :=
  match goal with
  | |- no_panic (Ret _) => apply np_ret
  | |- no_panic (Do _ _) => apply np_do; intros ?
  | |- no_panic (bind _ _) => apply np_bind; [| intros ?]
  | |- no_panic (match ?x with _ => _ end) => destruct x eqn:?
  end.

Lemma head_status_no_panic r : head_status r <> HPanic.
Proof. destruct r as [| |[[|[| | | |]| | |]| |]| |]; cbn; discriminate. Qed.

Section StitchNP.
  Variables keep skip : entry -> bool.

  Lemma list_subdirs_np b subs : forall acc kfail k,
    no_panic kfail -> (forall hs, no_panic (k hs)) -> no_panic (list_subdirs b subs acc kfail k).
  Proof.
    induction subs as [|s subs IH]; intros acc kfail k Hf Hk; cbn [list_subdirs]; auto.
    repeat np_step; auto.
  Qed.

  Lemma hunks_loop_np n hs : forall after last acc merr k,
    (forall l a m, no_panic (k l a m)) -> no_panic (hunks_loop keep skip n hs after last acc merr k).
  Proof.
    induction hs as [|h hs IH]; intros after last acc merr k Hk; cbn [hunks_loop]; auto.
    repeat np_step; auto.
  Qed.

  Lemma open_band_np n last acc merr k :
    (forall l a m, no_panic (k l a m)) -> no_panic (open_band keep skip n last acc merr k).
  Proof.
    intros Hk. unfold open_band. apply np_do. intros r.
    destruct (head_status r) eqn:E; [| apply Hk | destruct (head_status_no_panic r E)].
    repeat np_step; auto.
    apply list_subdirs_np; [apply Hk|]. intros hs. np_step. apply hunks_loop_np. exact Hk.
  Qed.

  Lemma after_band_np n below last acc merr :
    (forall l a m, no_panic (below l a m)) -> no_panic (after_band n below last acc merr).
  Proof. intros Hb. unfold after_band. repeat np_step; auto. Qed.

  Lemma below_np n : forall last acc merr, no_panic (below keep skip n last acc merr).
  Proof.
    induction n as [|m IH]; intros last acc merr; cbn [below]; repeat np_step; auto.
    apply open_band_np. intros l a m'. apply after_band_np. exact IH.
  Qed.

  Lemma snext_np st last merr : no_panic (snext keep skip st last merr).
  Proof.
    unfold snext. destruct st as [|n|n hs buf after|n].
    - constructor.
    - apply open_band_np. intros. apply after_band_np. apply below_np.
    - repeat np_step. apply hunks_loop_np. intros. apply after_band_np. apply below_np.
    - apply after_band_np. apply below_np.
  Qed.
End StitchNP.

Section ProgsNP.
  Variable pre : bytes -> N.

  Lemma store_block_np w c : no_panic (store_block pre w c).
  Proof. unfold store_block. repeat np_step. Qed.

  Lemma comb_flush_np w : no_panic (comb_flush pre w).
  Proof.
    unfold comb_flush. destruct (w_queue w); [constructor|].
    apply np_bind; [apply store_block_np|]. intros [ok w']. destruct ok; constructor.
  Qed.

  Lemma comb_push_np c w e data : no_panic (comb_push pre c w e data).
  Proof.
    unfold comb_push. destruct data; [constructor|].
    match goal with |- no_panic (if ?x then _ else _) => destruct x end; [apply comb_flush_np | constructor].
  Qed.

  Lemma finish_hunk_np w : no_panic (finish_hunk w).
  Proof. unfold finish_hunk. repeat np_step. Qed.

  Lemma flush_group_np w : no_panic (flush_group pre w).
  Proof.
    unfold flush_group. apply np_bind; [apply comb_flush_np|].
    intros [ok w1]. destruct ok; [apply finish_hunk_np | constructor].
  Qed.

  Lemma store_chunks_np cs : forall w acc, no_panic (store_chunks pre w cs acc).
  Proof.
    induction cs as [|c cs IH]; intros w acc; cbn [store_chunks]; [constructor|].
    apply np_bind; [apply store_block_np|]. intros [ok w']. destruct ok; [apply IH | constructor].
  Qed.

  Lemma copy_entry_np c w basis it : no_panic (copy_entry pre c w basis it).
  Proof.
    unfold copy_entry. destruct (s_kind (si_e it)); try constructor.
    match goal with |- no_panic (match ?x with _ => _ end) => destruct x end; [constructor|].
    destruct (s_size (si_e it) =? 0); [constructor|].
    destruct (s_size (si_e it) <=? c_sfc c); [apply comb_push_np|].
    apply np_bind; [apply store_chunks_np|]. intros [o w']. destruct o; constructor.
  Qed.

  Lemma merge_loop_np c src : forall peek st last w, no_panic (merge_loop pre c src peek st last w).
  Proof.
    induction src as [|it src IH]; intros peek st last w; cbn [merge_loop].
    - apply np_bind; [apply snext_np|]. intros [[[[skipped na] st'] last'] merr].
      apply np_bind; [apply flush_group_np|]. intros [ok w2]. repeat np_step.
    - assert (Hk : forall (skipped : list entry) na st' last' merr,
        no_panic
          (let w0 := upd_counts w (w_errors w) merr (w_deleted w + N.of_nat (length skipped)) in
           let '(basis, na') :=
             match na with
             | Some e => match apath_cmp (e_apath e) (s_apath (si_e it)) with
                         | Eq => (Some e, None) | _ => (None, na) end
             | None => (None, None)
             end in
           bind (copy_entry pre c w0 basis it) (fun rw =>
             let '(ok, w1) := rw in
             let w2 := if ok then w1 else upd_counts w1 (w_errors w1 + 1) (w_merr w1 + 1) (w_deleted w1) in
             if ok && (c_meph c <=? N.of_nat (length (w_entries w2)) + N.of_nat (length (w_queue w2))) then
               bind (flush_group pre w2) (fun rw2 =>
                 let '(ok2, w3) := rw2 in
                 if ok2 then merge_loop pre c src na' st' last' w3 else Ret (fail w3))
             else merge_loop pre c src na' st' last' w2))).
      { intros skipped na st' last' merr. cbv zeta.
        match goal with |- no_panic (let '(_, _) := ?x in _) => destruct x as [basis na'] end.
        apply np_bind; [apply copy_entry_np|]. intros [ok w1].
        match goal with |- no_panic (if ?x then _ else _) => destruct x end; [|apply IH].
        apply np_bind; [apply flush_group_np|]. intros [ok2 w3]. destruct ok2; [apply IH | constructor]. }
      destruct peek as [e|].
      + match goal with |- no_panic (if ?x then _ else _) => destruct x end.
        * apply np_bind; [apply snext_np|]. intros [[[[skipped na] st'] last'] merr]. apply Hk.
        * exact (Hk [] (Some e) st last (w_merr w)).
      + apply np_bind; [apply snext_np|]. intros [[[[skipped na] st'] last'] merr]. apply Hk.
  Qed.

  Lemma list_blocks_np subs : forall acc failed k,
    (forall r, no_panic (k r)) -> no_panic (list_blocks subs acc failed k).
  Proof.
    induction subs as [|s subs IH]; intros acc failed k Hk; cbn [list_blocks]; auto.
    apply np_do. intros rep. destruct rep; auto.
  Qed.

  Theorem backup_no_panic : forall c src, no_panic (backup_prog pre c src).
  Proof.
    intros c src. unfold backup_prog, open_archive. repeat np_step.
    apply list_blocks_np. intros [ex|]; [|constructor]. apply merge_loop_np.
  Qed.

  Theorem init_no_panic : no_panic init_prog.
  Proof. unfold init_prog. repeat np_step. Qed.

  (* ---- list / restore / validate ---- *)
  Lemma last_complete_np {R} ids : forall (k : option N -> prog R),
    (forall o, no_panic (k o)) -> no_panic (last_complete ids k).
  Proof.
    induction ids as [|b ids IH]; intros k Hk; cbn [last_complete]; auto.
    apply np_do. intros r.
    destruct (head_status r) eqn:E; [| apply IH; exact Hk | destruct (head_status_no_panic r E)].
    repeat np_step; auto.
  Qed.

  Lemma resolve_np {R} p (k : option N -> prog R) :
    (forall o, no_panic (k o)) -> no_panic (resolve p k).
  Proof.
    intros Hk. unfold resolve. destruct p; auto; repeat np_step; auto.
    apply last_complete_np. exact Hk.
  Qed.

  Lemma open_tree_np {R} p (k : option N -> prog R) :
    (forall o, no_panic (k o)) -> no_panic (open_tree p k).
  Proof.
    intros Hk. unfold open_tree. apply resolve_np. intros [b|]; auto.
    apply np_do. intros r.
    destruct (head_status r) eqn:E; [apply Hk | apply Hk | destruct (head_status_no_panic r E)].
  Qed.

  Theorem list_no_panic : forall p keep, no_panic (list_prog p keep).
  Proof.
    intros p keep. unfold list_prog. repeat np_step.
    apply open_tree_np. intros [b|]; [|constructor].
    apply np_bind; [apply snext_np|]. intros [[[[es o] st] last] merr]. constructor.
  Qed.

  Lemma read_file_np addrs : forall cache acc k,
    (forall c o, no_panic (k c o)) -> no_panic (read_file cache addrs acc k).
  Proof.
    induction addrs as [|a addrs IH]; intros cache acc k Hk; cbn [read_file]; auto.
    repeat np_step; auto.
  Qed.

  Lemma restore_entries_np es : forall cache acc merr, no_panic (restore_entries es cache acc merr).
  Proof.
    induction es as [|e es IH]; intros cache acc merr; cbn [restore_entries]; [constructor|].
    destruct (e_kind e); auto. apply read_file_np. intros. apply IH.
  Qed.

  Lemma list_blocks_r_np subs : forall ok k,
    (forall ok', no_panic (k ok')) -> no_panic (list_blocks_r subs ok k).
  Proof.
    induction subs as [|s subs IH]; intros ok k Hk; cbn [list_blocks_r]; auto.
    repeat np_step; auto.
  Qed.

  Theorem restore_no_panic : forall p keep, no_panic (restore_prog p keep).
  Proof.
    intros p keep. unfold restore_prog. repeat np_step.
    apply open_tree_np. intros [b|]; [|constructor].
    repeat np_step. apply list_blocks_r_np. intros [|]; [|constructor].
    apply np_bind; [apply snext_np|]. intros [[[[es o] st] last] merr]. apply restore_entries_np.
  Qed.

  Lemma validate_bands_np ids : forall lens errs k,
    (forall l e, no_panic (k l e)) -> no_panic (validate_bands ids lens errs k).
  Proof.
    induction ids as [|b ids IH]; intros lens errs k Hk; cbn [validate_bands]; auto.
    apply np_do. intros r.
    destruct (head_status r) eqn:E; [| apply IH; exact Hk | destruct (head_status_no_panic r E)].
    apply np_do. intros r2. destruct r2; try (apply IH; exact Hk).
    apply np_do. intros r3.
    destruct (head_status r3) eqn:E3; [| apply IH; exact Hk | destruct (head_status_no_panic r3 E3)].
    apply np_bind; [apply snext_np|]. intros [[[[es o] st] last] merr]. apply IH. exact Hk.
  Qed.

  Lemma list_blocks_v_np subs : forall acc failed k,
    (forall o, no_panic (k o)) -> no_panic (list_blocks_v subs acc failed k).
  Proof.
    induction subs as [|s subs IH]; intros acc failed k Hk; cbn [list_blocks_v]; auto.
    repeat np_step; auto.
  Qed.

  Lemma read_all_np l : forall acc errs k,
    (forall a e, no_panic (k a e)) -> no_panic (read_all l acc errs k).
  Proof.
    induction l as [|c l IH]; intros acc errs k Hk; cbn [read_all]; auto.
    repeat np_step; auto.
  Qed.

  Theorem validate_no_panic : forall skip hint, no_panic (validate_prog skip hint).
  Proof.
    intros skip hint. unfold validate_prog. repeat np_step.
    apply validate_bands_np. intros lens errs. repeat np_step.
    apply list_blocks_v_np. intros [present0|]; [|constructor].
    destruct skip; [constructor|]. apply read_all_np. intros. constructor.
  Qed.

  (* ---- delete ---- *)
  Lemma release_fail_np : no_panic release_fail.
  Proof. unfold release_fail. repeat np_step. Qed.
  Local Hint Resolve release_fail_np : core.

  Lemma ref_hunks_np b hs : forall acc k,
    (forall l, no_panic (k l)) -> no_panic (ref_hunks b hs acc k).
  Proof.
    induction hs as [|h hs IH]; intros acc k Hk; cbn [ref_hunks]; auto.
    repeat np_step; auto.
  Qed.

  Lemma ref_subdirs_np b subs : forall acc k,
    (forall l, no_panic (k l)) -> no_panic (ref_subdirs b subs acc k).
  Proof.
    induction subs as [|s subs IH]; intros acc k Hk; cbn [ref_subdirs]; auto.
    repeat np_step; auto.
  Qed.

  Lemma ref_bands_np bands : forall acc k,
    (forall l, no_panic (k l)) -> no_panic (ref_bands bands acc k).
  Proof.
    induction bands as [|b bands IH]; intros acc k Hk; cbn [ref_bands]; auto.
    apply np_do. intros r.
    destruct (head_status r) eqn:E; [| auto | destruct (head_status_no_panic r E)].
    apply np_do. intros r2. destruct r2; auto.
    apply ref_subdirs_np. intros hs. apply ref_hunks_np. intros acc'. apply IH. exact Hk.
  Qed.

  Lemma list_blocks_d_np subs : forall acc failed k,
    (forall l, no_panic (k l)) -> no_panic (list_blocks_d subs acc failed k).
  Proof.
    induction subs as [|s subs IH]; intros acc failed k Hk; cbn [list_blocks_d].
    - destruct failed; auto.
    - repeat np_step; auto.
  Qed.

  Lemma measure_np l : forall k, no_panic k -> no_panic (measure l k).
  Proof.
    induction l as [|c l IH]; intros k Hk; cbn [measure]; auto.
    repeat np_step; auto.
  Qed.

  Lemma delete_the_bands_np ids : forall n k,
    (forall m, no_panic (k m)) -> no_panic (delete_the_bands ids n k).
  Proof.
    induction ids as [|b ids IH]; intros n k Hk; cbn [delete_the_bands]; auto.
    repeat np_step; auto.
  Qed.

  Lemma delete_blocks_np l : forall errs k,
    (forall m, no_panic (k m)) -> no_panic (delete_blocks l errs k).
  Proof.
    induction l as [|c l IH]; intros errs k Hk; cbn [delete_blocks]; auto.
    repeat np_step; auto.
  Qed.

  Lemma acquire_np k : (forall last, no_panic (k last)) -> no_panic (acquire k).
  Proof. intros Hk. unfold acquire. repeat np_step; auto. Qed.

  Theorem delete_no_panic : forall ids dry brk hint, no_panic (delete_prog ids dry brk hint).
  Proof.
    intros ids dry brk hint. unfold delete_prog.
    match goal with |- context [acquire ?k] => assert (Hbody : no_panic (acquire k)) end.
    { apply acquire_np. intros last. np_step. destruct rep; auto.
      cbv zeta. apply ref_bands_np. intros referenced. np_step. destruct rep; auto.
      apply list_blocks_d_np. intros present. apply measure_np.
      destruct dry.
      - np_step. destruct rep; auto. constructor.
      - np_step. destruct rep; auto.
        match goal with |- no_panic (if ?x then _ else _) => destruct x end; auto.
        apply delete_the_bands_np. intros nb. apply delete_blocks_np. intros errs.
        np_step. destruct rep; auto. constructor. }
    repeat np_step; try exact Hbody; constructor.
  Qed.
End ProgsNP.

(** MAIN THEOREM (never_panics).  Whatever the storage answers -- truthfully or with a
    failure, on every operation -- none of the modelled operations panics. *)
Theorem never_panics : forall pre c src a phi,
  snd (run pre (backup_prog pre c src) a phi) <> Panicked.
Proof. intros. apply no_panic_sound, backup_no_panic. Qed.

Theorem never_panics_all : forall pre a phi,
  (forall c src, snd (run pre (backup_prog pre c src) a phi) <> Panicked)
  /\ (forall ids dry brk hint, snd (run pre (delete_prog ids dry brk hint) a phi) <> Panicked)
  /\ (forall p keep, snd (run pre (list_prog p keep) a phi) <> Panicked)
  /\ (forall p keep, snd (run pre (restore_prog p keep) a phi) <> Panicked)
  /\ (forall skip hint, snd (run pre (validate_prog skip hint) a phi) <> Panicked)
  /\ snd (run pre init_prog a phi) <> Panicked.
Proof.
  intros pre a phi.
  repeat split; intros; apply no_panic_sound;
    auto using backup_no_panic, delete_no_panic, list_no_panic, restore_no_panic, validate_no_panic, init_no_panic.
Qed.

(* ------------------------------------------------------------------------- *)
(** * B. The rules of RefIntP.v for any invariant kept by add-only operations  *)
(* ------------------------------------------------------------------------- *)

Section XPost.
  Variable pre : bytes -> N.

  (* exactly what one add-only operation did, under any fault *)
  Definition xpost (a : arch) (o : op) (rep : reply) (a' : arch) : Prop :=
    match o with
    | OpRead f => a' = a /\ match rep with RData x => get a f = Some x | _ => True end
    | OpList d =>
        a' = a /\ match rep with
                  | RList ds fs => ds = children_dirs a d /\ fs = children_files pre a d
                  | _ => True
                  end
    | OpMeta f => a' = a
    | OpWrite f p _ =>
        (rep = ROk /\ (get a f = None \/ get a f = Some Empty) /\ get a' f = Some (Good p)
         /\ (forall g, g <> f -> get a' g = get a g))
        \/ (rep <> ROk /\ a' = a)
    | OpMkdir d => forall g, get a' g = get a g
    | _ => True
    end.

  Lemma exec_xpost (a : arch) o flt :
    add_only o -> xpost a o (snd (exec pre a o flt)) (fst (exec pre a o flt)).
  Proof.
    intros Ho. destruct o as [f|f p m|d|d|f|f|d]; cbn in Ho; try contradiction; cbn [xpost].
    - destruct flt; cbn [exec exec_ok]; try (destruct (get a f); cbn [fst snd]; auto); cbn [fst snd]; auto.
    - destruct m; [|contradiction].
      assert (H : (snd (exec_ok pre a (OpWrite f p CreateNew)) = ROk
                   /\ (get a f = None \/ get a f = Some Empty)
                   /\ get (fst (exec_ok pre a (OpWrite f p CreateNew))) f = Some (Good p)
                   /\ (forall g, g <> f -> get (fst (exec_ok pre a (OpWrite f p CreateNew))) g = get a g))
                  \/ (snd (exec_ok pre a (OpWrite f p CreateNew)) <> ROk
                      /\ fst (exec_ok pre a (OpWrite f p CreateNew)) = a)).
      { destruct (exec_ok_write_cases pre a f p) as [[E|E]|[G E]]; rewrite E; cbn [fst snd].
        - right. split; [discriminate | reflexivity].
        - right. split; [discriminate | reflexivity].
        - left. split; [reflexivity|]. split; [exact G|]. unfold get. cbn [files]. split.
          + rewrite lookup_set_file, fpath_eqb_refl. reflexivity.
          + intros g Hg. rewrite lookup_set_file. destruct (fpath_eqb_spec g f); [contradiction | reflexivity]. }
      destruct flt; cbn [exec]; try exact H.
      right. cbn [fst snd]. split; [discriminate | reflexivity].
    - destruct flt; cbn [exec exec_ok]; try (destruct (has_dir a d); cbn [fst snd]; auto); cbn [fst snd]; auto.
    - intros g. unfold get. rewrite exec_mkdir_files. reflexivity.
    - destruct flt; cbn [exec exec_ok]; try (destruct (get a f); cbn [fst snd]; auto); cbn [fst snd]; auto.
  Qed.
End XPost.

Section Gen.
  Variable pre : bytes -> N.
  Variable J : arch -> Prop.
  Variable opre : arch -> op -> Prop.
  Hypothesis J_exec : forall a o flt, add_only o -> opre a o -> J a -> J (fst (exec pre a o flt)).
  Hypothesis J_empty : forall a o, add_only o -> opre a o -> J a -> J (exec_empty pre a o).

  Notation gsafe := (Inv.safe pre J).

  Lemma gsafe_weaken {R} (Q Q' : R -> arch -> Prop) (p : prog R) :
    (forall r a, Q r a -> Q' r a) -> forall a, gsafe Q p a -> gsafe Q' p a.
  Proof.
    intros HQ. induction p as [r|o k IH|]; intros a H; cbn [Inv.safe] in *; auto.
    destruct H as [H1 H2]. split; [|exact H2].
    intros f. destruct (H1 f) as [Hi Hs]. split; [exact Hi|]. apply IH. exact Hs.
  Qed.

  Lemma gsafe_bind {A B} (Q : A -> arch -> Prop) (Q' : B -> arch -> Prop) (p : prog A) (g : A -> prog B) :
    (forall r a, Q r a -> gsafe Q' (g r) a) -> forall a, gsafe Q p a -> gsafe Q' (bind p g) a.
  Proof.
    intros Hg. induction p as [r|o k IH|]; intros a H; cbn [Inv.safe bind] in *; auto.
    destruct H as [H1 H2]. split; [|exact H2].
    intros f. destruct (H1 f) as [Hi Hs]. split; [exact Hi|]. apply IH. exact Hs.
  Qed.

  Lemma gsafe_sound {R} (Q : R -> arch -> Prop) (p : prog R) :
    forall a phi, J a -> gsafe Q p a ->
      Forall J (run_states pre p a phi)
      /\ J (snd (fst (run pre p a phi)))
      /\ (forall r, snd (run pre p a phi) = Done r -> Q r (snd (fst (run pre p a phi)))).
  Proof.
    induction p as [r|o k IH|]; intros a phi Ha H.
    - cbn. split; [constructor|]. split; [exact Ha|]. intros r' E. inversion E; subst. exact H.
    - cbn [Inv.safe] in H. destruct H as [H1 H2].
      rewrite run_Do, run_states_Do.
      destruct (hdf phi) as [|e| |]; cbn [fst snd].
      + destruct (H1 NoFault) as [Hi Hs].
        destruct (IH _ _ (tl phi) Hi Hs) as (F1 & F2 & F3). split; [constructor; assumption|]. split; assumption.
      + destruct (H1 (Fail e)) as [Hi Hs].
        destruct (IH _ _ (tl phi) Hi Hs) as (F1 & F2 & F3). split; [constructor; assumption|]. split; assumption.
      + split; [constructor|]. split; [exact Ha|]. intros r E. discriminate E.
      + split; [constructor; [exact H2|constructor]|]. split; [exact H2|]. intros r E. discriminate E.
    - cbn. split; [constructor|]. split; [exact Ha|]. intros r E. discriminate E.
  Qed.

  Lemma gsafe_step {R} (Q : R -> arch -> Prop) o (k : reply -> prog R) (a : arch) :
    add_only o -> opre a o -> J a ->
    (forall rep a', J a' -> Old a a' -> xpost pre a o rep a' -> gsafe Q (k rep) a') ->
    gsafe Q (Do o k) a.
  Proof.
    intros Ho Hp HI Hk. cbn [Inv.safe]. split.
    - intros f. split; [apply J_exec; assumption|].
      apply Hk; [apply J_exec; assumption | apply exec_add_Old; exact Ho | apply exec_xpost; exact Ho].
    - apply J_empty; assumption.
  Qed.
End Gen.

(* ------------------------------------------------------------------------- *)
(** * C. Every recorded file entry restores to the bytes of its own source file *)
(* ------------------------------------------------------------------------- *)

(** ** C.1 Reading back, slices, entries *)

Lemma read_addrs_mono (f g : bytes -> option bytes) l d :
  (forall h x, f h = Some x -> g h = Some x) -> read_addrs f l = Some d -> read_addrs g l = Some d.
Proof.
  intros Hfg. revert d. induction l as [|ad l IH]; intros d H; cbn [read_addrs] in *; [exact H|].
  unfold read_address in *. destruct (f (a_hash ad)) as [x|] eqn:E; [|discriminate].
  rewrite (Hfg _ _ E). destruct (slice x (a_start ad) (a_len ad)); [|discriminate].
  destruct (read_addrs f l) as [r|]; [|discriminate]. rewrite (IH r eq_refl). exact H.
Qed.

Lemma blk_of_mono a a' h x : Old a a' -> blk_of a h = Some x -> blk_of a' h = Some x.
Proof.
  intros [_ HF] H. unfold blk_of in *.
  destruct (get a (PBlock h)) as [[[| | | |c]| |]|] eqn:G; try discriminate.
  rewrite (HF _ _ G); [exact H | discriminate].
Qed.

Lemma content_of_mono a a' e d : Old a a' -> content_of a e = Some d -> content_of a' e = Some d.
Proof. intros HO. unfold content_of. apply read_addrs_mono. intros h x. apply blk_of_mono. exact HO. Qed.

Lemma block_ok_blk a c : block_ok a c -> blk_of a c = Some c.
Proof. intros H. unfold blk_of. rewrite H. reflexivity. Qed.

Lemma addr_ok_reads a ad : addr_ok a ad -> exists s, read_address (blk_of a) ad = Some s.
Proof.
  intros [Hb Hl]. unfold read_address. rewrite (block_ok_blk _ _ Hb).
  unfold slice. apply N.leb_le in Hl. rewrite Hl. eexists. reflexivity.
Qed.

(* referential integrity makes every entry readable *)
Lemma entry_ok_content a e : entry_ok a e -> content_of a e <> None.
Proof.
  unfold entry_ok, content_of. induction (e_addrs e) as [|ad l IH]; intros H; cbn [read_addrs]; [discriminate|].
  inversion H as [|? ? Had Hl]; subst. destruct (addr_ok_reads a ad Had) as [s ->].
  destruct (read_addrs (blk_of a) l); [discriminate | exact (IH Hl)].
Qed.

Lemma slice_app_l buf x s l d : slice buf s l = Some d -> slice (buf ++ x) s l = Some d.
Proof.
  unfold slice. destruct (s + l <=? N.of_nat (length buf)) eqn:E; [|discriminate].
  apply N.leb_le in E. intros H.
  assert (E' : s + l <=? N.of_nat (length (buf ++ x)) = true) by (apply N.leb_le; rewrite app_length; lia).
  rewrite E'. rewrite skipn_app.
  replace (N.to_nat s - length buf)%nat with 0%nat by lia. cbn [skipn].
  rewrite firstn_app. rewrite skipn_length.
  replace (N.to_nat l - (length buf - N.to_nat s))%nat with 0%nat by lia. cbn [firstn].
  rewrite app_nil_r. exact H.
Qed.

Lemma slice_app_end buf d : slice (buf ++ d) (N.of_nat (length buf)) (N.of_nat (length d)) = Some d.
Proof. pose proof (slice_app buf d []) as H. rewrite app_nil_r in H. exact H. Qed.

Lemma meta_from_apath o s : e_apath (meta_from o s) = s_apath s.
Proof. unfold meta_from. destruct (enc_time_floor (s_mtime s)). reflexivity. Qed.
Lemma meta_from_kind o s : e_kind (meta_from o s) = s_kind s.
Proof. unfold meta_from. destruct (enc_time_floor (s_mtime s)). reflexivity. Qed.
Lemma with_addrs_same e : with_addrs e (e_addrs e) = e.
Proof. destruct e. reflexivity. Qed.

Lemma meta_of_with c it l : meta_of c it (with_addrs (meta_from (c_owner c) (si_e it)) l).
Proof. unfold meta_of. reflexivity. Qed.
Lemma meta_of_plain c it : meta_of c it (meta_from (c_owner c) (si_e it)).
Proof. unfold meta_of. rewrite with_addrs_same. reflexivity. Qed.
Lemma meta_of_apath c it e : meta_of c it e -> e_apath e = s_apath (si_e it).
Proof. intros ->. cbn [with_addrs e_apath]. apply meta_from_apath. Qed.
Lemma meta_of_kind c it e : meta_of c it e -> e_kind e = s_kind (si_e it).
Proof. intros ->. cbn [with_addrs e_kind]. apply meta_from_kind. Qed.

Lemma scan_buf_found (P : entry -> Prop) keep skip buf : forall acc acc' e buf',
  scan_buf keep skip buf acc = (acc', Some (e, buf')) -> Forall P buf -> P e /\ Forall P buf'.
Proof.
  induction buf as [|x buf IH]; intros acc acc' e buf' E Hb; cbn [scan_buf] in E; [discriminate|].
  inversion Hb as [|? ? Hx Hb']; subst.
  destruct (keep x); [destruct (skip x)|]; eauto.
  inversion E; subst. auto.
Qed.

(** ** C.2 The invariants *)

Section Truth.
  Variable pre : bytes -> N.
  Variable c : cfg.
  Variable src0 : list sitem.
  Variable a0 : arch.
  Variable bnew : N.
  Hypothesis Hsrc : SrcOK src0.
  Hypothesis Hcfg : cfg_ok c.

  Notation EOK := (EntOK c src0 a0 bnew).
  Notation IB := (InBasis a0 bnew).

  (* the state invariant: block files are well formed, no path twice, everything [a0] had
     is still there, and every good hunk is an old one or a truthful one of the new band *)
  Definition TInv (a : arch) : Prop :=
    forall b h es, get a (PHunk b h) = Some (Good (PlHunk es)) ->
      get a0 (PHunk b h) = Some (Good (PlHunk es)) \/ (b = bnew /\ Forall (EOK a) es).

  Definition J (a : arch) : Prop := BlocksWF a /\ FilesND a /\ Old a0 a /\ TInv a.

  (* what may be written: a block under its own name; an index hunk only into the new band,
     holding only entries that are truthful now *)
  Definition opre (a : arch) (o : op) : Prop :=
    match o with
    | OpWrite f p _ =>
        (forall x, f = PBlock x -> p = PlBlock x)
        /\ (forall b h es, f = PHunk b h -> p = PlHunk es -> b = bnew /\ Forall (EOK a) es)
    | _ => True
    end.

  Lemma EOK_mono a a' e : Old a a' -> EOK a e -> EOK a' e.
  Proof.
    intros HO (it & Hin & Hm & Hc). exists it. split; [exact Hin|]. split; [exact Hm|].
    intros Hk. destruct (Hc Hk) as [Hf|Hr]; [left | right; exact Hr].
    unfold FreshFrom in *. eapply content_of_mono; eauto.
  Qed.

  Lemma EOKs_mono a a' es : Old a a' -> Forall (EOK a) es -> Forall (EOK a') es.
  Proof. intros HO H. eapply Forall_impl; [|exact H]. intros e. apply EOK_mono. exact HO. Qed.

  Lemma J_of_xpost a o rep a' :
    add_only o -> opre a o -> J a -> Old a a' -> FilesND a' -> xpost pre a o rep a' -> J a'.
  Proof.
    intros Ho Hp (HB & HN & HO0 & HT) HO HN' Hx.
    assert (Hsame : (forall g, get a' g = get a g) -> J a').
    { intros G. split; [|split; [exact HN'|split; [eapply Old_trans; eauto|]]].
      - intros x y Hy. rewrite G in Hy. exact (HB x y Hy).
      - intros b h es Hh. rewrite G in Hh. destruct (HT b h es Hh) as [H|[H1 H2]]; [left; exact H|].
        right. split; [exact H1 | eapply EOKs_mono; eauto]. }
    destruct o as [f|f p m|d|d|f|f|d]; cbn in Ho; try contradiction; cbn [xpost] in Hx.
    - destruct Hx as [-> _]. apply Hsame. reflexivity.
    - destruct Hx as [(_ & _ & Gf & Gother)|[_ ->]]; [|apply Hsame; reflexivity].
      cbn [opre] in Hp. destruct Hp as [Hp1 Hp2].
      split; [|split; [exact HN'|split; [eapply Old_trans; eauto|]]].
      + intros x y Hy. destruct (fpath_eqb_spec (PBlock x) f) as [E|E].
        * rewrite E, Gf in Hy. inversion Hy; subst y. left. rewrite (Hp1 x (eq_sym E)). reflexivity.
        * rewrite (Gother _ E) in Hy. exact (HB x y Hy).
      + intros b h es Hh. destruct (fpath_eqb_spec (PHunk b h) f) as [E|E].
        * rewrite E, Gf in Hh. inversion Hh; subst p. right.
          destruct (Hp2 b h es (eq_sym E) eq_refl) as [H1 H2]. split; [exact H1 | eapply EOKs_mono; eauto].
        * rewrite (Gother _ E) in Hh. destruct (HT b h es Hh) as [H|[H1 H2]]; [left; exact H|].
          right. split; [exact H1 | eapply EOKs_mono; eauto].
    - destruct Hx as [-> _]. apply Hsame. reflexivity.
    - apply Hsame. exact Hx.
    - subst a'. apply Hsame. reflexivity.
  Qed.

  Lemma J_exec a o flt : add_only o -> opre a o -> J a -> J (fst (exec pre a o flt)).
  Proof.
    intros Ho Hp HJ. eapply J_of_xpost; eauto.
    - apply exec_add_Old. exact Ho.
    - apply exec_FilesND. destruct HJ as (_ & HN & _). exact HN.
    - apply exec_xpost. exact Ho.
  Qed.

  Lemma J_empty a o : add_only o -> opre a o -> J a -> J (exec_empty pre a o).
  Proof.
    intros _ _ (HB & HN & HO0 & HT).
    destruct (exec_empty_cases pre a o) as [E|[f [G E]]]; rewrite E; [unfold J; auto|].
    assert (HO : Old a {| dirs := dirs a; files := set_file f Empty (files a) |})
      by (apply Old_set_file; auto).
    assert (Gg : forall g, get {| dirs := dirs a; files := set_file f Empty (files a) |} g
                           = if fpath_eqb g f then Some Empty else get a g).
    { intros g. unfold get. cbn [files]. apply lookup_set_file. }
    split; [|split; [|split; [eapply Old_trans; eauto|]]].
    - intros x y Hy. rewrite Gg in Hy. destruct (fpath_eqb (PBlock x) f); [|exact (HB x y Hy)].
      inversion Hy. auto.
    - unfold FilesND. cbn [files]. apply set_file_nodup. exact HN.
    - intros b h es Hh. rewrite Gg in Hh. destruct (fpath_eqb (PHunk b h) f); [discriminate|].
      destruct (HT b h es Hh) as [H|[H1 H2]]; [left; exact H|].
      right. split; [exact H1 | eapply EOKs_mono; eauto].
  Qed.

  Notation safe := (Inv.safe pre J).

  Lemma t_step {R} (Q : R -> arch -> Prop) o (k : reply -> prog R) (a : arch) :
    add_only o -> opre a o -> J a ->
    (forall rep a', J a' -> Old a a' -> xpost pre a o rep a' -> safe Q (k rep) a') ->
    safe Q (Do o k) a.
  Proof. apply gsafe_step; [exact J_exec | exact J_empty]. Qed.

  Lemma t_read {R} (Q : R -> arch -> Prop) o (k : reply -> prog R) (a : arch) :
    reads_only o -> J a ->
    (forall rep, xpost pre a o rep a -> safe Q (k rep) a) ->
    safe Q (Do o k) a.
  Proof.
    intros Ho HJ Hk. apply t_step; [apply reads_add; exact Ho | destruct o; cbn in Ho; try contradiction; exact Logic.I | exact HJ|].
    intros rep a' _ _ Hx.
    assert (E : a' = a) by (destruct o; cbn in Ho; try contradiction; cbn [xpost] in Hx; tauto).
    subst a'. apply Hk. exact Hx.
  Qed.

  (** ** C.3 The stitched basis yields only entries of earlier bands of [a0] *)

  Definition topt (o : option entry) : Prop := match o with Some e => IB e | None => True end.
  Definition TS (st : sstate) : Prop :=
    match st with
    | SDone => True
    | SBefore n | SAfter n => N.of_nat n < bnew
    | SInBand n _ buf _ => N.of_nat n < bnew /\ Forall IB buf
    end.
  Definition tres_ok (r : sres) : Prop := let '(_, o, st, _, _) := r in topt o /\ TS st.

  Section ReaderT.
    Variables keep skip : entry -> bool.
    Variable a : arch.
    Hypothesis HJ : J a.

    Definition TSQ (r : sres) (a' : arch) : Prop := a' = a /\ tres_ok r.

    Lemma list_subdirs_t b subs : forall acc kfail k,
      safe TSQ kfail a -> (forall hs, safe TSQ (k hs) a) -> safe TSQ (list_subdirs b subs acc kfail k) a.
    Proof.
      induction subs as [|s subs IH]; intros acc kfail k Hf Hk; cbn [list_subdirs]; auto.
      apply t_read; [exact Logic.I | exact HJ|]. intros rep _. destruct rep; auto.
    Qed.

    Lemma read_hunk_basis n h es :
      N.of_nat n < bnew -> get a (PHunk (N.of_nat n) h) = Some (Good (PlHunk es)) -> Forall IB es.
    Proof.
      intros Hn G. destruct HJ as (_ & _ & _ & HT).
      destruct (HT _ _ _ G) as [G0|[E _]]; [|lia].
      apply Forall_forall. intros e He. exists (N.of_nat n), h, es. auto.
    Qed.

    Lemma hunks_loop_t n hs : N.of_nat n < bnew -> forall after last acc merr k,
      (forall l acc' m, safe TSQ (k l acc' m) a) ->
      safe TSQ (hunks_loop keep skip n hs after last acc merr k) a.
    Proof.
      intros Hn. induction hs as [|h hs IH]; intros after last acc merr k Hk; cbn [hunks_loop]; auto.
      apply t_read; [exact Logic.I | exact HJ|]. intros rep Hr.
      destruct rep as [|e|x|ds fs|ne]; auto.
      - destruct e; auto.
      - destruct x as [p| |]; auto. destruct p as [|v|t|es|x]; auto.
        cbn [xpost] in Hr. destruct Hr as [_ Hr]. pose proof (read_hunk_basis _ _ _ Hn Hr) as Hes.
        destruct (hunk_step str apath_cmp entry e_apath (Some es) after) as [[out|] after'] eqn:E; auto.
        pose proof (hstep_Forall _ _ _ _ _ E Hes) as Hout.
        destruct (scan_buf keep skip out acc) as [acc' o] eqn:Es.
        destruct o as [[e buf']|]; auto.
        destruct (scan_buf_found IB _ _ _ _ _ _ _ Es Hout) as [He Hb].
        cbn [Inv.safe]. split; [reflexivity|]. cbn [tres_ok topt TS]. auto.
    Qed.

    Lemma open_band_t n last acc merr k :
      N.of_nat n < bnew ->
      (forall l acc' m, safe TSQ (k l acc' m) a) ->
      safe TSQ (open_band keep skip n last acc merr k) a.
    Proof.
      intros Hn Hk. unfold open_band.
      apply t_read; [exact Logic.I | exact HJ|]. intros rep _.
      destruct (head_status rep); auto; [|exact Logic.I].
      apply t_read; [exact Logic.I | exact HJ|]. intros rep2 _.
      destruct rep2; auto.
      apply list_subdirs_t; auto. intros hs.
      apply t_read; [exact Logic.I | exact HJ|]. intros rep3 _.
      apply hunks_loop_t; auto.
    Qed.

    Lemma after_band_t n below last acc merr :
      (forall l acc' m, safe TSQ (below l acc' m) a) ->
      safe TSQ (after_band n below last acc merr) a.
    Proof.
      intros Hb. unfold after_band.
      apply t_read; [exact Logic.I | exact HJ|]. intros rep _.
      destruct (meta_is_closed rep); auto.
      cbn [Inv.safe]. split; [reflexivity|]. cbn [tres_ok topt TS]. auto.
    Qed.

    Lemma below_t n : N.of_nat n <= bnew -> forall last acc merr,
      safe TSQ (below keep skip n last acc merr) a.
    Proof.
      induction n as [|m IH]; intros Hn last acc merr; cbn [below].
      - cbn [Inv.safe]. split; [reflexivity|]. cbn [tres_ok topt TS]. auto.
      - assert (Hm : N.of_nat m < bnew) by lia.
        apply t_read; [exact Logic.I | exact HJ|]. intros rep _.
        destruct (meta_is_file rep); [|apply IH; lia].
        apply open_band_t; [exact Hm|]. intros l acc' m'. apply after_band_t. apply IH. lia.
    Qed.

    Lemma snext_t st last merr : TS st -> safe TSQ (snext keep skip st last merr) a.
    Proof.
      intros Hs. unfold snext. destruct st as [|n|n hs buf after|n]; cbn [TS] in Hs.
      - cbn [Inv.safe]. split; [reflexivity|]. cbn [tres_ok topt TS]. auto.
      - apply open_band_t; auto. intros. apply after_band_t. apply below_t. lia.
      - destruct Hs as [Hn Hb].
        destruct (scan_buf keep skip buf []) as [acc o] eqn:Es.
        destruct o as [[e buf']|].
        + destruct (scan_buf_found IB _ _ _ _ _ _ _ Es Hb) as [He Hb'].
          cbn [Inv.safe]. split; [reflexivity|]. cbn [tres_ok topt TS]. auto.
        + apply hunks_loop_t; auto. intros. apply after_band_t. apply below_t. lia.
      - apply after_band_t. apply below_t. lia.
    Qed.
  End ReaderT.
  (** ** C.4 The writer *)

  (* a queued small file: the bytes at its offsets in the combiner buffer are its own *)
  Definition QOK (buf : bytes) (q : N * N * entry) : Prop :=
    let '(s, l, e) := q in
    exists it, In it src0 /\ e = meta_from (c_owner c) (si_e it) /\ slice buf s l = Some (si_data it).

  Definition TW (a : arch) (w : wst) : Prop :=
    w_band w = bnew
    /\ Forall (block_ok a) (w_exists w)
    /\ Forall (EOK a) (w_entries w)
    /\ Forall (EOK a) (w_fin w)
    /\ Forall (QOK (w_buf w)) (w_queue w).

  Lemma TW_mono a a' w : Old a a' -> TW a w -> TW a' w.
  Proof.
    intros HO (H0 & H1 & H2 & H3 & H4). unfold TW.
    repeat split; eauto using blocks_ok_mono, EOKs_mono.
  Qed.

  Definition TQ {A} (a : arch) (rw : A * wst) (a' : arch) : Prop :=
    Old a a' /\ J a' /\ TW a' (snd rw).

  Lemma opre_block a x : opre a (OpWrite (PBlock x) (PlBlock x) CreateNew).
  Proof. split; [intros y E; inversion E; reflexivity | intros b h es E; discriminate]. Qed.

  Lemma opre_other a f p m :
    (forall x, f <> PBlock x) -> (forall b h, f <> PHunk b h) -> opre a (OpWrite f p m).
  Proof. intros H1 H2. split; [intros x E; destruct (H1 x E) | intros b h es E; destruct (H2 b h E)]. Qed.

  Lemma store_block_t w x a :
    J a -> TW a w ->
    safe (fun rw a' => TQ a rw a' /\ (fst rw = true -> block_ok a' x)) (store_block pre w x) a.
  Proof.
    intros HJ HW. unfold store_block.
    destruct (mem_bytes x (w_exists w)) eqn:M.
    - cbn [Inv.safe]. split; [split; [apply Old_refl | auto]|].
      intros _. destruct HW as (_ & Hex & _). rewrite Forall_forall in Hex. apply Hex, mem_bytes_In, M.
    - apply t_step; [exact Logic.I | exact Logic.I | exact HJ|].
      intros rep a1 HJ1 HO1 _.
      assert (HW1 : TW a1 w) by (eapply TW_mono; eauto).
      destruct (is_ok rep).
      + apply t_step; [exact Logic.I | apply opre_block | exact HJ1|].
        intros rep2 a2 HJ2 HO2 HP2. cbn [xpost] in HP2.
        assert (HO : Old a a2) by (eapply Old_trans; eauto).
        destruct HP2 as [(-> & _ & G & _)|[Hne ->]].
        * cbn [is_ok Inv.safe fst snd]. split; [|intros _; exact G].
          split; [exact HO|]. split; [exact HJ2|].
          destruct (TW_mono _ _ _ HO2 HW1) as (W0 & W1 & W2 & W3 & W4).
          unfold TW. wsimpl. repeat split; auto.
        * destruct rep2; try congruence; cbn [is_ok Inv.safe fst snd];
            (split; [split; [exact HO | split; [exact HJ2 | exact HW1]] | discriminate]).
      + cbn [Inv.safe fst snd]. split; [|discriminate]. split; [exact HO1 | auto].
  Qed.

  Lemma queued_EOK a blk q : block_ok a blk -> QOK blk q -> EOK a (queued_entry blk q).
  Proof.
    destruct q as [[s l] e]. cbn [QOK queued_entry]. intros Hb (it & Hin & -> & Hs).
    exists it. split; [exact Hin|]. split; [apply meta_of_with|]. intros _. left.
    unfold FreshFrom, content_of, set_addrs. cbn [e_addrs read_addrs]. unfold read_address.
    cbn [a_hash a_start a_len]. rewrite (block_ok_blk _ _ Hb), Hs, app_nil_r. reflexivity.
  Qed.

  Lemma comb_flush_t w a : J a -> TW a w -> safe (TQ a) (comb_flush pre w) a.
  Proof.
    intros HJ HW. unfold comb_flush. destruct (w_queue w) as [|q0 q] eqn:Eq.
    - cbn [Inv.safe]. split; [apply Old_refl | auto].
    - eapply gsafe_bind; [|apply store_block_t; [exact HJ|]].
      + intros [ok w'] a1 [(HO1 & HJ1 & HW1) Hb]. cbn [fst snd] in *.
        destruct ok; cbn [Inv.safe].
        * split; [exact HO1|]. split; [exact HJ1|]. cbn [snd].
          destruct HW1 as (W0 & W1 & W2 & W3 & W4). destruct HW as (_ & _ & _ & _ & V4).
          unfold TW. wsimpl. repeat split; auto.
          apply Forall_app. split; [exact W3|].
          rewrite Eq in V4. rewrite Forall_map. eapply Forall_impl; [|exact V4].
          intros y Hy. apply queued_EOK; auto.
        * split; [exact HO1|]. split; [exact HJ1 | exact HW1].
      + destruct HW as (W0 & W1 & W2 & W3 & W4). unfold TW. wsimpl. repeat split; auto.
  Qed.

  Lemma comb_push_t w it a :
    J a -> TW a w -> In it src0 ->
    safe (TQ a) (comb_push pre c w (meta_from (c_owner c) (si_e it)) (si_data it)) a.
  Proof.
    intros HJ HW Hin. unfold comb_push. destruct HW as (W0 & W1 & W2 & W3 & W4).
    destruct (si_data it) as [|x data] eqn:Ed.
    - cbn [Inv.safe]. split; [apply Old_refl|]. split; [exact HJ|].
      unfold TW. wsimpl. repeat split; auto. apply Forall_app. split; [exact W3|].
      constructor; [|constructor]. exists it. split; [exact Hin|]. split; [apply meta_of_plain|].
      intros _. left. unfold FreshFrom, content_of. rewrite meta_from_addrs, Ed. reflexivity.
    - set (d := x :: data) in *.
      assert (HW1 : TW a (upd_comb w (w_buf w ++ d)
                            (w_queue w ++ [(N.of_nat (length (w_buf w)), N.of_nat (length d),
                                            meta_from (c_owner c) (si_e it))]) (w_fin w))).
      { unfold TW. wsimpl. repeat split; auto. apply Forall_app. split.
        - eapply Forall_impl; [|exact W4]. intros [[s l] e'] (it' & Hin' & He' & Hs').
          exists it'. split; [exact Hin'|]. split; [exact He'|]. apply slice_app_l. exact Hs'.
        - constructor; [|constructor]. exists it. split; [exact Hin|]. split; [reflexivity|].
          rewrite Ed. apply slice_app_end. }
      match goal with |- Inv.safe _ _ _ (if ?b then _ else _) _ => destruct b end.
      + apply comb_flush_t; assumption.
      + cbn [Inv.safe]. split; [apply Old_refl | auto].
  Qed.

  Lemma finish_hunk_t w a : J a -> TW a w -> safe (TQ a) (finish_hunk w) a.
  Proof.
    intros HJ HW. unfold finish_hunk. destruct (w_entries w) as [|e0 es] eqn:Ee.
    - cbn [Inv.safe]. split; [apply Old_refl | auto].
    - assert (Hwrite : forall a1, Old a a1 -> J a1 ->
        safe (TQ a)
          (Do (OpWrite (PHunk (w_band w) (w_seq w)) (PlHunk (sort_entries (e0 :: es))) CreateNew) (fun r =>
             if is_ok r then Ret (true, upd_index w [] (w_seq w + 1) (w_hunks w + 1)) else Ret (false, w))) a1).
      { intros a1 HO1 HJ1.
        destruct (TW_mono _ _ _ HO1 HW) as (W0 & W1 & W2 & W3 & W4).
        apply t_step; [exact Logic.I | | exact HJ1|].
        - split; [intros x E; discriminate|]. intros b h es' E1 E2.
          assert (Eb : b = w_band w) by congruence.
          assert (Ees : es' = sort_entries (e0 :: es)) by congruence. subst b es'.
          split; [exact W0|]. rewrite Ee in W2.
          eapply Permutation_Forall; [apply Permutation_sym, sort_entries_perm | exact W2].
        - intros rep a2 HJ2 HO2 _.
          assert (HO : Old a a2) by (eapply Old_trans; eauto).
          destruct (is_ok rep); cbn [Inv.safe]; (split; [exact HO|]; split; [exact HJ2|]).
          + unfold TW. wsimpl. repeat split; eauto using blocks_ok_mono, EOKs_mono.
          + eapply TW_mono; [exact HO2|]. unfold TW. auto. }
      destruct (w_seq w mod HUNKS_PER_SUBDIR =? 0).
      + apply t_step; [exact Logic.I | exact Logic.I | exact HJ|].
        intros rep a1 HJ1 HO1 _. destruct (is_ok rep); [apply Hwrite; assumption|].
        cbn [Inv.safe]. split; [exact HO1|]. split; [exact HJ1|]. eapply TW_mono; eauto.
      + apply Hwrite; [apply Old_refl | exact HJ].
  Qed.

  Lemma flush_group_t w a : J a -> TW a w -> safe (TQ a) (flush_group pre w) a.
  Proof.
    intros HJ HW. unfold flush_group.
    eapply gsafe_bind; [|apply comb_flush_t; assumption].
    intros [ok w1] a1 (HO1 & HJ1 & HW1). cbn [snd] in HW1.
    destruct ok.
    - eapply gsafe_weaken; [|apply finish_hunk_t; [exact HJ1|]].
      + intros rw a2 (HO2 & HJ2 & HW2). split; [eapply Old_trans; eauto | auto].
      + destruct HW1 as (W0 & W1 & W2 & W3 & W4). unfold TW. wsimpl. repeat split; auto.
        apply Forall_app. auto.
    - cbn [Inv.safe]. split; [exact HO1 | auto].
  Qed.

  Lemma store_chunks_t cs : forall w acc a,
    J a -> TW a w ->
    safe (fun rw a' => TQ a rw a'
                       /\ match fst rw with
                          | Some addrs => addrs = acc ++ map chunk_addr cs /\ Forall (block_ok a') cs
                          | None => True
                          end)
         (store_chunks pre w cs acc) a.
  Proof.
    induction cs as [|x cs IH]; intros w acc a HJ HW; cbn [store_chunks].
    - cbn [Inv.safe fst snd map]. rewrite app_nil_r. split; [|auto]. split; [apply Old_refl | auto].
    - eapply gsafe_bind; [|apply store_block_t; assumption].
      intros [ok w'] a1 [(HO1 & HJ1 & HW1) Hb]. cbn [fst snd] in *.
      destruct ok.
      + eapply gsafe_weaken; [|apply IH; [exact HJ1 | exact HW1]].
        intros rw a2 [(HO2 & HJ2 & HW2) Hr]. split.
        * split; [eapply Old_trans; eauto | auto].
        * destruct (fst rw) as [addrs|]; [|exact Logic.I]. destruct Hr as [-> Hr].
          cbn [map]. rewrite <- app_assoc. cbn [app]. split; [reflexivity|].
          constructor; [|exact Hr]. eapply block_ok_mono; [exact HO2|]. apply Hb. reflexivity.
      + cbn [Inv.safe fst snd]. split; [|exact Logic.I]. split; [exact HO1 | auto].
  Qed.

  Lemma push_entry_TW a w e : TW a w -> EOK a e -> TW a (push_entry w e).
  Proof.
    intros (W0 & W1 & W2 & W3 & W4) He. unfold TW. wsimpl. repeat split; auto.
    apply Forall_app. auto.
  Qed.

  Lemma block_size_pos data : (0 < block_size_nat c data)%nat.
  Proof. unfold block_size_nat. unfold cfg_ok in Hcfg. lia. Qed.

  (* what the merge loop hands to copy_entry as the basis entry of the same path *)
  Definition tbasis (it : sitem) (o : option entry) : Prop :=
    match o with Some be => IB be /\ e_apath be = s_apath (si_e it) | None => True end.

  Lemma copy_entry_t w basis it a :
    J a -> TW a w -> In it src0 -> tbasis it basis ->
    safe (TQ a) (copy_entry pre c w basis it) a.
  Proof.
    intros HJ HW Hin Hb. unfold copy_entry.
    assert (Hret : forall e, EOK a e -> safe (TQ a) (Ret (true, push_entry w e)) a).
    { intros e He. cbn [Inv.safe]. split; [apply Old_refl|]. split; [exact HJ|].
      cbn [snd]. apply push_entry_TW; assumption. }
    assert (Hnf : s_kind (si_e it) <> KFile -> EOK a (meta_from (c_owner c) (si_e it))).
    { intros Hk. exists it. split; [exact Hin|]. split; [apply meta_of_plain|].
      rewrite meta_from_kind. intros E. contradiction. }
    destruct (s_kind (si_e it)) eqn:Ek; try (apply Hret, Hnf; discriminate).
    2:{ cbn [Inv.safe]. split; [apply Old_refl | auto]. }
    match goal with |- Inv.safe _ _ _ (match ?x with _ => _ end) _ => destruct x as [addrs|] eqn:Er end.
    - apply Hret. destruct basis as [be|]; [|discriminate].
      destruct (unchanged w (si_e it) be && blocks_present w be) eqn:Eu; [|discriminate].
      inversion Er; subst addrs. cbn [tbasis] in Hb. destruct Hb as [Hib Hp].
      exists it. split; [exact Hin|]. split; [apply meta_of_with|]. intros _. right.
      exists be. split; [exact Hib|]. split; [exact Hp|]. split; [|reflexivity].
      intros w'. apply andb_true_iff in Eu. destruct Eu as [Eu _]. exact Eu.
    - destruct (s_size (si_e it) =? 0) eqn:Ez.
      + apply Hret. exists it. split; [exact Hin|]. split; [apply meta_of_plain|]. intros _. left.
        unfold FreshFrom, content_of. rewrite meta_from_addrs. cbn [read_addrs].
        destruct Hsrc as [Hlen _]. apply N.eqb_eq in Ez. pose proof (Hlen it Hin Ek) as Hl.
        destruct (si_data it); [reflexivity | cbn [length] in Hl; lia].
      + destruct (s_size (si_e it) <=? c_sfc c); [apply comb_push_t; auto|].
        eapply gsafe_bind; [|apply store_chunks_t; [exact HJ | exact HW]].
        intros [o w'] a1 [(HO1 & HJ1 & HW1) Hr]. cbn [fst snd] in *.
        destruct o as [addrs|]; cbn [Inv.safe]; (split; [exact HO1|]; split; [exact HJ1|]); [|exact HW1].
        cbn [snd]. apply push_entry_TW; [exact HW1|]. destruct Hr as [-> Hr]. cbn [app].
        exists it. split; [exact Hin|]. split; [apply meta_of_with|]. intros _. left.
        unfold FreshFrom, content_of. cbn [with_addrs e_addrs].
        apply (file_addrs_read (blk_of a1) (block_size_nat c (si_data it)) (si_data it)).
        * apply block_size_pos.
        * intros x Hx. apply block_ok_blk. rewrite Forall_forall in Hr. apply Hr. exact Hx.
  Qed.

  (** ** C.5 The merge loop and the whole backup *)

  (* the band id a result reports is the new band *)
  Definition QB (r : bres) (_ : arch) : Prop := forall b, b_band r = Some b -> b = bnew.

  Lemma QT_fail w a : TW a w -> QB (fail w) a.
  Proof. intros (W0 & _) b E. cbn [fail b_band] in E. congruence. Qed.
  Lemma QT_fail0 a : QB fail0 a.
  Proof. intros b E. discriminate E. Qed.

  Lemma merge_loop_t src : forall peek st last w a,
    incl src src0 -> J a -> TW a w -> TS st -> topt peek ->
    safe QB (merge_loop pre c src peek st last w) a.
  Proof.
    induction src as [|it src IH]; intros peek st last w a Hincl HJ HW HS HP; cbn [merge_loop].
    - eapply gsafe_bind; [|apply snext_t; assumption].
      intros [[[[skipped na] st'] last'] merr] a' [-> _].
      eapply gsafe_bind; [|apply flush_group_t; [exact HJ | exact HW]].
      intros [ok w2] a2 (HO2 & HJ2 & HW2). cbn [snd] in HW2.
      destruct ok; [|exact (QT_fail _ _ HW2)].
      apply t_step; [exact Logic.I | | exact HJ2|].
      + apply opre_other; intros; discriminate.
      + intros rep a3 _ _ _. destruct (is_ok rep); [|exact (QT_fail _ _ HW2)].
        intros b E. cbn [b_band] in E. destruct HW2 as (W0 & _). congruence.
    - assert (Hit : In it src0) by (apply Hincl; left; reflexivity).
      assert (Hincl' : incl src src0) by (intros x Hx; apply Hincl; right; exact Hx).
      assert (Hk : forall (skipped : list entry) na st' last' merr,
        topt na -> TS st' ->
        safe QB
          (let w0 := upd_counts w (w_errors w) merr (w_deleted w + N.of_nat (length skipped)) in
           let '(basis, na') :=
             match na with
             | Some e => match apath_cmp (e_apath e) (s_apath (si_e it)) with
                         | Eq => (Some e, None) | _ => (None, na) end
             | None => (None, None)
             end in
           bind (copy_entry pre c w0 basis it) (fun rw =>
             let '(ok, w1) := rw in
             let w2 := if ok then w1 else upd_counts w1 (w_errors w1 + 1) (w_merr w1 + 1) (w_deleted w1) in
             if ok && (c_meph c <=? N.of_nat (length (w_entries w2)) + N.of_nat (length (w_queue w2))) then
               bind (flush_group pre w2) (fun rw2 =>
                 let '(ok2, w3) := rw2 in
                 if ok2 then merge_loop pre c src na' st' last' w3 else Ret (fail w3))
             else merge_loop pre c src na' st' last' w2)) a).
      { intros skipped na st' last' merr Hna Hst'. cbv zeta.
        match goal with |- Inv.safe _ _ _ (let '(_, _) := ?x in _) _ => destruct x as [basis na'] eqn:Ex end.
        assert (Hbn : tbasis it basis /\ topt na').
        { destruct na as [e|]; [|inversion Ex; subst; cbn; auto].
          destruct (apath_cmp (e_apath e) (s_apath (si_e it))) eqn:Ec; inversion Ex; subst;
            cbn [tbasis topt]; auto.
          apply apath_cmp_eq in Ec. auto. }
        destruct Hbn as [Hbasis Hna'].
        eapply gsafe_bind; [|apply copy_entry_t; [exact HJ | exact HW | exact Hit | exact Hbasis]].
        intros [ok w1] a1 (HO1 & HJ1 & HW1). cbn [snd] in HW1.
        assert (HW2 : TW a1 (if ok then w1 else upd_counts w1 (w_errors w1 + 1) (w_merr w1 + 1) (w_deleted w1)))
          by (destruct ok; exact HW1).
        match goal with |- Inv.safe _ _ _ (if ?x then _ else _) _ => destruct x end.
        - eapply gsafe_bind; [|apply flush_group_t; [exact HJ1 | exact HW2]].
          intros [ok2 w3] a2 (HO2 & HJ2 & HW3). cbn [snd] in HW3.
          destruct ok2; [|exact (QT_fail _ _ HW3)].
          apply IH; auto.
        - apply IH; auto. }
      destruct peek as [e|].
      + match goal with |- Inv.safe _ _ _ (if ?x then _ else _) _ => destruct x end.
        * eapply gsafe_bind; [|apply snext_t; assumption].
          intros [[[[skipped na] st'] last'] merr] a' [-> (Hna & Hst')]. apply Hk; assumption.
        * exact (Hk [] (Some e) st last (w_merr w) HP HS).
      + eapply gsafe_bind; [|apply snext_t; assumption].
        intros [[[[skipped na] st'] last'] merr] a' [-> (Hna & Hst')]. apply Hk; assumption.
  Qed.

  Lemma listed_block_ok_J (a : arch) d x :
    J a -> In (PBlock x, true) (children_files pre a d) -> block_ok a x.
  Proof.
    intros (HB & HN & _) Hin. unfold children_files in Hin.
    apply in_map_iff in Hin. destruct Hin as [[f y] [E Hin]]. cbn [fst snd] in E.
    apply filter_In in Hin. destruct Hin as [Hin _].
    inversion E; subst f.
    assert (G : get a (PBlock x) = Some y) by (apply lookup_In_nodup; assumption).
    unfold block_ok. rewrite G.
    destruct (HB x y G) as [->| ->]; [reflexivity | discriminate].
  Qed.

  Lemma list_blocks_t subs : forall acc failed k a,
    J a -> Forall (block_ok a) acc ->
    (forall o, match o with Some ex => Forall (block_ok a) ex | None => True end -> safe QB (k o) a) ->
    safe QB (list_blocks subs acc failed k) a.
  Proof.
    induction subs as [|s subs IH]; intros acc failed k a HJ Ha Hk; cbn [list_blocks].
    - apply Hk. destruct failed; auto.
    - apply t_read; [exact Logic.I | exact HJ|]. intros rep Hr.
      destruct rep as [|e|x|ds fs|ne]; try (apply IH; assumption).
      cbn [xpost] in Hr. destruct Hr as [_ [_ ->]]. apply IH; auto.
      apply Forall_app. split; [exact Ha|].
      apply Forall_forall. intros x Hx. apply in_flat_map in Hx.
      destruct Hx as [[f b] [Hin Hx]].
      destruct f; try destruct Hx. destruct b; [destruct Hx as [<-|[]] | destruct Hx].
      eapply listed_block_ok_J; eauto.
  Qed.

  Theorem backup_t : J a0 -> bnew = new_band a0 -> safe QB (backup_prog pre c src0) a0.
  Proof.
    intros HJ Hb. unfold backup_prog, open_archive.
    apply t_read; [exact Logic.I | exact HJ|]. intros r0 _.
    destruct r0 as [| |[[| | | |]| |]| |]; try exact (QT_fail0 _).
    apply t_read; [exact Logic.I | exact HJ|]. intros r _.
    destruct r as [|[| | |]| | |]; try exact (QT_fail0 _).
    apply t_read; [exact Logic.I | exact HJ|]. intros r1 Hr1.
    destruct r1 as [| | |ds1 fs1|]; try exact (QT_fail0 _).
    cbn [xpost] in Hr1. destruct Hr1 as [_ [-> _]].
    apply t_read; [exact Logic.I | exact HJ|]. intros r2 Hr2.
    destruct r2 as [| | |ds2 fs2|]; try exact (QT_fail0 _).
    cbn [xpost] in Hr2. destruct Hr2 as [_ [-> _]].
    cbv zeta.
    change (match max_id (band_ids (children_dirs a0 DRoot)) with Some m => m + 1 | None => 0 end)
      with (new_band a0).
    rewrite <- Hb.
    apply t_step; [exact Logic.I | exact Logic.I | exact HJ|]. intros r3 a3 HJ3 _ _.
    destruct (is_ok r3); [|exact (QT_fail0 _)].
    apply t_step; [exact Logic.I | exact Logic.I | exact HJ3|]. intros r4 a4 HJ4 _ _.
    destruct (is_ok r4); [|exact (QT_fail0 _)].
    apply t_step; [exact Logic.I | apply opre_other; intros; discriminate | exact HJ4|].
    intros r5 a5 HJ5 _ _.
    destruct (is_ok r5); [|exact (QT_fail0 _)].
    apply t_read; [exact Logic.I | exact HJ5|]. intros r5b _.
    destruct r5b as [| | |ds5 fs5|]; try exact (QT_fail0 _).
    destruct (existsb (fun p => fpath_eqb (fst p) PLock) fs5); [exact (QT_fail0 _)|].
    apply t_read; [exact Logic.I | exact HJ5|]. intros r6 _.
    destruct r6 as [| | |ds3 fs3|]; try exact (QT_fail0 _).
    apply list_blocks_t; [exact HJ5 | constructor|].
    intros [ex|] Hex; [|exact (QT_fail0 _)].
    apply merge_loop_t; [apply incl_refl | exact HJ5 | | | exact Logic.I].
    - unfold TW. cbn [w_band w_exists w_entries w_fin w_queue w_buf]. repeat split; auto.
    - destruct (max_id (band_ids (children_dirs a0 DRoot))) as [m|] eqn:Em; [|exact Logic.I].
      cbn [TS]. rewrite N2Nat.id. unfold new_band in Hb. rewrite Em in Hb. lia.
  Qed.

  Lemma J_init : AInv a0 -> J a0.
  Proof.
    intros (_ & HB & HN). split; [exact HB|]. split; [exact HN|]. split; [apply Old_refl|].
    intros b h es G. left. exact G.
  Qed.

  (* with referential integrity, the invariant gives the property as stated *)
  Lemma J_truthful a : AInv a -> J a -> HunksTruthful c src0 a0 bnew a.
  Proof.
    intros (HR & _) (_ & _ & _ & HT) b h es G.
    destruct (HT b h es G) as [G0|[Eb Hes]]; [left; exact G0|]. right. split; [exact Eb|].
    intros e He Hk. rewrite Forall_forall in Hes. destruct (Hes e He) as (it & Hin & Hm & Hc).
    pose proof (HR b h es G) as Hok. rewrite Forall_forall in Hok.
    exists it. split; [exact Hin|].
    split; [symmetry; eapply meta_of_apath; eauto|].
    split; [rewrite <- Hk; symmetry; eapply meta_of_kind; eauto|].
    split; [exact Hm|]. split; [apply entry_ok_content; auto | auto].
  Qed.
End Truth.

(** ** C.6 The theorem *)

(** MAIN THEOREM (content half of C01 / C04).  From any archive state with referential
    integrity, for ANY fault list (I/O errors on any operations, a crash anywhere, a crash
    leaving a zero-length file), at EVERY state the backup passes through and at the final
    one: every good index hunk is either one the archive already had, unchanged, or lies in
    the band this run creates and every file entry in it
    - has the path and the metadata of a source item that is a file,
    - can be read back completely, and
    - either reads back to exactly the bytes read from that source file, or carries the
      addresses of the entry of the same path, with the same kind, mtime and size, read from
      a hunk the archive held in an EARLIER band before the run. *)
Theorem backup_new_entries_truthful : forall pre c src a0 phi,
  AInv a0 -> SrcOK src -> cfg_ok c ->
  Forall (HunksTruthful c src a0 (new_band a0)) (run_states pre (backup_prog pre c src) a0 phi)
  /\ HunksTruthful c src a0 (new_band a0) (snd (fst (run pre (backup_prog pre c src) a0 phi)))
  /\ (forall r b, snd (run pre (backup_prog pre c src) a0 phi) = Done r ->
                  b_band r = Some b -> b = new_band a0).
Proof.
  intros pre c src a0 phi HA Hs Hc.
  destruct (backup_ainv pre c src a0 phi HA) as [A1 A2].
  destruct (gsafe_sound pre (J c src a0 (new_band a0)) (QB (new_band a0)) _ a0 phi
              (J_init c src a0 _ HA)
              (backup_t pre c src a0 _ Hs Hc (J_init c src a0 _ HA) eq_refl)) as (B1 & B2 & B3).
  split; [|split].
  - rewrite Forall_forall in *. intros a Ha. apply J_truthful; auto.
  - apply J_truthful; auto.
  - intros r b E Eb. exact (B3 r E b Eb).
Qed.

(* in a state reached through the transport, the band about to be created holds no file *)
Lemma new_band_no_hunks pre a0 : DirsWF pre a0 -> forall h, get a0 (PHunk (new_band a0) h) = None.
Proof.
  intros [HF HD] h. destruct (get a0 (PHunk (new_band a0) h)) as [x|] eqn:G; [|reflexivity].
  exfalso. pose proof (HF _ _ G) as H1. cbn [parent_f] in H1.
  pose proof (HD _ _ H1 eq_refl) as H2. pose proof (HD _ _ H2 eq_refl) as H3.
  assert (Hin : In (DBand (new_band a0)) (children_dirs a0 DRoot)).
  { unfold children_dirs. apply filter_In. split; [apply has_dir_In; exact H3 | reflexivity]. }
  pose proof (next_id_fresh _ _ Hin) as Hlt. fold (new_band a0) in Hlt. lia.
Qed.

(** The same in terms of [Recorded]: in an archive whose files all lie in existing
    directories, every file entry recorded in the new band, at every state of every run, is
    truthful. *)
Corollary backup_recorded_truthful : forall pre c src a0 phi,
  AInv a0 -> DirsWF pre a0 -> SrcOK src -> cfg_ok c ->
  forall a, In a (run_states pre (backup_prog pre c src) a0 phi)
            \/ a = snd (fst (run pre (backup_prog pre c src) a0 phi)) ->
  forall e, Recorded a (new_band a0) e -> e_kind e = KFile ->
            Truthful c src a0 (new_band a0) a e.
Proof.
  intros pre c src a0 phi HA HD Hs Hc a Ha e (h & es & G & He) Hk.
  destruct (backup_new_entries_truthful pre c src a0 phi HA Hs Hc) as (T1 & T2 & _).
  assert (HT : HunksTruthful c src a0 (new_band a0) a).
  { destruct Ha as [Ha| ->]; [|exact T2]. rewrite Forall_forall in T1. auto. }
  destruct (HT _ _ _ G) as [G0|[_ H]]; [|auto].
  rewrite (new_band_no_hunks pre a0 HD h) in G0. discriminate G0.
Qed.

(* a reused entry restores to exactly what its basis entry restored to before the run *)
Lemma same_addrs_same_content a0 a e be d :
  Old a0 a -> e_addrs e = e_addrs be -> content_of a0 be = Some d -> content_of a e = Some d.
Proof.
  intros HO E H. unfold content_of in *. rewrite E. eapply read_addrs_mono; [|exact H].
  intros h x. apply blk_of_mono. exact HO.
Qed.

Corollary backup_reused_content : forall pre c src a0 phi,
  AInv a0 ->
  forall a, In a (run_states pre (backup_prog pre c src) a0 phi)
            \/ a = snd (fst (run pre (backup_prog pre c src) a0 phi)) ->
  forall it e, ReusedFrom a0 (new_band a0) it e ->
  exists be d, InBasis a0 (new_band a0) be /\ e_apath be = s_apath (si_e it)
               /\ (forall w, unchanged w (si_e it) be = true)
               /\ content_of a0 be = Some d /\ content_of a e = Some d.
Proof.
  intros pre c src a0 phi HA a Ha it e (be & Hib & Hp & Hu & He).
  assert (HO : Old a0 a).
  { destruct (backup_write_once pre c src a0 phi) as [W1 W2].
    destruct Ha as [Ha| ->]; [|exact W2]. rewrite Forall_forall in W1. auto. }
  pose proof Hib as (b' & h' & es' & _ & G & Hin).
  destruct HA as (HR & _). pose proof (HR _ _ _ G) as Hok. rewrite Forall_forall in Hok.
  pose proof (entry_ok_content _ _ (Hok _ Hin)) as Hne.
  destruct (content_of a0 be) as [d|] eqn:Ed; [|contradiction].
  exists be, d. repeat split; auto. eapply same_addrs_same_content; eauto.
Qed.

Print Assumptions never_panics.
Print Assumptions never_panics_all.
Print Assumptions backup_new_entries_truthful.
Print Assumptions backup_recorded_truthful.
Print Assumptions backup_reused_content.

(* ------------------------------------------------------------------------- *)
(** * D. A backup that reports complete success recorded the whole source      *)
(* ------------------------------------------------------------------------- *)

(* no index hunk changed *)
Definition HunksSame (a a' : arch) : Prop := forall b h, get a' (PHunk b h) = get a (PHunk b h).

Lemma HunksSame_refl a : HunksSame a a.
Proof. intros b h. reflexivity. Qed.
Lemma HunksSame_trans a1 a2 a3 : HunksSame a1 a2 -> HunksSame a2 a3 -> HunksSame a1 a3.
Proof. intros H1 H2 b h. rewrite H2. apply H1. Qed.

Lemma rec_upto_ext a a' b n :
  (forall i, (i < n)%nat -> get a' (PHunk b (N.of_nat i)) = get a (PHunk b (N.of_nat i))) ->
  rec_upto a' b n = rec_upto a b n.
Proof.
  intros H. unfold rec_upto.
  assert (G : forall l, (forall i, In i l -> (i < n)%nat) ->
    flat_map (fun i => hunk_es a' b (N.of_nat i)) l = flat_map (fun i => hunk_es a b (N.of_nat i)) l).
  { induction l as [|i l IH]; intros Hl; cbn [flat_map]; [reflexivity|].
    rewrite IH by (intros j Hj; apply Hl; right; exact Hj).
    unfold hunk_es at 1 3. rewrite H by (apply Hl; left; reflexivity). reflexivity. }
  apply G. intros i Hi. apply in_seq in Hi. lia.
Qed.

Lemma rec_upto_S a b n : rec_upto a b (S n) = rec_upto a b n ++ hunk_es a b (N.of_nat n).
Proof. unfold rec_upto. rewrite seq_S, flat_map_app. cbn [flat_map Nat.add]. rewrite app_nil_r. reflexivity. Qed.

Lemma rec_upto_In a b n e :
  In e (rec_upto a b n) <->
  exists i es, (i < n)%nat /\ get a (PHunk b (N.of_nat i)) = Some (Good (PlHunk es)) /\ In e es.
Proof.
  unfold rec_upto. rewrite in_flat_map. split.
  - intros [i [Hi He]]. apply in_seq in Hi. unfold hunk_es in He.
    destruct (get a (PHunk b (N.of_nat i))) as [[[| | |es|]| |]|] eqn:G; try destruct He.
    exists i, es. split; [lia|]. auto.
  - intros (i & es & Hi & G & He). exists i. split; [apply in_seq; lia|].
    unfold hunk_es. rewrite G. exact He.
Qed.

Lemma kpaths_app l m : kpaths (l ++ m) = kpaths l ++ kpaths m.
Proof. unfold kpaths. rewrite filter_app, map_app. reflexivity. Qed.

Lemma upd_blocks_id w : w = upd_blocks w (w_exists w) (w_written w).
Proof. destruct w. reflexivity. Qed.

Lemma queued_entry_apath blk q : e_apath (queued_entry blk q) = e_apath (snd q).
Proof. destruct q as [[s l] e]. reflexivity. Qed.

Section CompleteS.
  Variable pre : bytes -> N.
  Variable c : cfg.
  Variable src0 : list sitem.
  Variable bnew : N.

  Notation csafe := (Inv.safe pre (fun _ => True)).

  Lemma c_step {R} (Q : R -> arch -> Prop) o (k : reply -> prog R) (a : arch) :
    add_only o ->
    (forall rep a', Old a a' -> xpost pre a o rep a' -> csafe Q (k rep) a') ->
    csafe Q (Do o k) a.
  Proof.
    intros Ho Hk.
    apply (gsafe_step pre (fun _ => True) (fun _ _ => True)); auto.
  Qed.

  (* a program that only reads leaves the state alone *)
  Lemma c_reads {R} (p : prog R) : emits_only reads_only p -> forall a, csafe (fun _ a' => a' = a) p a.
  Proof.
    intros H. induction H as [r| |o k Ho _ IH]; intros a; cbn [Inv.safe]; auto.
    split; [|exact Logic.I]. intros f. split; [exact Logic.I|].
    rewrite (exec_read_same pre a o f Ho). apply IH.
  Qed.

  (* paths held by the combiner, by the writer, and everything accounted for *)
  Definition CP (w : wst) : list str :=
    map e_apath (w_fin w) ++ map (fun q => e_apath (snd q)) (w_queue w).
  Definition PPa (w : wst) : list str := map e_apath (w_entries w) ++ CP w.
  Definition ALL (a : arch) (w : wst) : list str :=
    map e_apath (rec_upto a bnew (N.to_nat (w_seq w))) ++ PPa w.

  (* the index writer and the hunks of the new band agree *)
  Definition CI (a : arch) (w : wst) : Prop :=
    w_band w = bnew /\ w_hunks w = w_seq w
    /\ (forall h, w_seq w <= h -> get a (PHunk bnew h) = None)
    /\ (forall h, h < w_seq w -> exists es, get a (PHunk bnew h) = Some (Good (PlHunk es))).

  Lemma CI_same a a' w w' :
    HunksSame a a' -> w_band w' = w_band w -> w_seq w' = w_seq w -> w_hunks w' = w_hunks w ->
    CI a w -> CI a' w'.
  Proof.
    intros HS E1 E2 E3 (C1 & C2 & C3 & C4). unfold CI. rewrite E1, E2, E3.
    repeat split; auto; intros h Hh; rewrite HS; auto.
  Qed.

  Lemma ALL_same a a' w w' :
    HunksSame a a' -> w_seq w' = w_seq w -> ALL a' w' = map e_apath (rec_upto a bnew (N.to_nat (w_seq w))) ++ PPa w'.
  Proof.
    intros HS E. unfold ALL. rewrite E. f_equal. f_equal. apply rec_upto_ext. intros i _. apply HS.
  Qed.

  Definition SameIdx (w w' : wst) : Prop :=
    w_band w' = w_band w /\ w_seq w' = w_seq w /\ w_hunks w' = w_hunks w
    /\ w_entries w' = w_entries w /\ w_errors w' = w_errors w.

  Lemma SameIdx_refl w : SameIdx w w.
  Proof. unfold SameIdx. auto. Qed.

  (* post-condition of the combiner-level programs *)
  Definition BQ (a : arch) (w : wst) (added : list str) (rw : bool * wst) (a' : arch) : Prop :=
    HunksSame a a' /\ SameIdx w (snd rw)
    /\ (fst rw = true -> Permutation (CP (snd rw)) (CP w ++ added)).

  Definition blocks_only {A} (a : arch) (w : wst) (rw : A * wst) (a' : arch) : Prop :=
    HunksSame a a' /\ exists ex wr, snd rw = upd_blocks w ex wr.

  Lemma store_block_c w x a : csafe (blocks_only a w) (store_block pre w x) a.
  Proof.
    unfold store_block. destruct (mem_bytes x (w_exists w)).
    - cbn [Inv.safe]. split; [apply HunksSame_refl|]. eexists. eexists. cbn [snd]. apply upd_blocks_id.
    - apply c_step; [exact Logic.I|]. intros rep a1 _ X1. cbn [xpost] in X1.
      assert (S1 : HunksSame a a1) by (intros b h; apply X1).
      destruct (is_ok rep).
      + apply c_step; [exact Logic.I|]. intros rep2 a2 _ X2. cbn [xpost] in X2.
        assert (S2 : HunksSame a a2).
        { destruct X2 as [(_ & _ & _ & G)|[_ ->]]; [|exact S1].
          intros b h. rewrite G by discriminate. apply S1. }
        destruct (is_ok rep2); cbn [Inv.safe]; (split; [exact S2|]); eexists; eexists; cbn [snd];
          [reflexivity | apply upd_blocks_id].
      + cbn [Inv.safe]. split; [exact S1|]. eexists. eexists. cbn [snd]. apply upd_blocks_id.
  Qed.

  Lemma comb_flush_c w a :
    csafe (fun rw a' => BQ a w [] rw a' /\ (fst rw = true -> w_queue (snd rw) = [])) (comb_flush pre w) a.
  Proof.
    unfold comb_flush. destruct (w_queue w) as [|q0 q] eqn:Eq.
    - cbn [Inv.safe fst snd]. split; [|intros _; exact Eq].
      split; [apply HunksSame_refl|]. split; [apply SameIdx_refl|]. intros _. rewrite app_nil_r. apply Permutation_refl.
    - eapply gsafe_bind; [|apply store_block_c].
      intros [ok w'] a1 [HS (ex & wr & E)]. cbn [snd] in E. subst w'.
      destruct ok; cbn [Inv.safe fst snd].
      + split; [|intros _; reflexivity]. split; [exact HS|]. split; [unfold SameIdx; wsimpl; auto|].
        intros _. unfold CP. wsimpl. rewrite Eq, app_nil_r, map_app, map_map, app_nil_r.
        rewrite (map_ext (fun y => e_apath (queued_entry (w_buf w) y)) (fun y => e_apath (snd y)))
          by (intros y; apply queued_entry_apath).
        apply Permutation_refl.
      + split; [|discriminate]. split; [exact HS|]. split; [unfold SameIdx; wsimpl; auto | discriminate].
  Qed.

  Lemma comb_push_c w e data a : csafe (BQ a w [e_apath e]) (comb_push pre c w e data) a.
  Proof.
    unfold comb_push. destruct data as [|x data].
    - cbn [Inv.safe]. split; [apply HunksSame_refl|]. split; [unfold SameIdx; wsimpl; auto|].
      intros _. unfold CP. wsimpl. generalize (map (fun q => e_apath (snd q)) (w_queue w)) as X. intros X.
      rewrite map_app. cbn [map]. rewrite <- !app_assoc.
      apply Permutation_app_head. cbn [app]. apply Permutation_cons_append.
    - set (d := x :: data).
      set (w1 := upd_comb w (w_buf w ++ d) (w_queue w ++ [(N.of_nat (length (w_buf w)), N.of_nat (length d), e)]) (w_fin w)).
      assert (E1 : CP w1 = CP w ++ [e_apath e]).
      { unfold CP, w1. wsimpl. rewrite map_app. cbn [map snd]. rewrite app_assoc. reflexivity. }
      assert (S1 : SameIdx w w1) by (unfold SameIdx, w1; wsimpl; auto).
      match goal with |- Inv.safe _ _ _ (if ?b then _ else _) _ => destruct b end.
      + eapply gsafe_weaken; [|apply comb_flush_c].
        intros rw a1 [(HS & (I1 & I2 & I3 & I4 & I5) & HP) _]. destruct S1 as (J1 & J2 & J3 & J4 & J5).
        split; [exact HS|]. split; [unfold SameIdx; repeat split; congruence|].
        intros Hok. rewrite <- E1. rewrite <- (app_nil_r (CP w1)). apply HP. exact Hok.
      + cbn [Inv.safe]. split; [apply HunksSame_refl|]. split; [exact S1|].
        intros _. cbn [snd]. rewrite E1. apply Permutation_refl.
  Qed.

  Lemma store_chunks_c cs : forall w acc a, csafe (blocks_only a w) (store_chunks pre w cs acc) a.
  Proof.
    induction cs as [|x cs IH]; intros w acc a; cbn [store_chunks].
    - cbn [Inv.safe]. split; [apply HunksSame_refl|]. eexists. eexists. cbn [snd]. apply upd_blocks_id.
    - eapply gsafe_bind; [|apply store_block_c].
      intros [ok w'] a1 [HS (ex & wr & E)]. cbn [snd] in E. subst w'.
      destruct ok.
      + eapply gsafe_weaken; [|apply IH].
        intros rw a2 [HS2 (ex2 & wr2 & E2)]. split; [eapply HunksSame_trans; eauto|].
        exists ex2, wr2. rewrite E2. reflexivity.
      + cbn [Inv.safe]. split; [exact HS|]. exists ex, wr. reflexivity.
  Qed.

  Definition kp (it : sitem) : list str :=
    if known_kind (s_kind (si_e it)) then [s_apath (si_e it)] else [].

  Definition SameIdx2 (w w' : wst) : Prop :=
    w_band w' = w_band w /\ w_seq w' = w_seq w /\ w_hunks w' = w_hunks w /\ w_errors w' = w_errors w.

  Definition EQ (a : arch) (w : wst) (it : sitem) (rw : bool * wst) (a' : arch) : Prop :=
    HunksSame a a' /\ SameIdx2 w (snd rw)
    /\ (fst rw = true -> Permutation (PPa (snd rw)) (PPa w ++ kp it)).

  Lemma push_entry_PPa w e : Permutation (PPa (push_entry w e)) (PPa w ++ [e_apath e]).
  Proof.
    unfold PPa. wsimpl. replace (CP (push_entry w e)) with (CP w) by reflexivity.
    generalize (CP w) as X. intros X. rewrite map_app. cbn [map]. rewrite <- !app_assoc.
    apply Permutation_app_head. cbn [app]. apply Permutation_cons_append.
  Qed.

  Lemma copy_entry_c w basis it a : csafe (EQ a w it) (copy_entry pre c w basis it) a.
  Proof.
    unfold copy_entry.
    assert (Hret : forall e, e_apath e = s_apath (si_e it) -> known_kind (s_kind (si_e it)) = true ->
                             csafe (EQ a w it) (Ret (true, push_entry w e)) a).
    { intros e He Hk. cbn [Inv.safe]. split; [apply HunksSame_refl|]. split; [unfold SameIdx2; wsimpl; auto|].
      intros _. cbn [snd]. unfold kp. rewrite Hk, <- He. apply push_entry_PPa. }
    pose proof (meta_from_apath (c_owner c) (si_e it)) as Hp.
    destruct (s_kind (si_e it)) eqn:Ek; try (apply Hret; [exact Hp | reflexivity]).
    2:{ cbn [Inv.safe]. split; [apply HunksSame_refl|]. split; [unfold SameIdx2; auto|].
        intros _. unfold kp. rewrite Ek. cbn [known_kind snd]. rewrite app_nil_r. apply Permutation_refl. }
    match goal with |- Inv.safe _ _ _ (match ?x with _ => _ end) _ => destruct x as [addrs|] end.
    - apply Hret; [exact Hp | reflexivity].
    - destruct (s_size (si_e it) =? 0); [apply Hret; [exact Hp | reflexivity]|].
      destruct (s_size (si_e it) <=? c_sfc c).
      + eapply gsafe_weaken; [|apply comb_push_c].
        intros rw a1 (HS & (I1 & I2 & I3 & I4 & I5) & HP). split; [exact HS|].
        split; [unfold SameIdx2; auto|]. intros Hok. unfold PPa. rewrite I4. unfold kp. rewrite Ek. cbn [known_kind].
        rewrite <- Hp, <- app_assoc. apply Permutation_app_head. apply HP. exact Hok.
      + eapply gsafe_bind; [|apply store_chunks_c].
        intros [o w'] a1 [HS (ex & wr & E)]. cbn [snd] in E. subst w'.
        destruct o as [addrs|]; cbn [Inv.safe fst snd]; (split; [exact HS|]).
        * split; [unfold SameIdx2; wsimpl; auto|]. intros _. unfold kp. rewrite Ek. cbn [known_kind].
          rewrite <- Hp. apply (push_entry_PPa (upd_blocks w ex wr) (with_addrs (meta_from (c_owner c) (si_e it)) addrs)).
        * split; [unfold SameIdx2; wsimpl; auto | discriminate].
  Qed.

  (* post-condition of the index-level programs *)
  Definition FQ (a : arch) (w : wst) (rw : bool * wst) (a' : arch) : Prop :=
    CI a' (snd rw) /\ w_errors (snd rw) = w_errors w
    /\ w_fin (snd rw) = w_fin w /\ w_queue (snd rw) = w_queue w
    /\ (fst rw = true -> w_entries (snd rw) = [] /\ Permutation (ALL a' (snd rw)) (ALL a w)).

  Lemma finish_hunk_c w a : CI a w -> csafe (FQ a w) (finish_hunk w) a.
  Proof.
    intros HC. unfold finish_hunk. destruct (w_entries w) as [|e0 es] eqn:Ee.
    - cbn [Inv.safe]. unfold FQ. cbn [fst snd].
      split; [exact HC|]. split; [reflexivity|]. split; [reflexivity|]. split; [reflexivity|].
      intros _. split; [exact Ee | apply Permutation_refl].
    - assert (Hfail : forall a1, HunksSame a a1 -> FQ a w (false, w) a1).
      { intros a1 HS. unfold FQ. cbn [fst snd]. split; [eapply CI_same; eauto|]. repeat split; auto; discriminate. }
      assert (Hwrite : forall a1, HunksSame a a1 ->
        csafe (FQ a w)
          (Do (OpWrite (PHunk (w_band w) (w_seq w)) (PlHunk (sort_entries (e0 :: es))) CreateNew) (fun r =>
             if is_ok r then Ret (true, upd_index w [] (w_seq w + 1) (w_hunks w + 1)) else Ret (false, w))) a1).
      { intros a1 HS1. apply c_step; [exact Logic.I|]. intros rep a2 _ X2. cbn [xpost] in X2.
        destruct X2 as [(-> & _ & G & Gother)|[Hne ->]].
        - cbn [is_ok Inv.safe]. destruct HC as (C1 & C2 & C3 & C4). rewrite C1 in G, Gother.
          unfold FQ. cbn [fst snd]. wsimpl. split.
          { unfold CI. wsimpl. split; [exact C1|]. split; [lia|]. split.
            - intros h Hh. rewrite Gother by (intros E; inversion E; lia). rewrite HS1. apply C3. lia.
            - intros h Hh. destruct (N.eq_dec h (w_seq w)) as [->|Hne].
              + eexists. exact G.
              + rewrite Gother by (intros E; inversion E; contradiction). rewrite HS1. apply C4. lia. }
          split; [reflexivity|]. split; [reflexivity|]. split; [reflexivity|].
          intros _. split; [reflexivity|].
          unfold ALL, PPa. wsimpl. rewrite Ee.
          replace (N.to_nat (w_seq w + 1)) with (S (N.to_nat (w_seq w))) by lia.
          rewrite rec_upto_S. unfold hunk_es. rewrite N2Nat.id, G.
          rewrite (rec_upto_ext a a2 bnew (N.to_nat (w_seq w))).
          2:{ intros i Hi. rewrite Gother by (intros E; inversion E; lia). apply HS1. }
          cbn [map app]. rewrite map_app, <- !app_assoc. apply Permutation_app_head.
          replace (CP (upd_index w [] (w_seq w + 1) (w_hunks w + 1))) with (CP w) by reflexivity.
          change (e_apath e0 :: map e_apath es ++ CP w) with (map e_apath (e0 :: es) ++ CP w).
          apply Permutation_app_tail.
          apply Permutation_map. apply sort_entries_perm.
        - destruct rep; try congruence; cbn [is_ok Inv.safe]; apply Hfail; exact HS1. }
      destruct (w_seq w mod HUNKS_PER_SUBDIR =? 0).
      + apply c_step; [exact Logic.I|]. intros rep a1 _ X1. cbn [xpost] in X1.
        assert (S1 : HunksSame a a1) by (intros b h; apply X1).
        destruct (is_ok rep); [apply Hwrite; exact S1 | cbn [Inv.safe]; apply Hfail; exact S1].
      + apply Hwrite. apply HunksSame_refl.
  Qed.

  Definition GQ (a : arch) (w : wst) (rw : bool * wst) (a' : arch) : Prop :=
    CI a' (snd rw) /\ w_errors (snd rw) = w_errors w
    /\ (fst rw = true ->
        w_entries (snd rw) = [] /\ w_fin (snd rw) = [] /\ w_queue (snd rw) = []
        /\ Permutation (ALL a' (snd rw)) (ALL a w)).

  Lemma flush_group_c w a : CI a w -> csafe (GQ a w) (flush_group pre w) a.
  Proof.
    intros HC. unfold flush_group.
    eapply gsafe_bind; [|apply comb_flush_c].
    intros [ok w1] a1 [(HS & (I1 & I2 & I3 & I4 & I5) & HP) HQ]. cbn [fst snd] in *.
    assert (HC1 : CI a1 w1) by (eapply CI_same; eauto).
    destruct ok.
    - specialize (HP eq_refl). specialize (HQ eq_refl). rewrite app_nil_r in HP.
      set (w1' := upd_comb (upd_index w1 (w_entries w1 ++ w_fin w1) (w_seq w1) (w_hunks w1)) (w_buf w1) (w_queue w1) []).
      assert (HC1' : CI a1 w1') by (eapply CI_same; [apply HunksSame_refl | | | | exact HC1]; reflexivity).
      eapply gsafe_weaken; [|apply finish_hunk_c; exact HC1'].
      intros [ok2 w2] a2 (F1 & F2 & F3 & F4 & F5). unfold GQ. cbn [fst snd] in *.
      split; [exact F1|]. split; [rewrite F2; unfold w1'; wsimpl; exact I5|].
      intros Hok. destruct (F5 Hok) as [F6 F7].
      split; [exact F6|]. split; [rewrite F3; reflexivity|]. split; [rewrite F4; unfold w1'; wsimpl; exact HQ|].
      eapply Permutation_trans; [exact F7|].
      rewrite (ALL_same a a1 w w1') by (auto; unfold w1'; wsimpl; exact I2).
      unfold ALL. apply Permutation_app_head.
      unfold PPa at 1. unfold CP at 1. unfold w1'. wsimpl. rewrite HQ. cbn [map app]. rewrite app_nil_r, map_app.
      unfold PPa. rewrite I4. apply Permutation_app_head.
      unfold CP in HP. rewrite HQ in HP. cbn [map] in HP. rewrite app_nil_r in HP. exact HP.
    - cbn [Inv.safe]. unfold GQ. cbn [fst snd]. split; [exact HC1|]. split; [exact I5 | discriminate].
  Qed.

  (** ** The merge loop and the whole backup *)

  Definition QC (r : bres) (a : arch) : Prop :=
    b_ok r = true -> b_errors r = 0 -> Complete src0 a bnew /\ b_band r = Some bnew.

  Lemma QC_fail w a : QC (fail w) a.
  Proof. intros H. discriminate H. Qed.
  Lemma QC_fail0 a : QC fail0 a.
  Proof. intros H. discriminate H. Qed.

  Lemma merge_loop_c src : forall done peek st last w a,
    src0 = done ++ src -> CI a w ->
    (w_errors w = 0 -> Permutation (ALL a w) (kpaths done)) ->
    csafe QC (merge_loop pre c src peek st last w) a.
  Proof.
    induction src as [|it src IH]; intros done peek st last w a Hsrc HC HA; cbn [merge_loop].
    - rewrite app_nil_r in Hsrc. subst done.
      eapply gsafe_bind; [|apply c_reads, snext_eo; auto].
      intros [[[[skipped na] st'] last'] merr] a' ->.
      set (w1 := upd_counts w (w_errors w) merr
                   (w_deleted w + N.of_nat (length skipped) + match peek with Some _ => 1 | None => 0 end)).
      assert (HC1 : CI a w1) by (eapply CI_same; [apply HunksSame_refl | | | | exact HC]; reflexivity).
      eapply gsafe_bind; [|apply flush_group_c; exact HC1].
      intros [ok w2] a2 (G1 & G2 & G3). cbn [fst snd] in *.
      destruct ok; [|apply QC_fail].
      destruct (G3 eq_refl) as (E1 & E2 & E3 & HP). clear G3.
      apply c_step; [exact Logic.I|]. intros rep a3 _ X3. cbn [xpost] in X3.
      destruct X3 as [(-> & _ & G & Gother)|[Hne ->]].
      2:{ destruct rep; try congruence; cbn [is_ok Inv.safe]; apply QC_fail. }
      cbn [is_ok Inv.safe]. intros _ Herr. cbn [b_errors b_band] in *.
      destruct G1 as (C1 & C2 & C3 & C4). rewrite C1 in *.
      split; [|reflexivity].
      assert (HS : HunksSame a2 a3) by (intros b h; apply Gother; discriminate).
      exists (w_hunks w2). split; [exact G|]. rewrite C2. split.
      + intros h. rewrite HS. split.
        * intros [es Hes]. destruct (N.lt_ge_cases h (w_seq w2)) as [Hlt|Hge]; [exact Hlt|].
          rewrite (C3 h Hge) in Hes. discriminate Hes.
        * apply C4.
      + rewrite (rec_upto_ext a2 a3) by (intros i _; apply HS).
        assert (EA : ALL a2 w2 = map e_apath (rec_upto a2 bnew (N.to_nat (w_seq w2)))).
        { unfold ALL, PPa, CP. rewrite E1, E2, E3. cbn [map app]. rewrite app_nil_r. reflexivity. }
        rewrite <- EA. eapply Permutation_trans; [exact HP|].
        replace (ALL a w1) with (ALL a w) by reflexivity. apply HA.
        rewrite G2 in Herr. exact Herr.
    - assert (Hk : forall (skipped : list entry) na st' last' merr,
        csafe QC
          (let w0 := upd_counts w (w_errors w) merr (w_deleted w + N.of_nat (length skipped)) in
           let '(basis, na') :=
             match na with
             | Some e => match apath_cmp (e_apath e) (s_apath (si_e it)) with
                         | Eq => (Some e, None) | _ => (None, na) end
             | None => (None, None)
             end in
           bind (copy_entry pre c w0 basis it) (fun rw =>
             let '(ok, w1) := rw in
             let w2 := if ok then w1 else upd_counts w1 (w_errors w1 + 1) (w_merr w1 + 1) (w_deleted w1) in
             if ok && (c_meph c <=? N.of_nat (length (w_entries w2)) + N.of_nat (length (w_queue w2))) then
               bind (flush_group pre w2) (fun rw2 =>
                 let '(ok2, w3) := rw2 in
                 if ok2 then merge_loop pre c src na' st' last' w3 else Ret (fail w3))
             else merge_loop pre c src na' st' last' w2)) a).
      { intros skipped na st' last' merr. cbv zeta.
        match goal with |- Inv.safe _ _ _ (let '(_, _) := ?x in _) _ => destruct x as [basis na'] end.
        set (w0 := upd_counts w (w_errors w) merr (w_deleted w + N.of_nat (length skipped))).
        eapply gsafe_bind; [|apply copy_entry_c].
        intros [ok w1] a1 (HS & (I1 & I2 & I3 & I5) & HP). cbn [fst snd] in *.
        set (w2 := if ok then w1 else upd_counts w1 (w_errors w1 + 1) (w_merr w1 + 1) (w_deleted w1)).
        assert (HC2 : CI a1 w2).
        { eapply CI_same; [exact HS | | | | exact HC]; unfold w2; destruct ok; wsimpl; assumption. }
        assert (Hsrc' : src0 = (done ++ [it]) ++ src) by (rewrite <- app_assoc; exact Hsrc).
        assert (HA2 : w_errors w2 = 0 -> Permutation (ALL a1 w2) (kpaths (done ++ [it]))).
        { unfold w2. destruct ok; wsimpl; [|intros; lia].
          intros He. rewrite I5 in He. unfold w0 in He. wsimpl.
          rewrite (ALL_same a a1 w w1) by (auto; exact I2).
          rewrite kpaths_app.
          replace (kpaths [it]) with (kp it)
            by (unfold kpaths, kp; cbn [filter]; destruct (known_kind (s_kind (si_e it))); reflexivity).
          eapply Permutation_trans; [apply Permutation_app_head, HP; reflexivity|].
          rewrite app_assoc. apply Permutation_app_tail.
          replace (PPa w0) with (PPa w) by reflexivity. apply (HA He). }
        match goal with |- Inv.safe _ _ _ (if ?x then _ else _) _ => destruct x end.
        - eapply gsafe_bind; [|apply flush_group_c; exact HC2].
          intros [ok2 w3] a2 (G1 & G2 & G3). cbn [fst snd] in *.
          destruct ok2; [|apply QC_fail].
          destruct (G3 eq_refl) as (_ & _ & _ & HP3).
          apply (IH (done ++ [it])); [exact Hsrc' | exact G1|].
          intros He. eapply Permutation_trans; [exact HP3|]. apply HA2. rewrite <- G2. exact He.
        - apply (IH (done ++ [it])); assumption. }
      destruct peek as [e|].
      + match goal with |- Inv.safe _ _ _ (if ?x then _ else _) _ => destruct x end.
        * eapply gsafe_bind; [|apply c_reads, snext_eo; auto].
          intros [[[[skipped na] st'] last'] merr] a' ->. apply Hk.
        * exact (Hk [] (Some e) st last (w_merr w)).
      + eapply gsafe_bind; [|apply c_reads, snext_eo; auto].
        intros [[[[skipped na] st'] last'] merr] a' ->. apply Hk.
  Qed.

  Lemma list_blocks_c subs : forall acc failed k a,
    (forall o, csafe QC (k o) a) -> csafe QC (list_blocks subs acc failed k) a.
  Proof.
    induction subs as [|s subs IH]; intros acc failed k a Hk; cbn [list_blocks]; auto.
    apply c_step; [exact Logic.I|]. intros rep a' _ X. cbn [xpost] in X. destruct X as [-> _].
    destruct rep; auto.
  Qed.
End CompleteS.

Section CompleteTop.
  Variable pre : bytes -> N.
  Variable c : cfg.
  Variable src0 : list sitem.
  Variable a0 : arch.
  Hypothesis H0 : forall h, get a0 (PHunk (new_band a0) h) = None.

  Notation csafe := (Inv.safe pre (fun _ => True)).

  Theorem backup_c : csafe (QC src0 (new_band a0)) (backup_prog pre c src0) a0.
  Proof.
    unfold backup_prog, open_archive.
    apply c_step; [exact Logic.I|]. intros r0 a1 _ X. cbn [xpost] in X. destruct X as [-> _].
    destruct r0 as [| |[[| | | |]| |]| |]; try apply QC_fail0.
    apply c_step; [exact Logic.I|]. intros r a1 _ X. cbn [xpost] in X. subst a1.
    destruct r as [|[| | |]| | |]; try apply QC_fail0.
    apply c_step; [exact Logic.I|]. intros r1 a1 _ X. cbn [xpost] in X. destruct X as [-> X].
    destruct r1 as [| | |ds1 fs1|]; try apply QC_fail0. destruct X as [-> _].
    apply c_step; [exact Logic.I|]. intros r2 a1 _ X. cbn [xpost] in X. destruct X as [-> X].
    destruct r2 as [| | |ds2 fs2|]; try apply QC_fail0. destruct X as [-> _].
    cbv zeta.
    change (match max_id (band_ids (children_dirs a0 DRoot)) with Some m => m + 1 | None => 0 end)
      with (new_band a0).
    apply c_step; [exact Logic.I|]. intros r3 a3 _ X3. cbn [xpost] in X3.
    destruct (is_ok r3); [|apply QC_fail0].
    apply c_step; [exact Logic.I|]. intros r4 a4 _ X4. cbn [xpost] in X4.
    destruct (is_ok r4); [|apply QC_fail0].
    apply c_step; [exact Logic.I|]. intros r5 a5 _ X5. cbn [xpost] in X5.
    assert (HS : HunksSame a0 a5).
    { intros b h. destruct X5 as [(_ & _ & _ & G)|[_ ->]].
      - rewrite G by discriminate. rewrite X4. apply X3.
      - rewrite X4. apply X3. }
    destruct (is_ok r5); [|apply QC_fail0].
    apply c_step; [exact Logic.I|]. intros r5b a6 _ X. cbn [xpost] in X. destruct X as [-> _].
    destruct r5b as [| | |ds5 fs5|]; try apply QC_fail0.
    destruct (existsb (fun p => fpath_eqb (fst p) PLock) fs5); [apply QC_fail0|].
    apply c_step; [exact Logic.I|]. intros r6 a6 _ X. cbn [xpost] in X. destruct X as [-> _].
    destruct r6 as [| | |ds3 fs3|]; try apply QC_fail0.
    apply list_blocks_c. intros [ex|]; [|apply QC_fail0].
    apply (merge_loop_c pre c src0 (new_band a0) src0 []); [reflexivity | |].
    - unfold CI. cbn [w_band w_seq w_hunks]. split; [reflexivity|]. split; [reflexivity|]. split.
      + intros h _. rewrite HS. apply H0.
      + intros h Hh. lia.
    - intros _. apply Permutation_refl.
  Qed.
End CompleteTop.

(** MAIN THEOREM (success means complete).  Under ANY sequence of I/O failures: if the
    backup returns at all (no crash) and reports [b_ok = true] with [b_errors = 0], then the
    band it reports is the new band, that band is closed by a tail whose hunk count is exactly
    the number of its hunks, and the multiset of paths recorded in those hunks is exactly the
    multiset of paths of the source's files, directories and symlinks.  (If a [copy_entry]
    failed, [b_errors > 0]; if a flush or the tail write failed, [b_ok = false].) *)
Theorem backup_success_complete : forall pre c src a0 phi r,
  (forall h, get a0 (PHunk (new_band a0) h) = None) ->
  snd (run pre (backup_prog pre c src) a0 phi) = Done r ->
  b_ok r = true -> b_errors r = 0 ->
  Complete src (snd (fst (run pre (backup_prog pre c src) a0 phi))) (new_band a0)
  /\ b_band r = Some (new_band a0).
Proof.
  intros pre c src a0 phi r H0 Hr Hok Herr.
  destruct (gsafe_sound pre (fun _ => True) (QC src (new_band a0)) _ a0 phi Logic.I
              (backup_c pre c src a0 H0)) as (_ & _ & HQ).
  exact (HQ r Hr Hok Herr).
Qed.

(* in a complete band the recorded entries are exactly those of hunks 0 .. n-1 *)
Lemma Complete_recorded src a b :
  Complete src a b ->
  exists n, get a (PTail b) = Some (Good (PlTail (Some n)))
            /\ (forall e, Recorded a b e <-> In e (rec_upto a b (N.to_nat n)))
            /\ Permutation (map e_apath (rec_upto a b (N.to_nat n))) (kpaths src).
Proof.
  intros (n & Ht & Hh & Hp). exists n. split; [exact Ht|]. split; [|exact Hp].
  intros e. rewrite rec_upto_In. split.
  - intros (h & es & G & He). exists (N.to_nat h), es. rewrite N2Nat.id.
    assert (Hlt : h < n) by (apply Hh; eexists; exact G). split; [lia | auto].
  - intros (i & es & _ & G & He). exists (N.of_nat i), es. auto.
Qed.

Lemma NoDup_map_unique {A B} (f : A -> B) l x y :
  NoDup (map f l) -> In x l -> In y l -> f x = f y -> x = y.
Proof.
  induction l as [|z l IH]; cbn [map]; [intros _ []|].
  intros ND Hx Hy E. inversion ND as [|? ? Hnot ND']; subst.
  destruct Hx as [->|Hx], Hy as [->|Hy]; auto.
  - exfalso. apply Hnot. rewrite E. apply in_map. exact Hy.
  - exfalso. apply Hnot. rewrite <- E. apply in_map. exact Hx.
Qed.

(** ... hence, when no source path occurs twice, every file / directory / symlink of the
    source has EXACTLY ONE recorded entry in the new band with its path (the list of all
    recorded paths has no duplicate), and nothing else is recorded. *)
Corollary backup_success_exactly_one : forall pre c src a0 phi r,
  (forall h, get a0 (PHunk (new_band a0) h) = None) ->
  NoDup (map (fun it => s_apath (si_e it)) src) ->
  snd (run pre (backup_prog pre c src) a0 phi) = Done r ->
  b_ok r = true -> b_errors r = 0 ->
  let a := snd (fst (run pre (backup_prog pre c src) a0 phi)) in
  let b := new_band a0 in
  exists n all,
    get a (PTail b) = Some (Good (PlTail (Some n)))
    /\ (forall h, (exists es, get a (PHunk b h) = Some (Good (PlHunk es))) <-> h < n)
    /\ (forall e, Recorded a b e <-> In e all)
    /\ NoDup (map e_apath all)
    /\ (forall it, In it src -> known_kind (s_kind (si_e it)) = true ->
          exists e, Recorded a b e /\ e_apath e = s_apath (si_e it)
                    /\ forall e', Recorded a b e' -> e_apath e' = s_apath (si_e it) -> e' = e)
    /\ (forall e, Recorded a b e ->
          exists it, In it src /\ known_kind (s_kind (si_e it)) = true /\ s_apath (si_e it) = e_apath e).
Proof.
  intros pre c src a0 phi r H0 ND Hr Hok Herr a b.
  destruct (backup_success_complete pre c src a0 phi r H0 Hr Hok Herr) as [HC _].
  fold a b in HC.
  destruct (Complete_recorded _ _ _ HC) as (n & Ht & Hrec & Hp).
  assert (Hh : forall h, (exists es, get a (PHunk b h) = Some (Good (PlHunk es))) <-> h < n).
  { destruct HC as (n1 & Ht1 & Hh1 & _). assert (E : n1 = n) by congruence. subst n1. exact Hh1. }
  assert (NDk : NoDup (kpaths src)).
  { unfold kpaths. clear -ND. induction src as [|it l IH]; cbn [filter map]; [constructor|].
    cbn [map] in ND. inversion ND as [|? ? Hnot ND']; subst.
    destruct (known_kind (s_kind (si_e it))); [|auto]. cbn [map]. constructor; [|auto].
    intros Hin. apply Hnot. apply in_map_iff in Hin. destruct Hin as [x [E Hx]].
    apply filter_In in Hx. apply in_map_iff. exists x. tauto. }
  assert (NDa : NoDup (map e_apath (rec_upto a b (N.to_nat n)))).
  { eapply Permutation_NoDup; [apply Permutation_sym; exact Hp | exact NDk]. }
  exists n, (rec_upto a b (N.to_nat n)).
  split; [exact Ht|]. split; [exact Hh|].
  split; [exact Hrec|]. split; [exact NDa|]. split.
  - intros it Hin Hk.
    assert (Hp1 : In (s_apath (si_e it)) (kpaths src)).
    { unfold kpaths. apply in_map_iff. exists it. split; [reflexivity|]. apply filter_In. auto. }
    apply (Permutation_in _ (Permutation_sym Hp)) in Hp1. apply in_map_iff in Hp1.
    destruct Hp1 as [e [Ee He]]. exists e. split; [apply Hrec; exact He|]. split; [exact Ee|].
    intros e' Hr' Ee'. apply Hrec in Hr'.
    apply (NoDup_map_unique e_apath _ _ _ NDa Hr' He). congruence.
  - intros e He. apply Hrec in He. apply (in_map e_apath) in He.
    apply (Permutation_in _ Hp) in He. unfold kpaths in He. apply in_map_iff in He.
    destruct He as [it [E Hit]]. apply filter_In in Hit. exists it. tauto.
Qed.

(* the same for an archive whose files all lie in existing directories *)
Corollary backup_success_complete_wf : forall pre c src a0 phi r,
  DirsWF pre a0 ->
  snd (run pre (backup_prog pre c src) a0 phi) = Done r ->
  b_ok r = true -> b_errors r = 0 ->
  Complete src (snd (fst (run pre (backup_prog pre c src) a0 phi))) (new_band a0)
  /\ b_band r = Some (new_band a0).
Proof.
  intros pre c src a0 phi r HD. apply backup_success_complete. apply (new_band_no_hunks pre). exact HD.
Qed.

(** The weaker form: a source item that is not recorded is always reported. *)
Corollary skip_is_reported : forall pre c src a0 phi r it,
  (forall h, get a0 (PHunk (new_band a0) h) = None) ->
  snd (run pre (backup_prog pre c src) a0 phi) = Done r ->
  In it src -> known_kind (s_kind (si_e it)) = true ->
  (forall e, Recorded (snd (fst (run pre (backup_prog pre c src) a0 phi))) (new_band a0) e ->
             e_apath e <> s_apath (si_e it)) ->
  b_ok r = false \/ 0 < b_errors r.
Proof.
  intros pre c src a0 phi r it H0 Hr Hin Hk Hno.
  destruct (b_ok r) eqn:Eok; [|left; reflexivity]. right.
  destruct (N.eq_dec (b_errors r) 0) as [Ez|]; [|lia]. exfalso.
  destruct (backup_success_complete pre c src a0 phi r H0 Hr Eok Ez) as [HC _].
  destruct (Complete_recorded _ _ _ HC) as (n & _ & Hrec & Hp).
  assert (Hp1 : In (s_apath (si_e it)) (kpaths src)).
  { unfold kpaths. apply in_map_iff. exists it. split; [reflexivity|]. apply filter_In. auto. }
  apply (Permutation_in _ (Permutation_sym Hp)) in Hp1. apply in_map_iff in Hp1.
  destruct Hp1 as [e [Ee He]]. apply (Hno e); [apply Hrec; exact He | exact Ee].
Qed.

(* the checkers are sound *)
Lemma nodup_strs_sound l : nodup_strs l = true -> NoDup l.
Proof.
  induction l as [|x l IH]; cbn [nodup_strs]; [constructor|].
  rewrite andb_true_iff, negb_true_iff. intros [H1 H2]. constructor; [|auto].
  intros Hin. assert (E : existsb (str_eqb x) l = true).
  { apply existsb_exists. exists x. split; [exact Hin | apply str_eqb_refl]. }
  congruence.
Qed.

Lemma srcok_b_sound src : srcok_b src = true -> SrcOK src.
Proof.
  unfold srcok_b. rewrite andb_true_iff, forallb_forall. intros [H1 H2]. split.
  - intros it Hin Hk. specialize (H1 it Hin). rewrite Hk in H1. apply N.eqb_eq. exact H1.
  - apply nodup_strs_sound. exact H2.
Qed.

Lemma dirswf_b_sound pre a : dirswf_b pre a = true -> DirsWF pre a.
Proof.
  unfold dirswf_b. rewrite andb_true_iff, !forallb_forall. intros [H1 H2]. split.
  - intros f x G. destruct (lookup_Some_In _ _ _ G) as [g [Hin [-> _]]]. exact (H1 _ Hin).
  - intros d p Hd Hp. apply has_dir_In in Hd. specialize (H2 d Hd). rewrite Hp in H2. exact H2.
Qed.

Print Assumptions backup_success_complete.
Print Assumptions backup_success_exactly_one.
Print Assumptions skip_is_reported.

(* ------------------------------------------------------------------------- *)
(** * E. Examples (non-vacuity), by computation                               *)
(* ------------------------------------------------------------------------- *)
Module TruthExamples.
  Import SafeExamples RefIntExamples.

  (* a third backup on top of SafeExamples.ex_a3 (bands 0 and 1): small files are combined
     three bytes at a time ("/a"+"/c" -> block [8;9;3], "/d"+"/e" -> block [4;5;6]); "/b" is
     unchanged since band 1 and is reused; "/f" is empty; "/g" is cut into blocks of 3 *)
  Definition ex4_cfg : cfg := {| c_meph := 10; c_mbs := 3; c_sfc := 2; c_owner := false |}.
  Definition ex4_src : list sitem :=
    [ {| si_e := mk_s [47] KDir 0 1000000000; si_data := [] |};
      {| si_e := mk_s [47;97] KFile 2 3000000000; si_data := [8;9] |};
      {| si_e := mk_s [47;98] KFile 6 1000000007; si_data := [1;2;3;4;5;7] |};
      {| si_e := mk_s [47;99] KFile 1 3000000000; si_data := [3] |};
      {| si_e := mk_s [47;100] KFile 2 3000000000; si_data := [4;5] |};
      {| si_e := mk_s [47;101] KFile 1 3000000000; si_data := [6] |};
      {| si_e := mk_s [47;102] KFile 0 3000000000; si_data := [] |};
      {| si_e := mk_s [47;103] KFile 4 3000000000; si_data := [9;9;9;9] |} ].
  Definition backup4 := backup_prog ex_pre ex4_cfg ex4_src.

  (* an I/O error on the write of the first combined block *)
  Definition ex4_phi := repeat NoFault 19 ++ [Fail EOther].
  (* the same, and then the process is killed while writing the index hunk *)
  Definition ex4_phi_crash := repeat NoFault 19 ++ [Fail EOther] ++ repeat NoFault 7 ++ [CrashEmpty].

  Example ex4_hyps :
    ainv_b ex_a3 = true /\ dirswf_b ex_pre ex_a3 = true /\ srcok_b ex4_src = true
    /\ new_band ex_a3 = 2 /\ band_hunks ex_a3 2 = [].
  Proof. vm_compute. repeat split; reflexivity. Qed.

  Definition paths_of (a : arch) : list str := map e_apath (band_entries a 2).
  Definition all_own (a : arch) : bool := forallb (reads_own_bytes ex4_src a) (band_entries a 2).

  (* no fault: eight entries, each file reads back to its own bytes; "/c" is bytes 2..3 of the
     block it shares with "/a"; "/b" carries the addresses of its basis entry in band 1 *)
  Example ex4_clean :
    let a := final backup4 ex_a3 [] in
    snd (run ex_pre backup4 ex_a3 [])
    = Done {| b_ok := true; b_errors := 0; b_merr := 0; b_written := 4; b_deleted := 0; b_band := Some 2 |}
    /\ paths_of a = [[47]; [47;97]; [47;98]; [47;99]; [47;100]; [47;101]; [47;102]; [47;103]]
    /\ all_own a = true
    /\ map (fun e => (e_addrs e, content_of a e)) (filter (fun e => str_eqb (e_apath e) [47;99]) (band_entries a 2))
       = [([{| a_hash := [8;9;3]; a_start := 2; a_len := 1 |}], Some [3])]
    /\ map e_addrs (filter (fun e => str_eqb (e_apath e) [47;98]) (band_entries a 2))
       = map e_addrs (filter (fun e => str_eqb (e_apath e) [47;98]) (band_entries ex_a3 1))
    /\ get a (PTail 2) = Some (Good (PlTail (Some 1))).
  Proof. vm_compute. repeat split; reflexivity. Qed.

  (* the write of the combined block [8;9;3] fails: "/a" and "/c" are dropped TOGETHER WITH
     their bytes (one error is counted); the small files that follow start a new buffer and
     still read back to their own bytes ("/d" = bytes 0..2 of the block [4;5;6]); so does
     every recorded entry at every state of the run *)
  Example ex4_failed_flush :
    let a := final backup4 ex_a3 ex4_phi in
    nth_error (trace backup4 ex_a3 ex4_phi) 19
    = Some (OpWrite (PBlock [8;9;3]) (PlBlock [8;9;3]) CreateNew, RErr EOther)
    /\ snd (run ex_pre backup4 ex_a3 ex4_phi)
       = Done {| b_ok := true; b_errors := 1; b_merr := 1; b_written := 3; b_deleted := 0; b_band := Some 2 |}
    /\ paths_of a = [[47]; [47;98]; [47;100]; [47;101]; [47;102]; [47;103]]
    /\ all_own a = true
    /\ map (fun e => (e_addrs e, content_of a e)) (filter (fun e => str_eqb (e_apath e) [47;100]) (band_entries a 2))
       = [([{| a_hash := [4;5;6]; a_start := 0; a_len := 2 |}], Some [4;5])]
    /\ map (fun e => (e_addrs e, content_of a e)) (filter (fun e => str_eqb (e_apath e) [47;101]) (band_entries a 2))
       = [([{| a_hash := [4;5;6]; a_start := 2; a_len := 1 |}], Some [6])]
    /\ get a (PBlock [8;9;3]) = None
    /\ forallb all_own (run_states ex_pre backup4 ex_a3 ex4_phi) = true
    /\ length (run_states ex_pre backup4 ex_a3 ex4_phi) = 29%nat.
  Proof. vm_compute. repeat split; reflexivity. Qed.

  (* a crash that leaves a zero-length index hunk: nothing is recorded, nothing is wrong *)
  Example ex4_crash :
    snd (run ex_pre backup4 ex_a3 ex4_phi_crash) = Crashed
    /\ get (final backup4 ex_a3 ex4_phi_crash) (PHunk 2 0) = Some Empty
    /\ forallb all_own (run_states ex_pre backup4 ex_a3 ex4_phi_crash) = true
    /\ paths_of (final backup4 ex_a3 ex4_phi_crash) = [].
  Proof. vm_compute. repeat split; reflexivity. Qed.

  (* the check is not trivially true: an entry for "/d" pointing at the bytes of "/a" *)
  Definition ex4_wrong : entry :=
    with_addrs (meta_from false (mk_s [47;100] KFile 2 3000000000))
      [{| a_hash := [8;9;3]; a_start := 0; a_len := 2 |}].
  Example ex4_wrong_detected :
    content_of (final backup4 ex_a3 []) ex4_wrong = Some [8;9]
    /\ reads_own_bytes ex4_src (final backup4 ex_a3 []) ex4_wrong = false.
  Proof. vm_compute. split; reflexivity. Qed.

  (* the same facts as instances of the theorems *)
  Lemma ex4_AInv : AInv ex_a3.
  Proof. apply ainv_b_sound. vm_compute. reflexivity. Qed.
  Lemma ex4_DirsWF : DirsWF ex_pre ex_a3.
  Proof. apply dirswf_b_sound. vm_compute. reflexivity. Qed.
  Lemma ex4_SrcOK : SrcOK ex4_src.
  Proof. apply srcok_b_sound. vm_compute. reflexivity. Qed.
  Lemma ex4_cfg_ok : cfg_ok ex4_cfg.
  Proof. unfold cfg_ok. cbn. lia. Qed.
  Lemma ex4_new_band : new_band ex_a3 = 2.
  Proof. vm_compute. reflexivity. Qed.

  Example ex4_truthful_thm :
    Forall (HunksTruthful ex4_cfg ex4_src ex_a3 2) (run_states ex_pre backup4 ex_a3 ex4_phi)
    /\ HunksTruthful ex4_cfg ex4_src ex_a3 2 (final backup4 ex_a3 ex4_phi).
  Proof.
    destruct (backup_new_entries_truthful ex_pre ex4_cfg ex4_src ex_a3 ex4_phi
                ex4_AInv ex4_SrcOK ex4_cfg_ok) as (H1 & H2 & _).
    rewrite ex4_new_band in H1, H2. split; assumption.
  Qed.

  (* the entries the faulty run recorded *)
  Definition ex4_es : list entry :=
    Eval vm_compute in
      match get (final backup4 ex_a3 ex4_phi) (PHunk 2 0) with Some (Good (PlHunk es)) => es | _ => [] end.
  Definition ex4_e_b : entry := Eval vm_compute in nth 1 ex4_es ex4_wrong.     (* "/b", reused *)
  Definition ex4_e_d : entry := Eval vm_compute in nth 2 ex4_es ex4_wrong.     (* "/d", fresh *)

  Example ex4_recorded :
    Recorded (final backup4 ex_a3 ex4_phi) 2 ex4_e_b /\ Recorded (final backup4 ex_a3 ex4_phi) 2 ex4_e_d
    /\ e_apath ex4_e_b = [47;98] /\ e_apath ex4_e_d = [47;100]
    /\ e_kind ex4_e_b = KFile /\ e_kind ex4_e_d = KFile.
  Proof.
    split; [|split].
    - exists 0, ex4_es. split; [vm_compute; reflexivity | right; left; reflexivity].
    - exists 0, ex4_es. split; [vm_compute; reflexivity | right; right; left; reflexivity].
    - repeat split; reflexivity.
  Qed.

  Example ex4_recorded_truthful_all : forall e,
    Recorded (final backup4 ex_a3 ex4_phi) 2 e -> e_kind e = KFile ->
    Truthful ex4_cfg ex4_src ex_a3 2 (final backup4 ex_a3 ex4_phi) e.
  Proof.
    pose proof (backup_recorded_truthful ex_pre ex4_cfg ex4_src ex_a3 ex4_phi
                  ex4_AInv ex4_DirsWF ex4_SrcOK ex4_cfg_ok _ (or_intror eq_refl)) as H.
    rewrite ex4_new_band in H. exact H.
  Qed.
  Example ex4_recorded_truthful_thm :
    Truthful ex4_cfg ex4_src ex_a3 2 (final backup4 ex_a3 ex4_phi) ex4_e_b
    /\ Truthful ex4_cfg ex4_src ex_a3 2 (final backup4 ex_a3 ex4_phi) ex4_e_d.
  Proof.
    destruct ex4_recorded as (R1 & R2 & _).
    split; apply ex4_recorded_truthful_all; [exact R1 | reflexivity | exact R2 | reflexivity].
  Qed.

  (* success means complete: the clean run; the faulty run reports its loss *)
  Example ex4_complete_thm : Complete ex4_src (final backup4 ex_a3 []) 2.
  Proof.
    destruct (backup_success_complete ex_pre ex4_cfg ex4_src ex_a3 []
                {| b_ok := true; b_errors := 0; b_merr := 0; b_written := 4; b_deleted := 0; b_band := Some 2 |})
      as [H _].
    - apply (new_band_no_hunks ex_pre). exact ex4_DirsWF.
    - vm_compute. reflexivity.
    - reflexivity.
    - reflexivity.
    - rewrite ex4_new_band in H. exact H.
  Qed.
  Example ex4_complete_checked :
    map e_apath (rec_upto (final backup4 ex_a3 []) 2 1) = kpaths ex4_src
    /\ length (kpaths ex4_src) = 8%nat.
  Proof. vm_compute. split; reflexivity. Qed.
  Example ex4_skipped_reported :
    existsb (fun e => str_eqb (e_apath e) [47;97]) (band_entries (final backup4 ex_a3 ex4_phi) 2) = false
    /\ existsb (fun e => str_eqb (e_apath e) [47;99]) (band_entries (final backup4 ex_a3 ex4_phi) 2) = false
    /\ (match snd (run ex_pre backup4 ex_a3 ex4_phi) with Done r => b_errors r | _ => 0 end) = 1.
  Proof. vm_compute. repeat split; reflexivity. Qed.

  (* never_panics: a band head with an unparsable version is an error, not a panic *)
  Definition ex_badhead : arch :=
    fst (exec ex_pre ex_a3 (OpWrite (PHead 1) (PlHead HvUnparsable) Overwrite) NoFault).
  Example ex_no_panic :
    snd (run ex_pre (restore_prog Latest keep_all) ex_badhead [])
    = Done {| r_ok := false; r_files := []; r_merr := 0 |}
    /\ snd (run ex_pre (validate_prog false []) ex_badhead []) = Done {| v_ok := true; v_errors := 1 |}
    /\ snd (run ex_pre (list_prog LatestClosed keep_all) ex_badhead [])
       = snd (run ex_pre (list_prog (Specified 0) keep_all) ex_badhead [])
    /\ snd (run ex_pre (delete_prog [0] false false []) ex_badhead []) = Done dfail
    /\ snd (run ex_pre (backup 7) ex_badhead [])
       = Done {| b_ok := true; b_errors := 0; b_merr := 1; b_written := 0; b_deleted := 0; b_band := Some 2 |}.
  Proof. vm_compute. repeat split; reflexivity. Qed.
End TruthExamples.
