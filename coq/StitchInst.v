(* Executable instance of the stitching model (Stitch.v) for evaluation with vm_compute:
   keys are apaths (`str` ordered by `apath_cmp`), an entry is (apath, tag), the archive is an
   association list from band number to (head exists, opens, closed, hunks).
   Model file: definitions and closed `Example`s only. *)
From Coq Require Import String Ascii.
From CV Require Import Base.Str Apath Stitch.
Open Scope N_scope.

Definition ient := (str * N)%type.                       (* (apath, tag) *)
Definition ikey (x : ient) : str := fst x.

(* (BANDHEAD exists, Band::open succeeds, BANDTAIL exists, hunks in hunk-number order) *)
Definition iband := (bool * bool * bool * list (option (list ient)))%type.

Definition mk_band (b : iband) : band ient :=
  let '(h, o, c, hs) := b in Build_band h o c hs.

(* first binding of a band number wins *)
Definition arch_of (bands : list (N * iband)) : arch ient :=
  fun m => match find (fun p => N.eqb (fst p) (N.of_nat m)) bands with
           | Some (_, b) => Some (mk_band b)
           | None => None
           end.

(* `Stitch::new(archive, n, root, Exclude::nothing())` collected *)
Definition stitch_list (bands : list (N * iband)) (n : N) : list ient :=
  stitch_start str apath_cmp ient ikey (arch_of bands) (N.to_nat n).

(* with a yield-time filter (subtree / exclusions) *)
Definition stitch_list_keep (keep : ient -> bool) (bands : list (N * iband)) (n : N) : list ient :=
  stitch_keep str apath_cmp ient ikey keep (arch_of bands) (N.to_nat n).

(* the specification, same interface *)
Definition stitch_spec_list (bands : list (N * iband)) (n : N) : list ient :=
  stitch_spec str apath_cmp ient ikey (arch_of bands) (N.to_nat n) None.

(* the literal state machine with fuel, same interface; None = out of fuel *)
Definition stitch_machine_list (bands : list (N * iband)) (n : N) : option (list ient) :=
  machine_run str apath_cmp ient ikey (2 * N.to_nat n + 3) (keep_all ient)
              (arch_of bands) (BeforeBand (N.to_nat n)) None.

(* hunk iterator alone: `IndexHunkIter` over `hs` after `advance_to_after(x)` / without *)
Definition hunk_iter_list (hs : list (option (list ient))) (after : option str) : list ient :=
  fst (band_loop str apath_cmp ient ikey (keep_all ient) hs after None).

(* ---- string literals for the examples ---- *)
Fixpoint lit (x : string) : str :=
  match x with
  | EmptyString => []
  | String c r => N_of_ascii c :: lit r
  end.

Definition ent (p : string) (tag : N) : ient := (lit p, tag).

(* ---- examples ---- *)

(* Band 0 complete; band 1 incomplete; band 2 incomplete and its last hunk straddles band 1's
   hunk boundary.  Tags say which band an entry came from. *)
Definition ex_chain : list (N * iband) :=
  [ (0, (true, true, true,
         [Some [ent "/" 0; ent "/a" 0; ent "/b" 0]; Some [ent "/c" 0; ent "/d" 0; ent "/e" 0; ent "/f" 0]]));
    (1, (true, true, false,
         [Some [ent "/" 1; ent "/a" 1]; Some [ent "/b" 1; ent "/c" 1; ent "/d" 1]]));
    (2, (true, true, false,
         [Some [ent "/" 2; ent "/a" 2]; Some [ent "/b" 2; ent "/bb" 2]])) ].

Example ex_chain_2 :
  stitch_list ex_chain 2 =
  [ent "/" 2; ent "/a" 2; ent "/b" 2; ent "/bb" 2; ent "/c" 1; ent "/d" 1; ent "/e" 0; ent "/f" 0].
Proof. vm_compute. reflexivity. Qed.

Example ex_chain_1 :
  stitch_list ex_chain 1 = [ent "/" 1; ent "/a" 1; ent "/b" 1; ent "/c" 1; ent "/d" 1; ent "/e" 0; ent "/f" 0].
Proof. vm_compute. reflexivity. Qed.

(* a complete band is just its own index *)
Example ex_chain_0 :
  stitch_list ex_chain 0 = [ent "/" 0; ent "/a" 0; ent "/b" 0; ent "/c" 0; ent "/d" 0; ent "/e" 0; ent "/f" 0].
Proof. vm_compute. reflexivity. Qed.

Example ex_chain_spec : stitch_list ex_chain 2 = stitch_spec_list ex_chain 2.
Proof. vm_compute. reflexivity. Qed.
Example ex_chain_machine : stitch_machine_list ex_chain 2 = Some (stitch_list ex_chain 2).
Proof. vm_compute. reflexivity. Qed.

(* Apath order, not byte order: "/a/x" sorts AFTER "/b" (files of a directory come before its
   subdirectories' contents).  Band 1 stopped inside "/a/..."; band 0 supplies the rest. *)
Definition ex_apath_order : list (N * iband) :=
  [ (0, (true, true, true, [Some [ent "/" 0; ent "/a" 0; ent "/b" 0; ent "/a/x" 0; ent "/a/y" 0]]));
    (1, (true, true, false, [Some [ent "/" 1; ent "/a" 1; ent "/b" 1; ent "/a/x" 1]])) ].
Example ex_apath_order_1 :
  stitch_list ex_apath_order 1 = [ent "/" 1; ent "/a" 1; ent "/b" 1; ent "/a/x" 1; ent "/a/y" 0].
Proof. vm_compute. reflexivity. Qed.

(* A deleted band in between (3 and 2 missing; 4 has a directory but no BANDHEAD, so it does
   not "exist"): 5 continues with 1. *)
Definition ex_deleted : list (N * iband) :=
  [ (5, (true, true, false, [Some [ent "/" 5; ent "/a" 5]]));
    (4, (false, false, false, [Some [ent "/" 4; ent "/a" 4; ent "/b" 4; ent "/c" 4]]));
    (1, (true, true, false, [Some [ent "/" 1; ent "/a" 1; ent "/b" 1]]));
    (0, (true, true, true, [Some [ent "/" 0; ent "/a" 0; ent "/b" 0; ent "/c" 0]])) ].
Example ex_deleted_5 : stitch_list ex_deleted 5 = [ent "/" 5; ent "/a" 5; ent "/b" 1; ent "/c" 0].
Proof. vm_compute. reflexivity. Qed.
Example ex_deleted_spec : stitch_list ex_deleted 5 = stitch_spec_list ex_deleted 5.
Proof. vm_compute. reflexivity. Qed.

(* An unopenable band in the chain (head exists but e.g. unsupported version): it yields
   nothing and, having no tail, the descent continues below it. *)
Definition ex_unopenable : list (N * iband) :=
  [ (2, (true, true, false, [Some [ent "/" 2; ent "/a" 2]]));
    (1, (true, false, false, [Some [ent "/" 1; ent "/a" 1; ent "/b" 1]]));
    (0, (true, true, true, [Some [ent "/" 0; ent "/a" 0; ent "/b" 0; ent "/c" 0]])) ].
Example ex_unopenable_2 : stitch_list ex_unopenable 2 = [ent "/" 2; ent "/a" 2; ent "/b" 0; ent "/c" 0].
Proof. vm_compute. reflexivity. Qed.

(* ... but an unopenable band WITH a tail file stops the descent: `band_is_closed` only looks
   at BANDTAIL. *)
Definition ex_unopenable_closed : list (N * iband) :=
  [ (2, (true, true, false, [Some [ent "/" 2; ent "/a" 2]]));
    (1, (true, false, true, [Some [ent "/" 1; ent "/a" 1; ent "/b" 1]]));
    (0, (true, true, true, [Some [ent "/" 0; ent "/a" 0; ent "/b" 0; ent "/c" 0]])) ].
Example ex_unopenable_closed_2 : stitch_list ex_unopenable_closed 2 = [ent "/" 2; ent "/a" 2].
Proof. vm_compute. reflexivity. Qed.

(* The start band does not exist at all: nothing is read from it, and the descent starts. *)
Example ex_start_missing : stitch_list ex_unopenable 7 = [ent "/" 2; ent "/a" 2; ent "/b" 0; ent "/c" 0].
Proof. vm_compute. reflexivity. Qed.

(* An older band that ends EARLIER than what was already seen contributes nothing; an
   undecodable hunk (None) and an empty hunk are skipped. *)
Definition ex_short_older : list (N * iband) :=
  [ (2, (true, true, false, [Some [ent "/" 2; ent "/a" 2; ent "/m" 2]]));
    (1, (true, true, false, [Some [ent "/" 1; ent "/b" 1]; None; Some []; Some [ent "/c" 1]]));
    (0, (true, true, false, [None; Some [ent "/" 0; ent "/k" 0]; Some [ent "/z" 0]])) ].
Example ex_short_older_2 : stitch_list ex_short_older 2 = [ent "/" 2; ent "/a" 2; ent "/m" 2; ent "/z" 0].
Proof. vm_compute. reflexivity. Qed.
Example ex_short_older_spec : stitch_list ex_short_older 2 = stitch_spec_list ex_short_older 2.
Proof. vm_compute. reflexivity. Qed.

(* The yield-time filter does not influence where older bands are picked up. *)
Definition not_a (x : ient) : bool := negb (str_eqb (fst x) (lit "/a") || str_eqb (fst x) (lit "/bb")).
Example ex_keep :
  stitch_list_keep not_a ex_chain 2 = [ent "/" 2; ent "/b" 2; ent "/c" 1; ent "/d" 1; ent "/e" 0; ent "/f" 0].
Proof. vm_compute. reflexivity. Qed.

(* Hunk iterator quirks: an empty hunk is returned as `Some []` while `after` is set (no visible
   effect on the flattened output), and skipped otherwise. *)
Example ex_hunk_empty_after :
  hunk_step str apath_cmp ient ikey (Some []) (Some (lit "/a")) = (Some [], Some (lit "/a")).
Proof. vm_compute. reflexivity. Qed.
Example ex_hunk_empty_none :
  hunk_step str apath_cmp ient ikey (Some []) None = (None, None).
Proof. vm_compute. reflexivity. Qed.
Example ex_hunk_iter :
  hunk_iter_list [Some [ent "/" 0; ent "/a" 0]; Some [ent "/b" 0; ent "/c" 0; ent "/d" 0]; Some [ent "/e" 0]]
                 (Some (lit "/c")) = [ent "/d" 0; ent "/e" 0].
Proof. vm_compute. reflexivity. Qed.

(* ---- executable check of the hypothesis `BandsSorted` of the theorems in StitchP.v ---- *)

(* adjacent keys strictly increasing in apath order *)
Fixpoint adj_sortedb (l : list str) : bool :=
  match l with
  | x :: ((y :: _) as l') => apath_ltb x y && adj_sortedb l'
  | _ => true
  end.

(* bands that do not open are never read: nothing is required of them *)
Definition band_sortedb (b : iband) : bool :=
  let '(_, o, _, hs) := b in negb o || adj_sortedb (map ikey (hunks_entries ient hs)).

Definition bands_sortedb (bands : list (N * iband)) : bool :=
  forallb (fun p => band_sortedb (snd p)) bands.

Example ex_chain_sorted : bands_sortedb ex_chain = true.
Proof. vm_compute. reflexivity. Qed.

(* Why sortedness ACROSS hunks is needed for machine = rule: every hunk below is sorted, but the
   second hunk of band 0 starts below the end of the first.  Once a hunk lies entirely after
   `after`, IndexHunkIter clears `after` and returns all later hunks whole, so "/a" (<= "/c",
   already covered by band 1) is listed again, out of order. *)
Definition ex_overlap : list (N * iband) :=
  [ (1, (true, true, false, [Some [ent "/" 1; ent "/c" 1]]));
    (0, (true, true, true, [Some [ent "/d" 0]; Some [ent "/a" 0; ent "/e" 0]])) ].
Example ex_overlap_unsorted : bands_sortedb ex_overlap = false.
Proof. vm_compute. reflexivity. Qed.
Example ex_overlap_1 :
  stitch_list ex_overlap 1 = [ent "/" 1; ent "/c" 1; ent "/d" 0; ent "/a" 0; ent "/e" 0].
Proof. vm_compute. reflexivity. Qed.
Example ex_overlap_spec :
  stitch_spec_list ex_overlap 1 = [ent "/" 1; ent "/c" 1; ent "/d" 0; ent "/e" 0].
Proof. vm_compute. reflexivity. Qed.

(* The unit test `stitch_index` of src/index/stitch.rs, transcribed (tag = band that wrote the
   entry): b0 incomplete, b1 complete, b2 incomplete ("/1" deleted), b3 deleted, b4 exists with
   no hunks, b5 incomplete.  Expected strings are those asserted by the Rust test. *)
Definition ex_rust_test : list (N * iband) :=
  [ (0, (true, true, false, [Some [ent "/0" 0; ent "/1" 0]; Some [ent "/2" 0]]));
    (1, (true, true, true, [Some [ent "/0" 1; ent "/1" 1]; Some [ent "/2" 1; ent "/3" 1]]));
    (2, (true, true, false, [Some [ent "/0" 2]; Some [ent "/2" 2]]));
    (4, (true, true, false, []));
    (5, (true, true, false, [Some [ent "/0" 5; ent "/00" 5]])) ].
Example ex_rust_test_0 : stitch_list ex_rust_test 0 = [ent "/0" 0; ent "/1" 0; ent "/2" 0].
Proof. vm_compute. reflexivity. Qed.
Example ex_rust_test_1 :
  stitch_list ex_rust_test 1 = [ent "/0" 1; ent "/1" 1; ent "/2" 1; ent "/3" 1].
Proof. vm_compute. reflexivity. Qed.
Example ex_rust_test_2 : stitch_list ex_rust_test 2 = [ent "/0" 2; ent "/2" 2; ent "/3" 1].
Proof. vm_compute. reflexivity. Qed.
Example ex_rust_test_4 : stitch_list ex_rust_test 4 = [ent "/0" 2; ent "/2" 2; ent "/3" 1].
Proof. vm_compute. reflexivity. Qed.
Example ex_rust_test_5 :
  stitch_list ex_rust_test 5 = [ent "/0" 5; ent "/00" 5; ent "/2" 2; ent "/3" 1].
Proof. vm_compute. reflexivity. Qed.
