(* Proofs about the diff / change-report model (C18). *)
From Coq Require Import List NArith ZArith Bool Lia Sorting.Sorted.
From CV Require Import Base.Str Base.Order Base.StrP Apath ApathP Entry Diff.
Import ListNotations.

(* ------------------------------------------------------------------ *)
(* Boolean equalities decide equality.                                  *)

Lemma kind_eqb_eq a b : kind_eqb a b = true <-> a = b.
Proof. destruct a, b; cbn; split; congruence. Qed.

Lemma opt_str_eqb_eq a b : opt_str_eqb a b = true <-> a = b.
Proof.
  destruct a as [x|], b as [y|]; cbn; try (split; congruence).
  rewrite str_eqb_eq. split; congruence.
Qed.

Lemma optN_eqb_eq a b : optN_eqb a b = true <-> a = b.
Proof.
  destruct a as [x|], b as [y|]; cbn; try (split; congruence).
  rewrite N.eqb_eq. split; congruence.
Qed.

Lemma addr_eqb_eq x y : addr_eqb x y = true <-> x = y.
Proof.
  destruct x as [h1 s1 l1], y as [h2 s2 l2]. unfold addr_eqb. cbn.
  rewrite !andb_true_iff, str_eqb_eq, !N.eqb_eq. split.
  - intros [[-> ->] ->]. reflexivity.
  - intros H. inversion H. auto.
Qed.

Lemma list_eqb_eq {A} (eqb : A -> A -> bool)
      (H : forall x y, eqb x y = true <-> x = y) l :
  forall m, list_eqb eqb l m = true <-> l = m.
Proof.
  induction l as [|x l IH]; intros [|y m]; cbn; try (split; congruence).
  rewrite andb_true_iff, H, IH. split.
  - intros [-> ->]. reflexivity.
  - intros E. inversion E. auto.
Qed.

Lemma entry_eqb_eq x y : entry_eqb x y = true <-> x = y.
Proof.
  destruct x, y. unfold entry_eqb. cbn.
  rewrite !andb_true_iff, str_eqb_eq, kind_eqb_eq, Z.eqb_eq, !N.eqb_eq, !opt_str_eqb_eq,
    (list_eqb_eq addr_eqb addr_eqb_eq).
  split.
  - intros H. decompose [and] H. subst. reflexivity.
  - intros H. inversion H. subst. repeat split; reflexivity.
Qed.

Lemma negb_iff (b : bool) (P : Prop) : (b = true <-> P) -> (negb b = true <-> ~ P).
Proof.
  intros H. destruct b; cbn; split; intros H1.
  - discriminate.
  - exfalso. apply H1, H. reflexivity.
  - intros HP. apply H in HP. discriminate.
  - reflexivity.
Qed.

(* ------------------------------------------------------------------ *)
(* dres / collect                                                       *)

Lemma dmap_ok {A B} (f : A -> B) r y : dmap f r = DOk y <-> exists x, r = DOk x /\ y = f x.
Proof.
  destruct r as [x|]; cbn; split.
  - intros [= <-]. exists x. auto.
  - intros (x' & [= <-] & ->). reflexivity.
  - discriminate.
  - intros (x' & E & _). discriminate.
Qed.

Lemma collect_cons_ok {A B} (f : A -> dres (option B)) x l r :
  collect f (x :: l) = DOk r <->
  exists o r', f x = DOk o /\ collect f l = DOk r' /\
               r = match o with Some y => y :: r' | None => r' end.
Proof.
  cbn [collect]. destruct (f x) as [o|]; [destruct (collect f l) as [r'|]|]; split.
  - intros [= <-]. exists o, r'. auto.
  - intros (o' & r'' & [= <-] & [= <-] & ->). reflexivity.
  - discriminate.
  - intros (o' & r'' & _ & E & _). discriminate.
  - discriminate.
  - intros (o' & r'' & E & _). discriminate.
Qed.

Lemma collect_in {A B} (f : A -> dres (option B)) l :
  forall r, collect f l = DOk r ->
  forall y, In y r <-> exists x, In x l /\ f x = DOk (Some y).
Proof.
  induction l as [|x l IH]; intros r Hr y.
  - cbn in Hr. injection Hr as <-. cbn. split; [tauto | intros (x & [] & _)].
  - apply collect_cons_ok in Hr. destruct Hr as (o & r' & Hx & Hl & ->).
    specialize (IH r' Hl y). destruct o as [y'|].
    + cbn [In]. rewrite IH. split.
      * intros [<- | (x' & Hin & Hf)]; [exists x; auto | exists x'; auto].
      * intros (x' & [<- | Hin] & Hf).
        -- left. congruence.
        -- right. exists x'. auto.
    + rewrite IH. split.
      * intros (x' & Hin & Hf). exists x'. cbn. auto.
      * intros (x' & [<- | Hin] & Hf); [congruence | exists x'; auto].
Qed.

Lemma collect_ok_each {A B} (f : A -> dres (option B)) l :
  forall r, collect f l = DOk r -> forall x, In x l -> exists o, f x = DOk o.
Proof.
  induction l as [|x l IH]; intros r Hr x' Hin; [destruct Hin|].
  apply collect_cons_ok in Hr. destruct Hr as (o & r' & Hx & Hl & _).
  destruct Hin as [<- | Hin]; [exists o; exact Hx | eapply IH; eauto].
Qed.

Lemma collect_total {A B} (f : A -> dres (option B)) l :
  (forall x, In x l -> exists o, f x = DOk o) -> exists r, collect f l = DOk r.
Proof.
  induction l as [|x l IH]; intros H.
  - exists []. reflexivity.
  - destruct (H x (or_introl eq_refl)) as [o Ho].
    destruct IH as [r Hr]; [intros x' Hin; apply H; right; exact Hin|].
    cbn [collect]. rewrite Ho, Hr. eauto.
Qed.

(* ------------------------------------------------------------------ *)
(* merge: unfolding equations and an induction principle                *)

Lemma merge_nil_nil : merge [] [] = [].
Proof. reflexivity. Qed.
Lemma merge_cons_nil a la : merge (a :: la) [] = MLeft a :: merge la [].
Proof. reflexivity. Qed.
Lemma merge_nil_cons b lb : merge [] (b :: lb) = MRight b :: merge [] lb.
Proof. reflexivity. Qed.
Lemma merge_cons_cons a la b lb :
  merge (a :: la) (b :: lb) =
  match apath_cmp (e_apath a) (s_apath b) with
  | Eq => MBoth a b :: merge la lb
  | Lt => MLeft a :: merge la (b :: lb)
  | Gt => MRight b :: merge (a :: la) lb
  end.
Proof. reflexivity. Qed.

Lemma merge_ind (P : list entry -> list sentry -> list matched -> Prop) :
  P [] [] [] ->
  (forall a la, P la [] (merge la []) -> P (a :: la) [] (MLeft a :: merge la [])) ->
  (forall b lb, P [] lb (merge [] lb) -> P [] (b :: lb) (MRight b :: merge [] lb)) ->
  (forall a la b lb, apath_cmp (e_apath a) (s_apath b) = Eq ->
      P la lb (merge la lb) -> P (a :: la) (b :: lb) (MBoth a b :: merge la lb)) ->
  (forall a la b lb, apath_cmp (e_apath a) (s_apath b) = Lt ->
      P la (b :: lb) (merge la (b :: lb)) -> P (a :: la) (b :: lb) (MLeft a :: merge la (b :: lb))) ->
  (forall a la b lb, apath_cmp (e_apath a) (s_apath b) = Gt ->
      P (a :: la) lb (merge (a :: la) lb) -> P (a :: la) (b :: lb) (MRight b :: merge (a :: la) lb)) ->
  forall la lb, P la lb (merge la lb).
Proof.
  intros H00 HL0 H0R HE HL HG.
  induction la as [|a la IHa].
  - induction lb as [|b lb IHb]; [exact H00|]. rewrite merge_nil_cons. apply H0R, IHb.
  - induction lb as [|b lb IHb].
    + rewrite merge_cons_nil. apply HL0, IHa.
    + rewrite merge_cons_cons. destruct (apath_cmp (e_apath a) (s_apath b)) eqn:E.
      * apply HE; [exact E | apply IHa].
      * apply HL; [exact E | apply IHa].
      * apply HG; [exact E | apply IHb].
Qed.

(* ------------------------------------------------------------------ *)
(* Theorem 1: merge is the outer join of the two sorted streams         *)

Definition path_lt (p q : str) : Prop := apath_cmp p q = Lt.

Definition SortedE (l : list entry) : Prop :=
  StronglySorted (fun x y => apath_cmp (e_apath x) (e_apath y) = Lt) l.
Definition SortedS (l : list sentry) : Prop :=
  StronglySorted (fun x y => apath_cmp (s_apath x) (s_apath y) = Lt) l.

Definition m_path (m : matched) : str :=
  match m with MLeft a => e_apath a | MRight b => s_apath b | MBoth a _ => e_apath a end.
Definition m_left (m : matched) : option entry :=
  match m with MLeft a => Some a | MRight _ => None | MBoth a _ => Some a end.
Definition m_right (m : matched) : option sentry :=
  match m with MLeft _ => None | MRight b => Some b | MBoth _ b => Some b end.

Definition SortedM (l : list matched) : Prop :=
  StronglySorted (fun x y => apath_cmp (m_path x) (m_path y) = Lt) l.

Definition olist {A} (o : option A) : list A := match o with Some x => [x] | None => [] end.
Definition lefts (ms : list matched) : list entry := flat_map (fun m => olist (m_left m)) ms.
Definition rights (ms : list matched) : list sentry := flat_map (fun m => olist (m_right m)) ms.

Lemma merge_lefts la lb : lefts (merge la lb) = la.
Proof.
  apply (merge_ind (fun la lb ms => lefts ms = la)); clear; unfold lefts; intros;
    cbn [flat_map olist m_left app]; congruence.
Qed.

Lemma merge_rights la lb : rights (merge la lb) = lb.
Proof.
  apply (merge_ind (fun la lb ms => rights ms = lb)); clear; unfold rights; intros;
    cbn [flat_map olist m_right app]; congruence.
Qed.

Lemma in_lefts ms a : In a (lefts ms) <-> exists m, In m ms /\ m_left m = Some a.
Proof.
  unfold lefts. rewrite in_flat_map. split; intros (m & Hm & H); exists m; split; auto.
  - destruct (m_left m); cbn in H; [destruct H as [<-|[]]; reflexivity | destruct H].
  - rewrite H. cbn. auto.
Qed.

Lemma in_rights ms b : In b (rights ms) <-> exists m, In m ms /\ m_right m = Some b.
Proof.
  unfold rights. rewrite in_flat_map. split; intros (m & Hm & H); exists m; split; auto.
  - destruct (m_right m); cbn in H; [destruct H as [<-|[]]; reflexivity | destruct H].
  - rewrite H. cbn. auto.
Qed.

Definition both_ok (m : matched) : Prop :=
  match m with MBoth a b => e_apath a = s_apath b | _ => True end.

Lemma merge_both_ok la lb : Forall both_ok (merge la lb).
Proof.
  apply (merge_ind (fun _ _ ms => Forall both_ok ms)); clear; intros;
    try (constructor; [exact I | assumption]).
  - constructor.
  - constructor; [|assumption]. cbn. apply apath_cmp_eq. assumption.
Qed.

Lemma merge_lower_bound p la lb :
  Forall (fun a => path_lt p (e_apath a)) la ->
  Forall (fun b => path_lt p (s_apath b)) lb ->
  Forall (fun m => path_lt p (m_path m)) (merge la lb).
Proof.
  apply (merge_ind (fun la lb ms =>
    Forall (fun a => path_lt p (e_apath a)) la ->
    Forall (fun b => path_lt p (s_apath b)) lb ->
    Forall (fun m => path_lt p (m_path m)) ms)); clear la lb.
  - constructor.
  - intros a la IH Ha Hb. inversion Ha; subst. constructor; auto.
  - intros b lb IH Ha Hb. inversion Hb; subst. constructor; auto.
  - intros a la b lb E IH Ha Hb. inversion Ha; subst. inversion Hb; subst. constructor; auto.
  - intros a la b lb E IH Ha Hb. inversion Ha; subst. constructor; auto.
  - intros a la b lb E IH Ha Hb. inversion Hb; subst. constructor; auto.
Qed.

Lemma Forall_lt_trans {A} (key : A -> str) p q l :
  path_lt p q -> Forall (fun x => path_lt q (key x)) l -> Forall (fun x => path_lt p (key x)) l.
Proof.
  intros Hpq H. eapply Forall_impl; [|exact H]. cbn. intros x Hx.
  exact (apath_cmp_trans _ _ _ Hpq Hx).
Qed.

Lemma merge_sorted la lb : SortedE la -> SortedS lb -> SortedM (merge la lb).
Proof.
  apply (merge_ind (fun la lb ms => SortedE la -> SortedS lb -> SortedM ms)); clear la lb.
  - intros _ _. constructor.
  - intros a la IH Ha Hb. apply StronglySorted_inv in Ha. destruct Ha as [Ha1 Ha2].
    constructor; [apply IH; assumption|].
    apply (merge_lower_bound (e_apath a)); [exact Ha2 | constructor].
  - intros b lb IH Ha Hb. apply StronglySorted_inv in Hb. destruct Hb as [Hb1 Hb2].
    constructor; [apply IH; assumption|].
    apply (merge_lower_bound (s_apath b)); [constructor | exact Hb2].
  - intros a la b lb E IH Ha Hb.
    apply StronglySorted_inv in Ha. destruct Ha as [Ha1 Ha2].
    apply StronglySorted_inv in Hb. destruct Hb as [Hb1 Hb2].
    apply apath_cmp_eq in E.
    constructor; [apply IH; assumption|].
    apply (merge_lower_bound (e_apath a)); [exact Ha2 | rewrite E; exact Hb2].
  - intros a la b lb E IH Ha Hb.
    apply StronglySorted_inv in Ha. destruct Ha as [Ha1 Ha2].
    pose proof Hb as Hb'. apply StronglySorted_inv in Hb'. destruct Hb' as [Hb1 Hb2].
    constructor; [apply IH; assumption|].
    apply (merge_lower_bound (e_apath a)); [exact Ha2|].
    constructor; [exact E|]. exact (Forall_lt_trans s_apath _ _ _ E Hb2).
  - intros a la b lb E IH Ha Hb.
    pose proof Ha as Ha'. apply StronglySorted_inv in Ha'. destruct Ha' as [Ha1 Ha2].
    apply StronglySorted_inv in Hb. destruct Hb as [Hb1 Hb2].
    apply (co_gt_lt apath_cmp apath_order) in E.
    constructor; [apply IH; assumption|].
    apply (merge_lower_bound (s_apath b)); [|exact Hb2].
    constructor; [exact E|]. exact (Forall_lt_trans e_apath _ _ _ E Ha2).
Qed.

(* In a strictly sorted list the key determines the element. *)
Lemma sorted_key_inj {A} (key : A -> str) l :
  StronglySorted (fun x y => apath_cmp (key x) (key y) = Lt) l ->
  forall x y, In x l -> In y l -> key x = key y -> x = y.
Proof.
  induction 1 as [|h l Hs IH Hall]; intros x y Hx Hy E; [destruct Hx|].
  rewrite Forall_forall in Hall.
  destruct Hx as [<- | Hx], Hy as [<- | Hy].
  - reflexivity.
  - specialize (Hall _ Hy). rewrite E, apath_cmp_refl in Hall. discriminate.
  - specialize (Hall _ Hx). rewrite <- E, apath_cmp_refl in Hall. discriminate.
  - apply IH; assumption.
Qed.

Lemma both_ok_right_path m b : both_ok m -> m_right m = Some b -> m_path m = s_apath b.
Proof. destruct m; cbn; intros H [= <-]; auto. Qed.
Lemma left_path m a : m_left m = Some a -> m_path m = e_apath a.
Proof. destruct m; cbn; intros [= <-]; auto. Qed.

Lemma merge_in_both la lb a b :
  SortedE la -> SortedS lb ->
  (In (MBoth a b) (merge la lb) <-> In a la /\ In b lb /\ e_apath a = s_apath b).
Proof.
  intros Ha Hb. pose proof (merge_sorted la lb Ha Hb) as Hs.
  pose proof (merge_both_ok la lb) as Hok. rewrite Forall_forall in Hok.
  split.
  - intros Hin. split; [|split].
    + rewrite <- (merge_lefts la lb). apply in_lefts. exists (MBoth a b). auto.
    + rewrite <- (merge_rights la lb). apply in_rights. exists (MBoth a b). auto.
    + exact (Hok _ Hin).
  - intros (Hina & Hinb & E).
    rewrite <- (merge_lefts la lb) in Hina. apply in_lefts in Hina.
    destruct Hina as (m1 & Hm1 & L1).
    rewrite <- (merge_rights la lb) in Hinb. apply in_rights in Hinb.
    destruct Hinb as (m2 & Hm2 & R2).
    assert (m1 = m2) as <-.
    { apply (sorted_key_inj m_path _ Hs); auto.
      rewrite (left_path _ _ L1), (both_ok_right_path _ _ (Hok _ Hm2) R2). exact E. }
    destruct m1; cbn in L1, R2; try discriminate.
    injection L1 as <-. injection R2 as <-. exact Hm1.
Qed.

Lemma merge_in_left la lb a :
  SortedE la -> SortedS lb ->
  (In (MLeft a) (merge la lb) <-> In a la /\ forall b, In b lb -> s_apath b <> e_apath a).
Proof.
  intros Ha Hb. pose proof (merge_sorted la lb Ha Hb) as Hs.
  pose proof (merge_both_ok la lb) as Hok. rewrite Forall_forall in Hok.
  split.
  - intros Hin. split.
    + rewrite <- (merge_lefts la lb). apply in_lefts. exists (MLeft a). auto.
    + intros b Hinb E.
      rewrite <- (merge_rights la lb) in Hinb. apply in_rights in Hinb.
      destruct Hinb as (m2 & Hm2 & R2).
      assert (MLeft a = m2) as <-.
      { apply (sorted_key_inj m_path _ Hs); auto.
        rewrite (both_ok_right_path _ _ (Hok _ Hm2) R2). cbn. congruence. }
      discriminate.
  - intros (Hina & Hno).
    rewrite <- (merge_lefts la lb) in Hina. apply in_lefts in Hina.
    destruct Hina as (m1 & Hm1 & L1).
    destruct m1 as [a1|b1|a1 b1]; cbn in L1; try discriminate; injection L1 as ->.
    + exact Hm1.
    + exfalso. apply (Hno b1).
      * rewrite <- (merge_rights la lb). apply in_rights. exists (MBoth a b1). auto.
      * symmetry. exact (Hok _ Hm1).
Qed.

Lemma merge_in_right la lb b :
  SortedE la -> SortedS lb ->
  (In (MRight b) (merge la lb) <-> In b lb /\ forall a, In a la -> e_apath a <> s_apath b).
Proof.
  intros Ha Hb. pose proof (merge_sorted la lb Ha Hb) as Hs.
  pose proof (merge_both_ok la lb) as Hok. rewrite Forall_forall in Hok.
  split.
  - intros Hin. split.
    + rewrite <- (merge_rights la lb). apply in_rights. exists (MRight b). auto.
    + intros a Hina E.
      rewrite <- (merge_lefts la lb) in Hina. apply in_lefts in Hina.
      destruct Hina as (m1 & Hm1 & L1).
      assert (MRight b = m1) as <-.
      { apply (sorted_key_inj m_path _ Hs); auto.
        rewrite (left_path _ _ L1). cbn. congruence. }
      discriminate.
  - intros (Hinb & Hno).
    rewrite <- (merge_rights la lb) in Hinb. apply in_rights in Hinb.
    destruct Hinb as (m2 & Hm2 & R2).
    destruct m2 as [a2|b2|a2 b2]; cbn in R2; try discriminate; injection R2 as ->.
    + exact Hm2.
    + exfalso. apply (Hno a2).
      * rewrite <- (merge_lefts la lb). apply in_lefts. exists (MBoth a2 b). auto.
      * exact (Hok _ Hm2).
Qed.

Theorem merge_outer_join idx src :
  SortedE idx -> SortedS src ->
  let ms := merge idx src in
  SortedM ms
  /\ (forall a b, In (MBoth a b) ms <-> In a idx /\ In b src /\ e_apath a = s_apath b)
  /\ (forall a, In (MLeft a) ms <-> In a idx /\ forall b, In b src -> s_apath b <> e_apath a)
  /\ (forall b, In (MRight b) ms <-> In b src /\ forall a, In a idx -> e_apath a <> s_apath b)
  /\ lefts ms = idx
  /\ rights ms = src.
Proof.
  intros Ha Hb ms. subst ms.
  split; [apply merge_sorted; assumption|].
  split; [intros a b; apply merge_in_both; assumption|].
  split; [intros a; apply merge_in_left; assumption|].
  split; [intros b; apply merge_in_right; assumption|].
  split; [apply merge_lefts | apply merge_rights].
Qed.

(* ------------------------------------------------------------------ *)
(* What each merged item is turned into                                 *)

(* The "real difference" between a stored entry and a source entry of the same path. *)
Definition differs (a : entry) (b : sentry) : Prop :=
  e_kind a <> s_kind b
  \/ (e_user a <> s_user b \/ e_group a <> s_group b)
  \/ e_mode a <> s_mode b
  \/ (e_kind a = KFile /\ (e_size a <> s_size b \/ e_ts a <> s_mtime b))
  \/ (e_kind a = KSymlink /\ e_target a <> s_symlink_target b).

Lemma meta_differs_spec a b : meta_differs a b = true <-> differs a b.
Proof.
  unfold meta_differs, differs, owner_eqb, e_size_opt, s_size_opt.
  rewrite negb_andb.
  rewrite !orb_true_iff, !andb_true_iff, !orb_true_iff.
  rewrite (negb_iff _ _ (kind_eqb_eq _ _)), !(negb_iff _ _ (opt_str_eqb_eq _ _)),
    (negb_iff _ _ (N.eqb_eq _ _)), (negb_iff _ _ (Z.eqb_eq _ _)),
    (negb_iff _ _ (optN_eqb_eq _ _)), !kind_eqb_eq.
  destruct (s_kind b) eqn:Kb.
  - assert (Some (e_size a) <> Some (s_size b) <-> e_size a <> s_size b) as ->
        by (split; congruence).
    tauto.
  - assert (Hk : e_kind a = KFile -> e_kind a <> KDir) by congruence.
    assert (Hn : Some (e_size a) <> None) by discriminate. tauto.
  - assert (Hk : e_kind a = KFile -> e_kind a <> KSymlink) by congruence.
    assert (Hn : Some (e_size a) <> None) by discriminate. tauto.
  - assert (Hk : e_kind a = KFile -> e_kind a <> KUnknown) by congruence.
    assert (Hn : Some (e_size a) <> None) by discriminate. tauto.
Qed.

Lemma meta_differs_false a b : meta_differs a b = false <-> ~ differs a b.
Proof.
  rewrite <- meta_differs_spec. destruct (meta_differs a b); split; congruence.
Qed.

Lemma tec_added m p mt :
  to_entry_change m = DOk (p, Added mt) <->
  exists b, m = MRight b /\ p = s_apath b /\ meta_of_sentry b = DOk mt.
Proof.
  destruct m as [a|b|a b]; cbn [to_entry_change];
    unfold diff_metadata, ec_added, ec_deleted, ec_unchanged, ec_changed.
  - split; [destruct (meta_of_entry a); cbn; discriminate | intros (b & E & _); discriminate].
  - split.
    + destruct (meta_of_sentry b) as [m|] eqn:Em; cbn; [|discriminate].
      intros [= <- <-]. exists b. auto.
    + intros (b' & [= <-] & -> & ->). reflexivity.
  - split; [|intros (b' & E & _); discriminate].
    destruct (meta_differs a b), (meta_of_entry a), (meta_of_sentry b); cbn; discriminate.
Qed.

Lemma tec_deleted m p mt :
  to_entry_change m = DOk (p, Deleted mt) <->
  exists a, m = MLeft a /\ p = e_apath a /\ meta_of_entry a = DOk mt.
Proof.
  destruct m as [a|b|a b]; cbn [to_entry_change];
    unfold diff_metadata, ec_added, ec_deleted, ec_unchanged, ec_changed.
  - split.
    + destruct (meta_of_entry a) as [m|] eqn:Em; cbn; [|discriminate].
      intros [= <- <-]. exists a. auto.
    + intros (a' & [= <-] & -> & ->). reflexivity.
  - split; [destruct (meta_of_sentry b); cbn; discriminate | intros (a & E & _); discriminate].
  - split; [|intros (a' & E & _); discriminate].
    destruct (meta_differs a b), (meta_of_entry a), (meta_of_sentry b); cbn; discriminate.
Qed.

Lemma tec_changed m p mo mn :
  to_entry_change m = DOk (p, Changed mo mn) <->
  exists a b, m = MBoth a b /\ p = e_apath a /\ meta_differs a b = true
              /\ meta_of_entry a = DOk mo /\ meta_of_sentry b = DOk mn.
Proof.
  destruct m as [a|b|a b]; cbn [to_entry_change];
    unfold diff_metadata, ec_added, ec_deleted, ec_unchanged, ec_changed.
  - split; [destruct (meta_of_entry a); cbn; discriminate | intros (? & ? & E & _); discriminate].
  - split; [destruct (meta_of_sentry b); cbn; discriminate | intros (? & ? & E & _); discriminate].
  - split.
    + destruct (meta_differs a b) eqn:D, (meta_of_entry a) as [m1|] eqn:E1,
        (meta_of_sentry b) as [m2|] eqn:E2; cbn; try discriminate.
      intros [= <- <- <-]. exists a, b. auto.
    + intros (a' & b' & [= <- <-] & -> & -> & -> & ->). reflexivity.
Qed.

Lemma tec_unchanged m p mt :
  to_entry_change m = DOk (p, Unchanged mt) <->
  exists a b, m = MBoth a b /\ p = e_apath a /\ meta_differs a b = false
              /\ meta_of_entry a = DOk mt.
Proof.
  destruct m as [a|b|a b]; cbn [to_entry_change];
    unfold diff_metadata, ec_added, ec_deleted, ec_unchanged, ec_changed.
  - split; [destruct (meta_of_entry a); cbn; discriminate | intros (? & ? & E & _); discriminate].
  - split; [destruct (meta_of_sentry b); cbn; discriminate | intros (? & ? & E & _); discriminate].
  - split.
    + destruct (meta_differs a b) eqn:D, (meta_of_entry a) as [m1|] eqn:E1,
        (meta_of_sentry b) as [m2|] eqn:E2;
        cbn; try discriminate; intros [= <- <-]; exists a, b; auto.
    + intros (a' & b' & [= <- <-] & -> & -> & ->). reflexivity.
Qed.

Lemma tec_path m p c : to_entry_change m = DOk (p, c) -> p = m_path m.
Proof.
  destruct c as [mt|mt|mt|mo mn]; intros H.
  - apply tec_unchanged in H. destruct H as (a & b & -> & -> & _). reflexivity.
  - apply tec_added in H. destruct H as (b & -> & -> & _). reflexivity.
  - apply tec_deleted in H. destruct H as (a & -> & -> & _). reflexivity.
  - apply tec_changed in H. destruct H as (a & b & -> & -> & _). reflexivity.
Qed.

Lemma diff_item_some inc m p c :
  diff_item inc m = DOk (Some (p, c)) <->
  to_entry_change m = DOk (p, c) /\ (inc = true \/ is_unchanged c = false).
Proof.
  unfold diff_item. destruct (to_entry_change m) as [[p' c']|]; [|split; [discriminate | intros [E _]; discriminate]].
  cbn [snd]. split.
  - destruct inc; cbn [orb].
    + intros [= <- <-]. auto.
    + destruct (is_unchanged c') eqn:U; cbn [negb]; [discriminate|].
      intros [= <- <-]. auto.
  - intros [[= <- <-] Hc]. destruct inc; cbn [orb]; [reflexivity|].
    destruct Hc as [Hc | Hc]; [discriminate|]. rewrite Hc. reflexivity.
Qed.

Lemma diff_in inc idx src l :
  diff inc idx src = DOk l ->
  forall p c, In (p, c) l <->
    (exists m, In m (merge idx src) /\ to_entry_change m = DOk (p, c))
    /\ (inc = true \/ is_unchanged c = false).
Proof.
  intros Hl p c. unfold diff in Hl. rewrite (collect_in _ _ _ Hl). split.
  - intros (m & Hm & Hi). apply diff_item_some in Hi. destruct Hi as [Ht Hc].
    split; [exists m; auto | exact Hc].
  - intros [(m & Hm & Ht) Hc]. exists m. split; [exact Hm|]. apply diff_item_some. auto.
Qed.

(* ------------------------------------------------------------------ *)
(* Theorem 3: diff reports exactly the real differences                 *)

Definition only_in_src (idx : list entry) (src : list sentry) (p : str) (b : sentry) : Prop :=
  In b src /\ s_apath b = p /\ forall a, In a idx -> e_apath a <> p.
Definition only_in_idx (idx : list entry) (src : list sentry) (p : str) (a : entry) : Prop :=
  In a idx /\ e_apath a = p /\ forall b, In b src -> s_apath b <> p.
Definition in_both (idx : list entry) (src : list sentry) (p : str) (a : entry) (b : sentry) : Prop :=
  In a idx /\ In b src /\ e_apath a = p /\ s_apath b = p.

Theorem diff_exact inc idx src l :
  SortedE idx -> SortedS src ->
  diff inc idx src = DOk l ->
  forall p,
    (forall m, In (p, Added m) l <->
       exists b, only_in_src idx src p b /\ meta_of_sentry b = DOk m)
    /\ (forall m, In (p, Deleted m) l <->
       exists a, only_in_idx idx src p a /\ meta_of_entry a = DOk m)
    /\ (forall mo mn, In (p, Changed mo mn) l <->
       exists a b, in_both idx src p a b /\ differs a b
                   /\ meta_of_entry a = DOk mo /\ meta_of_sentry b = DOk mn)
    /\ (forall m, In (p, Unchanged m) l <->
       inc = true /\ exists a b, in_both idx src p a b /\ ~ differs a b
                                 /\ meta_of_entry a = DOk m).
Proof.
  intros Ha Hb Hl p.
  pose proof (diff_in inc idx src l Hl) as Hin.
  unfold only_in_src, only_in_idx, in_both.
  split; [|split; [|split]].
  - intros m. rewrite Hin. split.
    + intros [(x & Hx & Ht) _]. apply tec_added in Ht. destruct Ht as (b & -> & -> & Hm).
      apply (merge_in_right idx src b Ha Hb) in Hx. destruct Hx as [Hb1 Hb2].
      exists b. auto.
    + intros (b & (Hb1 & <- & Hb2) & Hm). split; [|right; reflexivity].
      exists (MRight b). split; [apply (merge_in_right idx src b Ha Hb); auto|].
      apply tec_added. exists b. auto.
  - intros m. rewrite Hin. split.
    + intros [(x & Hx & Ht) _]. apply tec_deleted in Ht. destruct Ht as (a & -> & -> & Hm).
      apply (merge_in_left idx src a Ha Hb) in Hx. destruct Hx as [Ha1 Ha2].
      exists a. auto.
    + intros (a & (Ha1 & <- & Ha2) & Hm). split; [|right; reflexivity].
      exists (MLeft a). split; [apply (merge_in_left idx src a Ha Hb); auto|].
      apply tec_deleted. exists a. auto.
  - intros mo mn. rewrite Hin. split.
    + intros [(x & Hx & Ht) _]. apply tec_changed in Ht.
      destruct Ht as (a & b & -> & -> & Hd & Hmo & Hmn).
      apply (merge_in_both idx src a b Ha Hb) in Hx. destruct Hx as (H1 & H2 & H3).
      exists a, b. apply meta_differs_spec in Hd. auto 10.
    + intros (a & b & (H1 & H2 & <- & H3) & Hd & Hmo & Hmn). split; [|right; reflexivity].
      exists (MBoth a b). split; [apply (merge_in_both idx src a b Ha Hb); auto|].
      apply tec_changed. exists a, b. apply meta_differs_spec in Hd. auto 10.
  - intros m. rewrite Hin. split.
    + intros [(x & Hx & Ht) Hc]. apply tec_unchanged in Ht.
      destruct Ht as (a & b & -> & -> & Hd & Hm).
      apply (merge_in_both idx src a b Ha Hb) in Hx. destruct Hx as (H1 & H2 & H3).
      split; [destruct Hc as [Hc|Hc]; [exact Hc | discriminate]|].
      exists a, b. apply meta_differs_false in Hd. auto 10.
    + intros (Hinc & a & b & (H1 & H2 & <- & H3) & Hd & Hm). split; [|left; exact Hinc].
      exists (MBoth a b). split; [apply (merge_in_both idx src a b Ha Hb); auto|].
      apply tec_unchanged. exists a, b. apply meta_differs_false in Hd. auto 10.
Qed.

(* `include_unchanged = false` only filters the Unchanged items out. *)
Definition keep_changed (pc : str * change) : bool := negb (is_unchanged (snd pc)).

Lemma collect_diff_filter ms :
  collect (diff_item false) ms = dmap (filter keep_changed) (collect (diff_item true) ms).
Proof.
  induction ms as [|m ms IH]; [reflexivity|].
  cbn [collect]. unfold diff_item at 1 3.
  destruct (to_entry_change m) as [ec|]; [|reflexivity].
  rewrite IH. destruct (collect (diff_item true) ms) as [r|]; [|reflexivity].
  cbn [dmap orb filter]. change (keep_changed ec) with (negb (is_unchanged (snd ec))).
  destruct (negb (is_unchanged (snd ec))); reflexivity.
Qed.

Theorem diff_false_filter idx src :
  diff false idx src = dmap (filter keep_changed) (diff true idx src).
Proof. apply collect_diff_filter. Qed.

(* The reported paths are strictly increasing: each path is reported at most once. *)
Lemma collect_diff_sorted inc ms :
  SortedM ms -> forall l, collect (diff_item inc) ms = DOk l ->
  StronglySorted path_lt (map fst l)
  /\ forall p, Forall (fun m => path_lt p (m_path m)) ms -> Forall (path_lt p) (map fst l).
Proof.
  induction 1 as [|m ms Hs IH Hall]; intros l Hl.
  - cbn in Hl. injection Hl as <-. cbn. split; [constructor | intros; constructor].
  - apply collect_cons_ok in Hl. destruct Hl as (o & r & Ho & Hr & ->).
    destruct (IH r Hr) as [IH1 IH2].
    destruct o as [[p c]|].
    + apply diff_item_some in Ho. destruct Ho as [Ho _]. apply tec_path in Ho. subst p.
      cbn [map fst]. split.
      * constructor; [exact IH1 | apply IH2; exact Hall].
      * intros p Hp. inversion Hp; subst. constructor; [assumption | apply IH2; assumption].
    + split; [exact IH1|]. intros p Hp. inversion Hp; subst. apply IH2; assumption.
Qed.

Theorem diff_paths_increasing inc idx src l :
  SortedE idx -> SortedS src -> diff inc idx src = DOk l ->
  StronglySorted path_lt (map fst l).
Proof.
  intros Ha Hb Hl. exact (proj1 (collect_diff_sorted inc _ (merge_sorted _ _ Ha Hb) l Hl)).
Qed.

(* ------------------------------------------------------------------ *)
(* No panic on well-formed inputs                                       *)

Lemma meta_of_entry_ok a : entry_okb a = true -> exists m, meta_of_entry a = DOk m.
Proof.
  unfold entry_okb, meta_of_entry, kindmeta_of_entry, entry_mtime, e_size_opt.
  rewrite andb_true_iff. intros [Hn Hk]. rewrite Hn.
  destruct (e_kind a); try discriminate; eauto.
  destruct (e_target a); [eauto | discriminate].
Qed.

Lemma meta_of_sentry_ok b : sentry_okb b = true -> exists m, meta_of_sentry b = DOk m.
Proof.
  unfold sentry_okb, meta_of_sentry, kindmeta_of_sentry, s_size_opt, s_symlink_target.
  destruct (s_kind b); try discriminate; eauto.
  destruct (s_target b); [eauto | discriminate].
Qed.

Lemma metadata_from_ok b : sentry_okb b = true -> exists e, metadata_from b = DOk e.
Proof.
  unfold sentry_okb, metadata_from, s_symlink_target.
  destruct (s_kind b); try discriminate; cbn; eauto.
  destruct (s_target b); cbn; [eauto | discriminate].
Qed.

Lemma tec_ok m :
  (forall a, m_left m = Some a -> entry_okb a = true) ->
  (forall b, m_right m = Some b -> sentry_okb b = true) ->
  exists ec, to_entry_change m = DOk ec.
Proof.
  intros HL HR. destruct m as [a|b|a b]; cbn [to_entry_change];
    unfold diff_metadata, ec_added, ec_deleted, ec_unchanged, ec_changed.
  - destruct (meta_of_entry_ok a (HL a eq_refl)) as [m ->]. cbn. eauto.
  - destruct (meta_of_sentry_ok b (HR b eq_refl)) as [m ->]. cbn. eauto.
  - destruct (meta_of_entry_ok a (HL a eq_refl)) as [m ->].
    destruct (meta_of_sentry_ok b (HR b eq_refl)) as [m' ->].
    destruct (meta_differs a b); cbn; eauto.
Qed.

Lemma merge_in_parts la lb m :
  In m (merge la lb) ->
  (forall a, m_left m = Some a -> In a la) /\ (forall b, m_right m = Some b -> In b lb).
Proof.
  intros Hm. split.
  - intros a Ha. rewrite <- (merge_lefts la lb). apply in_lefts. eauto.
  - intros b Hb. rewrite <- (merge_rights la lb). apply in_rights. eauto.
Qed.

Theorem diff_total inc idx src :
  Forall (fun a => entry_okb a = true) idx ->
  Forall (fun b => sentry_okb b = true) src ->
  exists l, diff inc idx src = DOk l.
Proof.
  rewrite !Forall_forall. intros Hi Hs. apply collect_total. intros m Hm.
  destruct (merge_in_parts _ _ _ Hm) as [HL HR].
  destruct (tec_ok m) as [ec Hec]; [intros a Ha; apply Hi, HL, Ha | intros b Hb; apply Hs, HR, Hb|].
  unfold diff_item. rewrite Hec. eauto.
Qed.

Lemma copy_file_change_cases present a b :
  copy_file_change present (Some a) b = ec_unchanged a
  \/ copy_file_change present (Some a) b = ec_changed a b
  \/ copy_file_change present (Some a) b = DPanic.
Proof.
  unfold copy_file_change.
  destruct (content_heuristically_unchanged b a); [|auto].
  destruct (forallb _ _); [|auto].
  destruct (metadata_from b); [|auto].
  destruct (entry_eqb _ _); auto.
Qed.

Lemma backup_item_ok present m :
  (forall a, m_left m = Some a -> entry_okb a = true) ->
  (forall b, m_right m = Some b -> sentry_okb b = true) ->
  exists o, backup_item present m = DOk o.
Proof.
  intros HL HR. destruct m as [a|b|a b]; cbn [backup_item].
  - unfold ec_deleted. destruct (meta_of_entry_ok a (HL a eq_refl)) as [m ->]. cbn. eauto.
  - pose proof (HR b eq_refl) as Hb.
    destruct (meta_of_sentry_ok b Hb) as [m Hm]. destruct (metadata_from_ok b Hb) as [e He].
    unfold copy_entry. destruct (s_kind b) eqn:K; cbn [copy_file_change].
    + unfold ec_added. rewrite Hm. cbn. eauto.
    + rewrite He. cbn. eauto.
    + rewrite He. unfold sentry_okb in Hb. unfold s_symlink_target. rewrite K in *.
      destruct (s_target b); [cbn; eauto | discriminate].
    + eauto.
  - pose proof (HR b eq_refl) as Hb. pose proof (HL a eq_refl) as Ha.
    destruct (meta_of_sentry_ok b Hb) as [m Hm]. destruct (metadata_from_ok b Hb) as [e He].
    destruct (meta_of_entry_ok a Ha) as [m' Hm'].
    unfold copy_entry. destruct (s_kind b) eqn:K.
    + unfold copy_file_change. rewrite He.
      unfold ec_unchanged, ec_changed. rewrite Hm, Hm'. cbn [dmap].
      destruct (content_heuristically_unchanged b a); [|cbn; eauto].
      destruct (forallb _ _); [|cbn; eauto].
      destruct (entry_eqb _ _); cbn; eauto.
    + rewrite He. cbn. eauto.
    + rewrite He. unfold sentry_okb in Hb. unfold s_symlink_target. rewrite K in *.
      destruct (s_target b); [cbn; eauto | discriminate].
    + eauto.
Qed.

Theorem backup_changes_total present idx src :
  Forall (fun a => entry_okb a = true) idx ->
  Forall (fun b => sentry_okb b = true) src ->
  exists l, backup_changes present idx src = DOk l.
Proof.
  rewrite !Forall_forall. intros Hi Hs. apply collect_total. intros m Hm.
  destruct (merge_in_parts _ _ _ Hm) as [HL HR].
  apply backup_item_ok; [intros a Ha; apply Hi, HL, Ha | intros b Hb; apply Hs, HR, Hb].
Qed.

(* ------------------------------------------------------------------ *)
(* Theorem 2: a tree diffed against its own index is all Unchanged      *)

Definition corresponds (a : entry) (b : sentry) : Prop :=
  e_apath a = s_apath b /\ e_kind a = s_kind b /\ e_ts a = s_mtime b
  /\ e_mode a = s_mode b /\ e_user a = s_user b /\ e_group a = s_group b
  /\ e_target a = s_symlink_target b
  /\ (e_kind a = KFile -> e_size a = s_size b).

Lemma corresponds_not_differs a b : corresponds a b -> ~ differs a b.
Proof.
  intros (H1 & H2 & H3 & H4 & H5 & H6 & H7 & H8).
  intros [D | [[D | D] | [D | [[K [D | D]] | [K D]]]]]; try congruence.
  apply D, H8, K.
Qed.

Definition unchanged_of (a : entry) (pc : str * change) : Prop :=
  fst pc = e_apath a /\ exists m, meta_of_entry a = DOk m /\ snd pc = Unchanged m.

Theorem diff_self_unchanged idx src :
  Forall2 corresponds idx src ->
  Forall (fun a => entry_okb a = true) idx ->
  diff false idx src = DOk []
  /\ exists l, diff true idx src = DOk l /\ Forall2 unchanged_of idx l.
Proof.
  intros HC Hok.
  assert (Ht : exists l, diff true idx src = DOk l /\ Forall2 unchanged_of idx l).
  { induction HC as [|a b la lb Hab HC IH].
    - exists []. split; [reflexivity | constructor].
    - inversion Hok as [|? ? Hoka Hokl]; subst.
      destruct (IH Hokl) as (l & Hl & Hu).
      destruct (meta_of_entry_ok a Hoka) as [m Hm].
      exists ((e_apath a, Unchanged m) :: l). split.
      + unfold diff in *. rewrite merge_cons_cons.
        pose proof Hab as (Hp & _). rewrite Hp, apath_cmp_refl. rewrite <- Hp.
        cbn [collect]. rewrite Hl.
        unfold diff_item. cbn [to_entry_change]. unfold diff_metadata.
        assert (meta_differs a b = false) as ->.
        { apply meta_differs_false, corresponds_not_differs. exact Hab. }
        unfold ec_unchanged. rewrite Hm. reflexivity.
      + constructor; [|exact Hu]. split; [reflexivity|]. exists m. auto. }
  split; [|exact Ht].
  destruct Ht as (l & Hl & Hu). rewrite diff_false_filter, Hl. cbn [dmap]. f_equal.
  clear Hl HC Hok. induction Hu as [|a pc la l (_ & m & _ & Hpc) Hu IH]; [reflexivity|].
  cbn [filter]. unfold keep_changed at 1. rewrite Hpc. cbn. exact IH.
Qed.

(* ------------------------------------------------------------------ *)
(* Theorem 4: the backup's change callback against diff                 *)

Lemma ec_added_ok b p c :
  ec_added b = DOk (p, c) <-> exists m, meta_of_sentry b = DOk m /\ p = s_apath b /\ c = Added m.
Proof.
  unfold ec_added. rewrite dmap_ok. split.
  - intros (m & Hm & [= -> ->]). eauto.
  - intros (m & Hm & -> & ->). eauto.
Qed.

Lemma ec_deleted_ok a p c :
  ec_deleted a = DOk (p, c) <-> exists m, meta_of_entry a = DOk m /\ p = e_apath a /\ c = Deleted m.
Proof.
  unfold ec_deleted. rewrite dmap_ok. split.
  - intros (m & Hm & [= -> ->]). eauto.
  - intros (m & Hm & -> & ->). eauto.
Qed.

Lemma ec_unchanged_ok a p c :
  ec_unchanged a = DOk (p, c) <-> exists m, meta_of_entry a = DOk m /\ p = e_apath a /\ c = Unchanged m.
Proof.
  unfold ec_unchanged. rewrite dmap_ok. split.
  - intros (m & Hm & [= -> ->]). eauto.
  - intros (m & Hm & -> & ->). eauto.
Qed.

Lemma ec_changed_ok a b p c :
  ec_changed a b = DOk (p, c) <->
  exists mo mn, meta_of_entry a = DOk mo /\ meta_of_sentry b = DOk mn
                /\ p = e_apath a /\ c = Changed mo mn.
Proof.
  unfold ec_changed. split.
  - destruct (meta_of_entry a) as [mo|]; [|discriminate].
    destruct (meta_of_sentry b) as [mn|]; [|discriminate].
    intros [= <- <-]. exists mo, mn. auto.
  - intros (mo & mn & -> & -> & -> & ->). reflexivity.
Qed.

Lemma dmap_some {A} (r : dres A) y : dmap Some r = DOk (Some y) <-> r = DOk y.
Proof. destruct r; cbn; split; congruence. Qed.

Lemma dmap_none_some {A B} (r : dres A) (y : B) : dmap (fun _ => None) r <> DOk (Some y).
Proof. destruct r; cbn; congruence. Qed.

Lemma backup_item_inv present x ec :
  backup_item present x = DOk (Some ec) <->
  (exists a, x = MLeft a /\ ec_deleted a = DOk ec)
  \/ (exists b, x = MRight b /\ s_kind b = KFile /\ ec_added b = DOk ec)
  \/ (exists a b, x = MBoth a b /\ s_kind b = KFile
                  /\ copy_file_change present (Some a) b = DOk ec).
Proof.
  split.
  - destruct x as [a|b|a b]; cbn [backup_item]; unfold copy_entry.
    + rewrite dmap_some. intros H. left. eauto.
    + destruct (s_kind b) eqn:K.
      * rewrite dmap_some. cbn [copy_file_change]. intros H. right. left. eauto.
      * intros H. exfalso. exact (dmap_none_some _ _ H).
      * destruct (s_symlink_target b); [|discriminate].
        intros H. exfalso. exact (dmap_none_some _ _ H).
      * discriminate.
    + destruct (s_kind b) eqn:K.
      * rewrite dmap_some. intros H. right. right. eauto.
      * intros H. exfalso. exact (dmap_none_some _ _ H).
      * destruct (s_symlink_target b); [|discriminate].
        intros H. exfalso. exact (dmap_none_some _ _ H).
      * discriminate.
  - intros [(a & -> & H) | [(b & -> & K & H) | (a & b & -> & K & H)]];
      cbn [backup_item]; unfold copy_entry; try rewrite K; apply dmap_some; exact H.
Qed.

Lemma meta_of_sentry_file b m :
  meta_of_sentry b = DOk m -> (is_file_meta m = true <-> s_kind b = KFile).
Proof.
  unfold meta_of_sentry, kindmeta_of_sentry, s_size_opt, s_symlink_target, is_file_meta.
  destruct (s_kind b); try discriminate.
  - intros [= <-]. cbn. tauto.
  - intros [= <-]. cbn. split; discriminate.
  - destruct (s_target b); [|discriminate]. intros [= <-]. cbn. split; discriminate.
Qed.

Lemma meta_of_entry_file a m :
  meta_of_entry a = DOk m -> (is_file_meta m = true <-> e_kind a = KFile).
Proof.
  unfold meta_of_entry, kindmeta_of_entry, e_size_opt, entry_mtime, is_file_meta.
  destruct (e_nanos a <? 1000000000)%N.
  2: { destruct (e_kind a); try discriminate. destruct (e_target a); discriminate. }
  destruct (e_kind a); try discriminate.
  - intros [= <-]. cbn. tauto.
  - intros [= <-]. cbn. split; discriminate.
  - destruct (e_target a); [|discriminate]. intros [= <-]. cbn. split; discriminate.
Qed.

Lemma meta_of_entry_nanos a m : meta_of_entry a = DOk m -> (e_nanos a <? 1000000000)%N = true.
Proof.
  unfold meta_of_entry, entry_mtime. destruct (kindmeta_of_entry a); [|discriminate].
  destruct (e_nanos a <? 1000000000)%N; [reflexivity | discriminate].
Qed.

(* The positive reading of "diff_metadata finds no difference". *)
Definition same_meta (a : entry) (b : sentry) : Prop :=
  e_kind a = s_kind b /\ e_user a = s_user b /\ e_group a = s_group b
  /\ e_mode a = s_mode b
  /\ (e_kind a = KFile -> e_size a = s_size b /\ e_ts a = s_mtime b)
  /\ (e_kind a = KSymlink -> e_target a = s_symlink_target b).

Lemma meta_differs_false_same a b : meta_differs a b = false <-> same_meta a b.
Proof.
  unfold meta_differs, same_meta, owner_eqb, e_size_opt, s_size_opt.
  rewrite !orb_false_iff, !negb_false_iff, !andb_true_iff, kind_eqb_eq, !opt_str_eqb_eq, N.eqb_eq.
  split.
  - intros ((((HK & HU & HG) & HM) & HF) & HS).
    split; [exact HK|]. split; [exact HU|]. split; [exact HG|]. split; [exact HM|]. split.
    + intros K. rewrite <- HK, K in HF.
      cbn [kind_eqb andb] in HF. apply orb_false_iff in HF. destruct HF as [H1 H2].
      apply negb_false_iff in H1, H2. apply N.eqb_eq in H1. apply Z.eqb_eq in H2. auto.
    + intros K. rewrite K in HS. cbn [kind_eqb andb] in HS.
      apply negb_false_iff, opt_str_eqb_eq in HS. exact HS.
  - intros (HK & HU & HG & HM & HF & HS).
    split; [split; [split; [auto|exact HM]|]|].
    + destruct (kind_eqb (e_kind a) KFile) eqn:K; [|reflexivity].
      apply kind_eqb_eq in K. destruct (HF K) as [H1 H2].
      rewrite <- HK, K. cbn [andb optN_eqb]. rewrite H1, H2, N.eqb_refl, Z.eqb_refl. reflexivity.
    + destruct (kind_eqb (e_kind a) KSymlink) eqn:K; [|reflexivity].
      apply kind_eqb_eq in K. rewrite (HS K). cbn [andb].
      apply negb_false_iff, opt_str_eqb_eq. reflexivity.
Qed.

Lemma ts_split a :
  (e_nanos a <? 1000000000)%N = true ->
  (e_ts a / NANOS)%Z = e_mtime a /\ Z.to_N (e_ts a mod NANOS)%Z = e_nanos a.
Proof.
  intros Hn. apply N.ltb_lt in Hn. unfold e_ts, NANOS.
  assert (Hr : (0 <= Z.of_N (e_nanos a) < 1000000000)%Z) by lia.
  split.
  - symmetry. apply (Z.div_unique_pos _ _ _ (Z.of_N (e_nanos a))); [exact Hr | lia].
  - rewrite <- (Z.mod_unique_pos _ _ (e_mtime a) (Z.of_N (e_nanos a))); [apply N2Z.id | exact Hr | lia].
Qed.

Lemma metadata_from_file b :
  s_kind b = KFile ->
  metadata_from b = DOk {| e_apath := s_apath b; e_kind := KFile;
                           e_mtime := (s_mtime b / NANOS)%Z;
                           e_nanos := Z.to_N (s_mtime b mod NANOS)%Z;
                           e_mode := s_mode b; e_user := s_user b; e_group := s_group b;
                           e_addrs := []; e_target := None |}.
Proof. intros K. unfold metadata_from, s_symlink_target. rewrite K. reflexivity. Qed.

Lemma heuristic_spec a b :
  s_kind b = KFile ->
  (content_heuristically_unchanged b a = true <->
   e_kind a = KFile /\ e_ts a = s_mtime b /\ e_size a = s_size b).
Proof.
  intros K. unfold content_heuristically_unchanged, e_size_opt, s_size_opt. rewrite K.
  cbn [optN_eqb]. rewrite !andb_true_iff, kind_eqb_eq, Z.eqb_eq, N.eqb_eq. tauto.
Qed.

(* new_entry == *basis_entry, once the heuristic has passed *)
Lemma new_entry_eq_iff a b nb :
  s_kind b = KFile -> e_apath a = s_apath b -> (e_nanos a <? 1000000000)%N = true ->
  content_heuristically_unchanged b a = true ->
  metadata_from b = DOk nb ->
  (entry_eqb (set_addrs nb (e_addrs a)) a = true <-> meta_differs a b = false /\ e_target a = None).
Proof.
  intros K Hp Hn Hh Hnb. rewrite (metadata_from_file b K) in Hnb. injection Hnb as <-.
  apply (heuristic_spec a b K) in Hh. destruct Hh as (Hk & Hts & Hsz).
  destruct (ts_split a Hn) as [Hsec Hns]. rewrite Hts in Hsec, Hns.
  rewrite entry_eqb_eq, meta_differs_false_same. unfold set_addrs, same_meta. cbn.
  split.
  - intros H.
    pose proof (f_equal e_mode H) as H1. pose proof (f_equal e_user H) as H2.
    pose proof (f_equal e_group H) as H3. pose proof (f_equal e_target H) as H4.
    cbn in H1, H2, H3, H4.
    split; [|congruence]. rewrite K.
    split; [exact Hk|]. split; [congruence|]. split; [congruence|]. split; [congruence|].
    split; [auto | congruence].
  - intros ((_ & HU & HG & HM & _ & _) & HT).
    destruct a as [ap ak am an amo au ag aad atg]. cbn in *. subst. reflexivity.
Qed.

Lemma heuristic_false_differs a b :
  s_kind b = KFile -> content_heuristically_unchanged b a = false -> meta_differs a b = true.
Proof.
  intros K Hh. destruct (meta_differs a b) eqn:D; [reflexivity|].
  apply meta_differs_false_same in D. destruct D as (HK & _ & _ & _ & HF & _).
  rewrite K in HK. destruct (HF HK) as [H1 H2].
  assert (content_heuristically_unchanged b a = true) by (apply heuristic_spec; auto).
  congruence.
Qed.

Definition is_none {A} (o : option A) : bool := match o with None => true | Some _ => false end.

Definition all_present (present : bytes -> bool) (a : entry) : bool :=
  forallb (fun ad => present (a_hash ad)) (e_addrs a).

(* copy_file on a file present on both sides, in closed form. *)
Lemma copy_file_both present a b :
  s_kind b = KFile -> e_apath a = s_apath b ->
  copy_file_change present (Some a) b =
  if negb (meta_differs a b) && all_present present a && is_none (e_target a)
  then ec_unchanged a else ec_changed a b.
Proof.
  intros K Hp. unfold all_present.
  destruct (e_nanos a <? 1000000000)%N eqn:Hn.
  2: { assert (Hm : meta_of_entry a = DPanic).
       { unfold meta_of_entry, entry_mtime. rewrite Hn. destruct (kindmeta_of_entry a); reflexivity. }
       unfold copy_file_change, ec_unchanged, ec_changed. rewrite Hm. cbn [dmap].
       destruct (content_heuristically_unchanged b a), (forallb _ _), (metadata_from b);
         try destruct (entry_eqb _ _);
         destruct (negb (meta_differs a b) && _ && is_none (e_target a)); reflexivity. }
  unfold copy_file_change.
  destruct (content_heuristically_unchanged b a) eqn:Hh.
  - rewrite (metadata_from_file b K).
    pose proof (new_entry_eq_iff a b _ K Hp Hn Hh (metadata_from_file b K)) as HE.
    destruct (forallb _ _) eqn:HP.
    + destruct (entry_eqb _ a) eqn:He.
      * destruct (proj1 HE eq_refl) as [-> ->]. reflexivity.
      * destruct (meta_differs a b) eqn:D; [reflexivity|].
        destruct (e_target a) eqn:T; [reflexivity|].
        exfalso. assert (false = true) by (apply HE; auto). discriminate.
    + rewrite andb_false_r. reflexivity.
  - rewrite (heuristic_false_differs a b K Hh). reflexivity.
Qed.

Lemma forallb_false_exists {A} (f : A -> bool) l :
  forallb f l = false -> exists x, In x l /\ f x = false.
Proof.
  induction l as [|x l IH]; cbn; [discriminate|].
  destruct (f x) eqn:E; cbn.
  - intros H. destruct (IH H) as (y & Hy & Hf). exists y. auto.
  - intros _. exists x. auto.
Qed.

(* Item-level agreement *)
Lemma item_deleted present x p mt :
  backup_item present x = DOk (Some (p, Deleted mt)) <-> to_entry_change x = DOk (p, Deleted mt).
Proof.
  split.
  - intros H. apply backup_item_inv in H.
    destruct H as [(a & -> & H) | [(b & -> & K & H) | (a & b & -> & K & H)]].
    + exact H.
    + apply ec_added_ok in H. destruct H as (m & _ & _ & E). discriminate.
    + destruct (copy_file_change_cases present a b) as [E | [E | E]]; rewrite E in H.
      * apply ec_unchanged_ok in H. destruct H as (m & _ & _ & E'). discriminate.
      * apply ec_changed_ok in H. destruct H as (m & m' & _ & _ & _ & E'). discriminate.
      * discriminate.
  - intros H. pose proof H as H'. apply tec_deleted in H'. destruct H' as (a & -> & _).
    apply backup_item_inv. left. exists a. auto.
Qed.

Lemma item_added present x p mt :
  backup_item present x = DOk (Some (p, Added mt)) <->
  to_entry_change x = DOk (p, Added mt) /\ is_file_meta mt = true.
Proof.
  split.
  - intros H. apply backup_item_inv in H.
    destruct H as [(a & -> & H) | [(b & -> & K & H) | (a & b & -> & K & H)]].
    + apply ec_deleted_ok in H. destruct H as (m & _ & _ & E). discriminate.
    + split; [exact H|]. apply ec_added_ok in H. destruct H as (m & Hm & _ & [= <-]).
      apply (meta_of_sentry_file b mt Hm). exact K.
    + destruct (copy_file_change_cases present a b) as [E | [E | E]]; rewrite E in H.
      * apply ec_unchanged_ok in H. destruct H as (m & _ & _ & E'). discriminate.
      * apply ec_changed_ok in H. destruct H as (m & m' & _ & _ & _ & E'). discriminate.
      * discriminate.
  - intros [H Hf]. pose proof H as H'. apply tec_added in H'. destruct H' as (b & -> & _ & Hm).
    apply backup_item_inv. right. left. exists b. split; [reflexivity|]. split; [|exact H].
    apply (meta_of_sentry_file b mt Hm). exact Hf.
Qed.

Lemma item_unchanged present x p mt :
  both_ok x ->
  backup_item present x = DOk (Some (p, Unchanged mt)) ->
  to_entry_change x = DOk (p, Unchanged mt).
Proof.
  intros Hok H. apply backup_item_inv in H.
  destruct H as [(a & -> & H) | [(b & -> & K & H) | (a & b & -> & K & H)]].
  - apply ec_deleted_ok in H. destruct H as (m & _ & _ & E). discriminate.
  - apply ec_added_ok in H. destruct H as (m & _ & _ & E). discriminate.
  - cbn in Hok. rewrite (copy_file_both present a b K Hok) in H.
    cbn [to_entry_change]. unfold diff_metadata.
    destruct (meta_differs a b); cbn [negb andb] in H.
    + apply ec_changed_ok in H. destruct H as (m & m' & _ & _ & _ & E'). discriminate.
    + destruct (all_present present a && is_none (e_target a)); [exact H|].
      apply ec_changed_ok in H. destruct H as (m & m' & _ & _ & _ & E'). discriminate.
Qed.

Lemma item_changed_diff present x p mo mn :
  both_ok x -> is_file_meta mn = true ->
  to_entry_change x = DOk (p, Changed mo mn) ->
  backup_item present x = DOk (Some (p, Changed mo mn)).
Proof.
  intros Hok Hf H. pose proof H as H'. apply tec_changed in H'.
  destruct H' as (a & b & -> & -> & D & Hmo & Hmn).
  assert (K : s_kind b = KFile) by (apply (meta_of_sentry_file b mn Hmn); exact Hf).
  apply backup_item_inv. right. right. exists a, b. split; [reflexivity|]. split; [exact K|].
  cbn in Hok. rewrite (copy_file_both present a b K Hok), D. cbn [negb andb].
  apply ec_changed_ok. exists mo, mn. auto.
Qed.

(* When the backup says Changed: either diff says Changed too, or diff says Unchanged
   and the stored FILE entry carries a symlink target or names an absent block. *)
Definition backup_only_reason (present : bytes -> bool) (a : entry) : Prop :=
  e_kind a = KFile
  /\ (e_target a <> None \/ exists ad, In ad (e_addrs a) /\ present (a_hash ad) = false).

Lemma item_changed_backup present x p mo mn :
  both_ok x ->
  backup_item present x = DOk (Some (p, Changed mo mn)) ->
  is_file_meta mn = true
  /\ (to_entry_change x = DOk (p, Changed mo mn)
      \/ (to_entry_change x = DOk (p, Unchanged mo)
          /\ exists a, m_left x = Some a /\ backup_only_reason present a)).
Proof.
  intros Hok H. apply backup_item_inv in H.
  destruct H as [(a & -> & H) | [(b & -> & K & H) | (a & b & -> & K & H)]].
  - apply ec_deleted_ok in H. destruct H as (m & _ & _ & E). discriminate.
  - apply ec_added_ok in H. destruct H as (m & _ & _ & E). discriminate.
  - cbn in Hok. rewrite (copy_file_both present a b K Hok) in H.
    cbn [to_entry_change m_left]. unfold diff_metadata.
    destruct (meta_differs a b) eqn:D; cbn [negb andb] in H.
    + split; [|left; exact H].
      apply ec_changed_ok in H. destruct H as (m & m' & _ & Hm' & _ & [= <- <-]).
      apply (meta_of_sentry_file b mn Hm'). exact K.
    + destruct (all_present present a) eqn:HP; cbn [andb] in H;
        [destruct (e_target a) eqn:T; cbn [is_none] in H|].
      * apply ec_changed_ok in H. destruct H as (m & m' & Hm & Hm' & -> & [= <- <-]).
        split; [apply (meta_of_sentry_file b mn Hm'); exact K|]. right.
        split; [apply ec_unchanged_ok; eauto|].
        exists a. split; [reflexivity|]. split.
        -- apply meta_differs_false_same in D. destruct D as (HK & _). congruence.
        -- left. congruence.
      * apply ec_unchanged_ok in H. destruct H as (m & _ & _ & E'). discriminate.
      * apply ec_changed_ok in H. destruct H as (m & m' & Hm & Hm' & -> & [= <- <-]).
        split; [apply (meta_of_sentry_file b mn Hm'); exact K|]. right.
        split; [apply ec_unchanged_ok; eauto|].
        exists a. split; [reflexivity|]. split.
        -- apply meta_differs_false_same in D. destruct D as (HK & _). congruence.
        -- right. apply forallb_false_exists in HP. exact HP.
Qed.

Lemma in_merge_both_ok idx src x : In x (merge idx src) -> both_ok x.
Proof. pose proof (merge_both_ok idx src) as H. rewrite Forall_forall in H. apply H. Qed.

Theorem backup_changes_agree present idx src bk df :
  backup_changes present idx src = DOk bk ->
  diff true idx src = DOk df ->
  forall p,
    (forall m, In (p, Deleted m) bk <-> In (p, Deleted m) df)
    /\ (forall m, In (p, Added m) bk <-> In (p, Added m) df /\ is_file_meta m = true)
    /\ (forall m, In (p, Unchanged m) bk -> In (p, Unchanged m) df)
    /\ (forall mo mn, In (p, Changed mo mn) df -> is_file_meta mn = true ->
                      In (p, Changed mo mn) bk)
    /\ (forall mo mn, In (p, Changed mo mn) bk ->
          is_file_meta mn = true
          /\ (In (p, Changed mo mn) df
              \/ (In (p, Unchanged mo) df
                  /\ exists a, In a idx /\ e_apath a = p /\ backup_only_reason present a))).
Proof.
  intros Hbk Hdf p. unfold backup_changes in Hbk. unfold diff in Hdf.
  pose proof (collect_in _ _ _ Hbk) as Ib. pose proof (collect_in _ _ _ Hdf) as Id.
  assert (Dit : forall x c, diff_item true x = DOk (Some (p, c)) <-> to_entry_change x = DOk (p, c)).
  { intros x c. rewrite diff_item_some. intuition. }
  split; [|split; [|split; [|split]]].
  - intros m. rewrite Ib, Id. split; intros (x & Hx & H); exists x; (split; [exact Hx|]).
    + apply Dit. apply (item_deleted present). exact H.
    + apply (item_deleted present). apply Dit. exact H.
  - intros m. rewrite Ib, Id. split.
    + intros (x & Hx & H). apply item_added in H. destruct H as [H Hf].
      split; [|exact Hf]. exists x. split; [exact Hx|]. apply Dit. exact H.
    + intros [(x & Hx & H) Hf]. exists x. split; [exact Hx|]. apply item_added.
      split; [apply Dit; exact H | exact Hf].
  - intros m. rewrite Ib, Id. intros (x & Hx & H). exists x. split; [exact Hx|].
    apply Dit. apply (item_unchanged present); [eapply in_merge_both_ok; eauto | exact H].
  - intros mo mn. rewrite Ib, Id. intros (x & Hx & H) Hf. exists x. split; [exact Hx|].
    apply item_changed_diff; [eapply in_merge_both_ok; eauto | exact Hf | apply Dit; exact H].
  - intros mo mn. rewrite Ib. intros (x & Hx & H).
    apply item_changed_backup in H; [|eapply in_merge_both_ok; eauto].
    destruct H as [Hf [H | (H & a & Ha & Hr)]]; (split; [exact Hf|]).
    + left. apply Id. exists x. split; [exact Hx | apply Dit; exact H].
    + right. split; [apply Id; exists x; split; [exact Hx | apply Dit; exact H]|].
      exists a. split; [exact (proj1 (merge_in_parts _ _ _ Hx) a Ha)|].
      split; [|exact Hr]. apply tec_path in H. rewrite H. symmetry. apply left_path. exact Ha.
Qed.

(* ---- exactly when the backup is stricter than diff ---- *)

Lemma meta_of_sentry_file_ok b : s_kind b = KFile -> exists mn, meta_of_sentry b = DOk mn.
Proof.
  intros K. unfold meta_of_sentry, kindmeta_of_sentry, s_size_opt. rewrite K. eauto.
Qed.

Lemma item_stricter_iff present a b p mo :
  s_kind b = KFile -> e_apath a = s_apath b ->
  (to_entry_change (MBoth a b) = DOk (p, Unchanged mo)
   /\ exists mn, backup_item present (MBoth a b) = DOk (Some (p, Changed mo mn)))
  <->
  (p = e_apath a /\ meta_differs a b = false /\ meta_of_entry a = DOk mo
   /\ (is_none (e_target a) = false \/ all_present present a = false)).
Proof.
  intros K Hp. split.
  - intros (Hd & mn & Hb). apply tec_unchanged in Hd.
    destruct Hd as (a' & b' & [= <- <-] & -> & D & Hm).
    split; [reflexivity|]. split; [exact D|]. split; [exact Hm|].
    apply backup_item_inv in Hb.
    destruct Hb as [(? & E & _) | [(? & E & _) | (a' & b' & [= <- <-] & _ & H)]];
      try discriminate.
    rewrite (copy_file_both present a b K Hp), D in H. cbn [negb andb] in H.
    destruct (all_present present a); [|auto]. destruct (is_none (e_target a)); [|auto].
    cbn [andb] in H. apply ec_unchanged_ok in H. destruct H as (m & _ & _ & E). discriminate.
  - intros (-> & D & Hm & Hr). split.
    + apply tec_unchanged. exists a, b. auto.
    + destruct (meta_of_sentry_file_ok b K) as [mn Hmn]. exists mn.
      apply backup_item_inv. right. right. exists a, b. split; [reflexivity|]. split; [exact K|].
      rewrite (copy_file_both present a b K Hp), D. cbn [negb andb].
      assert (all_present present a && is_none (e_target a) = false) as ->.
      { destruct Hr as [-> | ->]; [apply andb_false_r | reflexivity]. }
      apply ec_changed_ok. exists mo, mn. auto.
Qed.

Lemma backup_item_path present x p c : backup_item present x = DOk (Some (p, c)) -> p = m_path x.
Proof.
  intros H. apply backup_item_inv in H.
  destruct H as [(a & -> & H) | [(b & -> & K & H) | (a & b & -> & K & H)]].
  - apply ec_deleted_ok in H. destruct H as (m & _ & -> & _). reflexivity.
  - apply ec_added_ok in H. destruct H as (m & _ & -> & _). reflexivity.
  - destruct (copy_file_change_cases present a b) as [E | [E | E]]; rewrite E in H.
    + apply ec_unchanged_ok in H. destruct H as (m & _ & -> & _). reflexivity.
    + apply ec_changed_ok in H. destruct H as (m & m' & _ & _ & -> & _). reflexivity.
    + discriminate.
Qed.

Lemma all_present_false present a :
  all_present present a = false <-> exists ad, In ad (e_addrs a) /\ present (a_hash ad) = false.
Proof.
  unfold all_present. split.
  - apply forallb_false_exists.
  - intros (ad & Hin & Hf). destruct (forallb _ _) eqn:E; [|reflexivity].
    rewrite forallb_forall in E. rewrite (E ad Hin) in Hf. discriminate.
Qed.

Lemma is_none_false {A} (o : option A) : is_none o = false <-> o <> None.
Proof. destruct o; cbn; split; congruence. Qed.

(* For sorted streams: the backup reports Changed where diff reports Unchanged exactly
   for a file present on both sides with no metadata difference whose stored entry
   has a `target` field or names a block that is not present. *)
Theorem backup_stricter_iff present idx src bk df :
  SortedE idx -> SortedS src ->
  backup_changes present idx src = DOk bk ->
  diff true idx src = DOk df ->
  forall p mo,
    (In (p, Unchanged mo) df /\ exists mn, In (p, Changed mo mn) bk)
    <->
    exists a b, in_both idx src p a b /\ s_kind b = KFile /\ ~ differs a b
                /\ meta_of_entry a = DOk mo
                /\ (e_target a <> None
                    \/ exists ad, In ad (e_addrs a) /\ present (a_hash ad) = false).
Proof.
  intros Ha Hb Hbk Hdf p mo. unfold backup_changes in Hbk. unfold diff in Hdf.
  pose proof (collect_in _ _ _ Hbk) as Ib. pose proof (collect_in _ _ _ Hdf) as Id.
  pose proof (merge_sorted idx src Ha Hb) as Hs.
  split.
  - intros [Hu (mn & Hc)]. apply Id in Hu. destruct Hu as (x & Hx & Hu).
    apply diff_item_some in Hu. destruct Hu as [Hu _].
    apply Ib in Hc. destruct Hc as (y & Hy & Hc).
    assert (x = y) as <-.
    { apply (sorted_key_inj m_path _ Hs); auto.
      rewrite <- (tec_path _ _ _ Hu), <- (backup_item_path _ _ _ _ Hc). reflexivity. }
    pose proof Hu as Hu'. apply tec_unchanged in Hu'. destruct Hu' as (a & b & -> & -> & D & Hm).
    pose proof (in_merge_both_ok _ _ _ Hx) as Hok. cbn in Hok.
    assert (K : s_kind b = KFile).
    { apply backup_item_inv in Hc.
      destruct Hc as [(? & E & _) | [(? & E & _) | (a' & b' & [= <- <-] & K & _)]];
        try discriminate. exact K. }
    destruct (proj1 (item_stricter_iff present a b (e_apath a) mo K Hok)) as (_ & _ & _ & Hr); [eauto|].
    apply (merge_in_both idx src a b Ha Hb) in Hx. destruct Hx as (H1 & H2 & H3).
    exists a, b. split; [unfold in_both; auto|]. split; [exact K|].
    split; [apply meta_differs_false; exact D|]. split; [exact Hm|].
    destruct Hr as [Hr | Hr]; [left; apply is_none_false; exact Hr | right; apply all_present_false; exact Hr].
  - intros (a & b & (H1 & H2 & <- & H3) & K & D & Hm & Hr).
    assert (Hx : In (MBoth a b) (merge idx src)) by (apply merge_in_both; auto).
    destruct (proj2 (item_stricter_iff present a b (e_apath a) mo K (eq_sym H3))) as [Hu (mn & Hc)].
    { split; [reflexivity|]. split; [apply meta_differs_false; exact D|]. split; [exact Hm|].
      destruct Hr as [Hr | Hr]; [left; apply is_none_false; exact Hr | right; apply all_present_false; exact Hr]. }
    split.
    + apply Id. exists (MBoth a b). split; [exact Hx|]. apply diff_item_some. auto.
    + exists mn. apply Ib. exists (MBoth a b). auto.
Qed.

(* ---- equivalence on well-formed archives with all blocks present ---- *)

(* What the backup reports at all: deletions of anything, and files. *)
Definition reported (pc : str * change) : bool :=
  match snd pc with
  | Deleted _ => true
  | Added m => is_file_meta m
  | Changed _ mn => is_file_meta mn
  | Unchanged m => is_file_meta m
  end.

(* conserve only writes `target` on symlink entries; all blocks of the basis are present *)
Definition basis_wf (present : bytes -> bool) (a : entry) : Prop :=
  (e_kind a = KFile -> e_target a = None) /\ all_present present a = true.

Lemma dmap_none_ok {A B} (r : dres A) (o : option B) : dmap (fun _ => None) r = DOk o -> o = None.
Proof. destruct r; cbn; congruence. Qed.

Lemma not_file_meta_s b m : meta_of_sentry b = DOk m -> s_kind b <> KFile -> is_file_meta m = false.
Proof.
  intros Hm K. destruct (is_file_meta m) eqn:E; [|reflexivity].
  apply (meta_of_sentry_file b m Hm) in E. contradiction.
Qed.

Lemma item_equiv present x o ec :
  both_ok x -> (forall a, m_left x = Some a -> basis_wf present a) ->
  backup_item present x = DOk o -> to_entry_change x = DOk ec ->
  o = if reported ec then Some ec else None.
Proof.
  intros Hok Hwf Hb Hd. destruct ec as [p c]. destruct x as [a|b|a b]; cbn [backup_item to_entry_change] in *.
  - rewrite Hd in Hb. cbn in Hb. injection Hb as <-.
    apply ec_deleted_ok in Hd. destruct Hd as (m & _ & _ & ->). reflexivity.
  - pose proof Hd as Hd'. apply ec_added_ok in Hd'. destruct Hd' as (m & Hm & -> & ->).
    unfold reported. cbn [snd]. unfold copy_entry in Hb. destruct (s_kind b) eqn:K.
    + cbn [copy_file_change] in Hb. rewrite Hd in Hb. cbn in Hb. injection Hb as <-.
      assert (is_file_meta m = true) as -> by (apply (meta_of_sentry_file b m Hm); exact K).
      reflexivity.
    + apply dmap_none_ok in Hb. subst o. rewrite (not_file_meta_s b m Hm); [reflexivity | congruence].
    + destruct (s_symlink_target b); [|discriminate].
      apply dmap_none_ok in Hb. subst o. rewrite (not_file_meta_s b m Hm); [reflexivity | congruence].
    + injection Hb as <-. rewrite (not_file_meta_s b m Hm); [reflexivity | congruence].
  - cbn in Hok. destruct (Hwf a eq_refl) as [Ht Hp].
    unfold reported. cbn [snd]. unfold diff_metadata in Hd. unfold copy_entry in Hb.
    destruct (s_kind b) eqn:K.
    + rewrite (copy_file_both present a b K Hok), Hp in Hb.
      destruct (meta_differs a b) eqn:D; cbn [negb andb] in Hb.
      * rewrite Hd in Hb. cbn in Hb. injection Hb as <-.
        apply ec_changed_ok in Hd. destruct Hd as (mo & mn & _ & Hmn & _ & ->).
        assert (is_file_meta mn = true) as -> by (apply (meta_of_sentry_file b mn Hmn); exact K).
        reflexivity.
      * apply meta_differs_false_same in D. destruct D as (HK & _).
        rewrite Ht in Hb by congruence. cbn [is_none] in Hb.
        rewrite Hd in Hb. cbn in Hb. injection Hb as <-.
        apply ec_unchanged_ok in Hd. destruct Hd as (m & Hm & _ & ->).
        assert (is_file_meta m = true) as -> by (apply (meta_of_entry_file a m Hm); congruence).
        reflexivity.
    + apply dmap_none_ok in Hb. subst o.
      destruct (meta_differs a b) eqn:D.
      * apply ec_changed_ok in Hd. destruct Hd as (mo & mn & _ & Hmn & _ & ->).
        rewrite (not_file_meta_s b mn Hmn); [reflexivity | congruence].
      * apply meta_differs_false_same in D. destruct D as (HK & _).
        apply ec_unchanged_ok in Hd. destruct Hd as (m & Hm & _ & ->).
        destruct (is_file_meta m) eqn:E; [|reflexivity].
        apply (meta_of_entry_file a m Hm) in E. congruence.
    + destruct (s_symlink_target b); [|discriminate].
      apply dmap_none_ok in Hb. subst o.
      destruct (meta_differs a b) eqn:D.
      * apply ec_changed_ok in Hd. destruct Hd as (mo & mn & _ & Hmn & _ & ->).
        rewrite (not_file_meta_s b mn Hmn); [reflexivity | congruence].
      * apply meta_differs_false_same in D. destruct D as (HK & _).
        apply ec_unchanged_ok in Hd. destruct Hd as (m & Hm & _ & ->).
        destruct (is_file_meta m) eqn:E; [|reflexivity].
        apply (meta_of_entry_file a m Hm) in E. congruence.
    + injection Hb as <-.
      destruct (meta_differs a b) eqn:D.
      * apply ec_changed_ok in Hd. destruct Hd as (mo & mn & _ & Hmn & _ & ->).
        rewrite (not_file_meta_s b mn Hmn); [reflexivity | congruence].
      * apply meta_differs_false_same in D. destruct D as (HK & _).
        apply ec_unchanged_ok in Hd. destruct Hd as (m & Hm & _ & ->).
        destruct (is_file_meta m) eqn:E; [|reflexivity].
        apply (meta_of_entry_file a m Hm) in E. congruence.
Qed.

Lemma collect_equiv present ms :
  Forall (fun x => both_ok x /\ forall a, m_left x = Some a -> basis_wf present a) ms ->
  forall bk df,
    collect (backup_item present) ms = DOk bk ->
    collect (diff_item true) ms = DOk df ->
    bk = filter reported df.
Proof.
  induction 1 as [|x ms [Hok Hwf] Hall IH]; intros bk df Hb Hd.
  - cbn in Hb, Hd. injection Hb as <-. injection Hd as <-. reflexivity.
  - apply collect_cons_ok in Hb. destruct Hb as (o & bk' & Ho & Hb & ->).
    apply collect_cons_ok in Hd. destruct Hd as (o' & df' & Ho' & Hd & ->).
    specialize (IH bk' df' Hb Hd). subst bk'.
    unfold diff_item in Ho'. destruct (to_entry_change x) as [ec|] eqn:Ht; [|discriminate].
    cbn [orb] in Ho'. injection Ho' as <-.
    rewrite (item_equiv present x o ec Hok Hwf Ho Ht). cbn [filter].
    destruct (reported ec); reflexivity.
Qed.

Theorem backup_changes_equiv present idx src bk df :
  (forall a, In a idx -> basis_wf present a) ->
  backup_changes present idx src = DOk bk ->
  diff true idx src = DOk df ->
  bk = filter reported df.
Proof.
  intros Hwf Hb Hd. apply (collect_equiv present (merge idx src)); [|exact Hb|exact Hd].
  apply Forall_forall. intros x Hx. split; [eapply in_merge_both_ok; eauto|].
  intros a Ha. apply Hwf. exact (proj1 (merge_in_parts _ _ _ Hx) a Ha).
Qed.

Corollary backup_changes_equiv_in present idx src bk df :
  (forall a, In a idx -> basis_wf present a) ->
  backup_changes present idx src = DOk bk ->
  diff true idx src = DOk df ->
  forall p c, In (p, c) bk <-> In (p, c) df /\ reported (p, c) = true.
Proof.
  intros Hwf Hb Hd p c. rewrite (backup_changes_equiv present idx src bk df Hwf Hb Hd).
  apply filter_In.
Qed.

(* The form asked for C18: all basis blocks present. *)
Corollary backup_changes_agree_present present idx src bk df :
  (forall a ad, In a idx -> In ad (e_addrs a) -> present (a_hash ad) = true) ->
  backup_changes present idx src = DOk bk ->
  diff true idx src = DOk df ->
  forall p mo mn, In (p, Changed mo mn) bk ->
    In (p, Changed mo mn) df
    \/ (In (p, Unchanged mo) df
        /\ exists a, In a idx /\ e_apath a = p /\ e_kind a = KFile /\ e_target a <> None).
Proof.
  intros Hp Hb Hd p mo mn Hc.
  destruct (backup_changes_agree present idx src bk df Hb Hd p) as (_ & _ & _ & _ & H5).
  destruct (H5 mo mn Hc) as [_ [H | (Hu & a & Ha & Hpa & Hk & [Ht | (ad & Hin & Hf)])]].
  - left. exact H.
  - right. split; [exact Hu|]. exists a. auto.
  - rewrite (Hp a ad Ha Hin) in Hf. discriminate.
Qed.

(* The full converse "diff Unchanged -> backup Unchanged" is FALSE of the faithful model
   even with every block present:
     forall present idx src bk df, SortedE idx -> SortedS src -> (all blocks present) ->
       backup_changes present idx src = DOk bk -> diff true idx src = DOk df ->
       forall p m, In (p, Unchanged m) df -> is_file_meta m = true -> In (p, Unchanged m) bk.
   Witness: a stored FILE entry that carries a `target` field (conserve itself never
   writes one; only a hand-made index can).  The strongest true variants are
   [backup_stricter_iff] (exact condition) and [backup_changes_equiv] (under basis_wf). *)
Definition rf_a : entry :=
  {| e_apath := [47; 97]; e_kind := KFile; e_mtime := 5; e_nanos := 0; e_mode := 420;
     e_user := None; e_group := None; e_addrs := []; e_target := Some [120] |}.
Definition rf_b : sentry :=
  {| s_apath := [47; 97]; s_kind := KFile; s_size := 0; s_target := None;
     s_mtime := 5000000000; s_mode := 420; s_user := None; s_group := None |}.

Theorem backup_unchanged_converse_refuted :
  exists present idx src bk df p m,
    SortedE idx /\ SortedS src
    /\ (forall a ad, In a idx -> In ad (e_addrs a) -> present (a_hash ad) = true)
    /\ backup_changes present idx src = DOk bk /\ diff true idx src = DOk df
    /\ In (p, Unchanged m) df /\ is_file_meta m = true /\ ~ In (p, Unchanged m) bk.
Proof.
  exists (fun _ => true), [rf_a], [rf_b].
  eexists. eexists. exists [47; 97]. eexists.
  split; [repeat constructor|]. split; [repeat constructor|].
  split; [reflexivity|].
  split; [vm_compute; reflexivity|]. split; [vm_compute; reflexivity|].
  split; [left; reflexivity|]. split; [reflexivity|].
  intros [H | []]. discriminate.
Qed.

(* ------------------------------------------------------------------ *)
(* Concrete instances (non-vacuity; all four classes)                   *)

Definition mkaddr (h : N) (len : N) : addr := {| a_hash := [h]; a_start := 0; a_len := len |}.
Definition ie (p : str) (k : kind) (sec : Z) (ns : N) (mode : N) (addrs : list addr)
           (t : option str) : entry :=
  {| e_apath := p; e_kind := k; e_mtime := sec; e_nanos := ns; e_mode := mode;
     e_user := Some [117]; e_group := Some [103]; e_addrs := addrs; e_target := t |}.
Definition se (p : str) (k : kind) (size : N) (t : option str) (mt : Z) (mode : N) : sentry :=
  {| s_apath := p; s_kind := k; s_size := size; s_target := t; s_mtime := mt; s_mode := mode;
     s_user := Some [117]; s_group := Some [103] |}.

(* stored: "/" "/a" "/b" "/c" "/l" "/s" "/z" "/s/f" *)
Definition ex_idx : list entry :=
  [ ie [47] KDir 10 0 493 [] None;
    ie [47;97] KFile 10 500 420 [mkaddr 1 5] None;
    ie [47;98] KFile 10 0 420 [mkaddr 2 3; mkaddr 3 4] None;
    ie [47;99] KFile 10 0 420 [mkaddr 4 1] None;
    ie [47;108] KSymlink 10 0 511 [] (Some [120]);
    ie [47;115] KDir 10 0 493 [] None;
    ie [47;122] KFile (-3) 250 420 [] None;
    ie [47;115;47;102] KFile 10 0 420 [mkaddr 5 2] None ].

(* the tree that index was made from *)
Definition ex_src0 : list sentry :=
  [ se [47] KDir 0 None 10000000000 493;
    se [47;97] KFile 5 None 10000000500 420;
    se [47;98] KFile 7 None 10000000000 420;
    se [47;99] KFile 1 None 10000000000 420;
    se [47;108] KSymlink 0 (Some [120]) 10000000000 511;
    se [47;115] KDir 0 None 10000000000 493;
    se [47;122] KFile 0 None (-2999999750) 420;
    se [47;115;47;102] KFile 2 None 10000000000 420 ].

(* later: /b touched, /c removed, /d added, /l retargeted, /s/f became a directory
   holding /s/f/g; /z has a pre-epoch mtime with nanoseconds *)
Definition ex_src : list sentry :=
  [ se [47] KDir 0 None 10000000000 493;
    se [47;97] KFile 5 None 10000000500 420;
    se [47;98] KFile 7 None 11000000000 420;
    se [47;100] KFile 9 None 12000000000 420;
    se [47;108] KSymlink 0 (Some [121]) 10000000000 511;
    se [47;115] KDir 0 None 10000000000 493;
    se [47;122] KFile 0 None (-2999999750) 420;
    se [47;115;47;102] KDir 0 None 10000000000 493;
    se [47;115;47;102;47;103] KFile 1 None 10000000000 420 ].

Definition cls (c : change) : N :=
  match c with Unchanged _ => 0 | Added _ => 1 | Deleted _ => 2 | Changed _ _ => 3 end.
Definition summary (r : dres (list (str * change))) : dres (list (str * N)) :=
  dmap (map (fun pc => (fst pc, cls (snd pc)))) r.
Definition mcode (m : matched) : N :=
  match m with MLeft _ => 0 | MRight _ => 1 | MBoth _ _ => 2 end.

Example ex_idx_sorted : SortedE ex_idx.
Proof. repeat constructor. Qed.
Example ex_src_sorted : SortedS ex_src.
Proof. repeat constructor. Qed.
Example ex_src0_sorted : SortedS ex_src0.
Proof. repeat constructor. Qed.
Example ex_inputs_ok :
  forallb entry_okb ex_idx = true /\ forallb sentry_okb ex_src = true.
Proof. split; vm_compute; reflexivity. Qed.

Example ex_merge :
  map (fun m => (m_path m, mcode m)) (merge ex_idx ex_src) =
  [([47], 2); ([47;97], 2); ([47;98], 2); ([47;99], 0); ([47;100], 1); ([47;108], 2);
   ([47;115], 2); ([47;122], 2); ([47;115;47;102], 2); ([47;115;47;102;47;103], 1)].
Proof. vm_compute. reflexivity. Qed.

Example ex_diff_true :
  summary (diff true ex_idx ex_src) =
  DOk [([47], 0); ([47;97], 0); ([47;98], 3); ([47;99], 2); ([47;100], 1); ([47;108], 3);
       ([47;115], 0); ([47;122], 0); ([47;115;47;102], 3); ([47;115;47;102;47;103], 1)].
Proof. vm_compute. reflexivity. Qed.

Example ex_diff_false :
  summary (diff false ex_idx ex_src) =
  DOk [([47;98], 3); ([47;99], 2); ([47;100], 1); ([47;108], 3);
       ([47;115;47;102], 3); ([47;115;47;102;47;103], 1)].
Proof. vm_compute. reflexivity. Qed.

Example ex_diff_item :
  exists l, diff false ex_idx ex_src = DOk l /\
  In ([47;98],
      Changed {| m_kind := KMFile 7; m_mtime := 10000000000; m_user := Some [117];
                 m_group := Some [103]; m_mode := 420 |}
              {| m_kind := KMFile 7; m_mtime := 11000000000; m_user := Some [117];
                 m_group := Some [103]; m_mode := 420 |}) l.
Proof. eexists. split; [vm_compute; reflexivity | left; reflexivity]. Qed.

(* the backup: files only, plus the deletion; the symlink, the directories and the
   file-to-directory swap produce no callback *)
Example ex_backup :
  summary (backup_changes (fun _ => true) ex_idx ex_src) =
  DOk [([47;97], 0); ([47;98], 3); ([47;99], 2); ([47;100], 1); ([47;122], 0);
       ([47;115;47;102;47;103], 1)].
Proof. vm_compute. reflexivity. Qed.

(* with block [1] of /a missing the unchanged file /a is reported Changed *)
Example ex_backup_missing_block :
  summary (backup_changes (fun h => negb (str_eqb h [1])) ex_idx ex_src) =
  DOk [([47;97], 3); ([47;98], 3); ([47;99], 2); ([47;100], 1); ([47;122], 0);
       ([47;115;47;102;47;103], 1)].
Proof. vm_compute. reflexivity. Qed.

Example ex_basis_wf : forall a, In a ex_idx -> basis_wf (fun _ => true) a.
Proof.
  intros a Ha. repeat (destruct Ha as [<- | Ha];
    [split; [intros K; first [reflexivity | discriminate K] | reflexivity]|]).
  destruct Ha.
Qed.

Example ex_backup_is_filtered_diff :
  exists bk df, backup_changes (fun _ => true) ex_idx ex_src = DOk bk
                /\ diff true ex_idx ex_src = DOk df /\ bk = filter reported df.
Proof. eexists. eexists. split; [|split]; vm_compute; reflexivity. Qed.

Example ex_self_corresponds : Forall2 corresponds ex_idx ex_src0.
Proof.
  repeat (constructor; [repeat split; try reflexivity; intros _; reflexivity|]).
  constructor.
Qed.

Example ex_self_diff :
  diff false ex_idx ex_src0 = DOk []
  /\ summary (diff true ex_idx ex_src0) =
     DOk [([47], 0); ([47;97], 0); ([47;98], 0); ([47;99], 0); ([47;108], 0);
          ([47;115], 0); ([47;122], 0); ([47;115;47;102], 0)].
Proof. split; vm_compute; reflexivity. Qed.

(* Panics are visible: a stored entry of unknown kind, or with mtime_nanos >= 10^9 *)
Example ex_panic_unknown :
  diff true [ie [47;97] KUnknown 1 0 420 [] None] [] = DPanic.
Proof. vm_compute. reflexivity. Qed.
Example ex_panic_nanos :
  diff true [ie [47;97] KFile 1 1000000000 420 [] None] [se [47;97] KFile 0 None 2000000000 420]
  = DPanic.
Proof. vm_compute. reflexivity. Qed.
