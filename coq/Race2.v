(* Two backups racing on one archive (C07, second clause): the vocabulary of the statements.
   Model file: definitions only (lemmas: Race2P.v). *)
From Coq Require Import List NArith Bool.
From CV Require Import Base.Str Apath Entry Store Backup Race.
Import ListNotations.
Local Open Scope N_scope.

Section Race2.
  Variable pre : bytes -> N.

  (* every state the archive passes through along a tagged trace (the state after each
     operation); the recorded replies play no part *)
  Fixpoint trace_states (a : arch) (tr : list (bool * (op * reply))) : list arch :=
    match tr with
    | [] => []
    | (_, (o, _)) :: t => let a' := fst (exec pre a o NoFault) in a' :: trace_states a' t
    end.
End Race2.

(* what is left of a program once it has received the replies recorded in a history *)
Fixpoint residual {R} (p : prog R) (h : list (op * reply)) : prog R :=
  match h with
  | [] => p
  | (_, r) :: h' => match p with Do _ k => residual (k r) h' | _ => p end
  end.

(* how a program stands after a history: returned ([Some (Some r)]), panicked ([Some None]), or
   still running ([None]); the same reading of an outcome *)
Definition end_of {R} (p : prog R) : option (option R) :=
  match p with Ret r => Some (Some r) | Panic => Some None | Do _ _ => None end.
Definition out_end {R} (o : outcome R) : option (option R) :=
  match o with Done r => Some (Some r) | Panicked => Some None | Crashed => None end.

(* the two outcomes of [run2] *)
Definition out1 {R S} (x : list (bool * (op * reply)) * arch * outcome R * outcome S) : outcome R := snd (fst x).
Definition out2 {R S} (x : list (bool * (op * reply)) * arch * outcome R * outcome S) : outcome S := snd x.
Definition out_of (x : bool) (X : list (bool * (op * reply)) * arch * outcome bres * outcome bres) : outcome bres :=
  if x then out2 X else out1 X.

Definition is_mkband (e : bool * (op * reply)) : bool :=
  match e with (_, (OpMkdir (DBand _), _)) => true | _ => false end.

(* the id [Band::create] computes from a listing of the archive root *)
Definition next_id (ds : list dpath) : N :=
  match max_id (band_ids ds) with Some m => m + 1 | None => 0 end.

(* the BANDHEAD write of [Band::create] *)
Definition head_w (b : N) : op := OpWrite (PHead b) (PlHead HvOk) CreateNew.

(* the band an operation puts something into: a write of one of its files, or the creation of
   one of its hunk sub-directories.  (Creating bNNNN/ and bNNNN/i/ is NOT listed: the transport's
   create_dir succeeds on an existing directory, so both racers may "create" them.) *)
Definition band_put (o : op) : option N :=
  match o with
  | OpWrite (PHead b) _ _ | OpWrite (PTail b) _ _ | OpWrite (PHunk b _) _ _ => Some b
  | OpMkdir (DHunkSub b _) => Some b
  | _ => None
  end.

Definition is_ROk (r : reply) : bool := match r with ROk => true | _ => false end.

(* boolean checkers used by the examples *)
Definition ok_writes (tr : list (bool * (op * reply))) : list (bool * fpath) :=
  flat_map (fun x => match x with (b, (OpWrite f _ _, ROk)) => [(b, f)] | _ => [] end) tr.
Definition ok_puts (who : bool) (tr : list (bool * (op * reply))) : list N :=
  flat_map (fun x => match x with
                     | (b, (o, ROk)) => if Bool.eqb b who then match band_put o with Some n => [n] | None => [] end else []
                     | _ => [] end) tr.
Definition mkdir_bands (who : bool) (tr : list (bool * (op * reply))) : list (N * reply) :=
  flat_map (fun x => match x with
                     | (b, (OpMkdir (DBand n), r)) => if Bool.eqb b who then [(n, r)] else []
                     | _ => [] end) tr.
Definition head_writes (who : bool) (tr : list (bool * (op * reply))) : list (N * reply) :=
  flat_map (fun x => match x with
                     | (b, (OpWrite (PHead n) _ _, r)) => if Bool.eqb b who then [(n, r)] else []
                     | _ => [] end) tr.
