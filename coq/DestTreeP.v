(* The functional counterpart of DestP.v for the ordinary case: restoring the listing of a
   real tree into an empty destination builds EXACTLY that tree, with no errors.

   Definitions first ([tree_listing], its checker [tree_listingb], [node_of], [listed]);
   main results:
     tree_listingb_sound
     fresh_restore_builds_the_tree
     overwrite_into_empty_builds_the_tree
     without_parents_first_refuted, root_must_be_a_directory_refuted *)
From Coq Require Import List NArith Bool Lia Arith.
From CV Require Import Base.Str Base.StrP Apath ApathP Entry Valid Dest DestP.
Import ListNotations.
Local Open Scope N_scope.

(* ------------------------------------------------------------------------- *)
(** * 1. Listings of a tree                                                    *)
(* ------------------------------------------------------------------------- *)
(* each entry's parent directories were listed earlier, as directories *)
Definition parents_first (es : list entry) : Prop :=
  forall l1 e l2 q, es = l1 ++ e :: l2 -> ppre q (comps (e_apath e)) ->
    exists d, In d l1 /\ comps (e_apath d) = q /\ e_kind d = KDir.

(* what a source walk of a real tree lists, in apath order: valid distinct paths, no unknown
   kinds, symlinks with targets, the root (if listed) a directory, directories before their
   contents -- and so nothing beneath a file or a symlink *)
Definition tree_listing (es : list entry) : Prop :=
  (forall e, In e es -> is_valid (e_apath e) = true) /\
  NoDup (map e_apath es) /\
  (forall e, In e es -> e_kind e <> KUnknown) /\
  (forall e, In e es -> e_kind e = KSymlink -> e_target e <> None) /\
  (forall e, In e es -> comps (e_apath e) = [] -> e_kind e = KDir) /\
  parents_first es.

(* -- the checker: quadratic in the number of entries -- *)
Fixpoint nodupb (l : list str) : bool :=
  match l with
  | [] => true
  | x :: l' => negb (existsb (str_eqb x) l') && nodupb l'
  end.

(* [dirs]: the paths of the directories listed so far.  It is enough to find the parent. *)
Fixpoint parents_firstb (dirs : list rpath) (es : list entry) : bool :=
  match es with
  | [] => true
  | e :: es' =>
      let p := comps (e_apath e) in
      (match parent p with [] => true | par => mem_rpath par dirs end)
      && parents_firstb (if kind_eqb (e_kind e) KDir then p :: dirs else dirs) es'
  end.

Definition tree_listingb (es : list entry) : bool :=
  forallb (fun e => is_valid (e_apath e)) es
  && nodupb (map e_apath es)
  && forallb (fun e => negb (kind_eqb (e_kind e) KUnknown)) es
  && forallb (fun e => negb (kind_eqb (e_kind e) KSymlink)
                       || match e_target e with Some _ => true | None => false end) es
  && forallb (fun e => negb (match comps (e_apath e) with [] => true | _ => false end)
                       || kind_eqb (e_kind e) KDir) es
  && parents_firstb [] es.

(* what restore makes of an entry *)
Definition node_of (content_of : entry -> bytes) (e : entry) : node :=
  match e_kind e with
  | KDir => NDir
  | KFile => NFile (content_of e)
  | KSymlink => match e_target e with Some t => NLink t | None => NDir end   (* None: excluded *)
  | KUnknown => NDir                                                         (* excluded *)
  end.

(* the entry listed for the destination path p *)
Definition listed (es : list entry) (p : rpath) : option entry :=
  find (fun e => rpath_eqb (comps (e_apath e)) p) es.

Definition spec_node (content_of : entry -> bytes) (es : list entry) (p : rpath) : option node :=
  match listed es p with
  | Some e => Some (node_of content_of e)
  | None => None
  end.

(* ------------------------------------------------------------------------- *)
(** * 2. The checker is sound                                                  *)
(* ------------------------------------------------------------------------- *)
Lemma kind_eqb_true k k' : kind_eqb k k' = true <-> k = k'.
Proof. destruct k, k'; cbn; split; congruence. Qed.

Lemma nodupb_sound l : nodupb l = true -> NoDup l.
Proof.
  induction l as [|x l IH]; cbn; intros H; [constructor|].
  apply andb_true_iff in H. destruct H as [H1 H2]. constructor; [|apply IH; exact H2].
  intros Hin. apply negb_true_iff in H1.
  assert (existsb (str_eqb x) l = true); [|congruence].
  apply existsb_exists. exists x. split; [exact Hin|apply str_eqb_refl].
Qed.

Lemma parents_firstb_sound es : forall dirs l0,
  (forall q, In q dirs -> exists d, In d l0 /\ comps (e_apath d) = q /\ e_kind d = KDir) ->
  (forall q r, In q dirs -> ppre r q -> In r dirs) ->
  parents_firstb dirs es = true ->
  forall l1 e l2 q, es = l1 ++ e :: l2 -> ppre q (comps (e_apath e)) ->
    exists d, In d (l0 ++ l1) /\ comps (e_apath d) = q /\ e_kind d = KDir.
Proof.
  induction es as [|e0 es IH]; intros dirs l0 Hd Hc H l1 e l2 q E P.
  - destruct l1; discriminate.
  - cbn [parents_firstb] in H. apply andb_true_iff in H. destruct H as [Hpar Hrest].
    assert (Anc : forall r, ppre r (comps (e_apath e0)) -> In r dirs).
    { intros r Pr. apply ppre_parent in Pr. destruct Pr as [_ [Hne Pr]].
      destruct (parent (comps (e_apath e0))) as [|c par] eqn:Ep; [congruence|]. rewrite <- Ep in *.
      apply mem_rpath_in in Hpar. destruct Pr as [->|Pr]; [exact Hpar|]. exact (Hc _ _ Hpar Pr). }
    destruct l1 as [|x l1].
    + cbn in E. inversion E; subst e0 l2. rewrite app_nil_r. apply Hd. apply Anc. exact P.
    + cbn in E. inversion E; subst x es.
      assert (G : exists d, In d ((l0 ++ [e0]) ++ l1) /\ comps (e_apath d) = q /\ e_kind d = KDir).
      { eapply (IH _ (l0 ++ [e0])); [| |exact Hrest|reflexivity|exact P].
        - intros r Hr. destruct (kind_eqb (e_kind e0) KDir) eqn:K.
          + destruct Hr as [<-|Hr].
            * exists e0. split; [apply in_app_iff; right; left; reflexivity|].
              split; [reflexivity|apply kind_eqb_true; exact K].
            * destruct (Hd r Hr) as [d [Hin Hd']]. exists d. split; [apply in_app_iff; left; exact Hin|exact Hd'].
          + destruct (Hd r Hr) as [d [Hin Hd']]. exists d. split; [apply in_app_iff; left; exact Hin|exact Hd'].
        - intros r r' Hr Pr. destruct (kind_eqb (e_kind e0) KDir).
          + destruct Hr as [<-|Hr]; [right; apply Anc; exact Pr|right; exact (Hc _ _ Hr Pr)].
          + exact (Hc _ _ Hr Pr). }
      rewrite <- app_assoc in G. exact G.
Qed.

Theorem tree_listingb_sound es : tree_listingb es = true -> tree_listing es.
Proof.
  unfold tree_listingb. rewrite !andb_true_iff. intros [[[[[V N] K] T] R] P].
  rewrite forallb_forall in V, K, T, R. repeat split.
  - exact V.
  - apply nodupb_sound. exact N.
  - intros e He E. specialize (K e He). rewrite E in K. discriminate.
  - intros e He E Tn. specialize (T e He). rewrite E, Tn in T. discriminate.
  - intros e He E. specialize (R e He). rewrite E in R. cbn in R. apply kind_eqb_true. exact R.
  - intros l1 e l2 q E Pq.
    apply (parents_firstb_sound es [] [] ltac:(intros ? []) ltac:(intros ? ? []) P l1 e l2 q E Pq).
Qed.

(* ------------------------------------------------------------------------- *)
(** * 3. Lists                                                                 *)
(* ------------------------------------------------------------------------- *)
Lemma find_snoc {A} (g : A -> bool) l x :
  find g (l ++ [x]) = match find g l with Some y => Some y | None => if g x then Some x else None end.
Proof. induction l as [|a l IH]; cbn; [reflexivity|]. destruct (g a); [reflexivity|exact IH]. Qed.

Lemma find_finds {A} (g : A -> bool) l x : In x l -> g x = true -> exists y, find g l = Some y.
Proof.
  induction l as [|a l IH]; intros Hin Hg; [contradiction|]. cbn.
  destruct (g a) eqn:Ga; [eexists; reflexivity|].
  destruct Hin as [->|Hin]; [congruence|]. apply IH; assumption.
Qed.

Lemma NoDup_app_l {A} (l m : list A) : NoDup (l ++ m) -> NoDup l.
Proof.
  induction l as [|a l IH]; intros H; [constructor|]. cbn in H. inversion H; subst.
  constructor; [|apply IH; assumption]. intros Hin. apply H2. apply in_app_iff. left. exact Hin.
Qed.

Lemma NoDup_map_eq {A B} (g : A -> B) l x y :
  NoDup (map g l) -> In x l -> In y l -> g x = g y -> x = y.
Proof.
  induction l as [|a l IH]; intros N Hx Hy E; [contradiction|]. cbn in N. inversion N; subst.
  destruct Hx as [->|Hx], Hy as [->|Hy].
  - reflexivity.
  - exfalso. apply H1. rewrite E. apply in_map. exact Hy.
  - exfalso. apply H1. rewrite <- E. apply in_map. exact Hx.
  - apply IH; assumption.
Qed.

Lemma listed_some es p x : listed es p = Some x -> In x es /\ comps (e_apath x) = p.
Proof.
  unfold listed. intros H. apply find_some in H. destruct H as [Hin E]. apply rpath_eqb_eq in E. auto.
Qed.

Lemma listed_snoc es e q :
  listed (es ++ [e]) q =
  match listed es q with
  | Some x => Some x
  | None => if rpath_eqb (comps (e_apath e)) q then Some e else None
  end.
Proof. unfold listed. exact (find_snoc (fun x => rpath_eqb (comps (e_apath x)) q) es e). Qed.

(* ------------------------------------------------------------------------- *)
(** * 4. The quiet parts of a turn                                             *)
(* ------------------------------------------------------------------------- *)
Lemma walk_above_nolink f qs : forall real,
  (forall q, In q qs -> is_link (node_at f q) = false) -> snd (walk_above f real qs) = None.
Proof.
  induction qs as [|q qs IH]; intros real H; [reflexivity|]. cbn [walk_above].
  assert (H' : forall r, In r qs -> is_link (node_at f r) = false) by (intros r Hr; apply H; right; exact Hr).
  destruct (mem_rpath q real); [apply IH; exact H'|].
  pose proof (H q (or_introl eq_refl)) as L.
  destruct (node_at f q) as [[| |]|]; try (apply IH; exact H'); [discriminate|reflexivity].
Qed.

Lemma symlink_above_nolink f real p :
  (forall q, ppre q p -> is_link (node_at f q) = false) -> snd (symlink_above f real p) = None.
Proof.
  intros H. unfold symlink_above. destruct (parent p); [reflexivity|].
  destruct (mem_rpath _ real); [reflexivity|]. apply walk_above_nolink.
  intros q Hq. apply H. apply in_prefixes. exact Hq.
Qed.

(* the same state, but for the cache of real directories *)
Definition same_but_real (s s2 : dstate) : Prop :=
  d_fs s2 = d_fs s /\ d_links s2 = d_links s /\ d_failed s2 = d_failed s /\
  d_done s2 = d_done s /\ d_errs s2 = d_errs s.

Lemma chk_part_clean ow s p :
  (forall q, ppre q p -> is_link (node_at (d_fs s) q) = false) ->
  is_link (node_at (d_fs s) p) = false ->
  exists s2, chk_part ow s p = (s2, true) /\ same_but_real s s2.
Proof.
  intros A L. unfold chk_part.
  destruct (ow && negb (match p with [] => true | _ => false end)).
  - pose proof (symlink_above_nolink (d_fs s) (d_real s) p A) as S.
    destruct (symlink_above (d_fs s) (d_real s) p) as [real' found]. cbn [snd] in S. subst found.
    cbn [with_real d_fs]. rewrite L. exists (with_real s real'). split; [reflexivity|].
    repeat split; reflexivity.
  - exists s. split; [reflexivity|]. repeat split; reflexivity.
Qed.

Lemma par_part_clean s2 e p a :
  d_failed s2 = [] -> through (d_fs s2) true p = false -> node_at (d_fs s2) (parent p) <> None ->
  par_part s2 e p a = (s2, true).
Proof.
  intros F T N. unfold par_part.
  destruct (negb (kind_eqb (e_kind e) KDir) && negb (existsb (fun d => is_prefix_of d a) (d_failed s2)));
    [|reflexivity].
  unfold exists_follow. rewrite (through_parent _ true p T).
  destruct (node_at (d_fs s2) (parent p)); [reflexivity|congruence].
Qed.

(* ------------------------------------------------------------------------- *)
(** * 5. The invariant: the destination is the tree listed so far               *)
(* ------------------------------------------------------------------------- *)
Section Build.
  Variable content_of : entry -> bytes.

  Definition Built (l1 : list entry) (s : dstate) : Prop :=
    d_errs s = 0 /\ d_failed s = [] /\ d_done s = map e_apath l1 /\
    (forall a, In a (d_links s) -> exists x, In x l1 /\ e_apath x = a /\ e_kind x = KSymlink) /\
    (forall p, p <> [] -> node_at (d_fs s) p = spec_node content_of l1 p).

  Lemma Built_same l1 s s2 : same_but_real s s2 -> Built l1 s -> Built l1 s2.
  Proof.
    intros [Ef [El [Efa [Ed Ee]]]] [B1 [B2 [B3 [B4 B5]]]]. unfold Built.
    rewrite Ef, El, Efa, Ed, Ee. auto.
  Qed.

  (* what the listing says about the turn for e, before it *)
  Lemma built_facts l1 e l2 s :
    tree_listing (l1 ++ e :: l2) -> Built l1 s ->
    (forall q, ppre q (comps (e_apath e)) -> node_at (d_fs s) q = Some NDir) /\
    listed l1 (comps (e_apath e)) = None /\
    existsb (fun link => beneath link e) (d_links s) = false.
  Proof.
    intros [V [N [KU [TG [RT PF]]]]] [B1 [B2 [B3 [B4 B5]]]].
    assert (N1 : NoDup (map e_apath l1)) by (rewrite map_app in N; exact (NoDup_app_l _ _ N)).
    assert (V1 : forall x, In x l1 -> is_valid (e_apath x) = true).
    { intros x Hx. apply V. apply in_app_iff. left. exact Hx. }
    assert (Ve : is_valid (e_apath e) = true) by (apply V; apply in_app_iff; right; left; reflexivity).
    assert (Na : ~ In (e_apath e) (map e_apath l1)).
    { rewrite map_app in N. cbn [map] in N. apply NoDup_remove_2 in N.
      intros H. apply N. apply in_app_iff. left. exact H. }
    (* the one entry of l1 at a path where a directory was listed *)
    assert (Dir : forall d, In d l1 -> listed l1 (comps (e_apath d)) = Some d).
    { intros d Hd.
      destruct (find_finds (fun x => rpath_eqb (comps (e_apath x)) (comps (e_apath d))) l1 d Hd
                  (rpath_eqb_refl _)) as [x Fx].
      unfold listed. rewrite Fx. f_equal.
      destruct (listed_some _ _ _ Fx) as [Hx Cx].
      apply (NoDup_map_eq e_apath l1 x d N1 Hx Hd).
      apply comps_inj; [apply V1; exact Hx|apply V1; exact Hd|exact Cx]. }
    assert (F1 : forall q, ppre q (comps (e_apath e)) -> node_at (d_fs s) q = Some NDir).
    { intros q P. destruct (PF l1 e l2 q eq_refl P) as [d [Hd [Cd Kd]]].
      rewrite B5 by (apply P). unfold spec_node. rewrite <- Cd, (Dir d Hd).
      unfold node_of. rewrite Kd. reflexivity. }
    split; [exact F1|]. split.
    - destruct (listed l1 (comps (e_apath e))) as [x|] eqn:L; [exfalso|reflexivity].
      destruct (listed_some _ _ _ L) as [Hx Cx]. apply Na.
      rewrite <- (comps_inj _ _ (V1 x Hx) Ve Cx). apply in_map. exact Hx.
    - apply existsb_false_forall. intros link Hl.
      destruct (B4 link Hl) as [x [Hx [Ax Kx]]].
      destruct (beneath link e) eqn:Bn; [exfalso|reflexivity].
      unfold beneath in Bn. apply andb_true_iff in Bn. destruct Bn as [Pre Neq].
      assert (Vx : is_valid link = true) by (rewrite <- Ax; apply V1; exact Hx).
      unfold is_prefix_of in Pre. rewrite (is_prefix_of_spec _ _ Vx Ve) in Pre.
      apply comp_prefix_spec in Pre. destruct Pre as [r Er].
      assert (Nl : link <> e_apath e).
      { intros E. rewrite E, str_eqb_refl in Neq. discriminate. }
      assert (Pp : ppre (comps link) (comps (e_apath e))).
      { split.
        - intros C. assert (Kd : e_kind x = KDir).
          { apply RT; [apply in_app_iff; left; exact Hx|rewrite Ax; exact C]. }
          congruence.
        - destruct r as [|c rest]; [|exists c, rest; exact Er].
          exfalso. apply Nl. apply comps_inj; [exact Vx|exact Ve|]. rewrite Er, app_nil_r. reflexivity. }
      destruct (PF l1 e l2 _ eq_refl Pp) as [d [Hd [Cd Kd]]].
      assert (d = x).
      { apply (NoDup_map_eq e_apath l1 d x N1 Hd Hx).
        apply comps_inj; [apply V1; exact Hd|apply V1; exact Hx|rewrite Ax; exact Cd]. }
      subst d. congruence.
  Qed.

  (* a turn that sets the node at p (only) *)
  Lemma spec_extend l1 e f f' :
    listed l1 (comps (e_apath e)) = None ->
    (forall q, q <> [] -> node_at f q = spec_node content_of l1 q) ->
    (forall q, node_at f' q = if rpath_eqb (comps (e_apath e)) q then Some (node_of content_of e) else node_at f q) ->
    forall q, q <> [] -> node_at f' q = spec_node content_of (l1 ++ [e]) q.
  Proof.
    intros L S H q Hq. rewrite H. unfold spec_node. rewrite listed_snoc.
    destruct (rpath_eqb (comps (e_apath e)) q) eqn:E.
    - apply rpath_eqb_eq in E. subst q. rewrite L. reflexivity.
    - rewrite (S q Hq). unfold spec_node. destruct (listed l1 q); reflexivity.
  Qed.

  Lemma mkdirs_only_p (f : fs) (p : rpath) :
    p <> [] -> node_at f p = None -> (forall q, ppre q p -> node_at f q = Some NDir) ->
    forall q, node_at (mkdirs f p) q = if rpath_eqb p q then Some NDir else node_at f q.
  Proof.
    intros Hp Np A q. rewrite mkdirs_node. destruct (rpath_eqb p q) eqn:E.
    - apply rpath_eqb_eq in E. subst q. rewrite Np.
      assert (X : existsb (rpath_eqb p) (prefixes p ++ [p]) = true) by (apply existsb_chain; right; reflexivity).
      rewrite X. reflexivity.
    - destruct (node_at f q) eqn:Nq; [reflexivity|].
      destruct (existsb (rpath_eqb q) (prefixes p ++ [p])) eqn:X; [exfalso|reflexivity].
      apply existsb_chain in X. destruct X as [P| ->]; [rewrite (A q P) in Nq; discriminate|].
      rewrite rpath_eqb_refl in E. discriminate.
  Qed.

  Lemma Built_snoc_fields l1 e s s' :
    Built l1 s ->
    d_errs s' = d_errs s -> d_failed s' = d_failed s -> d_done s' = d_done s ++ [e_apath e] ->
    (forall a, In a (d_links s') -> In a (d_links s) \/ (a = e_apath e /\ e_kind e = KSymlink)) ->
    (forall p, p <> [] -> node_at (d_fs s') p = spec_node content_of (l1 ++ [e]) p) ->
    Built (l1 ++ [e]) s'.
  Proof.
    intros [B1 [B2 [B3 [B4 B5]]]] E1 E2 E3 E4 E5. unfold Built.
    rewrite E1, E2, E3, B3, map_app. repeat split; auto.
    intros a Ha. destruct (E4 a Ha) as [H|[-> K]].
    - destruct (B4 a H) as [x [Hx Px]]. exists x. split; [apply in_app_iff; left; exact Hx|exact Px].
    - exists e. split; [apply in_app_iff; right; left; reflexivity|auto].
  Qed.

  Lemma kind_part_built l1 e l2 s :
    tree_listing (l1 ++ e :: l2) -> Built l1 s ->
    Built (l1 ++ [e]) (kind_part content_of s e (comps (e_apath e)) (e_apath e)).
  Proof.
    intros TL B. destruct (built_facts l1 e l2 s TL B) as [F1 [F2 _]].
    destruct TL as [V [N [KU [TG [RT PF]]]]].
    assert (He : In e (l1 ++ e :: l2)) by (apply in_app_iff; right; left; reflexivity).
    pose proof B as [B1 [B2 [B3 [B4 B5]]]].
    set (p := comps (e_apath e)) in *.
    assert (Np : p <> [] -> node_at (d_fs s) p = None).
    { intros Hp. rewrite (B5 p Hp). unfold spec_node. rewrite F2. reflexivity. }
    assert (T : forall b, p <> [] -> through (d_fs s) b p = false).
    { intros b Hp. apply through_false_iff. split.
      - intros q P. rewrite (F1 q P). reflexivity.
      - intros _. rewrite (Np Hp). reflexivity. }
    assert (Par : p <> [] -> is_dir (node_at (d_fs s) (parent p)) = true).
    { intros Hp. destruct (parent p) as [|c par] eqn:Ep; [reflexivity|]. rewrite <- Ep.
      rewrite (F1 (parent p)); [reflexivity|]. apply ppre_parent.
      split; [exact Hp|]. split; [congruence|left; reflexivity]. }
    unfold kind_part. fold p. destruct (e_kind e) eqn:K.
    - (* file *)
      assert (Hp : p <> []) by (intros C; pose proof (RT e He C); congruence).
      unfold create_file. rewrite (T true Hp), (Par Hp), (Np Hp). cbn [negb is_dir].
      apply (Built_snoc_fields l1 e s); auto; cbn [add_done with_fs d_links d_fs];
        try (intros a Ha; left; exact Ha).
      apply (spec_extend l1 e (d_fs s)); [exact F2|exact B5|].
      intros q. fold p. rewrite node_at_put by exact Hp. unfold node_of. rewrite K. reflexivity.
    - (* directory *)
      destruct p as [|c p'] eqn:Ep.
      + apply (Built_snoc_fields l1 e s); auto; cbn [add_done add_defer d_links d_fs];
          try (intros a Ha; left; exact Ha).
        intros q Hq. rewrite (B5 q Hq). unfold spec_node. rewrite listed_snoc.
        fold p. rewrite Ep. rewrite (rpath_eqb_neq [] q) by congruence.
        destruct (listed l1 q); reflexivity.
      + rewrite <- Ep in *. assert (Hp : p <> []) by (rewrite Ep; discriminate). clear Ep c p'.
        unfold restore_dir, mkdir_all. rewrite (T true Hp), (Np Hp). cbn [is_file]. rewrite andb_false_r.
        match goal with |- context [existsb ?g ?l] => assert (NFc : existsb g l = false) end.
        { apply existsb_false_forall. intros q Hq. apply in_chain in Hq.
          destruct Hq as [P| ->]; [rewrite (F1 q P)|rewrite (Np Hp)]; reflexivity. }
        rewrite NFc.
        apply (Built_snoc_fields l1 e s); auto; cbn [add_done add_defer with_fs d_links d_fs];
          try (intros a Ha; left; exact Ha).
        apply (spec_extend l1 e (d_fs s)); [exact F2|exact B5|].
        intros q. fold p. unfold node_of. rewrite K.
        exact (mkdirs_only_p (d_fs s) p Hp (Np Hp) F1 q).
    - (* symlink *)
      assert (Hp : p <> []) by (intros C; pose proof (RT e He C); congruence).
      destruct (e_target e) as [t|] eqn:Et; [|exfalso; exact (TG e He K Et)].
      unfold make_link. rewrite (T false Hp), (Par Hp), (Np Hp). cbn [negb].
      apply (Built_snoc_fields l1 e s); auto; cbn [add_done add_link with_fs d_links d_fs].
      + intros a Ha. apply in_app_iff in Ha. destruct Ha as [Ha|[<-|[]]]; auto.
      + apply (spec_extend l1 e (d_fs s)); [exact F2|exact B5|].
        intros q. fold p. rewrite node_at_put by exact Hp. unfold node_of. rewrite K, Et. reflexivity.
    - exfalso. exact (KU e He K).
  Qed.

  Lemma built_step ow l1 e l2 s :
    tree_listing (l1 ++ e :: l2) -> Built l1 s ->
    Built (l1 ++ [e]) (restore_entry content_of ow s e).
  Proof.
    intros TL B. rewrite restore_entry_eq.
    destruct (built_facts l1 e l2 s TL B) as [F1 [F2 F3]]. rewrite F3.
    pose proof B as [_ [_ [_ [_ B5]]]].
    assert (Lp : is_link (node_at (d_fs s) (comps (e_apath e))) = false).
    { destruct (comps (e_apath e)) as [|c p'] eqn:Ep; [reflexivity|]. rewrite <- Ep in *.
      rewrite B5 by (rewrite Ep; discriminate). unfold spec_node. rewrite F2. reflexivity. }
    destruct (chk_part_clean ow s (comps (e_apath e))) as [s2 [C Sm]]; [|exact Lp|].
    { intros q P. rewrite (F1 q P). reflexivity. }
    rewrite C. cbn [negb].
    pose proof (Built_same _ _ _ Sm B) as B'.
    destruct Sm as [Ef _]. rewrite <- Ef in F1, Lp.
    rewrite par_part_clean; [cbn [negb]; exact (kind_part_built l1 e l2 s2 TL B')|apply B'| |].
    - apply through_false_iff. split; [intros q P; rewrite (F1 q P); reflexivity|intros _; exact Lp].
    - destruct (parent (comps (e_apath e))) as [|c par] eqn:Ep; [discriminate|]. rewrite <- Ep.
      rewrite (F1 (parent (comps (e_apath e)))); [discriminate|]. apply ppre_parent.
      split; [intros C0; rewrite C0 in Ep; discriminate|]. split; [congruence|left; reflexivity].
  Qed.

  Lemma built_loop ow l2 : forall l1 s,
    tree_listing (l1 ++ l2) -> Built l1 s ->
    Built (l1 ++ l2) (fold_left (restore_entry content_of ow) l2 s).
  Proof.
    induction l2 as [|e l2 IH]; intros l1 s TL B; [rewrite app_nil_r; exact B|].
    cbn [fold_left].
    replace (l1 ++ e :: l2) with ((l1 ++ [e]) ++ l2) by (rewrite <- app_assoc; reflexivity).
    apply IH.
    - rewrite <- app_assoc. exact TL.
    - exact (built_step ow l1 e l2 s TL B).
  Qed.

  Lemma Built_start : Built [] (start []).
  Proof.
    unfold Built. cbn. split; [reflexivity|]. split; [reflexivity|]. split; [reflexivity|]. split.
    - intros a [].
    - intros p Hp. destruct p; [congruence|reflexivity].
  Qed.
End Build.

(* ------------------------------------------------------------------------- *)
(** * 6. The theorems                                                          *)
(* ------------------------------------------------------------------------- *)
Theorem fresh_restore_builds_the_tree :
  forall content_of es s,
    tree_listing es -> restore_into content_of false [] es = Some s ->
    d_esc s = 0 /\ d_errs s = 0 /\ d_done s = map e_apath es /\
    (forall p, p <> [] ->
       node_at (d_fs s) p =
       match find (fun e => rpath_eqb (comps (e_apath e)) p) es with
       | Some e => Some (node_of content_of e)
       | None => None
       end).
Proof.
  intros content_of es s TL H. unfold restore_into in H. cbn [negb andb] in H. injection H as <-.
  pose proof (built_loop content_of false es [] (start []) TL (Built_start content_of)) as B.
  cbn [app] in B.
  assert (G : Good (fold_left (restore_entry content_of false) es (start []))).
  { destruct TL as [V [N _]]. apply fresh_loop; auto.
    - apply Good_start, tree_like_nil.
    - intros q L. destruct q; discriminate.
    - intros a []. }
  rewrite (apply_deferrals_good _ G).
  destruct B as [B1 [_ [B3 [_ B5]]]]. split; [apply G|]. split; [exact B1|]. split; [exact B3|exact B5].
Qed.

Theorem overwrite_into_empty_builds_the_tree :
  forall content_of es s,
    tree_listing es -> restore_into content_of true [] es = Some s ->
    d_esc s = 0 /\ d_errs s = 0 /\ d_done s = map e_apath es /\
    (forall p, p <> [] ->
       node_at (d_fs s) p =
       match find (fun e => rpath_eqb (comps (e_apath e)) p) es with
       | Some e => Some (node_of content_of e)
       | None => None
       end).
Proof.
  intros content_of es s TL H. unfold restore_into in H. cbn [negb andb] in H. injection H as <-.
  pose proof (built_loop content_of true es [] (start []) TL (Built_start content_of)) as B.
  cbn [app] in B.
  pose proof (overwrite_loop_good content_of es _ (Good_start [] tree_like_nil)) as G.
  rewrite (apply_deferrals_good _ G).
  destruct B as [B1 [_ [B3 [_ B5]]]]. split; [apply G|]. split; [exact B1|]. split; [exact B3|exact B5].
Qed.

(* the same, read in both directions *)
Corollary fresh_restore_exact :
  forall content_of es s,
    tree_listing es -> restore_into content_of false [] es = Some s ->
    (forall e, In e es -> comps (e_apath e) <> [] ->
       node_at (d_fs s) (comps (e_apath e)) = Some (node_of content_of e)) /\
    (forall p n, p <> [] -> node_at (d_fs s) p = Some n ->
       exists e, In e es /\ comps (e_apath e) = p /\ n = node_of content_of e).
Proof.
  intros content_of es s TL H.
  destruct (fresh_restore_builds_the_tree content_of es s TL H) as [_ [_ [_ S]]].
  destruct TL as [V [N _]]. split.
  - intros e He Hp. rewrite (S _ Hp).
    destruct (find_finds (fun x => rpath_eqb (comps (e_apath x)) (comps (e_apath e))) es e He
                (rpath_eqb_refl _)) as [x Fx].
    rewrite Fx. destruct (listed_some es _ x Fx) as [Hx Cx].
    assert (x = e); [|subst; reflexivity].
    apply (NoDup_map_eq e_apath es x e N Hx He). apply comps_inj; auto.
  - intros p n Hp Hn. rewrite (S p Hp) in Hn.
    destruct (find _ es) as [x|] eqn:Fx; [|discriminate].
    destruct (listed_some es p x Fx) as [Hx Cx]. exists x. split; [exact Hx|]. split; [exact Cx|congruence].
Qed.

(* ------------------------------------------------------------------------- *)
(** * 7. The hypotheses are needed                                             *)
(* ------------------------------------------------------------------------- *)
(* without parents_first: the file /a/b, with /a not listed, has its parent made by
   create_dir_all -- so something not listed is there *)
Theorem without_parents_first_refuted :
  exists content_of es s,
    (forall e, In e es -> is_valid (e_apath e) = true) /\ NoDup (map e_apath es) /\
    (forall e, In e es -> e_kind e <> KUnknown) /\
    (forall e, In e es -> e_kind e = KSymlink -> e_target e <> None) /\
    (forall e, In e es -> comps (e_apath e) = [] -> e_kind e = KDir) /\
    restore_into content_of false [] es = Some s /\
    exists p, p <> [] /\
      node_at (d_fs s) p <>
      match find (fun e => rpath_eqb (comps (e_apath e)) p) es with
      | Some e => Some (node_of content_of e)
      | None => None
      end.
Proof.
  exists content_bang, [mk_entry [47] KDir None; mk_entry [47; 97; 47; 98] KFile None].
  eexists. repeat split; try (vm_compute; reflexivity).
  - intros e [<-|[<-|[]]]; reflexivity.
  - cbn. repeat (constructor; [cbn; intuition discriminate|]). constructor.
  - intros e [<-|[<-|[]]]; discriminate.
  - intros e [<-|[<-|[]]]; discriminate.
  - intros e [<-|[<-|[]]]; [reflexivity|discriminate].
  - exists [[97]]. split; [discriminate|]. vm_compute. discriminate.
Qed.

(* without "the root is a directory": a symlink listed at "/" cannot be made *)
Theorem root_must_be_a_directory_refuted :
  exists content_of es s,
    (forall e, In e es -> is_valid (e_apath e) = true) /\ NoDup (map e_apath es) /\
    (forall e, In e es -> e_kind e <> KUnknown) /\
    (forall e, In e es -> e_kind e = KSymlink -> e_target e <> None) /\
    parents_first es /\
    restore_into content_of false [] es = Some s /\ d_errs s <> 0.
Proof.
  exists content_bang, [mk_entry [47] KSymlink (Some [116])].
  eexists. repeat split; try (vm_compute; reflexivity).
  - intros e [<-|[]]; reflexivity.
  - cbn. repeat (constructor; [cbn; intuition discriminate|]). constructor.
  - intros e [<-|[]]; discriminate.
  - intros e [<-|[]]; discriminate.
  - intros l1 e l2 q E P. exfalso.
    destruct l1 as [|x l1]; cbn in E.
    + inversion E; subst. exact (ppre_nonempty _ _ P eq_refl).
    + inversion E as [[E1 E2]]. destruct l1; discriminate.
  - vm_compute. discriminate.
Qed.

(* ------------------------------------------------------------------------- *)
(** * 8. An instance                                                           *)
(* ------------------------------------------------------------------------- *)
(* / /a /a/x /a/k->t /a/n /a/n/deep /b /b/c /b/c/d /z *)
Definition ex_listing : list entry :=
  [ mk_entry [47] KDir None;
    mk_entry [47; 97] KDir None;
    mk_entry [47; 97; 47; 120] KFile None;
    mk_entry [47; 97; 47; 107] KSymlink (Some [116]);
    mk_entry [47; 97; 47; 110] KDir None;
    mk_entry [47; 97; 47; 110; 47; 100; 101; 101; 112] KFile None;
    mk_entry [47; 98] KDir None;
    mk_entry [47; 98; 47; 99] KDir None;
    mk_entry [47; 98; 47; 99; 47; 100] KFile None;
    mk_entry [47; 122] KFile None ].

Example tree_listing_example :
  tree_listingb ex_listing = true /\
  exists s, restore_into content_bang false [] ex_listing = Some s /\
    d_esc s = 0 /\ d_errs s = 0 /\ d_done s = map e_apath ex_listing /\
    d_fs s =
      [ ([[122]], NFile [47; 122; 33]);
        ([[98]; [99]; [100]], NFile [47; 98; 47; 99; 47; 100; 33]);
        ([[98]; [99]], NDir);
        ([[98]], NDir);
        ([[97]; [110]; [100; 101; 101; 112]], NFile [47; 97; 47; 110; 47; 100; 101; 101; 112; 33]);
        ([[97]; [110]], NDir);
        ([[97]; [107]], NLink [116]);
        ([[97]; [120]], NFile [47; 97; 47; 120; 33]);
        ([[97]], NDir) ] /\
    forallb (fun e => match comps (e_apath e) with
                      | [] => true
                      | p => match node_at (d_fs s) p with
                             | Some (NDir) => kind_eqb (e_kind e) KDir
                             | Some (NFile c) => kind_eqb (e_kind e) KFile && str_eqb c (content_bang e)
                             | Some (NLink t) => kind_eqb (e_kind e) KSymlink && opt_str_eqb (e_target e) (Some t)
                             | None => false
                             end
                      end) ex_listing = true.
Proof.
  split; [vm_compute; reflexivity|].
  eexists. split; [vm_compute; reflexivity|]. vm_compute. repeat split; reflexivity.
Qed.

(* a listing out of order is not a tree listing for the checker *)
Example tree_listingb_rejects :
  tree_listingb [mk_entry [47] KDir None; mk_entry [47; 97; 47; 98] KFile None; mk_entry [47; 97] KDir None] = false /\
  tree_listingb [mk_entry [47] KDir None; mk_entry [47; 97] KFile None; mk_entry [47; 97; 47; 98] KFile None] = false /\
  tree_listingb [mk_entry [47] KDir None; mk_entry [47; 97] KDir None; mk_entry [47; 97] KFile None] = false.
Proof. vm_compute. repeat split; reflexivity. Qed.

(* the theorem on the instance *)
Example tree_listing_example_by_theorem :
  forall s, restore_into content_bang false [] ex_listing = Some s ->
  forall p, p <> [] ->
    node_at (d_fs s) p =
    match find (fun e => rpath_eqb (comps (e_apath e)) p) ex_listing with
    | Some e => Some (node_of content_bang e)
    | None => None
    end.
Proof.
  intros s H.
  apply (fresh_restore_builds_the_tree content_bang ex_listing s
           (tree_listingb_sound ex_listing (proj1 tree_listing_example)) H).
Qed.

Print Assumptions tree_listingb_sound.
Print Assumptions fresh_restore_builds_the_tree.
Print Assumptions overwrite_into_empty_builds_the_tree.
Print Assumptions fresh_restore_exact.
Print Assumptions without_parents_first_refuted.
Print Assumptions root_must_be_a_directory_refuted.
Print Assumptions tree_listing_example.
Print Assumptions tree_listing_example_by_theorem.
