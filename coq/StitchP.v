(* Proofs about the stitching model (Stitch.v): the hunk iterator + stitcher state machine
   computes the documented stitching rule, its output is strictly sorted, every entry comes
   from the newest band on the descent chain that reaches its key, the yield-time filter
   commutes, and a complete band is listed as itself. *)
From Coq Require Import List Bool Arith Lia Sorted.
From CV Require Import Base.Order Stitch.
Import ListNotations.

Section StitchP.
  Variable K : Type.
  Variable kcmp : K -> K -> comparison.
  Variable E : Type.
  Variable key : E -> K.
  Hypothesis KO : CmpOrder kcmp.

  Local Notation klt := (klt K kcmp).
  Local Notation kltb := (kltb K kcmp).
  Local Notation kleb := (kleb K kcmp).
  Local Notation last_key := (last_key K E key).
  Local Notation first_key := (first_key K E key).
  Local Notation drop_le := (drop_le K kcmp E key).
  Local Notation hunk_step := (hunk_step K kcmp E key).
  Local Notation newlast := (newlast K E key).
  Local Notation band_loop := (band_loop K kcmp E key).
  Local Notation read_band := (read_band K kcmp E key).
  Local Notation visit_band := (visit_band K kcmp E key).
  Local Notation stitch_below := (stitch_below K kcmp E key).
  Local Notation stitch_from := (stitch_from K kcmp E key).
  Local Notation stitch_keep := (stitch_keep K kcmp E key).
  Local Notation stitch_start := (stitch_start K kcmp E key).
  Local Notation keep_all := (keep_all E).
  Local Notation machine_step := (machine_step K kcmp E key).
  Local Notation machine_run := (machine_run K kcmp E key).
  Local Notation hunks_entries := (hunks_entries E).
  Local Notation entries := (entries E).
  Local Notation gt_after := (gt_after K kcmp E key).
  Local Notation max_after := (max_after K kcmp).
  Local Notation spec_band := (spec_band K kcmp E key).
  Local Notation spec_below := (spec_below K kcmp E key).
  Local Notation stitch_spec := (stitch_spec K kcmp E key).
  Local Notation arch := (arch E).

  (* ------------------------------------------------------------------ order reflection *)

  Lemma kltb_true a b : kltb a b = true <-> klt a b.
  Proof. unfold Stitch.kltb, Stitch.klt. destruct (kcmp a b); split; congruence. Qed.

  Lemma kleb_true a b : kleb a b = true <-> kcmp a b <> Gt.
  Proof. unfold Stitch.kleb. destruct (kcmp a b); split; congruence. Qed.

  Lemma kleb_false a b : kleb a b = false <-> klt b a.
  Proof.
    unfold Stitch.kleb, Stitch.klt. rewrite <- (co_gt_lt kcmp KO a b).
    destruct (kcmp a b); split; congruence.
  Qed.

  Lemma kltb_negb_kleb a b : kltb a b = negb (kleb b a).
  Proof.
    destruct (kleb b a) eqn:L; cbn.
    - destruct (kltb a b) eqn:L2; auto. apply kltb_true in L2. apply kleb_false in L2. congruence.
    - apply kleb_false in L. apply kltb_true. exact L.
  Qed.

  Lemma klt_trans a b c : klt a b -> klt b c -> klt a c.
  Proof. apply (co_trans kcmp KO). Qed.

  Lemma kle_lt_trans a b c : kcmp a b <> Gt -> klt b c -> klt a c.
  Proof. apply (co_le_lt_trans kcmp KO). Qed.

  Lemma klt_le_trans a b c : klt a b -> kcmp b c <> Gt -> klt a c.
  Proof. apply (co_lt_le_trans kcmp KO). Qed.

  Lemma klt_irrefl a : ~ klt a a.
  Proof. apply (co_lt_irrefl kcmp KO). Qed.

  Lemma klt_le a b : klt a b -> kcmp a b <> Gt.
  Proof. unfold Stitch.klt. congruence. Qed.

  Lemma kle_refl a : kcmp a a <> Gt.
  Proof. rewrite (co_refl kcmp KO). discriminate. Qed.

  (* ------------------------------------------------------------------ sorted lists of entries *)

  Definition ksorted (es : list E) : Prop := StronglySorted klt (map key es).

  Lemma ksorted_nil : ksorted [].
  Proof. constructor. Qed.

  Lemma ksorted_cons_inv e es :
    ksorted (e :: es) -> ksorted es /\ Forall (fun e' => klt (key e) (key e')) es.
  Proof.
    unfold ksorted; cbn [map]; intro H. inversion H as [|x l Hs Hf]; subst.
    split; auto. rewrite Forall_map in Hf. exact Hf.
  Qed.

  Lemma ksorted_cons e es :
    ksorted es -> Forall (fun e' => klt (key e) (key e')) es -> ksorted (e :: es).
  Proof.
    unfold ksorted; cbn [map]; intros Hs Hf. constructor; auto. rewrite Forall_map. exact Hf.
  Qed.

  Lemma ksorted_app_inv l1 l2 :
    ksorted (l1 ++ l2) ->
    ksorted l1 /\ ksorted l2 /\ (forall e e', In e l1 -> In e' l2 -> klt (key e) (key e')).
  Proof.
    induction l1 as [|x l1 IH]; intro H.
    - split; [apply ksorted_nil|]. split; [exact H|]. intros e e' [].
    - change ((x :: l1) ++ l2) with (x :: (l1 ++ l2)) in H.
      apply ksorted_cons_inv in H as [Hs Hf]. destruct (IH Hs) as [H1 [H2 H12]].
      apply Forall_app in Hf as [Hf1 Hf2].
      split; [apply ksorted_cons; auto|]. split; [exact H2|].
      intros e e' [<-|Hin] Hin'.
      + rewrite Forall_forall in Hf2. apply Hf2. exact Hin'.
      + apply H12; auto.
  Qed.

  Lemma ksorted_app l1 l2 :
    ksorted l1 -> ksorted l2 -> (forall e e', In e l1 -> In e' l2 -> klt (key e) (key e')) ->
    ksorted (l1 ++ l2).
  Proof.
    induction l1 as [|x l1 IH]; intros H1 H2 H12; [exact H2|].
    change ((x :: l1) ++ l2) with (x :: (l1 ++ l2)).
    apply ksorted_cons_inv in H1 as [Hs Hf]. apply ksorted_cons.
    - apply IH; auto. intros e e' Hin Hin'. apply H12; [right|]; auto.
    - apply Forall_app. split; [exact Hf|]. apply Forall_forall. intros e' Hin'.
      apply H12; [left; reflexivity|exact Hin'].
  Qed.

  Lemma ksorted_filter f es : ksorted es -> ksorted (filter f es).
  Proof.
    induction es as [|e es IH]; intro H; [exact H|].
    apply ksorted_cons_inv in H as [Hs Hf]. cbn [filter]. destruct (f e).
    - apply ksorted_cons; [apply IH; exact Hs|].
      apply Forall_forall. intros e' Hin. apply filter_In in Hin as [Hin _].
      rewrite Forall_forall in Hf. apply Hf. exact Hin.
    - apply IH. exact Hs.
  Qed.

  (* ------------------------------------------------------------------ last_key / first_key *)

  Lemma last_key_cons x es : es <> [] -> last_key (x :: es) = last_key es.
  Proof. destruct es; [congruence|reflexivity]. Qed.

  Lemma last_key_none es : last_key es = None -> es = [].
  Proof.
    induction es as [|e es IH]; auto. destruct es as [|e2 es]; [discriminate|]. intro H.
    assert (H' : last_key (e2 :: es) = None) by exact H. apply IH in H'. discriminate.
  Qed.

  Lemma last_key_In es l : last_key es = Some l -> exists e, In e es /\ key e = l.
  Proof.
    induction es as [|e es IH]; [discriminate|]. destruct es as [|e2 es]; intro H.
    - cbn in H. injection H as <-. exists e; split; [left|]; auto.
    - assert (H' : last_key (e2 :: es) = Some l) by exact H.
      destruct (IH H') as [e' [Hin Hk]]. exists e'; split; auto. right; auto.
  Qed.

  Lemma first_key_In es f : first_key es = Some f -> exists e, In e es /\ key e = f.
  Proof.
    destruct es as [|e es]; cbn; [discriminate|]. intro H; injection H as <-.
    exists e; split; [left; reflexivity|reflexivity].
  Qed.

  Lemma last_key_app l1 l2 :
    last_key (l1 ++ l2) = match last_key l2 with Some l => Some l | None => last_key l1 end.
  Proof.
    induction l1 as [|x l1 IH].
    - cbn [app]. destruct (last_key l2); reflexivity.
    - destruct l2 as [|y l2].
      + rewrite app_nil_r. reflexivity.
      + change ((x :: l1) ++ y :: l2) with (x :: (l1 ++ y :: l2)).
        rewrite last_key_cons by (destruct l1; discriminate). rewrite IH.
        destruct (last_key (y :: l2)) eqn:Lb; auto.
        apply last_key_none in Lb. discriminate.
  Qed.

  Lemma last_key_Forall_le es l :
    ksorted es -> last_key es = Some l -> Forall (fun e => kcmp (key e) l <> Gt) es.
  Proof.
    induction es as [|e es IH]; intros S H; [constructor|].
    apply ksorted_cons_inv in S as [S F]. destruct es as [|e2 es].
    - cbn in H. injection H as <-. constructor; [apply kle_refl|constructor].
    - assert (H' : last_key (e2 :: es) = Some l) by exact H.
      specialize (IH S H'). constructor; auto.
      inversion F as [|? ? F1 _]; subst. inversion IH as [|? ? IH1 _]; subst.
      apply klt_le. eapply klt_le_trans; eauto.
  Qed.

  Lemma newlast_app l1 l2 last : newlast (l1 ++ l2) last = newlast l2 (newlast l1 last).
  Proof. unfold Stitch.newlast. rewrite last_key_app. destruct (last_key l2); reflexivity. Qed.

  Lemma newlast_nil last : newlast [] last = last.
  Proof. reflexivity. Qed.

  (* ------------------------------------------------------------------ filters *)

  Lemma filter_keep_all (l : list E) : filter keep_all l = l.
  Proof. induction l as [|x l IH]; cbn; [reflexivity|]. rewrite IH. reflexivity. Qed.

  Lemma filter_gt_none es : filter (gt_after None) es = es.
  Proof. induction es as [|x l IH]; cbn; [reflexivity|]. rewrite IH. reflexivity. Qed.

  Lemma filter_all_gt x es :
    Forall (fun e => klt x (key e)) es -> filter (gt_after (Some x)) es = es.
  Proof.
    induction 1 as [|e es H _ IH]; cbn [filter Stitch.gt_after]; auto.
    apply kltb_true in H. rewrite H. f_equal. exact IH.
  Qed.

  Lemma filter_none_le x es :
    Forall (fun e => kcmp (key e) x <> Gt) es -> filter (gt_after (Some x)) es = [].
  Proof.
    induction 1 as [|e es H _ IH]; cbn [filter Stitch.gt_after]; auto.
    rewrite kltb_negb_kleb. apply kleb_true in H. rewrite H. exact IH.
  Qed.

  (* the binary search of IndexHunkIter::next, on a sorted hunk *)
  Lemma drop_le_filter x es : ksorted es -> drop_le x es = filter (gt_after (Some x)) es.
  Proof.
    induction es as [|e es IH]; intro S; cbn [Stitch.drop_le filter Stitch.gt_after]; auto.
    apply ksorted_cons_inv in S as [S F]. rewrite kltb_negb_kleb.
    destruct (kleb (key e) x) eqn:L; cbn [negb].
    - apply IH. exact S.
    - f_equal. symmetry. apply filter_all_gt. apply kleb_false in L.
      eapply Forall_impl; [|exact F]. cbn; intros e' H. eapply klt_trans; eauto.
  Qed.

  (* ------------------------------------------------------------------ 1. the in-band loop *)

  Lemma hunks_entries_cons_some es hs : hunks_entries (Some es :: hs) = es ++ hunks_entries hs.
  Proof. reflexivity. Qed.
  Lemma hunks_entries_cons_none hs : hunks_entries (None :: hs) = hunks_entries hs.
  Proof. reflexivity. Qed.

  (* THEOREM 1.  If the decodable hunks of a band, concatenated, are strictly increasing, then the
     hunk iterator started with `after` plus the stitcher's in-band loop yield exactly the
     entries with key > after (yield-time filtered by `keep`), and `last_apath` ends up as the
     last key loaded (unchanged if nothing was loaded). *)
  Theorem band_loop_spec keep hs : forall after last,
    ksorted (hunks_entries hs) ->
    band_loop keep hs after last =
      (filter keep (filter (gt_after after) (hunks_entries hs)),
       newlast (filter (gt_after after) (hunks_entries hs)) last).
  Proof.
    induction hs as [|h hs IH]; intros after last HS; cbn [Stitch.band_loop].
    - reflexivity.
    - destruct h as [es|].
      2:{ cbn [Stitch.hunk_step]. rewrite hunks_entries_cons_none in *. apply IH. exact HS. }
      rewrite hunks_entries_cons_some in *.
      apply ksorted_app_inv in HS as [S [HS Hab]].
      rewrite !filter_app, newlast_app.
      destruct after as [x|]; cbn [Stitch.hunk_step].
      + destruct (last_key es) as [l|] eqn:Lk.
        * destruct (kleb l x) eqn:Lx.
          -- apply kleb_true in Lx. rewrite IH by exact HS.
             assert (Hnil : filter (gt_after (Some x)) es = []).
             { apply filter_none_le. eapply Forall_impl; [|apply (last_key_Forall_le _ _ S Lk)].
               cbn; intros e' H. eapply (co_le_trans kcmp KO); eauto. }
             rewrite Hnil. reflexivity.
          -- apply kleb_false in Lx.
             assert (Hrest : Forall (fun e => klt x (key e)) (hunks_entries hs)).
             { apply Forall_forall. intros e' He'. destruct (last_key_In _ _ Lk) as [e [Hin <-]].
               eapply klt_trans; [exact Lx|]. apply Hab; auto. }
             destruct (first_key es) as [f|] eqn:Fk.
             ++ destruct (kltb x f) eqn:Fx.
                ** apply kltb_true in Fx. rewrite IH by exact HS. rewrite filter_gt_none.
                   assert (Hall : filter (gt_after (Some x)) es = es).
                   { apply filter_all_gt. destruct es as [|e0 es0]; [discriminate|].
                     cbn in Fk. injection Fk as <-.
                     apply ksorted_cons_inv in S as [_ F]. constructor; [exact Fx|].
                     eapply Forall_impl; [|exact F]. cbn; intros e' H. eapply klt_trans; eauto. }
                   rewrite Hall. rewrite (filter_all_gt _ _ Hrest). reflexivity.
                ** rewrite IH by exact HS. rewrite drop_le_filter by exact S. reflexivity.
             ++ destruct es; cbn in *; discriminate.
        * apply last_key_none in Lk. subst es. cbn [Stitch.drop_le filter app].
          rewrite IH by exact HS. reflexivity.
      + destruct es as [|e0 es0].
        * rewrite IH by exact HS. reflexivity.
        * rewrite IH by exact HS. rewrite !filter_gt_none. reflexivity.
  Qed.

  (* Without `after` nothing needs to be sorted: the loop yields every decodable entry. *)
  Lemma band_loop_none keep hs : forall last,
    band_loop keep hs None last = (filter keep (hunks_entries hs), newlast (hunks_entries hs) last).
  Proof.
    induction hs as [|h hs IH]; intro last; cbn [Stitch.band_loop]; [reflexivity|].
    destruct h as [es|]; cbn [Stitch.hunk_step].
    - rewrite hunks_entries_cons_some, filter_app, newlast_app.
      destruct es as [|e0 es0]; rewrite IH; reflexivity.
    - rewrite hunks_entries_cons_none. apply IH.
  Qed.

  (* The yield-time filter does not influence what is loaded nor `last_apath`. *)
  Lemma band_loop_keep keep hs : forall after last,
    band_loop keep hs after last =
      (filter keep (fst (band_loop keep_all hs after last)), snd (band_loop keep_all hs after last)).
  Proof.
    induction hs as [|h hs IH]; intros after last; cbn [Stitch.band_loop]; [reflexivity|].
    destruct (hunk_step h after) as [[out|] after'].
    - rewrite (IH after' (newlast out last)).
      destruct (band_loop keep_all hs after' (newlast out last)) as [rest last'].
      cbn [fst snd]. rewrite filter_app, filter_keep_all. reflexivity.
    - apply IH.
  Qed.

  (* ------------------------------------------------------------------ the descent *)

  Lemma prev_lt (a : arch) n p : previous_existing_band a n = Some p -> p < n.
  Proof.
    induction n as [|m IH]; cbn [previous_existing_band]; [discriminate|].
    destruct (band_exists a m).
    - intro H; injection H as <-. lia.
    - intro H. apply IH in H. lia.
  Qed.

  (* `previous_existing_band` returns the NEAREST existing band below n. *)
  Lemma prev_spec (a : arch) n p :
    previous_existing_band a n = Some p <->
    p < n /\ band_exists a p = true /\ forall q, p < q < n -> band_exists a q = false.
  Proof.
    induction n as [|m IH]; cbn [previous_existing_band].
    - split; [discriminate|]. intros [H _]. lia.
    - destruct (band_exists a m) eqn:Ex.
      + split.
        * intro H; injection H as <-. split; [lia|]. split; [exact Ex|]. intros q Hq. lia.
        * intros [Hlt [Hp Hq]]. destruct (Nat.eq_dec p m) as [->|Hne]; [reflexivity|].
          rewrite (Hq m) in Ex by lia. discriminate.
      + rewrite IH. split.
        * intros [Hlt [Hp Hq]]. split; [lia|]. split; [exact Hp|]. intros q Hr.
          destruct (Nat.eq_dec q m) as [->|Hne]; [exact Ex|]. apply Hq. lia.
        * intros [Hlt [Hp Hq]]. assert (p <> m) by (intros ->; congruence).
          split; [lia|]. split; [exact Hp|]. intros q Hr. apply Hq. lia.
  Qed.

  Lemma prev_none (a : arch) n :
    previous_existing_band a n = None <-> forall q, q < n -> band_exists a q = false.
  Proof.
    induction n as [|m IH]; cbn [previous_existing_band].
    - split; [intros _ q Hq; lia|reflexivity].
    - destruct (band_exists a m) eqn:Ex.
      + split; [discriminate|]. intro H. rewrite (H m) in Ex by lia. discriminate.
      + rewrite IH. split.
        * intros H q Hq. destruct (Nat.eq_dec q m) as [->|Hne]; [exact Ex|]. apply H. lia.
        * intros H q Hq. apply H. lia.
  Qed.

  (* The fused recursion is the Rust control flow: AfterBand n, not closed, goes to
     BeforeBand (previous_existing_band n) or to Done. *)
  Lemma stitch_below_eq keep (a : arch) n last :
    stitch_below keep a n last =
      match previous_existing_band a n with
      | None => []
      | Some p => stitch_from keep a p last
      end.
  Proof.
    induction n as [|m IH]; cbn [Stitch.stitch_below previous_existing_band]; [reflexivity|].
    destruct (band_exists a m); [reflexivity|exact IH].
  Qed.

  Lemma spec_below_eq (a : arch) n after :
    spec_below a n after =
      match previous_existing_band a n with
      | None => []
      | Some p => stitch_spec a p after
      end.
  Proof.
    induction n as [|m IH]; cbn [Stitch.spec_below previous_existing_band]; [reflexivity|].
    destruct (band_exists a m); [reflexivity|exact IH].
  Qed.

  (* The state machine, unfolded one band at a time. *)
  Theorem stitch_from_eqn keep (a : arch) n last :
    stitch_from keep a n last =
      let '(out, last') := read_band keep a n last in
      out ++ (if band_closed a n then []
              else match previous_existing_band a n with
                   | None => []
                   | Some p => stitch_from keep a p last'
                   end).
  Proof.
    unfold Stitch.stitch_from at 1, Stitch.visit_band.
    destruct (read_band keep a n last) as [out last'].
    rewrite stitch_below_eq. reflexivity.
  Qed.

  (* The documented rule, as the defining equation of the specification ... *)
  Theorem stitch_spec_eqn (a : arch) n after :
    stitch_spec a n after =
      let es := filter (gt_after after) (entries a n) in
      es ++ (if band_closed a n then []
             else match previous_existing_band a n with
                  | None => []
                  | Some p => stitch_spec a p (max_after after (last_key es))
                  end).
  Proof.
    unfold Stitch.stitch_spec at 1, Stitch.spec_band. rewrite spec_below_eq. reflexivity.
  Qed.

  (* ... which has exactly one solution (the band number decreases). *)
  Theorem stitch_spec_unique (a : arch) (f : nat -> option K -> list E) :
    (forall n after,
        f n after =
          let es := filter (gt_after after) (entries a n) in
          es ++ (if band_closed a n then []
                 else match previous_existing_band a n with
                      | None => []
                      | Some p => f p (max_after after (last_key es))
                      end)) ->
    forall n after, f n after = stitch_spec a n after.
  Proof.
    intros Hf n. induction n as [n IH] using lt_wf_ind. intros aft.
    rewrite Hf, stitch_spec_eqn. cbv zeta. f_equal.
    destruct (band_closed a n); [reflexivity|].
    destruct (previous_existing_band a n) as [p|] eqn:Hp; [|reflexivity].
    apply IH. eapply prev_lt. exact Hp.
  Qed.

  (* ------------------------------------------------------------------ 6. the filter commutes *)

  Lemma read_band_keep keep (a : arch) n last :
    read_band keep a n last =
      (filter keep (fst (read_band keep_all a n last)), snd (read_band keep_all a n last)).
  Proof.
    unfold Stitch.read_band. destruct (band_opens a n); [|reflexivity]. apply band_loop_keep.
  Qed.

  Lemma visit_band_keep keep (a : arch) n last below below' :
    (forall l, below l = filter keep (below' l)) ->
    visit_band keep a n last below = filter keep (visit_band keep_all a n last below').
  Proof.
    intro Hb. unfold Stitch.visit_band. rewrite (read_band_keep keep).
    destruct (read_band keep_all a n last) as [out last']. cbn [fst snd].
    rewrite filter_app. f_equal.
    destruct (band_closed a n); [reflexivity|apply Hb].
  Qed.

  Lemma stitch_below_keep keep (a : arch) n : forall last,
    stitch_below keep a n last = filter keep (stitch_below keep_all a n last).
  Proof.
    induction n as [|m IH]; intro last; cbn [Stitch.stitch_below]; [reflexivity|].
    destruct (band_exists a m); [|apply IH]. apply visit_band_keep. exact IH.
  Qed.

  Lemma stitch_from_keep keep (a : arch) n last :
    stitch_from keep a n last = filter keep (stitch_from keep_all a n last).
  Proof. unfold Stitch.stitch_from. apply visit_band_keep. apply stitch_below_keep. Qed.

  (* THEOREM 6.  Subtree/exclusion filtering at yield time commutes with stitching (because
     `last_apath` is taken from the loaded hunks, not from the yielded entries).  No sortedness
     assumption. *)
  Theorem stitch_filter keep (a : arch) n :
    stitch_keep keep a n = filter keep (stitch_start a n).
  Proof. apply stitch_from_keep. Qed.

  (* ------------------------------------------------------------------ 2. machine = rule *)

  (* Every band that opens has a strictly increasing index (within and across hunks; undecodable
     hunks ignored).  Bands that do not open are never read, so nothing is asked of them. *)
  Definition BandsSorted (a : arch) : Prop := forall n, ksorted (entries a n).

  Lemma newlast_max_after after es :
    newlast (filter (gt_after after) es) after =
    max_after after (last_key (filter (gt_after after) es)).
  Proof.
    unfold Stitch.newlast, Stitch.max_after.
    destruct (last_key (filter (gt_after after) es)) as [l|] eqn:Lk.
    - destruct after as [x|]; [|reflexivity].
      destruct (last_key_In _ _ Lk) as [e [Hin <-]]. apply filter_In in Hin as [_ Hgt].
      cbn [Stitch.gt_after] in Hgt. rewrite Hgt. reflexivity.
    - destruct after; reflexivity.
  Qed.

  Lemma read_band_spec keep (a : arch) n last :
    BandsSorted a ->
    read_band keep a n last =
      (filter keep (filter (gt_after last) (entries a n)),
       max_after last (last_key (filter (gt_after last) (entries a n)))).
  Proof.
    intro BS. rewrite <- newlast_max_after. specialize (BS n). revert BS.
    unfold Stitch.read_band, Stitch.entries. destruct (band_opens a n); intro BS.
    - apply band_loop_spec. exact BS.
    - reflexivity.
  Qed.

  Lemma visit_band_spec keep (a : arch) n last below sbelow :
    BandsSorted a ->
    (forall l, below l = filter keep (sbelow l)) ->
    visit_band keep a n last below = filter keep (spec_band a n last sbelow).
  Proof.
    intros BS Hb. unfold Stitch.visit_band, Stitch.spec_band.
    rewrite (read_band_spec keep a n last BS). rewrite filter_app. f_equal.
    destruct (band_closed a n); [reflexivity|apply Hb].
  Qed.

  Lemma stitch_below_spec keep (a : arch) n : BandsSorted a -> forall last,
    stitch_below keep a n last = filter keep (spec_below a n last).
  Proof.
    intro BS. induction n as [|m IH]; intro last;
      cbn [Stitch.stitch_below Stitch.spec_below]; [reflexivity|].
    destruct (band_exists a m); [|apply IH]. apply visit_band_spec; assumption.
  Qed.

  (* THEOREM 2 (general form).  From any state `BeforeBand n` / `last_apath = after`, with any
     yield-time filter, the machine yields the filtered specification. *)
  Theorem stitch_from_eq_spec keep (a : arch) n after :
    BandsSorted a -> stitch_from keep a n after = filter keep (stitch_spec a n after).
  Proof.
    intro BS. unfold Stitch.stitch_from, Stitch.stitch_spec.
    apply visit_band_spec; [exact BS|]. apply stitch_below_spec. exact BS.
  Qed.

  (* THEOREM 2. *)
  Theorem stitch_eq_spec (a : arch) n :
    BandsSorted a -> stitch_start a n = stitch_spec a n None.
  Proof.
    intro BS. unfold Stitch.stitch_start, Stitch.stitch_keep.
    rewrite stitch_from_eq_spec by exact BS. apply filter_keep_all.
  Qed.

  (* ------------------------------------------------------------------ 5. complete band *)

  (* THEOREM 5.  A band that opens and has a tail is listed as exactly its own index
     (no sortedness needed: without `after` the hunk iterator returns every decodable hunk). *)
  Theorem stitch_complete_band_keep keep (a : arch) n :
    band_opens a n = true -> band_closed a n = true ->
    stitch_keep keep a n = filter keep (entries a n).
  Proof.
    intros Ho Hc. unfold Stitch.stitch_keep, Stitch.stitch_from, Stitch.visit_band,
      Stitch.read_band, Stitch.entries. rewrite Ho, Hc, band_loop_none. apply app_nil_r.
  Qed.

  Theorem stitch_complete_band (a : arch) n :
    band_opens a n = true -> band_closed a n = true -> stitch_start a n = entries a n.
  Proof.
    intros Ho Hc. unfold Stitch.stitch_start. rewrite stitch_complete_band_keep by assumption.
    apply filter_keep_all.
  Qed.

  (* ------------------------------------------------------------------ 3. strictly sorted output *)

  Lemma gt_after_max after o e :
    gt_after (max_after after o) e = true <-> gt_after after e = true /\ gt_after o e = true.
  Proof.
    destruct after as [x|], o as [l|]; cbn [Stitch.max_after Stitch.gt_after].
    - destruct (kltb x l) eqn:L; cbn [Stitch.gt_after].
      + apply kltb_true in L. split.
        * intro H. split; [|exact H]. apply kltb_true. apply kltb_true in H.
          eapply klt_trans; eauto.
        * intros [_ H]; exact H.
      + split.
        * intro H. split; [exact H|]. apply kltb_true. apply kltb_true in H.
          eapply kle_lt_trans; [|exact H].
          intro G. apply (co_gt_lt kcmp KO) in G. apply kltb_true in G. congruence.
        * intros [H _]; exact H.
    - split; [intro H; split; [exact H|reflexivity] | intros [H _]; exact H].
    - split; [intro H; split; [reflexivity|exact H] | intros [_ H]; exact H].
    - split; auto.
  Qed.

  (* strictly increasing, and everything above `after` *)
  Definition sorted_gt (after : option K) (l : list E) : Prop :=
    ksorted l /\ Forall (fun e => gt_after after e = true) l.

  Lemma spec_band_sorted (a : arch) n after below :
    BandsSorted a ->
    (forall after', sorted_gt after' (below after')) ->
    sorted_gt after (spec_band a n after below).
  Proof.
    intros BS Hb. unfold Stitch.spec_band.
    set (es := filter (gt_after after) (entries a n)).
    assert (Ses : ksorted es) by (apply ksorted_filter, BS).
    assert (Ges : Forall (fun e => gt_after after e = true) es).
    { apply Forall_forall. intros e Hin. apply filter_In in Hin. tauto. }
    destruct (band_closed a n).
    - rewrite app_nil_r. split; assumption.
    - destruct (Hb (max_after after (last_key es))) as [Sr Gr]. split.
      + apply ksorted_app; auto. intros e e' Hin Hin'.
        rewrite Forall_forall in Gr. specialize (Gr e' Hin').
        apply gt_after_max in Gr as [_ Gr].
        destruct (last_key es) as [l|] eqn:Lk.
        * cbn [Stitch.gt_after] in Gr. apply kltb_true in Gr.
          pose proof (last_key_Forall_le _ _ Ses Lk) as Hle. rewrite Forall_forall in Hle.
          eapply kle_lt_trans; [apply Hle; exact Hin|exact Gr].
        * apply last_key_none in Lk. rewrite Lk in Hin. destruct Hin.
      + apply Forall_app. split; [exact Ges|]. eapply Forall_impl; [|exact Gr].
        cbn. intros e H. apply gt_after_max in H. tauto.
  Qed.

  Lemma spec_below_sorted (a : arch) n :
    BandsSorted a -> forall after, sorted_gt after (spec_below a n after).
  Proof.
    intro BS. induction n as [|m IH]; intro aft; cbn [Stitch.spec_below].
    - split; constructor.
    - destruct (band_exists a m); [|apply IH]. apply spec_band_sorted; assumption.
  Qed.

  Theorem stitch_spec_sorted (a : arch) n after :
    BandsSorted a -> sorted_gt after (stitch_spec a n after).
  Proof.
    intro BS. unfold Stitch.stitch_spec. apply spec_band_sorted; [exact BS|].
    apply spec_below_sorted. exact BS.
  Qed.

  (* THEOREM 3.  The stitched listing is strictly increasing in apath order ... *)
  Theorem stitch_strictly_sorted (a : arch) n :
    BandsSorted a -> StronglySorted klt (map key (stitch_start a n)).
  Proof.
    intro BS. rewrite stitch_eq_spec by exact BS. apply (stitch_spec_sorted a n None BS).
  Qed.

  (* ... also from a mid-way state and under any yield-time filter, where moreover every entry is
     above the starting `last_apath` ... *)
  Theorem stitch_from_strictly_sorted keep (a : arch) n after :
    BandsSorted a -> sorted_gt after (stitch_from keep a n after).
  Proof.
    intro BS. rewrite stitch_from_eq_spec by exact BS.
    destruct (stitch_spec_sorted a n after BS) as [S G]. split.
    - apply ksorted_filter. exact S.
    - apply Forall_forall. intros e Hin. apply filter_In in Hin as [Hin _].
      rewrite Forall_forall in G. apply G. exact Hin.
  Qed.

  Lemma ssorted_nodup (l : list K) : StronglySorted klt l -> NoDup l.
  Proof.
    induction 1 as [|x l _ IH Hf]; constructor; [|exact IH].
    intro Hin. rewrite Forall_forall in Hf. apply (klt_irrefl x). apply Hf. exact Hin.
  Qed.

  (* ... so no apath is listed twice. *)
  Corollary stitch_nodup_keys (a : arch) n :
    BandsSorted a -> NoDup (map key (stitch_start a n)).
  Proof. intro BS. apply ssorted_nodup. apply stitch_strictly_sorted. exact BS. Qed.

  (* ------------------------------------------------------------------ 4. provenance *)

  (* The descent chain from n: n itself; and if m is on it, has no tail, and p is the nearest
     existing band below m, then p is on it. *)
  Inductive OnChain (a : arch) : nat -> nat -> Prop :=
  | oc_here n : OnChain a n n
  | oc_down n p m :
      band_closed a n = false -> previous_existing_band a n = Some p -> OnChain a p m ->
      OnChain a n m.

  Lemma OnChain_le (a : arch) n m : OnChain a n m -> m <= n.
  Proof.
    induction 1 as [n|n p m Hc Hp _ IH]; [lia|]. apply prev_lt in Hp. lia.
  Qed.

  Lemma OnChain_inv (a : arch) n m :
    OnChain a n m ->
    m = n \/ (band_closed a n = false /\
              exists p, previous_existing_band a n = Some p /\ OnChain a p m).
  Proof. intro H. inversion H; subst; [left; reflexivity|right; eauto]. Qed.

  (* every key in `es` is strictly below key e: the index `es` does not reach e *)
  Definition AllBelow (es : list E) (e : E) : Prop := Forall (fun e' => klt (key e') (key e)) es.

  (* `last_apath` after a band = max (last_apath before, largest key of the band's index) *)
  Lemma gt_after_next es after e :
    ksorted es ->
    gt_after (max_after after (last_key (filter (gt_after after) es))) e = true <->
    gt_after after e = true /\ AllBelow es e.
  Proof.
    intro S. rewrite gt_after_max. set (fes := filter (gt_after after) es).
    split.
    - intros [Ha Hl]. split; [exact Ha|]. apply Forall_forall. intros e' Hin.
      destruct (gt_after after e') eqn:G.
      + assert (Hf : In e' fes) by (apply filter_In; auto).
        destruct (last_key fes) as [l|] eqn:Lk.
        * cbn [Stitch.gt_after] in Hl. apply kltb_true in Hl.
          pose proof (last_key_Forall_le fes l (ksorted_filter _ _ S) Lk) as Hle.
          rewrite Forall_forall in Hle.
          eapply kle_lt_trans; [apply Hle; exact Hf|exact Hl].
        * apply last_key_none in Lk. rewrite Lk in Hf. destruct Hf.
      + destruct after as [x|]; [|discriminate]. cbn [Stitch.gt_after] in G, Ha.
        apply kltb_true in Ha. rewrite kltb_negb_kleb in G. apply negb_false_iff in G.
        apply kleb_true in G. eapply kle_lt_trans; eauto.
    - intros [Ha Hb]. split; [exact Ha|].
      destruct (last_key fes) as [l|] eqn:Lk; [|reflexivity].
      destruct (last_key_In _ _ Lk) as [e' [Hin <-]]. apply filter_In in Hin as [Hin _].
      cbn [Stitch.gt_after]. apply kltb_true. unfold AllBelow in Hb.
      rewrite Forall_forall in Hb. apply Hb. exact Hin.
  Qed.

  Theorem stitch_spec_in_iff (a : arch) :
    BandsSorted a -> forall n after e,
    In e (stitch_spec a n after) <->
    gt_after after e = true /\
    exists m, OnChain a n m /\ In e (entries a m) /\
              forall m', OnChain a n m' -> m < m' -> AllBelow (entries a m') e.
  Proof.
    intros BS n. induction n as [n IH] using lt_wf_ind. intros aft e.
    rewrite stitch_spec_eqn. cbv zeta. rewrite in_app_iff, filter_In.
    split.
    - intros [[Hin Hg] | Hrest].
      + split; [exact Hg|]. exists n. split; [constructor|]. split; [exact Hin|].
        intros m' Hc Hlt. apply OnChain_le in Hc. lia.
      + destruct (band_closed a n) eqn:Hc; [destruct Hrest|].
        destruct (previous_existing_band a n) as [p|] eqn:Hp; [|destruct Hrest].
        apply (IH p (prev_lt _ _ _ Hp)) in Hrest as [Hg [m [Hm [Hin Hnew]]]].
        apply gt_after_next in Hg as [Hg Hb]; [|apply BS].
        split; [exact Hg|]. exists m. split; [econstructor; eauto|]. split; [exact Hin|].
        intros m' Hc' Hlt. apply OnChain_inv in Hc' as [->|[_ [p' [Hp' Hc']]]]; [exact Hb|].
        rewrite Hp in Hp'. injection Hp' as <-. apply Hnew; auto.
    - intros [Hg [m [Hm [Hin Hnew]]]].
      apply OnChain_inv in Hm as [->|[Hc [p [Hp Hm]]]].
      + left. split; assumption.
      + right. rewrite Hc, Hp. apply (IH p (prev_lt _ _ _ Hp)). split.
        * apply gt_after_next; [apply BS|]. split; [exact Hg|].
          apply Hnew; [constructor|]. apply OnChain_le in Hm. apply prev_lt in Hp. lia.
        * exists m. split; [exact Hm|]. split; [exact Hin|].
          intros m' Hc' Hlt. apply Hnew; [econstructor; eauto|exact Hlt].
  Qed.

  (* THEOREM 4.  Exact characterisation of the listing (both directions).  An entry e is listed
     iff it occurs (unmodified: `In e (entries a m)`) in the index of a band m on the descent chain
     from n, and every NEWER band m' on the chain (m < m' <= n) has an index that does not reach
     key e: all its keys are strictly below key e.  Since band m itself contains key e, m is the
     newest band on the chain whose index reaches (>=) key e.
     Consequently: the newest band wins for every apath it covers; an apath that a newer chain
     band passed over (its index goes beyond it without containing it = deleted in the newer
     version) is NOT resurrected from an older band; and an older band that ends earlier than a
     newer one contributes nothing. *)
  Theorem stitch_provenance (a : arch) n :
    BandsSorted a -> forall e,
    In e (stitch_start a n) <->
    exists m, OnChain a n m /\ In e (entries a m) /\
              forall m', OnChain a n m' -> m < m' -> AllBelow (entries a m') e.
  Proof.
    intros BS e. rewrite stitch_eq_spec by exact BS.
    rewrite (stitch_spec_in_iff a BS n None e). cbn [Stitch.gt_after]. tauto.
  Qed.

  (* The same, in the one-directional "newest band that reaches the key" form. *)
  Corollary stitch_provenance_newest (a : arch) n :
    BandsSorted a -> forall e,
    In e (stitch_start a n) ->
    exists m, m <= n /\ OnChain a n m /\ In e (entries a m) /\
              forall m', m < m' <= n -> OnChain a n m' ->
                         forall e', In e' (entries a m') -> klt (key e') (key e).
  Proof.
    intros BS e Hin. apply (stitch_provenance a n BS) in Hin as [m [Hm [Hin Hnew]]].
    exists m. split; [eapply OnChain_le; exact Hm|]. split; [exact Hm|]. split; [exact Hin|].
    intros m' [Hlt _] Hc e' Hin'. specialize (Hnew m' Hc Hlt). unfold AllBelow in Hnew.
    rewrite Forall_forall in Hnew. apply Hnew. exact Hin'.
  Qed.

  (* The source band is unique (so "the" newest band is well defined, even if the same entry
     value occurs in several bands). *)
  Lemma provenance_unique (a : arch) n e m1 m2 :
    (OnChain a n m1 /\ In e (entries a m1) /\
     forall m', OnChain a n m' -> m1 < m' -> AllBelow (entries a m') e) ->
    (OnChain a n m2 /\ In e (entries a m2) /\
     forall m', OnChain a n m' -> m2 < m' -> AllBelow (entries a m') e) ->
    m1 = m2.
  Proof.
    intros [Hc1 [Hin1 Hn1]] [Hc2 [Hin2 Hn2]].
    destruct (Nat.lt_trichotomy m1 m2) as [Hlt|[Heq|Hlt]]; [|exact Heq|]; exfalso.
    - specialize (Hn1 m2 Hc2 Hlt). unfold AllBelow in Hn1. rewrite Forall_forall in Hn1.
      apply (klt_irrefl (key e)). apply Hn1. exact Hin2.
    - specialize (Hn2 m1 Hc1 Hlt). unfold AllBelow in Hn2. rewrite Forall_forall in Hn2.
      apply (klt_irrefl (key e)). apply Hn2. exact Hin1.
  Qed.

  (* The chain, spelled out: it consists of n and of existing bands below n, all but possibly
     the last one without a tail, with no existing band skipped. *)
  Lemma OnChain_spec (a : arch) n m :
    OnChain a n m ->
    m <= n /\ (m < n -> band_exists a m = true) /\
    (forall q, m < q <= n -> OnChain a n q -> band_closed a q = false) /\
    (forall q, m < q < n -> band_exists a q = true -> OnChain a n q).
  Proof.
    induction 1 as [n|n p m Hc Hp Hch IH].
    - split; [lia|]. split; [lia|]. split; intros; lia.
    - pose proof (proj1 (prev_spec a n p) Hp) as [Hlt [Hex Hgap]].
      destruct IH as [Hle [Hmex [Hcl Hall]]].
      split; [lia|]. split.
      { intros _. destruct (Nat.eq_dec m p) as [->|Hne]; [exact Hex|]. apply Hmex. lia. }
      split.
      + intros q Hq Hoc. apply OnChain_inv in Hoc as [->|[_ [p' [Hp' Hoc]]]]; [exact Hc|].
        rewrite Hp in Hp'. injection Hp' as <-. apply Hcl; [|exact Hoc].
        apply OnChain_le in Hoc. lia.
      + intros q Hq Hqex. econstructor; eauto.
        destruct (Nat.eq_dec q p) as [->|Hne]; [constructor|].
        destruct (Nat.lt_ge_cases p q) as [Hpq|Hpq].
        * rewrite Hgap in Hqex by lia. discriminate.
        * apply Hall; [lia|exact Hqex].
  Qed.

  (* ------------------------------------------------------------------ 7. termination / machine *)
  (* Termination of `Stitch::next`'s outer behaviour is the structural recursion of
     `stitch_below` on the band number: each BeforeBand -> AfterBand -> BeforeBand round trip moves
     to `previous_existing_band n < n` (prev_lt), and inside a band the hunk list shrinks
     (`band_loop` is structural on it).  Measure: (band number, #remaining hunks), lexicographic.
     The explicit machine below confirms it: 2n+2 steps always suffice from BeforeBand n. *)

  Lemma machine_run_done fuel keep (a : arch) last :
    machine_run fuel keep a Done last = Some [].
  Proof. destruct fuel; reflexivity. Qed.

  Theorem machine_eq_stitch keep (a : arch) : forall n fuel last,
    2 * n + 2 <= fuel ->
    machine_run fuel keep a (BeforeBand n) last = Some (stitch_from keep a n last).
  Proof.
    intro n. induction n as [n IH] using lt_wf_ind. intros fuel last Hf.
    destruct fuel as [|[|f]]; [lia|lia|].
    rewrite stitch_from_eqn.
    cbn [Stitch.machine_run Stitch.machine_step].
    destruct (read_band keep a n last) as [out last'].
    cbn [Stitch.machine_run Stitch.machine_step].
    destruct (band_closed a n).
    - rewrite machine_run_done. reflexivity.
    - destruct (previous_existing_band a n) as [p|] eqn:Hp.
      + rewrite IH; [reflexivity|eapply prev_lt; exact Hp|]. apply prev_lt in Hp. lia.
      + rewrite machine_run_done. reflexivity.
  Qed.

End StitchP.

(* ====================================================================== instance: apaths *)
From CV Require Import Base.Str Apath ApathP StitchInst.

Lemma adj_sortedb_sound l : adj_sortedb l = true -> StronglySorted (klt str apath_cmp) l.
Proof.
  intro H. apply Sorted_StronglySorted.
  - intros x y z. apply (co_trans apath_cmp apath_order).
  - induction l as [|x l IH]; [constructor|]. destruct l as [|y l].
    + repeat constructor.
    + cbn [adj_sortedb] in H. apply andb_true_iff in H as [H1 H2].
      constructor; [apply IH; exact H2|]. constructor.
      unfold klt. unfold apath_ltb in H1. destruct (apath_cmp x y); congruence.
Qed.

(* the executable check implies the hypothesis of the theorems *)
Lemma bands_sortedb_sound bands :
  bands_sortedb bands = true -> BandsSorted str apath_cmp ient ikey (arch_of bands).
Proof.
  intros H n. unfold ksorted, entries, band_opens, band_hunks, arch_of.
  destruct (find _ bands) as [[k b]|] eqn:F; [|constructor].
  apply find_some in F as [Hin _]. unfold bands_sortedb in H.
  rewrite forallb_forall in H. specialize (H _ Hin). cbn [snd] in H.
  destruct b as [[[h o] c] hs]. cbn [mk_band b_opens b_hunks band_sortedb] in *.
  destruct o; cbn [negb orb] in H; [apply adj_sortedb_sound; exact H|constructor].
Qed.

Theorem stitch_list_eq_spec bands n :
  bands_sortedb bands = true -> stitch_list bands n = stitch_spec_list bands n.
Proof.
  intro H. apply (stitch_eq_spec str apath_cmp ient ikey apath_order).
  apply bands_sortedb_sound. exact H.
Qed.

Theorem stitch_list_sorted bands n :
  bands_sortedb bands = true ->
  StronglySorted (klt str apath_cmp) (map ikey (stitch_list bands n)).
Proof.
  intro H. apply (stitch_strictly_sorted str apath_cmp ient ikey apath_order).
  apply bands_sortedb_sound. exact H.
Qed.

Theorem stitch_list_filter keep bands n :
  stitch_list_keep keep bands n = filter keep (stitch_list bands n).
Proof. apply stitch_filter. Qed.

Theorem stitch_machine_list_eq bands n :
  stitch_machine_list bands n = Some (stitch_list bands n).
Proof. apply machine_eq_stitch. lia. Qed.

(* ---- non-vacuity: the hypotheses hold on a non-trivial archive (three bands, two incomplete) ---- *)
Example ex_chain_BandsSorted : BandsSorted str apath_cmp ient ikey (arch_of ex_chain).
Proof. apply bands_sortedb_sound. vm_compute. reflexivity. Qed.

Example ex_chain_eq_spec : stitch_list ex_chain 2 = stitch_spec_list ex_chain 2.
Proof. apply stitch_list_eq_spec. vm_compute. reflexivity. Qed.

Example ex_chain_sorted_out :
  StronglySorted (klt str apath_cmp) (map ikey (stitch_list ex_chain 2)).
Proof. apply stitch_list_sorted. vm_compute. reflexivity. Qed.

From Coq Require Import String.
Local Open Scope nat_scope.
(* the chain from 2 is 2, 1, 0, and "/c" is taken from band 1 *)
Example ex_chain_onchain : OnChain ient (arch_of ex_chain) 2 0.
Proof.
  apply (oc_down ient _ 2 1 0); [reflexivity|reflexivity|].
  apply (oc_down ient _ 1 0 0); [reflexivity|reflexivity|]. constructor.
Qed.
Example ex_chain_provenance : In (ent "/c" 1) (stitch_list ex_chain 2).
Proof.
  apply (stitch_provenance str apath_cmp ient ikey apath_order _ 2 ex_chain_BandsSorted).
  exists 1. split; [apply (oc_down ient _ 2 1 1); [reflexivity|reflexivity|constructor]|].
  split; [vm_compute; tauto|].
  intros m' Hc Hlt.
  assert (Hle : m' <= 2) by (eapply OnChain_le; exact Hc).
  assert (m' = 2) as -> by lia.
  unfold AllBelow. vm_compute. repeat constructor.
Qed.

(* complete band: hypotheses of stitch_complete_band *)
Example ex_chain_complete :
  band_opens (arch_of ex_chain) 0 = true /\ band_closed (arch_of ex_chain) 0 = true /\
  stitch_list ex_chain 0 = entries ient (arch_of ex_chain) 0.
Proof.
  split; [reflexivity|]. split; [reflexivity|]. apply stitch_complete_band; reflexivity.
Qed.

(* without sortedness across hunks machine and rule differ (see StitchInst.ex_overlap) *)
Example stitch_eq_spec_needs_sorted :
  exists bands n, bands_sortedb bands = false /\ stitch_list bands n <> stitch_spec_list bands n.
Proof. exists ex_overlap, 1%N. split; [reflexivity|]. vm_compute. discriminate. Qed.

Print Assumptions band_loop_spec.
Print Assumptions stitch_from_eq_spec.
Print Assumptions stitch_eq_spec.
Print Assumptions stitch_spec_eqn.
Print Assumptions stitch_spec_unique.
Print Assumptions stitch_from_eqn.
Print Assumptions stitch_strictly_sorted.
Print Assumptions stitch_from_strictly_sorted.
Print Assumptions stitch_nodup_keys.
Print Assumptions stitch_spec_in_iff.
Print Assumptions stitch_provenance.
Print Assumptions stitch_provenance_newest.
Print Assumptions provenance_unique.
Print Assumptions OnChain_spec.
Print Assumptions stitch_complete_band.
Print Assumptions stitch_complete_band_keep.
Print Assumptions stitch_filter.
Print Assumptions machine_eq_stitch.
Print Assumptions bands_sortedb_sound.
Print Assumptions stitch_list_eq_spec.
Print Assumptions stitch_list_sorted.
Print Assumptions stitch_list_filter.
Print Assumptions stitch_machine_list_eq.
