(* C06 "delete / gc cannot lose data of a concurrent backup".

   For EVERY interleaving (schedule [sigma], no bound on preemptions) of a backup with a
   delete / garbage collection on the same archive, once both have finished or given up, every
   band marked complete has every block its index names ([gc_backup_safe]); bands that were
   complete and are not deleted stay complete, unchanged ([old_bands_safe]).  The protocol before
   "fix: a backup could deduplicate against blocks a concurrent gc then deleted" (GC_LOCK examined
   only before the band is created) is refuted by a concrete schedule
   ([race_refuted_without_second_check]).

   Proof architecture:
   2.  metatheory of [run2]: projections, truthful replies, history-dependent classes under
       interleaving, two-actor invariants ([run2_inv]);
   3-4. ghost phases of the two actors (folds over their OWN histories) and their classes
       ([backup_class], [delete_class]), read back on raw histories in section 11;
   5.  effects of single storage operations;
   6.  the interlock invariant [Inv] relating the archive state to both histories; every step
       of either actor keeps it ([step1], [step2]);
   7.  the theorem. *)
From Coq Require Import Lia Permutation.
From CV Require Import Base.Str Base.StrP Apath Entry Stitch Tree TreeP Codec CodecP Store StitchProg Backup
  Ops Delete Read SafeP Inv Race.
Local Open Scope N_scope.



(* ------------------------------------------------------------------------- *)
(** * 1. The property                                                         *)
(* ------------------------------------------------------------------------- *)

Definition hist := list (op * reply).

Definition band_complete (a : arch) (b : N) : Prop :=
  get a (PHead b) = Some (Good (PlHead HvOk)) /\ exists n, get a (PTail b) = Some (Good (PlTail n)).

Definition band_refs_ok (a : arch) (b : N) : Prop :=
  forall h es e ad, get a (PHunk b h) = Some (Good (PlHunk es)) -> In e es -> In ad (e_addrs e) ->
    block_ok a (a_hash ad).

(* every version marked complete has all the blocks its index names *)
Definition Safe (a : arch) : Prop := forall b, band_complete a b -> band_refs_ok a b.

(* the hashes an index hunk names (the expression [Archive::referenced_blocks] uses) *)
Definition names (es : list entry) : list bytes := flat_map (fun e => map a_hash (e_addrs e)) es.

Lemma names_In es c : In c (names es) <-> exists e ad, In e es /\ In ad (e_addrs e) /\ a_hash ad = c.
Proof.
  unfold names. rewrite in_flat_map. split.
  - intros [e [He Hc]]. apply in_map_iff in Hc. destruct Hc as [ad [E Had]]. eauto.
  - intros [e [ad [He [Had E]]]]. exists e. split; [exact He|]. apply in_map_iff. eauto.
Qed.

Lemma band_refs_ok_names a b :
  band_refs_ok a b <->
  (forall h es c, get a (PHunk b h) = Some (Good (PlHunk es)) -> In c (names es) -> block_ok a c).
Proof.
  split.
  - intros H h es c G Hc. apply names_In in Hc. destruct Hc as [e [ad [He [Had <-]]]]. eauto.
  - intros H h es e ad G He Had. apply (H h es); [exact G|]. apply names_In. eauto.
Qed.

Section WFdef.
  Variable pre : bytes -> N.
  (* well-formed archive state: no path twice in the file list; every file's directory
     exists; every directory's parent exists *)
  Definition WF (a : arch) : Prop :=
    FilesND a
    /\ (forall f x, get a f = Some x -> has_dir a (parent_f pre f) = true)
    /\ (forall d p, has_dir a d = true -> parent_d d = Some p -> has_dir a p = true).
End WFdef.

(* ------------------------------------------------------------------------- *)
(** * 2. Metatheory of [run2]                                                 *)
(* ------------------------------------------------------------------------- *)

(* the sub-trace of one actor *)
Definition proj (b : bool) (tr : list (bool * (op * reply))) : hist :=
  map snd (filter (fun x => Bool.eqb (fst x) b) tr).

Lemma proj_cons_same b x tr : proj b ((b, x) :: tr) = x :: proj b tr.
Proof. unfold proj. cbn [filter fst]. rewrite Bool.eqb_reflx. reflexivity. Qed.

Lemma proj_cons_other b x tr : proj b ((negb b, x) :: tr) = proj b tr.
Proof. unfold proj. cbn [filter fst]. destruct b; reflexivity. Qed.

Lemma proj_app b t u : proj b (t ++ u) = proj b t ++ proj b u.
Proof. unfold proj. rewrite filter_app, map_app. reflexivity. Qed.

Lemma proj_tag_same {b} (t : hist) : proj b (tag b t) = t.
Proof.
  unfold proj, tag. induction t as [|x t IH]; [reflexivity|].
  cbn [map filter fst]. rewrite Bool.eqb_reflx. cbn [map snd]. rewrite IH. reflexivity.
Qed.

Lemma proj_tag_other {b} (t : hist) : proj b (tag (negb b) t) = [].
Proof.
  unfold proj, tag. induction t as [|x t IH]; [reflexivity|].
  cbn [map filter fst]. destruct b; cbn [negb Bool.eqb]; exact IH.
Qed.

(* [t] is a trace of [p] against the replies recorded in [t] *)
Inductive follows {R} : prog R -> hist -> Prop :=
| fo_nil : forall p, follows p []
| fo_cons : forall o k r t, follows (k r) t -> follows (Do o k) ((o, r) :: t).

(* the merged trace is a genuine execution: each reply is the truthful [exec] reply in the
   state of that moment, and the state changes only by the executed operations *)
Inductive steps (pre : bytes -> N) : arch -> list (bool * (op * reply)) -> arch -> Prop :=
| st_nil : forall a, steps pre a [] a
| st_cons : forall a b o tr af,
    steps pre (fst (exec pre a o NoFault)) tr af ->
    steps pre a ((b, (o, snd (exec pre a o NoFault))) :: tr) af.

Lemma steps_app pre a t a1 u a2 : steps pre a t a1 -> steps pre a1 u a2 -> steps pre a (t ++ u) a2.
Proof. induction 1; cbn [app]; auto. intros. constructor. auto. Qed.

Lemma emits_h_follows {R} (P : hist -> op -> Prop) h (p : prog R) :
  emits_h P h p -> forall t, follows p t ->
  forall i o r, nth_error t i = Some (o, r) -> P (h ++ firstn i t) o.
Proof.
  intros H. induction H as [h r|h|h o k Ho _ IH]; intros t Ht i o' r' Hi;
    inversion Ht; subst; try (destruct i; discriminate).
  destruct i as [|i]; cbn [nth_error firstn] in *.
  - inversion Hi; subst. rewrite app_nil_r. exact Ho.
  - match goal with H : follows (k _) _ |- _ => specialize (IH _ _ H _ _ _ Hi) end.
    rewrite <- app_assoc in IH. exact IH.
Qed.

Lemma eh_inv {R} (P : hist -> op -> Prop) h (p : prog R) :
  emits_h P h p ->
  match p with Do o k => P h o /\ (forall rep, emits_h P (h ++ [(o, rep)]) (k rep)) | _ => True end.
Proof. intros H. destruct H; auto. Qed.

Section Run2.
  Variable pre : bytes -> N.

  Lemma run_nofault_Do {R} o (k : reply -> prog R) a :
    run pre (Do o k) a [] =
    (let r := run pre (k (snd (exec pre a o NoFault))) (fst (exec pre a o NoFault)) [] in
     ((o, snd (exec pre a o NoFault)) :: fst (fst r), snd (fst r), snd r)).
  Proof. rewrite run_Do. reflexivity. Qed.

  Lemma run_follows {R} (p : prog R) : forall a, follows p (fst (fst (run pre p a []))).
  Proof.
    induction p as [r|o k IH|]; intros a; try (cbn; constructor).
    rewrite run_nofault_Do. cbn [fst snd]. constructor. apply IH.
  Qed.

  Lemma run_steps {R} (p : prog R) b : forall a,
    steps pre a (tag b (fst (fst (run pre p a [])))) (snd (fst (run pre p a []))).
  Proof.
    induction p as [r|o k IH|]; intros a; try (cbn; constructor).
    rewrite run_nofault_Do. cbn [fst snd tag map]. constructor. apply IH.
  Qed.

  (* components of [run2] *)
  Definition tr2 {R S} (x : list (bool * (op * reply)) * arch * outcome R * outcome S) := fst (fst (fst x)).
  Definition st2 {R S} (x : list (bool * (op * reply)) * arch * outcome R * outcome S) := snd (fst (fst x)).

  Lemma run2_nil {R S} (p : prog R) (q : prog S) a :
    tr2 (run2 pre p q a []) =
      tag false (fst (fst (run pre p a []))) ++ tag true (fst (fst (run pre q (snd (fst (run pre p a []))) [])))
    /\ st2 (run2 pre p q a []) = snd (fst (run pre q (snd (fst (run pre p a []))) [])).
  Proof.
    cbn [run2]. destruct (run pre p a []) as [[t1 a1] o1]. cbn [fst snd].
    destruct (run pre q a1 []) as [[t2 a2] o2]. split; reflexivity.
  Qed.

  Lemma run2_false_Do {R S} o k (q : prog S) a s :
    tr2 (run2 pre (Do o k : prog R) q a (false :: s)) =
      (false, (o, snd (exec pre a o NoFault)))
        :: tr2 (run2 pre (k (snd (exec pre a o NoFault))) q (fst (exec pre a o NoFault)) s)
    /\ st2 (run2 pre (Do o k : prog R) q a (false :: s)) =
       st2 (run2 pre (k (snd (exec pre a o NoFault))) q (fst (exec pre a o NoFault)) s).
  Proof.
    cbn [run2]. destruct (exec pre a o NoFault) as [a' r]. cbn [fst snd].
    destruct (run2 pre (k r) q a' s) as [[[t af] o1] o2]. split; reflexivity.
  Qed.

  Lemma run2_true_Do {R S} (p : prog R) o k a s :
    tr2 (run2 pre p (Do o k : prog S) a (true :: s)) =
      (true, (o, snd (exec pre a o NoFault)))
        :: tr2 (run2 pre p (k (snd (exec pre a o NoFault))) (fst (exec pre a o NoFault)) s)
    /\ st2 (run2 pre p (Do o k : prog S) a (true :: s)) =
       st2 (run2 pre p (k (snd (exec pre a o NoFault))) (fst (exec pre a o NoFault)) s).
  Proof.
    cbn [run2]. destruct (exec pre a o NoFault) as [a' r]. cbn [fst snd].
    destruct (run2 pre p (k r) a' s) as [[[t af] o1] o2]. split; reflexivity.
  Qed.

  Lemma run2_false_skip {R S} (p : prog R) (q : prog S) a s :
    (forall o k, p <> Do o k) -> run2 pre p q a (false :: s) = run2 pre p q a s.
  Proof. intros H. destruct p; try reflexivity. destruct (H o k eq_refl). Qed.

  Lemma run2_true_skip {R S} (p : prog R) (q : prog S) a s :
    (forall o k, q <> Do o k) -> run2 pre p q a (true :: s) = run2 pre p q a s.
  Proof. intros H. destruct q; try reflexivity. destruct (H o k eq_refl). Qed.

  (* an induction principle for [run2]: to prove [G p q a (run2 p q a sigma)] *)
  Section Ind.
    Variables R S : Type.
    Variable G : prog R -> prog S -> arch -> list (bool * (op * reply)) -> arch -> Prop.
    Hypothesis Gnil : forall p q a,
      G p q a (tag false (fst (fst (run pre p a []))) ++ tag true (fst (fst (run pre q (snd (fst (run pre p a []))) []))))
        (snd (fst (run pre q (snd (fst (run pre p a []))) []))).
    Hypothesis Gfalse : forall o k q a t af,
      G (k (snd (exec pre a o NoFault))) q (fst (exec pre a o NoFault)) t af ->
      G (Do o k) q a ((false, (o, snd (exec pre a o NoFault))) :: t) af.
    Hypothesis Gtrue : forall p o k a t af,
      G p (k (snd (exec pre a o NoFault))) (fst (exec pre a o NoFault)) t af ->
      G p (Do o k) a ((true, (o, snd (exec pre a o NoFault))) :: t) af.

    Lemma run2_ind : forall sigma p q a, G p q a (tr2 (run2 pre p q a sigma)) (st2 (run2 pre p q a sigma)).
    Proof.
      induction sigma as [|b s IH]; intros p q a.
      - destruct (run2_nil p q a) as [-> ->]. apply Gnil.
      - destruct b.
        + destruct q as [r|o k|].
          * rewrite run2_true_skip by discriminate. apply IH.
          * destruct (run2_true_Do p o k a s) as [-> ->]. apply Gtrue, IH.
          * rewrite run2_true_skip by discriminate. apply IH.
        + destruct p as [r|o k|].
          * rewrite run2_false_skip by discriminate. apply IH.
          * destruct (run2_false_Do o k q a s) as [-> ->]. apply Gfalse, IH.
          * rewrite run2_false_skip by discriminate. apply IH.
    Qed.
  End Ind.

  (* PROJECTION: each actor's sub-trace is a trace of that actor against the replies it got *)
  Theorem run2_follows {R S} (p : prog R) (q : prog S) a sigma :
    follows p (proj false (tr2 (run2 pre p q a sigma))) /\ follows q (proj true (tr2 (run2 pre p q a sigma))).
  Proof.
    apply (run2_ind R S (fun p q a t af => follows p (proj false t) /\ follows q (proj true t))); clear.
    - intros p q a. rewrite !proj_app.
      rewrite (@proj_tag_same false), (@proj_tag_other true), (@proj_tag_other false), (@proj_tag_same true).
      rewrite app_nil_r. cbn [app]. split; apply run_follows.
    - intros o k q a t af [H1 H2]. rewrite proj_cons_same. rewrite (proj_cons_other true). split; [constructor|]; auto.
    - intros p o k a t af [H1 H2]. rewrite proj_cons_same. rewrite (proj_cons_other false). split; [|constructor]; auto.
  Qed.

  (* TRUTHFUL REPLIES: the merged trace is an execution of the store from [a] to the final state *)
  Theorem run2_steps {R S} (p : prog R) (q : prog S) a sigma :
    steps pre a (tr2 (run2 pre p q a sigma)) (st2 (run2 pre p q a sigma)).
  Proof.
    apply (run2_ind R S (fun p q a t af => steps pre a t af)); clear.
    - intros p q a. eapply steps_app; apply run_steps.
    - intros. constructor. assumption.
    - intros. constructor. assumption.
  Qed.

  (* HISTORY-DEPENDENT CLASSES under interleaving: every operation of an actor satisfies the
     class of ITS OWN earlier sub-trace *)
  Theorem emits_h_sound2 {R S} (P1 P2 : hist -> op -> Prop) (p : prog R) (q : prog S) a sigma :
    emits_h P1 [] p -> emits_h P2 [] q ->
    (forall i o r, nth_error (proj false (tr2 (run2 pre p q a sigma))) i = Some (o, r) ->
        P1 (firstn i (proj false (tr2 (run2 pre p q a sigma)))) o)
    /\ (forall i o r, nth_error (proj true (tr2 (run2 pre p q a sigma))) i = Some (o, r) ->
        P2 (firstn i (proj true (tr2 (run2 pre p q a sigma)))) o).
  Proof.
    intros H1 H2. destruct (run2_follows p q a sigma) as [F1 F2]. split; intros i o r Hi.
    - apply (emits_h_follows P1 [] p H1 _ F1 i o r Hi).
    - apply (emits_h_follows P2 [] q H2 _ F2 i o r Hi).
  Qed.

  (* TWO-ACTOR INVARIANTS: a relation between the archive state and the two actors' own
     histories that every permitted step of either actor preserves holds at the end of every
     interleaving *)
  Section Inv2.
    Variables P1 P2 : hist -> op -> Prop.
    Variable J : arch -> hist -> hist -> Prop.
    Hypothesis step1 : forall a h1 h2 o, J a h1 h2 -> P1 h1 o ->
      J (fst (exec pre a o NoFault)) (h1 ++ [(o, snd (exec pre a o NoFault))]) h2.
    Hypothesis step2 : forall a h1 h2 o, J a h1 h2 -> P2 h2 o ->
      J (fst (exec pre a o NoFault)) h1 (h2 ++ [(o, snd (exec pre a o NoFault))]).

    Lemma run_inv1 {R} (p : prog R) : forall h1 h2 a, emits_h P1 h1 p -> J a h1 h2 ->
      J (snd (fst (run pre p a []))) (h1 ++ fst (fst (run pre p a []))) h2.
    Proof.
      induction p as [r|o k IH|]; intros h1 h2 a Hp HJ; try (cbn; rewrite app_nil_r; exact HJ).
      rewrite run_nofault_Do. cbn [fst snd]. destruct (eh_inv _ _ _ Hp) as [Ho Hk].
      specialize (IH _ _ h2 _ (Hk (snd (exec pre a o NoFault))) (step1 _ _ _ _ HJ Ho)).
      rewrite <- app_assoc in IH. exact IH.
    Qed.

    Lemma run_inv2 {S} (q : prog S) : forall h1 h2 a, emits_h P2 h2 q -> J a h1 h2 ->
      J (snd (fst (run pre q a []))) h1 (h2 ++ fst (fst (run pre q a []))).
    Proof.
      induction q as [r|o k IH|]; intros h1 h2 a Hq HJ; try (cbn; rewrite app_nil_r; exact HJ).
      rewrite run_nofault_Do. cbn [fst snd]. destruct (eh_inv _ _ _ Hq) as [Ho Hk].
      specialize (IH _ h1 _ _ (Hk (snd (exec pre a o NoFault))) (step2 _ _ _ _ HJ Ho)).
      rewrite <- app_assoc in IH. exact IH.
    Qed.

    Theorem run2_inv {R S} (p : prog R) (q : prog S) a sigma : forall h1 h2,
      emits_h P1 h1 p -> emits_h P2 h2 q -> J a h1 h2 ->
      J (st2 (run2 pre p q a sigma))
        (h1 ++ proj false (tr2 (run2 pre p q a sigma))) (h2 ++ proj true (tr2 (run2 pre p q a sigma))).
    Proof.
      apply (run2_ind R S (fun p q a t af => forall h1 h2,
        emits_h P1 h1 p -> emits_h P2 h2 q -> J a h1 h2 -> J af (h1 ++ proj false t) (h2 ++ proj true t))); clear p q a sigma.
      - intros p q a h1 h2 Hp Hq HJ. rewrite !proj_app.
        rewrite (@proj_tag_same false), (@proj_tag_other true), (@proj_tag_other false), (@proj_tag_same true).
        rewrite app_nil_r. cbn [app]. apply run_inv2; [exact Hq|]. apply run_inv1; assumption.
      - intros o k q a t af IH h1 h2 Hp Hq HJ. destruct (eh_inv _ _ _ Hp) as [Ho Hk].
        rewrite proj_cons_same. rewrite (proj_cons_other true).
        specialize (IH _ h2 (Hk _) Hq (step1 _ _ _ _ HJ Ho)). rewrite <- app_assoc in IH. exact IH.
      - intros p o k a t af IH h1 h2 Hp Hq HJ. destruct (eh_inv _ _ _ Hq) as [Ho Hk].
        rewrite proj_cons_same. rewrite (proj_cons_other false).
        specialize (IH h1 _ Hp (Hk _) (step2 _ _ _ _ HJ Ho)). rewrite <- app_assoc in IH. exact IH.
    Qed.
  End Inv2.
End Run2.



(* ------------------------------------------------------------------------- *)
(** * 3. The backup: ghost phase, what it knows, its class                    *)
(* ------------------------------------------------------------------------- *)

(* B0: no band yet; B1 id: band [id] created, GC_LOCK not yet re-examined; B2 id: the root
   listing taken after the band exists showed no GC_LOCK; B3 id: tail written *)
Inductive bphase := B0 | B1 (id : N) | B2 (id : N) | B3 (id : N).

Definition has_lock (fs : list (fpath * bool)) : bool := existsb (fun p => fpath_eqb (fst p) PLock) fs.
Definition listed_blocks (fs : list (fpath * bool)) : list bytes :=
  flat_map (fun p => match p with (PBlock c, true) => [c] | _ => [] end) fs.

Definition bphase_step (ph : bphase) (x : op * reply) : bphase :=
  match ph, x with
  | B0, (OpMkdir (DBand id), ROk) => B1 id
  | B1 id, (OpList DRoot, RList _ fs) => if has_lock fs then B1 id else B2 id
  | B2 id, (OpWrite (PTail _) _ _, ROk) => B3 id
  | _, _ => ph
  end.

(* the blocks the backup believes exist: listed after the second lock check, or written by itself *)
Definition bknown_step (ph : bphase) (kn : list bytes) (x : op * reply) : list bytes :=
  match ph, x with
  | B2 _, (OpList (DBlockSub _), RList _ fs) => listed_blocks fs ++ kn
  | B2 _, (OpWrite (PBlock c) _ _, ROk) => c :: kn
  | _, _ => kn
  end.

Definition bstep (st : bphase * list bytes) (x : op * reply) : bphase * list bytes :=
  (bphase_step (fst st) x, bknown_step (fst st) (snd st) x).
Definition bfold (h : hist) : bphase * list bytes := fold_left bstep h (B0, []).
Definition bph (h : hist) : bphase := fst (bfold h).
Definition Kn (h : hist) : list bytes := snd (bfold h).

Lemma bfold_snoc h x : bfold (h ++ [x]) = bstep (bfold h) x.
Proof. unfold bfold. rewrite fold_left_app. reflexivity. Qed.
Lemma bph_snoc h x : bph (h ++ [x]) = bphase_step (bph h) x.
Proof. unfold bph. rewrite bfold_snoc. reflexivity. Qed.
Lemma Kn_snoc h x : Kn (h ++ [x]) = bknown_step (bph h) (Kn h) x.
Proof. unfold Kn. rewrite bfold_snoc. reflexivity. Qed.

Lemma Kn_mono_snoc h x : incl (Kn h) (Kn (h ++ [x])).
Proof.
  rewrite Kn_snoc. unfold bknown_step. destruct (bph h); try apply incl_refl.
  destruct x as [o r]. destruct o as [f|f p m|d|d|f|f|d]; try apply incl_refl.
  - destruct f; try apply incl_refl. destruct r; try apply incl_refl. apply incl_tl, incl_refl.
  - destruct d; try apply incl_refl. destruct r; try apply incl_refl. apply incl_appr, incl_refl.
Qed.

Definition not_fin (ph : bphase) : Prop := match ph with B3 _ => False | _ => True end.

(* what a backup may emit, given its own trace so far *)
Definition bk_class (h : hist) (o : op) : Prop :=
  not_fin (bph h) /\
  match o with
  | OpRead _ | OpList _ | OpMeta _ => True
  | OpMkdir (DBand id) =>
      bph h = B0 /\ exists ds fs, In (OpList DRoot, RList ds fs) h /\ forall b, In (DBand b) ds -> b < id
  | OpMkdir (DIndex b) => bph h = B1 b
  | OpMkdir (DHunkSub b _) => bph h = B2 b
  | OpMkdir (DBlockSub _) => True
  | OpWrite (PHead b) (PlHead _) CreateNew => bph h = B1 b
  | OpWrite (PTail b) (PlTail _) CreateNew => bph h = B2 b
  | OpWrite (PHunk b _) (PlHunk es) CreateNew => bph h = B2 b /\ incl (names es) (Kn h)
  | OpWrite (PBlock c) (PlBlock c') CreateNew => c' = c
  | _ => False
  end.

(* ---- a logic with postconditions over (final history, result) ---- *)
Inductive emits_hp {R : Type} (P : hist -> op -> Prop) (Q : hist -> R -> Prop) : hist -> prog R -> Prop :=
| ehp_ret : forall h r, Q h r -> emits_hp P Q h (Ret r)
| ehp_panic : forall h, emits_hp P Q h Panic
| ehp_do : forall h o k, P h o -> (forall rep, emits_hp P Q (h ++ [(o, rep)]) (k rep)) -> emits_hp P Q h (Do o k).

Lemma ehp_eh {R} P Q h (p : prog R) : emits_hp P Q h p -> emits_h P h p.
Proof. intros H. induction H; constructor; auto. Qed.

Lemma ehp_bind {A B} P (Q : hist -> A -> Prop) (Q' : hist -> B -> Prop) h (p : prog A) (f : A -> prog B) :
  emits_hp P Q h p -> (forall h' r, Q h' r -> emits_hp P Q' h' (f r)) -> emits_hp P Q' h (bind p f).
Proof.
  intros H Hf. induction H as [h r Hr|h|h o k Ho _ IH]; cbn [bind]; auto; constructor; auto.
Qed.

Lemma ehp_weaken {R} P (Q Q' : hist -> R -> Prop) h (p : prog R) :
  (forall h' r, Q h' r -> Q' h' r) -> emits_hp P Q h p -> emits_hp P Q' h p.
Proof. intros HQ H. induction H; constructor; auto. Qed.

Lemma eh_bind_hp {A B} P (Q : hist -> A -> Prop) h (p : prog A) (f : A -> prog B) :
  emits_hp P Q h p -> (forall h' r, Q h' r -> emits_h P h' (f r)) -> emits_h P h (bind p f).
Proof.
  intros H Hf. induction H as [h r Hr|h|h o k Ho _ IH]; cbn [bind]; auto; constructor; auto.
Qed.

Section BackupShape.
  Variable pre : bytes -> N.
  Variable id : N.

  (* the body runs in phase B2 *)
  Definition BH (h : hist) : Prop := bph h = B2 id.

  Definition tail_ok (x : op * reply) : bool :=
    match x with (OpWrite (PTail _) _ _, ROk) => true | _ => false end.

  Lemma BH_snoc h x : BH h -> tail_ok x = false -> BH (h ++ [x]).
  Proof.
    unfold BH. intros H Hx. rewrite bph_snoc, H. destruct x as [o r]. cbn [bphase_step].
    destruct o as [f|f p m|d|d|f|f|d]; try reflexivity.
    destruct f; try reflexivity. destruct r; try reflexivity. discriminate.
  Qed.

  Lemma BH_class_read h o : BH h -> reads_only o -> bk_class h o.
  Proof. unfold BH, bk_class. intros -> Ho. split; [exact I|]. destruct o; cbn in Ho; tauto. Qed.

  (* a read-only sub-program (the stitched basis) keeps the phase; knowledge only grows *)
  Lemma reads_hp {R} (p : prog R) : emits_only reads_only p ->
    forall h, BH h -> emits_hp bk_class (fun h' _ => BH h' /\ incl (Kn h) (Kn h')) h p.
  Proof.
    intros H. induction H as [r| |o k Ho _ IH]; intros h Hh.
    - constructor. split; [exact Hh | apply incl_refl].
    - constructor.
    - constructor; [apply BH_class_read; assumption|]. intros rep.
      eapply ehp_weaken; [|apply IH].
      + intros h' r [H1 H2]. split; [exact H1|]. eapply incl_tran; [apply Kn_mono_snoc | exact H2].
      + apply BH_snoc; [exact Hh|]. destruct o; cbn in Ho; try contradiction; reflexivity.
  Qed.

  (* invariant of the writer state against the history *)
  Definition BW (h : hist) (w : wst) : Prop :=
    BH h /\ w_band w = id /\ incl (w_exists w) (Kn h)
    /\ incl (names (w_entries w)) (Kn h) /\ incl (names (w_fin w)) (Kn h).

  Lemma BW_mono h h' w : BW h w -> BH h' -> incl (Kn h) (Kn h') -> BW h' w.
  Proof.
    intros (H1 & H2 & H3 & H4 & H5) Hh Hk. unfold BW. repeat split; auto; eapply incl_tran; eauto.
  Qed.

  Ltac wsimpl :=
    cbn [w_band w_entries w_seq w_hunks w_buf w_queue w_fin w_exists w_errors w_merr w_written
         w_deleted upd_blocks upd_comb upd_index upd_counts push_entry fst snd] in *.

  Definition BQ {A} (h0 : hist) (h : hist) (rw : A * wst) : Prop := BW h (snd rw) /\ incl (Kn h0) (Kn h).

  Lemma mem_bytes_In' c l : mem_bytes c l = true -> In c l.
  Proof.
    unfold mem_bytes. rewrite existsb_exists. intros [x [Hx E]].
    apply str_eqb_eq in E. subst. exact Hx.
  Qed.

  Lemma store_block_hp w c h :
    BW h w ->
    emits_hp bk_class (fun h' rw => BQ h h' rw /\ (fst rw = true -> In c (Kn h'))) h (store_block pre w c).
  Proof.
    intros HW. pose proof HW as (Hh & Hb & Hex & Hen & Hfin). unfold store_block.
    destruct (mem_bytes c (w_exists w)) eqn:M.
    - constructor. split; [split; [exact HW | apply incl_refl]|]. intros _. apply Hex, mem_bytes_In', M.
    - constructor; [unfold bk_class, BH in *; rewrite Hh; split; exact I|]. intros rep.
      assert (Hh1 : BH (h ++ [(OpMkdir (DBlockSub (pre c)), rep)])) by (apply BH_snoc; auto).
      assert (Hk1 := Kn_mono_snoc h (OpMkdir (DBlockSub (pre c)), rep)).
      destruct (is_ok rep).
      + constructor; [unfold bk_class, BH in *; rewrite Hh1; split; [exact I | reflexivity]|]. intros rep2.
        set (h2 := (h ++ _) ++ [(_, rep2)]).
        assert (Hh2 : BH h2) by (apply BH_snoc; auto).
        assert (Hk2 : incl (Kn h) (Kn h2)) by (eapply incl_tran; [exact Hk1 | apply Kn_mono_snoc]).
        destruct rep2; cbn [is_ok]; constructor;
          try (split; [split; [eapply BW_mono; eauto | exact Hk2] | cbn [fst]; discriminate]).
        assert (Hc : In c (Kn h2)).
        { unfold h2. rewrite Kn_snoc. unfold BH in Hh1. rewrite Hh1. cbn [bknown_step]. left. reflexivity. }
        split; [|intros _; exact Hc]. split; [|exact Hk2].
        unfold BW. wsimpl. split; [exact Hh2|]. split; [exact Hb|]. split; [|split].
        * intros x [<-|Hx]; [exact Hc | apply Hk2, Hex, Hx].
        * eapply incl_tran; eauto.
        * eapply incl_tran; eauto.
      + constructor. split; [split; [eapply BW_mono; eauto | exact Hk1] | cbn [fst]; discriminate].
  Qed.

  Lemma names_app l m : names (l ++ m) = names l ++ names m.
  Proof. unfold names. apply flat_map_app. Qed.

  Lemma names_queued blk q : incl (names (map (queued_entry blk) q)) [blk].
  Proof.
    induction q as [|[[s l] e] q IH]; cbn [map]; [intros x []|].
    change (names (?x :: ?l)) with (names [x] ++ names l).
    apply incl_app; [|exact IH]. unfold names, queued_entry, set_addrs. cbn. intros x [<-|[]]. left. reflexivity.
  Qed.

  Lemma comb_flush_hp w h : BW h w -> emits_hp bk_class (BQ h) h (comb_flush pre w).
  Proof.
    intros HW. pose proof HW as (Hh & Hb & Hex & Hen & Hfin). unfold comb_flush.
    destruct (w_queue w) as [|q0 q] eqn:Eq.
    - constructor. split; [exact HW | apply incl_refl].
    - eapply ehp_bind; [apply store_block_hp|].
      + unfold BW. wsimpl. repeat split; auto.
      + intros h' [ok w'] [[HW' Hk'] Hc]. cbn [fst snd] in *.
        destruct ok; constructor; (split; [|exact Hk']); cbn [snd]; [|exact HW'].
        destruct HW' as (W1 & W2 & W3 & W4 & W5). unfold BW. wsimpl. repeat split; auto.
        rewrite names_app. apply incl_app; [exact W5|].
        eapply incl_tran; [apply names_queued|]. intros x [<-|[]]. apply Hc. reflexivity.
  Qed.

  Lemma comb_push_hp c w e data h :
    BW h w -> e_addrs e = [] -> emits_hp bk_class (BQ h) h (comb_push pre c w e data).
  Proof.
    intros HW He. pose proof HW as (Hh & Hb & Hex & Hen & Hfin). unfold comb_push.
    destruct data as [|x data].
    - constructor. split; [|apply incl_refl]. cbn [snd]. unfold BW. wsimpl. repeat split; auto.
      rewrite names_app. apply incl_app; [exact Hfin|]. unfold names. cbn. rewrite He. intros y [].
    - match goal with |- emits_hp _ _ _ (if ?b then _ else _) => destruct b end.
      + apply comb_flush_hp. unfold BW. wsimpl. repeat split; auto.
      + constructor. split; [|apply incl_refl]. cbn [snd]. unfold BW. wsimpl. repeat split; auto.
  Qed.

  Lemma names_perm l m : Permutation l m -> incl (names l) (names m).
  Proof.
    intros Hp c Hc. apply names_In in Hc. destruct Hc as [e [ad [He [Had E]]]].
    apply names_In. exists e, ad. split; [eapply Permutation_in; eauto | auto].
  Qed.

  Lemma finish_hunk_hp w h : BW h w -> emits_hp bk_class (BQ h) h (finish_hunk w).
  Proof.
    intros HW. pose proof HW as (Hh & Hb & Hex & Hen & Hfin). unfold finish_hunk.
    destruct (w_entries w) as [|e0 es] eqn:Ee.
    - constructor. split; [exact HW | apply incl_refl].
    - assert (Hwrite : forall h1, BH h1 -> incl (Kn h) (Kn h1) ->
        emits_hp bk_class (BQ h) h1
          (Do (OpWrite (PHunk (w_band w) (w_seq w)) (PlHunk (sort_entries (e0 :: es))) CreateNew) (fun r =>
             if is_ok r then Ret (true, upd_index w [] (w_seq w + 1) (w_hunks w + 1)) else Ret (false, w)))).
      { intros h1 Hh1 Hk1. constructor.
        - unfold bk_class. unfold BH in Hh1. rewrite Hh1, Hb. split; [exact I|]. split; [reflexivity|].
          eapply incl_tran; [apply names_perm, sort_entries_perm|].
          eapply incl_tran; [exact Hen | exact Hk1].
        - intros rep. set (h2 := h1 ++ _).
          assert (Hh2 : BH h2) by (apply BH_snoc; auto).
          assert (Hk2 : incl (Kn h) (Kn h2)) by (eapply incl_tran; [exact Hk1 | apply Kn_mono_snoc]).
          destruct (is_ok rep); constructor; (split; [|exact Hk2]); cbn [snd].
          + unfold BW. wsimpl. repeat split; auto; try (eapply incl_tran; eauto). intros y [].
          + eapply BW_mono; eauto. }
      destruct (w_seq w mod HUNKS_PER_SUBDIR =? 0).
      + constructor; [unfold bk_class, BH in *; rewrite Hh, Hb; split; [exact I | reflexivity]|]. intros rep.
        assert (Hh1 : BH (h ++ [(OpMkdir (DHunkSub (w_band w) (w_seq w / HUNKS_PER_SUBDIR)), rep)]))
          by (apply BH_snoc; auto).
        destruct (is_ok rep); [apply Hwrite; [exact Hh1 | apply Kn_mono_snoc]|].
        constructor. split; [eapply BW_mono; eauto; apply Kn_mono_snoc | apply Kn_mono_snoc].
      + apply Hwrite; [exact Hh | apply incl_refl].
  Qed.

  Lemma BQ_trans {A B} h0 h1 h2 (rw : A * wst) (rw' : B * wst) :
    incl (Kn h0) (Kn h1) -> BQ h1 h2 rw' -> snd rw = snd rw' -> BQ h0 h2 rw.
  Proof. intros H01 [HW H12] E. split; [rewrite E; exact HW | eapply incl_tran; eauto]. Qed.

  Lemma flush_group_hp w h : BW h w -> emits_hp bk_class (BQ h) h (flush_group pre w).
  Proof.
    intros HW. unfold flush_group.
    eapply ehp_bind; [apply comb_flush_hp; exact HW|].
    intros h1 [ok w1] [HW1 Hk1]. cbn [snd] in HW1.
    destruct ok.
    - eapply ehp_weaken; [|apply finish_hunk_hp].
      + intros h2 rw HQ. eapply BQ_trans; [exact Hk1 | exact HQ | reflexivity].
      + destruct HW1 as (W1 & W2 & W3 & W4 & W5). unfold BW. wsimpl. repeat split; auto.
        * rewrite names_app. apply incl_app; assumption.
        * intros y [].
    - constructor. split; [exact HW1 | exact Hk1].
  Qed.

  Lemma store_chunks_hp cs : forall w acc h,
    BW h w -> incl (map a_hash acc) (Kn h) ->
    emits_hp bk_class (fun h' rw => BQ h h' rw
                       /\ match fst rw with Some addrs => incl (map a_hash addrs) (Kn h') | None => True end)
      h (store_chunks pre w cs acc).
  Proof.
    induction cs as [|c cs IH]; intros w acc h HW Hacc; cbn [store_chunks].
    - constructor. cbn [fst snd]. split; [split; [exact HW | apply incl_refl] | exact Hacc].
    - eapply ehp_bind; [apply store_block_hp; exact HW|].
      intros h1 [ok w1] [[HW1 Hk1] Hc]. cbn [fst snd] in *.
      destruct ok.
      + eapply ehp_weaken; [|apply IH; [exact HW1|]].
        * intros h2 rw [HQ Hr]. split; [|exact Hr]. eapply BQ_trans; [exact Hk1 | exact HQ | reflexivity].
        * rewrite map_app. apply incl_app; [eapply incl_tran; eauto|].
          cbn [map chunk_addr a_hash]. intros y [<-|[]]. apply Hc. reflexivity.
      + constructor. cbn [fst snd]. split; [split; [exact HW1 | exact Hk1] | exact I].
  Qed.

  Lemma names_single e : names [e] = map a_hash (e_addrs e).
  Proof. unfold names. cbn [flat_map]. apply app_nil_r. Qed.

  Lemma push_entry_BW h w e : BW h w -> incl (map a_hash (e_addrs e)) (Kn h) -> BW h (push_entry w e).
  Proof.
    intros (W1 & W2 & W3 & W4 & W5) He. unfold BW. wsimpl. repeat split; auto.
    rewrite names_app, names_single. apply incl_app; assumption.
  Qed.

  Lemma meta_from_addrs' owner s : e_addrs (meta_from owner s) = [].
  Proof. unfold meta_from. destruct (enc_time_floor (s_mtime s)). reflexivity. Qed.

  Lemma copy_entry_hp c w basis it h :
    BW h w -> emits_hp bk_class (BQ h) h (copy_entry pre c w basis it).
  Proof.
    intros HW. unfold copy_entry.
    assert (Hm : e_addrs (meta_from (c_owner c) (si_e it)) = []) by apply meta_from_addrs'.
    assert (Hret : forall e, incl (map a_hash (e_addrs e)) (Kn h) ->
                    emits_hp bk_class (BQ h) h (Ret (true, push_entry w e))).
    { intros e He. constructor. split; [|apply incl_refl]. cbn [snd]. apply push_entry_BW; assumption. }
    destruct (s_kind (si_e it)).
    2,3: apply Hret; rewrite Hm; intros y [].
    2: constructor; split; [exact HW | apply incl_refl].
    match goal with |- emits_hp _ _ _ (match ?x with _ => _ end) => destruct x as [addrs|] eqn:Er end.
    - apply Hret. destruct basis as [b|]; [|discriminate].
      destruct (unchanged w (si_e it) b) ; cbn [andb] in Er; [|discriminate].
      destruct (blocks_present w b) eqn:Hbp; [|discriminate].
      inversion Er; subst addrs. unfold with_addrs. cbn [e_addrs].
      unfold blocks_present in Hbp. rewrite forallb_forall in Hbp.
      intros y Hy. apply in_map_iff in Hy. destruct Hy as [ad [<- Had]].
      destruct HW as (_ & _ & Hex & _). apply Hex, mem_bytes_In', Hbp, Had.
    - destruct (s_size (si_e it) =? 0); [apply Hret; rewrite Hm; intros y []|].
      destruct (s_size (si_e it) <=? c_sfc c); [apply comb_push_hp; auto|].
      eapply ehp_bind; [apply store_chunks_hp; [exact HW | intros y []]|].
      intros h1 [o w1] [[HW1 Hk1] Hr]. cbn [fst snd] in *.
      destruct o as [addrs|]; constructor; (split; [|exact Hk1]); cbn [snd]; [|exact HW1].
      apply push_entry_BW; [exact HW1|]. unfold with_addrs. cbn [e_addrs]. exact Hr.
  Qed.

  Lemma upd_counts_BW h w x y z : BW h w -> BW h (upd_counts w x y z).
  Proof. intros H. exact H. Qed.

  Lemma merge_loop_eh c src : forall peek st last w h,
    BW h w -> emits_h bk_class h (merge_loop pre c src peek st last w).
  Proof.
    induction src as [|it src IH]; intros peek st last w h HW; cbn [merge_loop].
    - eapply eh_bind_hp; [apply reads_hp; [apply snext_eo; auto | apply HW]|].
      intros h1 [[[[skipped na] st'] last'] merr] [Hh1 Hk1].
      eapply eh_bind_hp; [apply flush_group_hp; apply upd_counts_BW; eapply BW_mono; eauto|].
      intros h2 [ok w2] [HW2 Hk2]. cbn [snd] in HW2.
      destruct ok; [|constructor].
      destruct HW2 as (Hh2 & Hb2 & _). constructor.
      + unfold bk_class. unfold BH in Hh2. rewrite Hh2, Hb2. split; [exact I | reflexivity].
      + intros rep. destruct (is_ok rep); constructor.
    - assert (Hk : forall (skipped : list entry) na st' last' merr h1, BH h1 -> incl (Kn h) (Kn h1) ->
        emits_h bk_class h1
          (let w0 := upd_counts w (w_errors w) merr (w_deleted w + N.of_nat (length skipped)) in
           let '(basis, na') :=
             match na with
             | Some e => match apath_cmp (e_apath e) (s_apath (si_e it)) with
                         | Eq => (Some e, None) | _ => (None, na) end
             | None => (None, None)
             end in
           bind (copy_entry pre c w0 basis it) (fun rw =>
             let '(ok, w1) := rw in
             let w2 := if ok then w1 else upd_counts w1 (w_errors w1 + 1) (w_merr w1 + 1) (w_deleted w1) in
             if ok && (c_meph c <=? N.of_nat (length (w_entries w2)) + N.of_nat (length (w_queue w2))) then
               bind (flush_group pre w2) (fun rw2 =>
                 let '(ok2, w3) := rw2 in
                 if ok2 then merge_loop pre c src na' st' last' w3 else Ret (fail w3))
             else merge_loop pre c src na' st' last' w2))).
      { intros skipped na st' last' merr h1 Hh1 Hk1. cbv zeta.
        match goal with |- emits_h _ _ (let '(_, _) := ?x in _) => destruct x as [basis na'] end.
        eapply eh_bind_hp; [apply copy_entry_hp; apply upd_counts_BW; eapply BW_mono; eauto|].
        intros h2 [ok w1] [HW1 Hk2]. cbn [snd] in HW1.
        assert (HW2 : BW h2 (if ok then w1 else upd_counts w1 (w_errors w1 + 1) (w_merr w1 + 1) (w_deleted w1)))
          by (destruct ok; exact HW1).
        match goal with |- emits_h _ _ (if ?x then _ else _) => destruct x end.
        - eapply eh_bind_hp; [apply flush_group_hp; exact HW2|].
          intros h3 [ok2 w3] [HW3 Hk3]. cbn [snd] in HW3.
          destruct ok2; [|constructor]. apply IH. exact HW3.
        - apply IH. exact HW2. }
      destruct peek as [e|].
      + match goal with |- emits_h _ _ (if ?x then _ else _) => destruct x end.
        * eapply eh_bind_hp; [apply reads_hp; [apply snext_eo; auto | apply HW]|].
          intros h1 [[[[skipped na] st'] last'] merr] [Hh1 Hk1]. apply Hk; assumption.
        * apply (Hk [] (Some e) st last (w_merr w) h); [apply HW | apply incl_refl].
      + eapply eh_bind_hp; [apply reads_hp; [apply snext_eo; auto | apply HW]|].
        intros h1 [[[[skipped na] st'] last'] merr] [Hh1 Hk1]. apply Hk; assumption.
  Qed.

  (* the block listing: the blocks it returns are known *)
  Lemma listed_blocks_eq fs :
    flat_map (fun p : fpath * bool => match p with (PBlock c, true) => [c] | _ => [] end) fs = listed_blocks fs.
  Proof. reflexivity. Qed.

  Lemma list_blocks_eh subs : forall acc failed k h,
    BH h -> incl acc (Kn h) ->
    (forall o h', BH h' -> match o with Some ex => incl ex (Kn h') | None => True end -> emits_h bk_class h' (k o)) ->
    emits_h bk_class h (list_blocks subs acc failed k).
  Proof.
    induction subs as [|s subs IH]; intros acc failed k h Hh Hacc Hk; cbn [list_blocks].
    - apply Hk; [exact Hh|]. destruct failed; [exact I | exact Hacc].
    - constructor; [apply BH_class_read; [exact Hh | exact I]|]. intros rep.
      set (h1 := h ++ _).
      assert (Hh1 : BH h1) by (apply BH_snoc; auto).
      assert (Hk1 : incl (Kn h) (Kn h1)) by apply Kn_mono_snoc.
      destruct rep as [| | |ds fs|]; try (apply IH; [exact Hh1 | eapply incl_tran; [exact Hacc | exact Hk1] | exact Hk]).
      apply IH; [exact Hh1 | | exact Hk].
      apply incl_app; [eapply incl_tran; eauto|].
      unfold h1. rewrite Kn_snoc. unfold BH in Hh. rewrite Hh. cbn [bknown_step].
      rewrite listed_blocks_eq. apply incl_appl, incl_refl.
  Qed.
End BackupShape.

Theorem backup_class : forall pre c src, emits_h bk_class [] (backup_prog pre c src).
Proof.
  intros pre c src. unfold backup_prog, open_archive.
  assert (R0 : forall h o, bph h = B0 -> reads_only o -> bk_class h o).
  { intros h o E Ho. unfold bk_class. rewrite E. split; [exact I|]. destruct o; cbn in Ho; tauto. }
  assert (S0 : forall h o r, bph h = B0 -> reads_only o -> bph (h ++ [(o, r)]) = B0).
  { intros h o r E Ho. rewrite bph_snoc, E. destruct o; cbn in Ho; try contradiction; reflexivity. }
  apply eh_do; [apply R0; [reflexivity | exact I]|]. intros r0.
  destruct r0 as [| |[[| | | |]| |]| |]; try apply eh_ret.
  apply eh_do; [apply R0; [apply S0; [reflexivity | exact I] | exact I]|]. intros r.
  destruct r as [|[| | |]| | |]; try apply eh_ret.
  apply eh_do; [apply R0; [repeat apply S0; try exact I; reflexivity | exact I]|]. intros r1.
  destruct r1 as [| | |ds1 fs1|]; try apply eh_ret.
  apply eh_do; [apply R0; [repeat apply S0; try exact I; reflexivity | exact I]|]. intros r2.
  destruct r2 as [| | |ds2 fs2|]; try apply eh_ret.
  cbv zeta.
  set (id := match max_id (band_ids ds2) with Some m => m + 1 | None => 0 end).
  match goal with |- emits_h _ ?h _ => set (h4 := h) end.
  assert (E4 : bph h4 = B0) by (unfold h4; repeat apply S0; try exact I; reflexivity).
  apply eh_do.
  { unfold bk_class. rewrite E4. split; [exact I|]. split; [reflexivity|].
    exists ds2, fs2. split; [unfold h4; apply in_or_app; right; left; reflexivity|].
    intros b Hb. apply next_id_fresh. exact Hb. }
  intros r3. destruct (is_ok r3) eqn:E3; [|apply eh_ret]. apply is_ok_ROk in E3. subst r3.
  set (h5 := h4 ++ _).
  assert (E5 : bph h5 = B1 id) by (unfold h5; rewrite bph_snoc, E4; reflexivity).
  apply eh_do; [unfold bk_class; rewrite E5; split; [exact I | reflexivity]|]. intros r4.
  set (h6 := h5 ++ _).
  assert (E6 : bph h6 = B1 id) by (unfold h6; rewrite bph_snoc, E5; reflexivity).
  destruct (is_ok r4); [|apply eh_ret].
  apply eh_do; [unfold bk_class; rewrite E6; split; [exact I | reflexivity]|]. intros r5.
  set (h7 := h6 ++ _).
  assert (E7 : bph h7 = B1 id) by (unfold h7; rewrite bph_snoc, E6; reflexivity).
  destruct (is_ok r5); [|apply eh_ret].
  apply eh_do; [unfold bk_class; rewrite E7; split; exact I|]. intros r5b.
  destruct r5b as [| | |ds5 fs5|]; try apply eh_ret.
  destruct (existsb (fun p => fpath_eqb (fst p) PLock) fs5) eqn:EL; [apply eh_ret|].
  set (h8 := h7 ++ _).
  assert (E8 : BH id h8).
  { unfold BH, h8. rewrite bph_snoc, E7. cbn [bphase_step]. unfold has_lock. rewrite EL. reflexivity. }
  apply eh_do; [apply (BH_class_read id); [exact E8 | exact I]|]. intros r6.
  destruct r6 as [| | |ds3 fs3|]; try apply eh_ret.
  apply (list_blocks_eh id); [apply BH_snoc; [exact E8 | reflexivity] | intros y [] |].
  intros o h' Hh' Ho. destruct o as [ex|]; [|apply eh_ret].
  apply (merge_loop_eh pre id). unfold BW. cbn. repeat split; auto; intros y [].
Qed.



(* ------------------------------------------------------------------------- *)
(** * 4. The collector: ghost phase, what it has read, its class              *)
(* ------------------------------------------------------------------------- *)

(* G0: nothing yet; Gs l: root listed, newest band l; Gt last: the newest band has a non-empty
   tail (or there is no band); GL1: GC_LOCK written; GL2 last ds2: the root listed again (the
   bands to keep are taken from ds2); GA: the final check passed; GD: lock released *)
Inductive gphase :=
| G0 | Gs (l : N) | Gt (last : option N) | GL1 (last : option N)
| GL2 (last : option N) (ds2 : list dpath) | GA (last : option N) | GD.

Definition gstep (ph : gphase) (x : op * reply) : gphase :=
  match ph, x with
  | G0, (OpList DRoot, RList ds _) =>
      match max_id (band_ids ds) with Some l => Gs l | None => Gt None end
  | Gs l, (OpMeta (PTail l'), RMeta true) => if N.eqb l' l then Gt (Some l) else Gs l
  | Gt last, (OpWrite PLock _ _, ROk) => GL1 last
  | GL1 last, (OpList DRoot, RList ds _) => GL2 last ds
  | GL1 _, (OpRemoveFile PLock, _) => GD
  | GL2 last ds2, (OpList DRoot, RList ds3 _) =>
      if optid_eqb (max_id (band_ids ds3)) last then GA last else GL2 last ds2
  | GL2 _ _, (OpRemoveFile PLock, _) => GD
  | GA _, (OpRemoveFile PLock, _) => GD
  | _, _ => ph
  end.

Definition gph (h : hist) : gphase := fold_left gstep h G0.
Lemma gph_snoc h x : gph (h ++ [x]) = gstep (gph h) x.
Proof. unfold gph. rewrite fold_left_app. reflexivity. Qed.

(* every hash named by a hunk the collector has read *)
Definition refd_of (x : op * reply) : list bytes :=
  match x with (OpRead (PHunk _ _), RData (Good (PlHunk es))) => names es | _ => [] end.
Definition refd (h : hist) : list bytes := flat_map refd_of h.
Lemma refd_snoc h x : refd (h ++ [x]) = refd h ++ refd_of x.
Proof. unfold refd. rewrite flat_map_app. cbn [flat_map]. rewrite app_nil_r. reflexivity. Qed.

(* reading completeness, as recorded in the collector's own history *)
Definition rd_ok (h : hist) (b n : N) : Prop :=
  exists es, In (OpRead (PHunk b n), RData (Good (PlHunk es))) h.
Definition sub_ok (h : hist) (b s : N) : Prop :=
  exists dss fss, In (OpList (DHunkSub b s), RList dss fss) h
                  /\ forall n, In n (hunk_numbers fss) -> rd_ok h b n.
Definition band_read (h : hist) (b : N) : Prop :=
  exists dsI fsI, In (OpList (DIndex b), RList dsI fsI) h
                  /\ forall s, In s (subdir_numbers dsI) -> sub_ok h b s.
Definition Complete (ids : list N) (h : hist) (ds2 : list dpath) : Prop :=
  forall b, In b (band_ids ds2) -> ~ In b ids -> band_read h b.

(* the operations that read inside a band *)
Definition band_read_op (o : op) : bool :=
  match o with
  | OpRead (PHunk _ _) | OpList (DIndex _) | OpList (DHunkSub _ _) => true
  | _ => false
  end.

Definition in_GL2 (h : hist) : Prop := exists last ds2, gph h = GL2 last ds2.
Definition in_GA (h : hist) : Prop := exists last, gph h = GA last.

(* what the collector may emit, given its own trace so far *)
Definition gc_class (ids : list N) (h : hist) (o : op) : Prop :=
  (band_read_op o = true -> in_GL2 h) /\
  match o with
  | OpList DRoot => forall last ds2, gph h = GL2 last ds2 -> Complete ids h ds2
  | OpRead _ | OpList _ | OpMeta _ => True
  | OpWrite PLock PlJson CreateNew => True
  | OpRemoveFile PLock => True
  | OpRemoveDirAll (DBand b) => In b ids /\ in_GA h
  | OpRemoveFile (PBlock c) =>
      in_GA h /\ ~ In c (refd h) /\ forall b, In b ids -> In (OpRemoveDirAll (DBand b), ROk) h
  | _ => False
  end.

Section GcShape.
  Variable ids : list N.
  Notation C := (gc_class ids).

  (* operations that change neither the phase (from GL2 / GA on) nor [refd] *)
  Definition quiet (o : op) : Prop :=
    match o with
    | OpList DRoot => False
    | OpRead (PHunk _ _) => False
    | OpRead _ | OpList _ | OpMeta _ => True
    | _ => False
    end.

  Lemma quiet_gph h o r ph : gph h = ph -> quiet o ->
    match ph with GL2 _ _ | GA _ | GD | GL1 _ => gph (h ++ [(o, r)]) = ph | _ => True end.
  Proof.
    intros E Ho. rewrite gph_snoc, E.
    destruct ph; try exact I; destruct o as [f|f p m|d|d|f|f|d]; cbn in Ho; try contradiction;
      try reflexivity; destruct d; try contradiction; reflexivity.
  Qed.

  Lemma quiet_refd h o r : quiet o -> refd (h ++ [(o, r)]) = refd h.
  Proof.
    intros Ho. rewrite refd_snoc.
    destruct o as [f|f p m|d|d|f|f|d]; cbn in Ho; try contradiction; cbn [refd_of]; try apply app_nil_r.
    destruct f; try contradiction; apply app_nil_r.
  Qed.

  Lemma quiet_class h o : quiet o -> (band_read_op o = true -> in_GL2 h) -> C h o.
  Proof.
    intros Ho Hb. split; [exact Hb|]. destruct o as [f|f p m|d|d|f|f|d]; cbn in Ho; try contradiction; auto.
    destruct d; try contradiction; exact I.
  Qed.

  Lemma release_fail_eh h : emits_h C h release_fail.
  Proof.
    unfold release_fail. constructor; [split; [discriminate | exact I]|]. intros rep. constructor.
  Qed.

  (* the facts carried through the reading phase *)
  Definition RS (last : option N) (ds2 : list dpath) (R : list bytes) (h : hist) : Prop :=
    gph h = GL2 last ds2 /\ incl (refd h) R.

  Lemma RS_quiet last ds2 R h o r : RS last ds2 R h -> quiet o -> RS last ds2 R (h ++ [(o, r)]).
  Proof.
    intros [H1 H2] Ho. split.
    - apply (quiet_gph h o r _ H1 Ho).
    - rewrite quiet_refd by exact Ho. exact H2.
  Qed.

  Lemma RS_GL2 last ds2 R h : RS last ds2 R h -> in_GL2 h.
  Proof. intros [H _]. exists last, ds2. exact H. Qed.

  Definition hsub (h h' : hist) : Prop := incl h h'.
  Lemma hsub_snoc (h : hist) x : hsub h (h ++ [x]).
  Proof. intros y Hy. apply in_or_app. left. exact Hy. Qed.
  Lemma hsub_last (h : hist) x : In x (h ++ [x]).
  Proof. apply in_or_app. right. left. reflexivity. Qed.

  Section Reading.
    Variables (last : option N) (ds2 : list dpath).

    Lemma ref_hunks_eh b hs : forall acc k h,
      RS last ds2 acc h ->
      (forall acc' h', RS last ds2 acc' h' -> hsub h h' -> (forall n, In n hs -> rd_ok h' b n) ->
                       emits_h C h' (k acc')) ->
      emits_h C h (ref_hunks b hs acc k).
    Proof.
      induction hs as [|n hs IH]; intros acc k h HR Hk; cbn [ref_hunks].
      - apply Hk; [exact HR | apply incl_refl | intros n []].
      - constructor; [split; [intros _; eapply RS_GL2; eauto | exact I]|]. intros rep.
        destruct rep as [| |[[| | |es|]| |]| |]; try apply release_fail_eh.
        set (h1 := h ++ _).
        apply IH.
        + destruct HR as [H1 H2]. split.
          * unfold h1. rewrite gph_snoc, H1. reflexivity.
          * unfold h1. rewrite refd_snoc. cbn [refd_of]. apply incl_app; [apply incl_appl; exact H2 | apply incl_appr, incl_refl].
        + intros acc' h' HR' Hs Hall. apply Hk; [exact HR' | eapply incl_tran; [apply hsub_snoc | exact Hs] |].
          intros m [<-|Hm]; [|apply Hall, Hm].
          exists es. apply Hs. apply hsub_last.
    Qed.

    Lemma ref_subdirs_eh R b subs : forall acc k h,
      RS last ds2 R h ->
      (forall hs h', RS last ds2 R h' -> hsub h h' -> incl acc hs ->
          (forall s, In s subs -> exists dss fss, In (OpList (DHunkSub b s), RList dss fss) h'
                                                   /\ incl (hunk_numbers fss) hs) ->
          emits_h C h' (k hs)) ->
      emits_h C h (ref_subdirs b subs acc k).
    Proof.
      induction subs as [|s subs IH]; intros acc k h HR Hk; cbn [ref_subdirs].
      - apply Hk; [exact HR | apply incl_refl | apply incl_refl | intros s []].
      - constructor; [split; [intros _; eapply RS_GL2; eauto | exact I]|]. intros rep.
        destruct rep as [| | |dss fss|]; try apply release_fail_eh.
        set (h1 := h ++ _).
        apply IH; [apply RS_quiet; [exact HR | exact I]|].
        intros hs h' HR' Hs Hacc Hall.
        apply Hk; [exact HR' | eapply incl_tran; [apply hsub_snoc | exact Hs] | |].
        + eapply incl_tran; [apply incl_appl, incl_refl | exact Hacc].
        + intros s' [<-|Hs']; [|apply Hall, Hs'].
          exists dss, fss. split; [apply Hs, hsub_last|].
          eapply incl_tran; [apply incl_appr, incl_refl | exact Hacc].
    Qed.

    Lemma rd_ok_mono h h' b n : hsub h h' -> rd_ok h b n -> rd_ok h' b n.
    Proof. intros Hs [es H]. exists es. apply Hs, H. Qed.
    Lemma sub_ok_mono h h' b s : hsub h h' -> sub_ok h b s -> sub_ok h' b s.
    Proof.
      intros Hs (dss & fss & H1 & H2). exists dss, fss. split; [apply Hs, H1|].
      intros n Hn. eapply rd_ok_mono; eauto.
    Qed.
    Lemma band_read_mono h h' b : hsub h h' -> band_read h b -> band_read h' b.
    Proof.
      intros Hs (dsI & fsI & H1 & H2). exists dsI, fsI. split; [apply Hs, H1|].
      intros s Hs'. eapply sub_ok_mono; eauto.
    Qed.

    Lemma ref_bands_eh bands : forall acc k h,
      RS last ds2 acc h ->
      (forall acc' h', RS last ds2 acc' h' -> hsub h h' -> (forall b, In b bands -> band_read h' b) ->
                       emits_h C h' (k acc')) ->
      emits_h C h (ref_bands bands acc k).
    Proof.
      induction bands as [|b bands IH]; intros acc k h HR Hk; cbn [ref_bands].
      - apply Hk; [exact HR | apply incl_refl | intros b []].
      - constructor; [split; [discriminate | exact I]|]. intros rep.
        assert (HR1 : RS last ds2 acc (h ++ [(OpRead (PHead b), rep)])) by (apply RS_quiet; [exact HR | exact I]).
        destruct (head_status rep); [|apply release_fail_eh|constructor].
        constructor; [split; [intros _; eapply RS_GL2; eauto | exact I]|]. intros rep2.
        destruct rep2 as [| | |dsI fsI|]; try apply release_fail_eh.
        set (h2 := (h ++ _) ++ _).
        assert (HR2 : RS last ds2 acc h2) by (apply RS_quiet; [exact HR1 | exact I]).
        apply (ref_subdirs_eh acc); [exact HR2|].
        intros hs h3 HR3 Hs3 _ Hsubs.
        apply ref_hunks_eh; [exact HR3|].
        intros acc4 h4 HR4 Hs4 Hrd.
        apply IH; [exact HR4|].
        intros acc5 h5 HR5 Hs5 Hbands.
        assert (H25 : hsub h2 h5) by (eapply incl_tran; [exact Hs3|]; eapply incl_tran; [exact Hs4 | exact Hs5]).
        apply Hk; [exact HR5 | |].
        + eapply incl_tran; [|exact H25]. eapply incl_tran; apply hsub_snoc.
        + intros b' [<-|Hb']; [|apply Hbands, Hb'].
          exists dsI, fsI. split; [apply H25, hsub_last|].
          intros s Hs. destruct (Hsubs s Hs) as (dss & fss & Hin & Hincl).
          exists dss, fss. split; [apply Hs5, Hs4, Hin|].
          intros n Hn. eapply rd_ok_mono; [exact Hs5|]. apply Hrd, Hincl, Hn.
    Qed.

    (* facts that only need the history to grow *)
    Variable X : hist -> Prop.
    Hypothesis Xmono : forall h x, X h -> X (h ++ [x]).

    Lemma list_blocks_d_eh R subs : forall acc failed k h,
      RS last ds2 R h -> X h ->
      (forall l h', RS last ds2 R h' -> X h' -> emits_h C h' (k l)) ->
      emits_h C h (list_blocks_d subs acc failed k).
    Proof.
      induction subs as [|s subs IH]; intros acc failed k h HR HX Hk; cbn [list_blocks_d].
      - destruct failed; [apply release_fail_eh | apply Hk; assumption].
      - constructor; [split; [discriminate | exact I]|]. intros rep.
        assert (HR1 : RS last ds2 R (h ++ [(OpList (DBlockSub s), rep)])) by (apply RS_quiet; [exact HR | exact I]).
        destruct rep; apply IH; auto.
    Qed.

    Lemma measure_eh R l : forall k h,
      RS last ds2 R h -> X h ->
      (forall h', RS last ds2 R h' -> X h' -> emits_h C h' k) ->
      emits_h C h (measure l k).
    Proof.
      induction l as [|c l IH]; intros k h HR HX Hk; cbn [measure].
      - apply Hk; assumption.
      - constructor; [split; [discriminate | exact I]|]. intros rep.
        assert (HR1 : RS last ds2 R (h ++ [(OpMeta (PBlock c), rep)])) by (apply RS_quiet; [exact HR | exact I]).
        destruct rep; try apply release_fail_eh. apply IH; auto.
    Qed.
  End Reading.

  (* the deleting phase *)
  Definition AS (R : list bytes) (h : hist) : Prop := in_GA h /\ incl (refd h) R.

  Definition removal (o : op) : Prop :=
    match o with OpRemoveDirAll _ | OpRemoveFile (PBlock _) => True | _ => False end.

  Lemma AS_removal R h o r : AS R h -> removal o -> AS R (h ++ [(o, r)]).
  Proof.
    intros [[last H1] H2] Ho. split.
    - exists last. rewrite gph_snoc, H1.
      destruct o as [f|f p m|d|d|f|f|d]; cbn in Ho; try contradiction; [|reflexivity].
      destruct f; try contradiction; reflexivity.
    - rewrite refd_snoc.
      destruct o as [f|f p m|d|d|f|f|d]; cbn in Ho; try contradiction; cbn [refd_of]; rewrite app_nil_r; exact H2.
  Qed.

  Definition removed (h : hist) (b : N) : Prop := In (OpRemoveDirAll (DBand b), ROk) h.

  Lemma delete_the_bands_eh R rest : forall n k h,
    AS R h -> (forall b, In b rest -> In b ids) ->
    (forall b, In b ids -> removed h b \/ In b rest) ->
    (forall n' h', AS R h' -> (forall b, In b ids -> removed h' b) -> emits_h C h' (k n')) ->
    emits_h C h (delete_the_bands rest n k).
  Proof.
    induction rest as [|b rest IH]; intros n k h HA Hin Hdone Hk; cbn [delete_the_bands].
    - apply Hk; [exact HA|]. intros b Hb. destruct (Hdone b Hb) as [H|[]]. exact H.
    - constructor.
      + split; [discriminate|]. split; [apply Hin; left; reflexivity | apply HA].
      + intros rep. destruct rep; try apply release_fail_eh.
        apply IH.
        * apply AS_removal; [exact HA | exact I].
        * intros b' Hb'. apply Hin. right. exact Hb'.
        * intros b' Hb'. destruct (Hdone b' Hb') as [H|[<-|H]].
          -- left. apply hsub_snoc. exact H.
          -- left. apply hsub_last.
          -- right. exact H.
        * exact Hk.
  Qed.

  Lemma delete_blocks_eh R l : forall errs k h,
    AS R h -> (forall c, In c l -> ~ In c R) -> (forall b, In b ids -> removed h b) ->
    (forall e h', emits_h C h' (k e)) ->
    emits_h C h (delete_blocks l errs k).
  Proof.
    induction l as [|c l IH]; intros errs k h HA Hl Hrm Hk; cbn [delete_blocks].
    - apply Hk.
    - constructor.
      + split; [discriminate|]. split; [apply HA|]. split; [|exact Hrm].
        intros Hc. apply (Hl c); [left; reflexivity|]. apply HA. exact Hc.
      + intros rep. apply IH.
        * apply AS_removal; [exact HA | exact I].
        * intros c' Hc'. apply Hl. right. exact Hc'.
        * intros b Hb. apply hsub_snoc, Hrm, Hb.
        * exact Hk.
  Qed.

  Lemma mem_bytes_false c l : mem_bytes c l = false -> ~ In c l.
  Proof.
    unfold mem_bytes. intros H Hin.
    assert (E : existsb (str_eqb c) l = true).
    { apply existsb_exists. exists c. split; [exact Hin | apply str_eqb_refl]. }
    congruence.
  Qed.

  Lemma order_by_In hint s c : In c (order_by hint s) -> In c s.
  Proof.
    unfold order_by. intros H. apply in_app_or in H. destruct H as [H|H]; apply filter_In in H.
    - destruct H as [_ H]. unfold mem_bytes in H. apply existsb_exists in H.
      destruct H as [x [Hx E]]. apply str_eqb_eq in E. subst. exact Hx.
    - apply H.
  Qed.

  Lemma finish_eh h (nun nb errs : N) (did : bool) :
    emits_h C h
      (Do (OpRemoveFile PLock) (fun r5 =>
         match r5 with
         | ROk => Ret {| d_ok := true; d_unref := nun; d_bands := nb;
                         d_blocks := if did then nun - errs else 0; d_errs := errs |}
         | _ => release_fail
         end)).
  Proof.
    constructor; [split; [discriminate | exact I]|]. intros rep.
    destruct rep; try apply release_fail_eh. constructor.
  Qed.

  Theorem delete_class : forall hint, emits_h C [] (delete_prog ids false false hint).
  Proof.
    intros hint. unfold delete_prog, acquire.
    assert (Q0 : forall h o, (band_read_op o = false) -> quiet o -> C h o).
    { intros h o Hb Ho. apply quiet_class; [exact Ho|]. rewrite Hb. discriminate. }
    apply eh_do; [apply Q0; [reflexivity | exact I]|]. intros r0.
    destruct r0 as [| |[[| | | |]| |]| |]; try apply eh_ret.
    apply eh_do.
    { split; [discriminate|]. intros last ds2 E. discriminate E. }
    intros r. destruct r as [| | |ds fs|]; try apply eh_ret.
    set (h2 := ([] ++ _) ++ _).
    set (last := max_id (band_ids ds)).
    (* from the lock examination on *)
    assert (Hlock : forall h, gph h = Gt last -> refd h = [] ->
      emits_h C h
        (Do (OpMeta PLock) (fun r2 =>
           match r2 with
           | RErr ENotFound =>
               Do (OpWrite PLock PlJson CreateNew) (fun r3 => if is_ok r3 then
                 Do (OpList DRoot) (fun r =>
                   match r with
                   | RList ds _ =>
                       let keep := filter (fun b => negb (mem_N b ids)) (sorted_N (band_ids ds)) in
                       ref_bands keep [] (fun referenced =>
                         Do (OpList DBlocks) (fun r2 =>
                           match r2 with
                           | RList ds2 _ =>
                               list_blocks_d (block_subdirs ds2) [] false (fun present =>
                                 let unref := order_by hint (filter (fun c => negb (mem_bytes c referenced)) (dedup present)) in
                                 let nun := N.of_nat (length unref) in
                                 measure unref (
                                   let finish (nb : N) (errs : N) (did : bool) :=
                                     Do (OpRemoveFile PLock) (fun r5 =>
                                       match r5 with
                                       | ROk => Ret {| d_ok := true; d_unref := nun; d_bands := nb;
                                                       d_blocks := if did then nun - errs else 0; d_errs := errs |}
                                       | _ => release_fail
                                       end) in
                                   if false then finish 0 0 false
                                   else
                                     Do (OpList DRoot) (fun r3 =>
                                       match r3 with
                                       | RList ds3 _ =>
                                           if optid_eqb (max_id (band_ids ds3)) last then
                                             delete_the_bands ids 0 (fun nb =>
                                               delete_blocks unref 0 (fun errs => finish nb errs true))
                                           else release_fail
                                       | _ => release_fail
                                       end)))
                           | _ => release_fail
                           end))
                   | _ => release_fail
                   end)
               else Ret dfail)
           | _ => Ret dfail
           end))).
    { intros h Eh Rh.
      apply eh_do; [apply Q0; [reflexivity | exact I]|]. intros r2.
      destruct r2 as [|[| | |]| | |]; try apply eh_ret.
      set (h3 := h ++ _).
      assert (E3 : gph h3 = Gt last) by (unfold h3; rewrite gph_snoc, Eh; reflexivity).
      apply eh_do; [split; [discriminate | exact I]|]. intros r3.
      destruct (is_ok r3) eqn:E; [|apply eh_ret]. apply is_ok_ROk in E. subst r3.
      set (h4 := h3 ++ _).
      assert (E4 : gph h4 = GL1 last) by (unfold h4; rewrite gph_snoc, E3; reflexivity).
      apply eh_do.
      { split; [discriminate|]. intros l d E'. rewrite E4 in E'. discriminate E'. }
      intros r4. destruct r4 as [| | |dsk fsk|]; try apply release_fail_eh.
      set (h5 := h4 ++ _).
      assert (E5 : RS last dsk [] h5).
      { split; [unfold h5; rewrite gph_snoc, E4; reflexivity|].
        unfold h5, h4, h3. rewrite !refd_snoc, Rh. cbn. intros y []. }
      cbv zeta.
      apply ref_bands_eh with (last := last) (ds2 := dsk); [exact E5|].
      intros referenced h6 HR6 _ Hbands.
      assert (HC6 : Complete ids h6 dsk).
      { intros b Hb Hnb. apply Hbands. apply filter_In. split.
        - unfold sorted_N. apply in_isort. exact Hb.
        - unfold mem_N. destruct (existsb (N.eqb b) ids) eqn:Ex; [|reflexivity].
          exfalso. apply Hnb. apply existsb_exists in Ex. destruct Ex as [x [Hx E']].
          apply N.eqb_eq in E'. subst. exact Hx. }
      constructor; [split; [discriminate | exact I]|]. intros r6.
      assert (HR7 : RS last dsk referenced (h6 ++ [(OpList DBlocks, r6)])) by (apply RS_quiet; [exact HR6 | exact I]).
      destruct r6 as [| | |ds6 fs6|]; try apply release_fail_eh.
      pose (X := fun h' : hist => Complete ids h' dsk).
      assert (Xmono : forall h' x, X h' -> X (h' ++ [x])).
      { intros h' x HX b Hb Hnb. eapply band_read_mono; [apply hsub_snoc | apply HX; assumption]. }
      apply list_blocks_d_eh with (last := last) (ds2 := dsk) (X := X) (R := referenced);
        [exact Xmono | exact HR7 | apply Xmono; exact HC6 |].
      intros present h8 HR8 HX8.
      apply measure_eh with (last := last) (ds2 := dsk) (X := X) (R := referenced);
        [exact Xmono | exact HR8 | exact HX8 |].
      intros h9 HR9 HX9.
      constructor.
      { split; [discriminate|]. intros l d E'. destruct HR9 as [E9 _]. rewrite E9 in E'.
        inversion E'; subst. exact HX9. }
      intros r9. destruct r9 as [| | |ds9 fs9|]; try apply release_fail_eh.
      destruct (optid_eqb (max_id (band_ids ds9)) last) eqn:Echk; [|apply release_fail_eh].
      set (h10 := h9 ++ _).
      assert (HA10 : AS referenced h10).
      { destruct HR9 as [E9 I9]. split.
        - exists last. unfold h10. rewrite gph_snoc, E9. cbn [gstep]. rewrite Echk. reflexivity.
        - unfold h10. rewrite refd_snoc. cbn [refd_of]. rewrite app_nil_r. exact I9. }
      apply delete_the_bands_eh with (R := referenced); [exact HA10 | auto | auto |].
      intros nb h11 HA11 Hrm11.
      apply delete_blocks_eh with (R := referenced); [exact HA11 | | exact Hrm11 |].
      - intros c Hc. apply order_by_In in Hc. apply filter_In in Hc. destruct Hc as [_ Hc].
        apply mem_bytes_false. destruct (mem_bytes c referenced); [discriminate | reflexivity].
      - intros e h'. exact (finish_eh h' _ nb e true). }
    cbv zeta. fold last.
    destruct last as [l|] eqn:El.
    - assert (E2 : gph h2 = Gs l).
      { unfold h2. rewrite gph_snoc. cbn. fold last. rewrite El. reflexivity. }
      apply eh_do; [apply Q0; [reflexivity | exact I]|]. intros r1.
      destruct r1 as [| | | |[|]]; try apply eh_ret.
      apply Hlock; [rewrite gph_snoc, E2; cbn [gstep]; rewrite N.eqb_refl; reflexivity|].
      rewrite refd_snoc. reflexivity.
    - apply Hlock; [unfold h2; rewrite gph_snoc; cbn; fold last; rewrite El; reflexivity | reflexivity].
  Qed.
End GcShape.



(* ------------------------------------------------------------------------- *)
(** * 5. Effects of single operations                                         *)
(* ------------------------------------------------------------------------- *)

Lemma fpath_eqb_refl' f : fpath_eqb f f = true.
Proof. destruct (fpath_eqb_spec f f); congruence. Qed.
Lemma dpath_eqb_refl' d : dpath_eqb d d = true.
Proof. destruct (dpath_eqb_spec d d); congruence. Qed.

Lemma lookup_filter (Q : fpath -> bool) l g :
  lookup g (filter (fun p => Q (fst p)) l) = if Q g then lookup g l else None.
Proof.
  induction l as [|[h d] l IH]; cbn [filter lookup fst].
  - destruct (Q g); reflexivity.
  - destruct (Q h) eqn:Eh; cbn [lookup]; destruct (fpath_eqb_spec g h) as [->|Ne]; rewrite ?IH, ?Eh; reflexivity.
Qed.

Lemma existsb_filter_d (Q : dpath -> bool) l x :
  existsb (dpath_eqb x) (filter Q l) = Q x && existsb (dpath_eqb x) l.
Proof.
  induction l as [|y l IH]; cbn [filter existsb]; [rewrite andb_false_r; reflexivity|].
  destruct (Q y) eqn:Ey; cbn [existsb]; rewrite IH; destruct (dpath_eqb_spec x y) as [->|Ne]; cbn [orb].
  - rewrite Ey. reflexivity.
  - reflexivity.
  - rewrite Ey. reflexivity.
  - reflexivity.
Qed.

Lemma lookup_In_nd f x l : NoDup (map fst l) -> In (f, x) l -> lookup f l = Some x.
Proof.
  induction l as [|[g d] l IH]; cbn [map fst lookup]; [intros _ []|].
  intros Hnd [E|Hin]; inversion Hnd as [|? ? Hni Hnd']; subst.
  - inversion E; subst. rewrite fpath_eqb_refl'. reflexivity.
  - destruct (fpath_eqb_spec f g) as [->|Ne]; [|apply IH; assumption].
    exfalso. apply Hni. apply in_map_iff. exists (g, x). split; [reflexivity | exact Hin].
Qed.

Lemma set_file_keys' f c l :
  map fst (set_file f c l) = if existsb (fpath_eqb f) (map fst l) then map fst l else map fst l ++ [f].
Proof.
  induction l as [|[g d] l IH]; cbn [set_file map fst existsb]; [reflexivity|].
  destruct (fpath_eqb_spec f g) as [->|Ne]; cbn [orb map fst]; [reflexivity|].
  rewrite IH. destruct (existsb (fpath_eqb f) (map fst l)); reflexivity.
Qed.

Lemma nodup_snoc {A} (l : list A) x : NoDup l -> ~ In x l -> NoDup (l ++ [x]).
Proof.
  induction l as [|y l IH]; cbn [app]; intros Hnd Hx; [constructor; [intros []|constructor]|].
  inversion Hnd as [|? ? Hy Hnd']; subst. constructor.
  - intros Hin. apply in_app_or in Hin. destruct Hin as [Hin|[E|[]]]; [auto|]. subst. apply Hx. left. reflexivity.
  - apply IH; [exact Hnd'|]. intros Hin. apply Hx. right. exact Hin.
Qed.

Lemma nodup_filter_fst (Q : fpath * fcontent -> bool) l : NoDup (map fst l) -> NoDup (map fst (filter Q l)).
Proof.
  induction l as [|y l IH]; cbn [filter map]; [auto|].
  intros Hnd. inversion Hnd as [|? ? Hy Hnd']; subst.
  destruct (Q y); [|auto]. cbn [map]. constructor; [|auto].
  intros Hin. apply Hy. apply in_map_iff in Hin. destruct Hin as [z [E Hz]].
  apply filter_In in Hz. apply in_map_iff. exists z. split; [exact E | apply Hz].
Qed.

Lemma set_file_nd f c l : NoDup (map fst l) -> NoDup (map fst (set_file f c l)).
Proof.
  intros H. rewrite set_file_keys'. destruct (existsb (fpath_eqb f) (map fst l)) eqn:E; [exact H|].
  apply nodup_snoc; [exact H|]. intros Hin.
  assert (X : existsb (fpath_eqb f) (map fst l) = true).
  { apply existsb_exists. exists f. split; [exact Hin | apply fpath_eqb_refl']. }
  congruence.
Qed.

Lemma reply_ROk_dec (r : reply) : {r = ROk} + {r <> ROk}.
Proof. destruct r; [left; reflexivity | right; discriminate ..]. Qed.

Section ExecFacts.
  Variable pre : bytes -> N.
  Notation ex := (fun a o => exec pre a o NoFault).

  Lemma has_dir_snoc (a : arch) d x fl :
    has_dir {| dirs := dirs a ++ [d]; files := fl |} x = has_dir a x || dpath_eqb x d.
  Proof. unfold has_dir. cbn [dirs]. rewrite existsb_app. cbn [existsb]. rewrite orb_false_r. reflexivity. Qed.

  (* mkdir: files untouched; the only directory that can appear is [d] *)
  Lemma exec_mkdir a d :
    files (fst (exec pre a (OpMkdir d) NoFault)) = files a
    /\ (forall x, has_dir a x = true -> has_dir (fst (exec pre a (OpMkdir d) NoFault)) x = true)
    /\ (forall x, has_dir (fst (exec pre a (OpMkdir d) NoFault)) x = true ->
                  has_dir a x = true
                  \/ (x = d /\ has_dir a d = false /\ snd (exec pre a (OpMkdir d) NoFault) = ROk
                      /\ forall p, parent_d d = Some p -> has_dir a p = true))
    /\ (snd (exec pre a (OpMkdir d) NoFault) = ROk -> has_dir (fst (exec pre a (OpMkdir d) NoFault)) d = true).
  Proof.
    cbn [exec exec_ok]. destruct (has_dir a d) eqn:Hd; cbn [fst snd]; [auto|].
    assert (Hnew : forall fl, has_dir {| dirs := dirs a ++ [d]; files := fl |} d = true).
    { intros fl. rewrite has_dir_snoc, dpath_eqb_refl'. apply orb_true_r. }
    assert (Hadd : forall fl,
      (forall x, has_dir a x = true -> has_dir {| dirs := dirs a ++ [d]; files := fl |} x = true)
      /\ (forall x, has_dir {| dirs := dirs a ++ [d]; files := fl |} x = true -> has_dir a x = true \/ x = d)).
    { intros fl. split; intros x; rewrite has_dir_snoc; intros H.
      - rewrite H. reflexivity.
      - apply orb_true_iff in H. destruct H as [H|H]; [left; exact H|].
        right. destruct (dpath_eqb_spec x d); congruence. }
    destruct (parent_d d) as [p|] eqn:Ep.
    - destruct (has_dir a p) eqn:Hp; cbn [fst snd files].
      2:{ split; [reflexivity|]. split; [auto|]. split; [auto | discriminate]. }
      split; [reflexivity|]. split; [apply Hadd|]. split; [|intros _; apply Hnew].
      intros x Hx. destruct (proj2 (Hadd (files a)) x Hx) as [H| ->]; [left; exact H|].
      right. repeat split; auto. intros p' E. inversion E; subst. exact Hp.
    - cbn [fst snd files]. split; [reflexivity|]. split; [apply Hadd|]. split; [|intros _; apply Hnew].
      intros x Hx. destruct (proj2 (Hadd (files a)) x Hx) as [H| ->]; [left; exact H|].
      right. repeat split; auto. intros p' E. discriminate E.
  Qed.

  (* create-new write: directories untouched; only [f] can change, and only to [Good p] *)
  Lemma exec_write a f p :
    dirs (fst (exec pre a (OpWrite f p CreateNew) NoFault)) = dirs a
    /\ (forall g, g <> f -> get (fst (exec pre a (OpWrite f p CreateNew) NoFault)) g = get a g)
    /\ (snd (exec pre a (OpWrite f p CreateNew) NoFault) = ROk ->
         get (fst (exec pre a (OpWrite f p CreateNew) NoFault)) f = Some (Good p)
         /\ has_dir a (parent_f pre f) = true /\ (get a f = None \/ get a f = Some Empty))
    /\ (snd (exec pre a (OpWrite f p CreateNew) NoFault) <> ROk ->
         fst (exec pre a (OpWrite f p CreateNew) NoFault) = a)
    /\ (FilesND a -> FilesND (fst (exec pre a (OpWrite f p CreateNew) NoFault))).
  Proof.
    assert (Hfail : forall k (X : Prop),
      dirs a = dirs a /\ (forall g, g <> f -> get a g = get a g)
      /\ (RErr k = ROk -> get a f = Some (Good p) /\ X /\ (get a f = None \/ get a f = Some Empty))
      /\ (RErr k <> ROk -> a = a) /\ (FilesND a -> FilesND a)).
    { intros k X. split; [reflexivity|]. split; [reflexivity|]. split; [discriminate|]. split; [reflexivity | auto]. }
    cbn [exec exec_ok]. destruct (has_dir a (parent_f pre f)) eqn:Hd; [|apply (Hfail ENotFound)].
    assert (Hset : let a' := {| dirs := dirs a; files := set_file f (Good p) (files a) |} in
              dirs a' = dirs a /\ (forall g, g <> f -> get a' g = get a g)
              /\ get a' f = Some (Good p) /\ (FilesND a -> FilesND a')).
    { cbn zeta. split; [reflexivity|]. unfold get, FilesND. cbn [files]. split; [|split].
      - intros g Hg. rewrite lookup_set_file. destruct (fpath_eqb_spec g f); [contradiction | reflexivity].
      - rewrite lookup_set_file, fpath_eqb_refl'. reflexivity.
      - apply set_file_nd. }
    destruct Hset as (S1 & S2 & S3 & S4).
    assert (Hok : (get a f = None \/ get a f = Some Empty) ->
      let a' := {| dirs := dirs a; files := set_file f (Good p) (files a) |} in
      dirs a' = dirs a /\ (forall g, g <> f -> get a' g = get a g)
      /\ (ROk = ROk -> get a' f = Some (Good p) /\ true = true /\ (get a f = None \/ get a f = Some Empty))
      /\ (ROk <> ROk -> a' = a) /\ (FilesND a -> FilesND a')).
    { intros Hg. cbn zeta. split; [exact S1|]. split; [exact S2|]. split; [auto|].
      split; [intros H; exfalso; apply H; reflexivity | exact S4]. }
    destruct (get a f) as [[q| |]|] eqn:G; cbn [fst snd]; try rewrite G.
    - apply (Hfail EAlreadyExists).
    - apply Hok. right. reflexivity.
    - apply (Hfail EAlreadyExists).
    - apply Hok. left. reflexivity.
  Qed.

  Lemma exec_rmfile a f :
    dirs (fst (exec pre a (OpRemoveFile f) NoFault)) = dirs a
    /\ (forall g, get (fst (exec pre a (OpRemoveFile f) NoFault)) g = if fpath_eqb g f then None else get a g)
    /\ (FilesND a -> FilesND (fst (exec pre a (OpRemoveFile f) NoFault))).
  Proof.
    cbn [exec exec_ok]. destruct (get a f) eqn:G; cbn [fst snd].
    - split; [reflexivity|]. split.
      + intros g. unfold get. cbn [files]. apply lookup_remove_file.
      + unfold FilesND. cbn [files]. unfold remove_file. apply nodup_filter_fst.
    - split; [reflexivity|]. split; [|auto].
      intros g. destruct (fpath_eqb_spec g f) as [->|]; [exact G | reflexivity].
  Qed.

  Lemma dir_under_band b x :
    dir_under (DBand b) x = match x with DBand b' | DIndex b' | DHunkSub b' _ => N.eqb b b' | _ => false end.
  Proof. destruct x; unfold dir_under; cbn [parent_d dpath_eqb]; rewrite ?orb_false_r; reflexivity. Qed.

  Lemma file_under_band b f :
    file_under pre (DBand b) f = match f with PHead b' | PTail b' | PHunk b' _ => N.eqb b b' | _ => false end.
  Proof. unfold file_under. rewrite dir_under_band. destruct f; reflexivity. Qed.

  Definition in_band (b : N) (f : fpath) : bool :=
    match f with PHead b' | PTail b' | PHunk b' _ => N.eqb b b' | _ => false end.
  Definition dir_in_band (b : N) (x : dpath) : bool :=
    match x with DBand b' | DIndex b' | DHunkSub b' _ => N.eqb b b' | _ => false end.

  Lemma exec_rmband a b :
    (snd (exec pre a (OpRemoveDirAll (DBand b)) NoFault) <> ROk -> fst (exec pre a (OpRemoveDirAll (DBand b)) NoFault) = a)
    /\ (snd (exec pre a (OpRemoveDirAll (DBand b)) NoFault) = ROk ->
         (forall x, has_dir (fst (exec pre a (OpRemoveDirAll (DBand b)) NoFault)) x = negb (dir_in_band b x) && has_dir a x)
         /\ (forall g, get (fst (exec pre a (OpRemoveDirAll (DBand b)) NoFault)) g = if in_band b g then None else get a g))
    /\ (FilesND a -> FilesND (fst (exec pre a (OpRemoveDirAll (DBand b)) NoFault))).
  Proof.
    cbn [exec exec_ok]. destruct (has_dir a (DBand b)) eqn:Hd; cbn [fst snd].
    - split; [intros H; exfalso; apply H; reflexivity|]. split.
      + intros _. split.
        * intros x. unfold has_dir. cbn [dirs]. rewrite existsb_filter_d, dir_under_band. reflexivity.
        * intros g. unfold get. cbn [files].
          rewrite (lookup_filter (fun f => negb (file_under pre (DBand b) f))), file_under_band.
          unfold in_band. destruct g; cbn [negb]; try reflexivity; destruct (N.eqb b _); reflexivity.
      + unfold FilesND. cbn [files]. apply nodup_filter_fst.
    - split; [reflexivity|]. split; [discriminate | auto].
  Qed.

  (* ---- truthful listings ---- *)
  Lemma in_children_dirs (a : arch) d x :
    In x (children_dirs a d) <-> has_dir a x = true /\ parent_d x = Some d.
  Proof.
    unfold children_dirs. rewrite filter_In, has_dir_In. split; intros [H1 H2]; split; auto.
    - destruct (parent_d x) as [p|]; [|discriminate]. destruct (dpath_eqb_spec p d); congruence.
    - rewrite H2. apply dpath_eqb_refl'.
  Qed.

  Lemma in_children_files (a : arch) d f x :
    get a f = Some x -> parent_f pre f = d -> In (f, nonempty x) (children_files pre a d).
  Proof.
    intros G E. unfold children_files. apply in_map_iff.
    destruct (lookup_Some_In _ _ _ G) as [g [Hin [-> _]]].
    exists (g, x). split; [reflexivity|]. apply filter_In. split; [exact Hin|]. cbn [fst].
    rewrite E. apply dpath_eqb_refl'.
  Qed.

  Lemma children_files_get (a : arch) d f bl :
    FilesND a -> In (f, bl) (children_files pre a d) -> exists x, get a f = Some x /\ nonempty x = bl.
  Proof.
    intros Hnd Hin. unfold children_files in Hin. apply in_map_iff in Hin.
    destruct Hin as [[g x] [E Hin]]. cbn [fst snd] in E. inversion E; subst.
    apply filter_In in Hin. destruct Hin as [Hin _].
    exists x. split; [|reflexivity]. apply lookup_In_nd; assumption.
  Qed.

  Lemma exec_list a d ds fs :
    snd (exec pre a (OpList d) NoFault) = RList ds fs ->
    has_dir a d = true /\ ds = children_dirs a d /\ fs = children_files pre a d.
  Proof.
    cbn [exec exec_ok]. destruct (has_dir a d); cbn [snd]; intros E; inversion E; auto.
  Qed.

  Lemma exec_reads_state a o : reads_only o -> fst (exec pre a o NoFault) = a.
  Proof. apply exec_read_same. Qed.

  Lemma band_ids_In' ds b : In b (band_ids ds) <-> In (DBand b) ds.
  Proof.
    unfold band_ids. rewrite in_flat_map. split.
    - intros [d [Hd Hb]]. destruct d; try contradiction. destruct Hb as [<-|[]]. exact Hd.
    - intros H. exists (DBand b). split; [exact H | left; reflexivity].
  Qed.

  Lemma max_id_spec l : match max_id l with
                        | Some m => In m l /\ forall x, In x l -> x <= m
                        | None => l = []
                        end.
  Proof.
    destruct l as [|x l]; cbn [max_id]; [reflexivity|].
    split.
    - clear. revert x. induction l as [|y l IH]; intros x; cbn [fold_left]; [left; reflexivity|].
      destruct (IH (N.max x y)) as [E|H]; [|right; right; exact H].
      rewrite <- E. destruct (N.max_spec x y) as [[_ M]|[_ M]]; rewrite M; [right; left | left]; reflexivity.
    - intros y Hy. destruct (fold_max_ge l x) as [H1 H2]. destruct Hy as [<-|Hy]; auto.
  Qed.

  Lemma has_lock_listed (a : arch) x :
    get a PLock = Some x -> has_lock (children_files pre a DRoot) = true.
  Proof.
    intros G. unfold has_lock. apply existsb_exists. exists (PLock, nonempty x).
    split; [apply in_children_files; [exact G | reflexivity] | reflexivity].
  Qed.

  Lemma listed_blocks_In fs c : In c (listed_blocks fs) <-> In (PBlock c, true) fs.
  Proof.
    unfold listed_blocks. rewrite in_flat_map. split.
    - intros [[f bl] [Hin Hc]]. destruct f; try contradiction. destruct bl; try contradiction.
      destruct Hc as [<-|[]]. exact Hin.
    - intros H. exists (PBlock c, true). split; [exact H | left; reflexivity].
  Qed.

  (* ---- well-formedness is kept by every operation of the two actors ---- *)
  Lemma WF_mkdir a d : WF pre a -> WF pre (fst (exec pre a (OpMkdir d) NoFault)).
  Proof.
    intros (W1 & W2 & W3). destruct (exec_mkdir a d) as (E1 & E2 & E3 & _).
    split; [unfold FilesND; rewrite E1; exact W1|]. split.
    - intros f x G. apply E2. apply (W2 f x). unfold get in *. rewrite E1 in G. exact G.
    - intros x p Hx Ep. destruct (E3 x Hx) as [H|(-> & _ & _ & Hp)]; apply E2; eauto.
  Qed.

  Lemma WF_write a f p : WF pre a -> WF pre (fst (exec pre a (OpWrite f p CreateNew) NoFault)).
  Proof.
    intros (W1 & W2 & W3). destruct (exec_write a f p) as (E1 & E2 & E3 & E4 & E5).
    assert (HD : forall x, has_dir (fst (exec pre a (OpWrite f p CreateNew) NoFault)) x = has_dir a x)
      by (intros x; unfold has_dir; rewrite E1; reflexivity).
    split; [auto|]. split.
    - intros g x G. rewrite HD. destruct (fpath_eqb_spec g f) as [->|Ne].
      + destruct (reply_ROk_dec (snd (exec pre a (OpWrite f p CreateNew) NoFault))) as [Ok|Nok].
        * apply E3. exact Ok.
        * rewrite (E4 Nok) in G. eauto.
      + rewrite (E2 g Ne) in G. eauto.
    - intros x q Hx Eq. rewrite HD in *. eauto.
  Qed.

  Lemma WF_rmfile a f : WF pre a -> WF pre (fst (exec pre a (OpRemoveFile f) NoFault)).
  Proof.
    intros (W1 & W2 & W3). destruct (exec_rmfile a f) as (E1 & E2 & E3).
    assert (HD : forall x, has_dir (fst (exec pre a (OpRemoveFile f) NoFault)) x = has_dir a x)
      by (intros x; unfold has_dir; rewrite E1; reflexivity).
    split; [auto|]. split.
    - intros g x G. rewrite HD. rewrite E2 in G. destruct (fpath_eqb g f); [discriminate | eauto].
    - intros x q Hx Eq. rewrite HD in *. eauto.
  Qed.

  Lemma WF_rmband a b : WF pre a -> WF pre (fst (exec pre a (OpRemoveDirAll (DBand b)) NoFault)).
  Proof.
    intros HW. pose proof HW as (W1 & W2 & W3). destruct (exec_rmband a b) as (E1 & E2 & E3).
    destruct (reply_ROk_dec (snd (exec pre a (OpRemoveDirAll (DBand b)) NoFault))) as [Ok|Nok];
      [|rewrite (E1 Nok); exact HW].
    destruct (E2 Ok) as [HD HG]. split; [auto|]. split.
    - intros g x G. rewrite HG in G. destruct (in_band b g) eqn:Eb; [discriminate|].
      rewrite HD. rewrite (W2 g x G), andb_true_r.
      destruct g; cbn [in_band] in Eb; cbn [parent_f dir_in_band]; try reflexivity; rewrite Eb; reflexivity.
    - intros x q Hx Eq. rewrite HD in *. apply andb_true_iff in Hx. destruct Hx as [Hn Hx].
      rewrite (W3 x q Hx Eq), andb_true_r.
      destruct x; cbn in Eq; inversion Eq; subst; cbn [dir_in_band] in *; try reflexivity; exact Hn.
  Qed.
End ExecFacts.



(* ------------------------------------------------------------------------- *)
(** * 6. The interlock invariant                                              *)
(* ------------------------------------------------------------------------- *)

Definition le_last (b : N) (last : option N) : Prop := match last with Some l => b <= l | None => False end.
Definition lt_last (last : option N) (id : N) : Prop := match last with Some l => l < id | None => True end.

Definition pre_armed (g : gphase) : Prop :=
  match g with G0 | Gs _ | Gt _ | GL1 _ | GL2 _ _ => True | _ => False end.
Definition lock_held (g : gphase) : Prop := match g with GL1 _ | GL2 _ _ | GA _ => True | _ => False end.
Definition early (g : gphase) : Prop := match g with G0 | Gs _ | Gt _ | GL1 _ => True | _ => False end.
Definition glast (g : gphase) (l : N) : Prop :=
  match g with
  | Gs l' | Gt (Some l') | GL1 (Some l') | GL2 (Some l') _ => l' = l
  | _ => False
  end.
Definition rel_last (g : gphase) (bp : bphase) (id : N) : Prop :=
  match g with
  | Gs l => l <= id
  | Gt last | GL1 last | GL2 last _ => lt_last last id
  | GA _ => bp = B1 id
  | _ => True
  end.
Definition active (bp : bphase) (id : N) : Prop := bp = B1 id \/ bp = B2 id.

Section Interlock.
  Variable pre : bytes -> N.
  Variable ids : list N.

  (* while reading the bands to keep: whatever exists NOW in a band not above [last] has been seen *)
  Definition TT (a : arch) (h2 : hist) (last : option N) (ds2 : list dpath) : Prop :=
    (forall b, le_last b last -> has_dir a (DBand b) = true -> In (DBand b) ds2)
    /\ (forall b dsI fsI, In (OpList (DIndex b), RList dsI fsI) h2 -> le_last b last ->
          forall s, has_dir a (DHunkSub b s) = true -> In (DHunkSub b s) dsI)
    /\ (forall b s dss fss, In (OpList (DHunkSub b s), RList dss fss) h2 -> le_last b last ->
          forall n x, get a (PHunk b n) = Some x -> n / HUNKS_PER_SUBDIR = s -> In n (hunk_numbers fss))
    /\ (forall b n x, In (OpRead (PHunk b n), RData x) h2 -> le_last b last ->
          forall y, get a (PHunk b n) = Some y -> y = x).

  (* once the check has passed: every hunk there is has been read, unless its band is to be deleted *)
  Definition GAc (a : arch) (h2 : hist) : Prop :=
    (forall b n es, get a (PHunk b n) = Some (Good (PlHunk es)) -> In b ids \/ incl (names es) (refd h2))
    /\ (forall b, In (OpRemoveDirAll (DBand b), ROk) h2 -> forall n, get a (PHunk b n) = None).

  Record Inv (a : arch) (h1 h2 : hist) : Prop := mkInv {
    i_wf : WF pre a;
    i_bwf : BlocksWF a;
    i_safe : Safe a;
    i_lock : lock_held (gph h2) -> get a PLock <> None;
    i_b0 : bph h1 = B0 -> forall ds fs, In (OpList DRoot, RList ds fs) h1 ->
           forall b, has_dir a (DBand b) = true -> In (DBand b) ds;
    i_kn0 : match bph h1 with B0 | B1 _ => Kn h1 = [] | _ => True end;
    i_act : forall id, active (bph h1) id ->
            get a (PTail id) = None /\ band_refs_ok a id
            /\ (forall b, has_dir a (DBand b) = true -> b <= id)
            /\ (pre_armed (gph h2) -> has_dir a (DBand id) = true)
            /\ rel_last (gph h2) (bph h1) id;
    i_b1 : forall id, bph h1 = B1 id -> forall n, get a (PHunk id n) = None;
    i_b2 : forall id, bph h1 = B2 id -> forall c, In c (Kn h1) -> block_ok a c;
    i_glast : forall l, glast (gph h2) l -> has_dir a (DBand l) = true;
    i_nbr : early (gph h2) -> forall o r, In (o, r) h2 -> band_read_op o = false;
    i_nrm : pre_armed (gph h2) -> forall d r, ~ In (OpRemoveDirAll d, r) h2;
    i_T : forall last ds2, gph h2 = GL2 last ds2 -> TT a h2 last ds2;
    i_GA : forall last, gph h2 = GA last -> GAc a h2
  }.

  Lemma Inv_init a0 : WF pre a0 -> BlocksWF a0 -> Safe a0 -> Inv a0 [] [].
  Proof.
    intros H1 H2 H3. constructor; auto; cbn; try contradiction; try discriminate.
    all: try (intros; contradiction).
    - reflexivity.
    - intros id [E|E]; discriminate E.
  Qed.

  (* ---- transfer of the collector-side clauses across a step of the backup ---- *)
  Definition CVr (a a' : arch) (h1 h2 : hist) : Prop :=
    get a' PLock = get a PLock
    /\ (forall d, has_dir a d = true -> has_dir a' d = true)
    /\ (forall last ds2, gph h2 = GL2 last ds2 -> forall b, le_last b last ->
          (has_dir a' (DBand b) = true -> has_dir a (DBand b) = true)
          /\ (forall s, has_dir a' (DHunkSub b s) = true -> has_dir a (DHunkSub b s) = true)
          /\ (forall n y, get a' (PHunk b n) = Some y -> get a (PHunk b n) = Some y))
    /\ (forall last, gph h2 = GA last -> forall b n, get a' (PHunk b n) = get a (PHunk b n)).

  Lemma CVr_refl a h1 h2 : CVr a a h1 h2.
  Proof. unfold CVr. repeat split; auto. Qed.

  Section Transfer.
    Variables (a a' : arch) (h1 h2 : hist).
    Hypothesis HI : Inv a h1 h2.
    Hypothesis HC : CVr a a' h1 h2.

    Lemma tr_lock : lock_held (gph h2) -> get a' PLock <> None.
    Proof. destruct HC as (E & _). rewrite E. apply (i_lock _ _ _ HI). Qed.
    Lemma tr_glast : forall l, glast (gph h2) l -> has_dir a' (DBand l) = true.
    Proof. intros l Hl. apply HC. apply (i_glast _ _ _ HI). exact Hl. Qed.
    Lemma tr_T : forall last ds2, gph h2 = GL2 last ds2 -> TT a' h2 last ds2.
    Proof.
      intros last ds2 E. destruct (i_T _ _ _ HI last ds2 E) as (T0 & T1 & T2 & T3).
      destruct HC as (_ & _ & HV & _). specialize (HV last ds2 E).
      split; [|split; [|split]].
      - intros b Hb Hd. apply T0; [exact Hb|]. apply (HV b Hb). exact Hd.
      - intros b dsI fsI Hin Hb s Hs. apply (T1 b dsI fsI Hin Hb). apply (HV b Hb). exact Hs.
      - intros b s dss fss Hin Hb n x G. apply (T2 b s dss fss Hin Hb n x). apply (HV b Hb). exact G.
      - intros b n x Hin Hb y G. apply (T3 b n x Hin Hb). apply (HV b Hb). exact G.
    Qed.
    Lemma tr_GA : forall last, gph h2 = GA last -> GAc a' h2.
    Proof.
      intros last E. destruct (i_GA _ _ _ HI last E) as (G1 & G2).
      destruct HC as (_ & _ & _ & HV). specialize (HV last E).
      split.
      - intros b n es G. rewrite HV in G. eauto.
      - intros b Hin n. rewrite HV. eauto.
    Qed.
  End Transfer.

  (* ---- the ghost of the backup across one more operation ---- *)
  Lemma bstep_read ph kn o r : reads_only o ->
    (bphase_step ph (o, r) = ph
     /\ (bknown_step ph kn (o, r) = kn
         \/ exists id s ds fs, ph = B2 id /\ o = OpList (DBlockSub s) /\ r = RList ds fs
                               /\ bknown_step ph kn (o, r) = listed_blocks fs ++ kn))
    \/ (exists id ds fs, ph = B1 id /\ o = OpList DRoot /\ r = RList ds fs /\ has_lock fs = false
                         /\ bphase_step ph (o, r) = B2 id /\ bknown_step ph kn (o, r) = kn).
  Proof.
    intros Ho. destruct o as [f|f p m|d|d|f|f|d]; cbn in Ho; try contradiction.
    - left. split; [destruct ph; reflexivity | left; destruct ph; reflexivity].
    - destruct ph as [|id|id|id].
      + left. split; [reflexivity | left; reflexivity].
      + destruct d; try (left; split; [reflexivity | left; reflexivity]).
        destruct r as [| | |ds fs|]; try (left; split; [reflexivity | left; reflexivity]).
        cbn [bphase_step bknown_step]. destruct (has_lock fs) eqn:E.
        * left. split; [reflexivity | left; reflexivity].
        * right. exists id, ds, fs. repeat split; auto.
      + left. split; [destruct d; reflexivity|].
        destruct d; try (left; reflexivity).
        destruct r as [| | |ds fs|]; try (left; reflexivity).
        right. exists id, s, ds, fs. repeat split; auto.
      + left. split; [reflexivity | left; reflexivity].
    - left. split; [destruct ph; reflexivity | left; destruct ph; reflexivity].
  Qed.

  Lemma In_snoc {A} (x y : A) l : In x (l ++ [y]) -> In x l \/ x = y.
  Proof. intros H. apply in_app_or in H. destruct H as [H|[H|[]]]; auto. Qed.

  Lemma listed_block_good a s ds fs c :
    FilesND a -> BlocksWF a -> snd (exec pre a (OpList (DBlockSub s)) NoFault) = RList ds fs ->
    In c (listed_blocks fs) -> block_ok a c.
  Proof.
    intros Hnd Hb Hl Hc. destruct (exec_list pre _ _ _ _ Hl) as (_ & _ & ->).
    apply listed_blocks_In in Hc. destruct (children_files_get pre _ _ _ _ Hnd Hc) as [x [G Hx]].
    unfold block_ok. rewrite G. destruct (Hb c x G) as [->| ->]; [reflexivity | discriminate].
  Qed.

  (* ---- step of the backup: a read ---- *)
  Lemma step1_read a h1 h2 o :
    Inv a h1 h2 -> reads_only o -> not_fin (bph h1) ->
    Inv a (h1 ++ [(o, snd (exec pre a o NoFault))]) h2.
  Proof.
    intros HI Ho Hnf. set (r := snd (exec pre a o NoFault)).
    pose proof (bstep_read (bph h1) (Kn h1) o r Ho) as Hst.
    assert (Eph : bph (h1 ++ [(o, r)]) = bphase_step (bph h1) (o, r)) by apply bph_snoc.
    assert (Ekn : Kn (h1 ++ [(o, r)]) = bknown_step (bph h1) (Kn h1) (o, r)) by apply Kn_snoc.
    constructor; try apply HI.
    - (* i_b0 *)
      intros E0 ds fs Hin b Hb. rewrite Eph in E0.
      assert (E0' : bph h1 = B0).
      { destruct Hst as [[E _]|(id & ds' & fs' & E1 & _ & _ & _ & E2 & _)]; congruence. }
      apply In_snoc in Hin. destruct Hin as [Hin|Hin]; [eapply (i_b0 _ _ _ HI); eauto|].
      inversion Hin; subst o. symmetry in H1. destruct (exec_list pre _ _ _ _ H1) as (_ & -> & _).
      apply in_children_dirs. split; [exact Hb | reflexivity].
    - (* i_kn0 *)
      rewrite Eph, Ekn. pose proof (i_kn0 _ _ _ HI) as K.
      destruct Hst as [[E [K'|(id & s & ds & fs & E1 & _)]]|(id & ds & fs & E1 & _ & _ & _ & E2 & _)].
      + rewrite E, K'. exact K.
      + rewrite E, E1. exact I.
      + rewrite E2. exact I.
    - (* i_act *)
      intros id Hact. rewrite Eph in Hact.
      assert (Hact' : active (bph h1) id).
      { destruct Hst as [[E _]|(id' & ds & fs & E1 & _ & _ & _ & E2 & _)].
        - rewrite E in Hact. exact Hact.
        - rewrite E2 in Hact. destruct Hact as [X|X]; inversion X; subst. left. exact E1. }
      destruct (i_act _ _ _ HI id Hact') as (A1 & A2 & A3 & A4 & A5).
      repeat split; auto.
      destruct (gph h2) eqn:Eg; cbn [rel_last] in *; auto.
      (* armed collector: the lock is there, so the backup cannot pass its second check *)
      rewrite Eph. destruct Hst as [[E _]|(id' & ds & fs & E1 & Eo & Er & Hl & E2 & _)]; [congruence|].
      exfalso. assert (Hlk : get a PLock <> None) by (apply (i_lock _ _ _ HI); rewrite Eg; exact I).
      destruct (get a PLock) as [x|] eqn:G; [|apply Hlk; reflexivity].
      subst o. unfold r in Er. destruct (exec_list pre _ _ _ _ Er) as (_ & _ & ->).
      rewrite (has_lock_listed pre a x G) in Hl. discriminate Hl.
    - (* i_b1 *)
      intros id E n. rewrite Eph in E. apply (i_b1 _ _ _ HI id).
      destruct Hst as [[E' _]|(id' & ds & fs & _ & _ & _ & _ & E2 & _)]; congruence.
    - (* i_b2 *)
      intros id E c Hc. rewrite Eph in E. rewrite Ekn in Hc.
      destruct Hst as [[E' [K'|(id' & s & ds & fs & E1 & Eo & Er & K')]]|(id' & ds & fs & E1 & _ & _ & _ & E2 & K')].
      + rewrite E' in E. rewrite K' in Hc. eapply (i_b2 _ _ _ HI); eauto.
      + rewrite E' in E. rewrite K' in Hc. apply in_app_or in Hc. destruct Hc as [Hc|Hc];
          [|eapply (i_b2 _ _ _ HI); eauto].
        subst o. eapply listed_block_good; [apply HI | apply HI | exact Er | exact Hc].
      + rewrite K' in Hc. pose proof (i_kn0 _ _ _ HI) as K. rewrite E1 in K. rewrite K in Hc. destruct Hc.
  Qed.
End Interlock.



Lemma band_complete_ext (a a' : arch) b :
  get a' (PHead b) = get a (PHead b) -> get a' (PTail b) = get a (PTail b) ->
  band_complete a' b -> band_complete a b.
Proof. unfold band_complete. intros -> ->. auto. Qed.

Lemma band_refs_ok_tr (a a' : arch) b :
  (forall n y, get a' (PHunk b n) = Some y -> get a (PHunk b n) = Some y) ->
  (forall c, block_ok a c -> block_ok a' c) ->
  band_refs_ok a b -> band_refs_ok a' b.
Proof. intros Hh Hb H n es e ad G He Had. apply Hb. eapply H; eauto. Qed.

Lemma le_lt_last b last id : le_last b last -> lt_last last id -> b < id.
Proof. destruct last as [l|]; cbn; [lia | contradiction]. Qed.

Section Step1.
  Variable pre : bytes -> N.
  Variable ids : list N.
  Notation Inv := (Inv pre ids).

  (* no file of a band whose directory does not exist *)
  Lemma no_band_no_files a b :
    WF pre a -> has_dir a (DBand b) = false ->
    get a (PTail b) = None /\ forall n, get a (PHunk b n) = None.
  Proof.
    intros (_ & W2 & W3) Hd. split.
    - destruct (get a (PTail b)) eqn:G; [|reflexivity]. apply W2 in G. cbn in G. congruence.
    - intros n. destruct (get a (PHunk b n)) eqn:G; [|reflexivity]. apply W2 in G. cbn [parent_f] in G.
      apply (W3 _ (DIndex b)) in G; [|reflexivity]. apply (W3 _ (DBand b)) in G; [|reflexivity]. congruence.
  Qed.

  (* ---- mkdir of anything but a band directory ---- *)
  Lemma step1_mkdir_other a h1 h2 d :
    Inv a h1 h2 -> (forall id, d <> DBand id) -> bk_class h1 (OpMkdir d) ->
    Inv (fst (exec pre a (OpMkdir d) NoFault)) (h1 ++ [(OpMkdir d, snd (exec pre a (OpMkdir d) NoFault))]) h2.
  Proof.
    intros HI Hnb [Hnf Hc].
    set (a' := fst (exec pre a (OpMkdir d) NoFault)). set (r := snd (exec pre a (OpMkdir d) NoFault)).
    destruct (exec_mkdir pre a d) as (E1 & E2 & E3 & E4). fold a' in E1, E2, E3, E4. fold r in E3, E4.
    assert (Eg : forall f, get a' f = get a f) by (intros f; unfold get; rewrite E1; reflexivity).
    assert (Eph : bph (h1 ++ [(OpMkdir d, r)]) = bph h1).
    { rewrite bph_snoc. destruct (bph h1); try reflexivity. destruct d; try reflexivity. destruct (Hnb b eq_refl). }
    assert (Ekn : Kn (h1 ++ [(OpMkdir d, r)]) = Kn h1) by (rewrite Kn_snoc; destruct (bph h1); reflexivity).
    assert (Hband : forall b, has_dir a' (DBand b) = true -> has_dir a (DBand b) = true).
    { intros b Hb. destruct (E3 _ Hb) as [H|(E & _)]; [exact H | destruct (Hnb b (eq_sym E))]. }
    assert (HCV : CVr a a' h1 h2).
    { split; [apply Eg|]. split; [exact E2|]. split.
      - intros last ds2 Eg2 b Hb. split; [apply Hband|]. split; [|intros n y; rewrite Eg; auto].
        intros s Hs. destruct (E3 _ Hs) as [H|(E & _)]; [exact H|]. exfalso.
        subst d. cbn in Hc.
        destruct (i_act _ _ _ _ _ HI b (or_intror Hc)) as (_ & _ & _ & _ & A5).
        rewrite Eg2 in A5. cbn in A5. pose proof (le_lt_last _ _ _ Hb A5). lia.
      - intros last _ b n. apply Eg. }
    constructor.
    - apply WF_mkdir. apply HI.
    - intros c x G. rewrite Eg in G. eapply (i_bwf _ _ _ _ _ HI); eauto.
    - intros b Hb. apply (band_refs_ok_tr a a'); [intros n y; rewrite Eg; auto | unfold block_ok; intros c; rewrite Eg; auto|].
      apply (i_safe _ _ _ _ _ HI). apply (band_complete_ext a a') in Hb; auto; symmetry; apply Eg.
    - eapply tr_lock; eauto.
    - rewrite Eph. intros E0 ds fs Hin b Hb. apply In_snoc in Hin. destruct Hin as [Hin|Hin]; [|discriminate Hin].
      eapply (i_b0 _ _ _ _ _ HI); eauto.
    - rewrite Eph, Ekn. apply HI.
    - rewrite Eph. intros id Hact. destruct (i_act _ _ _ _ _ HI id Hact) as (A1 & A2 & A3 & A4 & A5).
      split; [rewrite Eg; exact A1|]. split.
      { apply (band_refs_ok_tr a a'); [intros n y; rewrite Eg; auto | unfold block_ok; intros c; rewrite Eg; auto | exact A2]. }
      split; [intros b Hb; apply A3, Hband, Hb|]. split; [intros Hp; apply E2, A4, Hp | exact A5].
    - rewrite Eph. intros id E n. rewrite Eg. eapply (i_b1 _ _ _ _ _ HI); eauto.
    - rewrite Eph, Ekn. intros id E c Hc'. unfold block_ok. rewrite Eg. eapply (i_b2 _ _ _ _ _ HI); eauto.
    - eapply tr_glast; eauto.
    - apply HI.
    - apply HI.
    - eapply tr_T; eauto.
    - eapply tr_GA; eauto.
  Qed.

  (* ---- mkdir of the new band directory ---- *)
  Lemma step1_mkband a h1 h2 id :
    Inv a h1 h2 -> bk_class h1 (OpMkdir (DBand id)) ->
    Inv (fst (exec pre a (OpMkdir (DBand id)) NoFault))
        (h1 ++ [(OpMkdir (DBand id), snd (exec pre a (OpMkdir (DBand id)) NoFault))]) h2.
  Proof.
    intros HI [Hnf (E0 & ds & fs & Hls & Hlt)].
    set (d := DBand id).
    set (a' := fst (exec pre a (OpMkdir d) NoFault)). set (r := snd (exec pre a (OpMkdir d) NoFault)).
    destruct (exec_mkdir pre a d) as (E1 & E2 & E3 & E4). fold a' in E1, E2, E3, E4. fold r in E3, E4.
    assert (Eg : forall f, get a' f = get a f) by (intros f; unfold get; rewrite E1; reflexivity).
    assert (Hold : forall b, has_dir a (DBand b) = true -> b < id).
    { intros b Hb. apply Hlt. eapply (i_b0 _ _ _ _ _ HI); eauto. }
    assert (Hfresh : has_dir a (DBand id) = false).
    { destruct (has_dir a (DBand id)) eqn:Hd; [|reflexivity]. pose proof (Hold _ Hd). lia. }
    destruct (no_band_no_files a id (i_wf _ _ _ _ _ HI) Hfresh) as [NT NH].
    assert (Eph : bph (h1 ++ [(OpMkdir d, r)]) = match r with ROk => B1 id | _ => B0 end).
    { rewrite bph_snoc, E0. destruct r; reflexivity. }
    assert (Ekn : Kn (h1 ++ [(OpMkdir d, r)]) = []).
    { rewrite Kn_snoc, E0. cbn [bknown_step]. pose proof (i_kn0 _ _ _ _ _ HI) as K. rewrite E0 in K. exact K. }
    assert (Hband : forall b, has_dir a' (DBand b) = true -> has_dir a (DBand b) = true \/ (b = id /\ r = ROk)).
    { intros b Hb. destruct (E3 _ Hb) as [H|(E & _ & Er & _)]; [left; exact H|]. right. inversion E. auto. }
    assert (Hgl : forall l, glast (gph h2) l -> l < id).
    { intros l Hl. apply Hold. apply (i_glast _ _ _ _ _ HI). exact Hl. }
    assert (HCV : CVr a a' h1 h2).
    { split; [apply Eg|]. split; [exact E2|]. split.
      - intros last ds2 Eg2 b Hb. split; [|split; [|intros n y; rewrite Eg; auto]].
        + intros Hd. destruct (Hband _ Hd) as [H|[-> _]]; [exact H|]. exfalso.
          destruct last as [l|]; [|exact Hb]. cbn in Hb.
          assert (l < id) by (apply Hgl; rewrite Eg2; reflexivity). lia.
        + intros s Hs. destruct (E3 _ Hs) as [H|(E & _)]; [exact H | discriminate E].
      - intros last _ b n. apply Eg. }
    constructor.
    - apply WF_mkdir. apply HI.
    - intros c x G. rewrite Eg in G. eapply (i_bwf _ _ _ _ _ HI); eauto.
    - intros b Hb. apply (band_refs_ok_tr a a'); [intros n y; rewrite Eg; auto | unfold block_ok; intros c; rewrite Eg; auto|].
      apply (i_safe _ _ _ _ _ HI). apply (band_complete_ext a a') in Hb; auto; symmetry; apply Eg.
    - eapply tr_lock; eauto.
    - rewrite Eph. intros Er ds' fs' Hin b Hb. apply In_snoc in Hin. destruct Hin as [Hin|Hin]; [|discriminate Hin].
      destruct (Hband _ Hb) as [H|[_ Ok]]; [eapply (i_b0 _ _ _ _ _ HI); eauto|].
      rewrite Ok in Er. discriminate Er.
    - rewrite Eph, Ekn. destruct r; reflexivity.
    - rewrite Eph. intros id' Hact.
      assert (Ok : r = ROk /\ id' = id).
      { destruct r; destruct Hact as [X|X]; try discriminate X. inversion X. auto. }
      destruct Ok as [Ok ->]. rewrite Ok.
      split; [rewrite Eg; exact NT|]. split; [intros n es e ad G; rewrite Eg, NH in G; discriminate G|].
      split.
      { intros b Hb. destruct (Hband _ Hb) as [H|[-> _]]; [apply Hold in H; lia | lia]. }
      split; [intros _; apply E4, Ok|].
      destruct (gph h2) as [|l|[l|]|[l|]|[l|] ds2|last|] eqn:Eg2; cbn [rel_last lt_last]; auto;
        try (assert (l < id) by (apply Hgl; cbn; reflexivity); lia).
    - rewrite Eph. intros id' E n. rewrite Eg. destruct r; try discriminate E. inversion E; subst. apply NH.
    - rewrite Eph. intros id' E. destruct r; discriminate E.
    - eapply tr_glast; eauto.
    - apply HI.
    - apply HI.
    - eapply tr_T; eauto.
    - eapply tr_GA; eauto.
  Qed.
End Step1.



Section Step1w.
  Variable pre : bytes -> N.
  Variable ids : list N.
  Notation Inv := (Inv pre ids).

  Lemma in_band_spec b f : in_band b f = true <-> f = PHead b \/ f = PTail b \/ exists n, f = PHunk b n.
  Proof.
    destruct f; cbn [in_band]; try (split; [discriminate | intros [E|[E|[n E]]]; discriminate E]);
      rewrite N.eqb_eq; split; try (intros ->; eauto); intros [E|[E|[n' E]]]; inversion E; auto.
  Qed.

  Lemma step1_write a h1 h2 f p :
    Inv a h1 h2 -> bk_class h1 (OpWrite f p CreateNew) ->
    Inv (fst (exec pre a (OpWrite f p CreateNew) NoFault))
        (h1 ++ [(OpWrite f p CreateNew, snd (exec pre a (OpWrite f p CreateNew) NoFault))]) h2.
  Proof.
    intros HI [Hnf Hc].
    set (o := OpWrite f p CreateNew).
    set (a' := fst (exec pre a o NoFault)). set (r := snd (exec pre a o NoFault)).
    destruct (exec_write pre a f p) as (D1 & D2 & D3 & D4 & D5). fold o a' r in D1, D2, D3, D4, D5.
    assert (Hd : forall x, has_dir a' x = has_dir a x) by (intros x; unfold has_dir; rewrite D1; reflexivity).
    (* what the class says about the path and the payload *)
    assert (Hnl : f <> PLock) by (intros ->; exact Hc).
    assert (Hhead : forall b, f = PHead b -> bph h1 = B1 b).
    { intros b ->. destruct p; try contradiction. exact Hc. }
    assert (Htail : forall b, f = PTail b -> bph h1 = B2 b).
    { intros b ->. destruct p; try contradiction. exact Hc. }
    assert (Hhunk : forall b n, f = PHunk b n -> bph h1 = B2 b /\ exists es, p = PlHunk es /\ incl (names es) (Kn h1)).
    { intros b n ->. destruct p; try contradiction. destruct Hc. eauto. }
    assert (Hblk : forall c, f = PBlock c -> p = PlBlock c).
    { intros c ->. destruct p; try contradiction. subst. reflexivity. }
    clear Hc.
    assert (Hr : r = ROk \/ r <> ROk) by (destruct (reply_ROk_dec r); auto).
    (* blocks only get better *)
    assert (K1 : forall c, block_ok a c -> block_ok a' c).
    { intros c Hc. unfold block_ok in *. destruct (fpath_eqb_spec (PBlock c) f) as [E|Ne]; [|rewrite D2; auto].
      destruct Hr as [Ok|Nok]; [|rewrite (D4 Nok); exact Hc].
      destruct (D3 Ok) as (G & _). rewrite E, G, (Hblk c (eq_sym E)). reflexivity. }
    (* the ghost *)
    assert (Eph : bph (h1 ++ [(o, r)]) = bphase_step (bph h1) (o, r)) by apply bph_snoc.
    assert (Ekn : Kn (h1 ++ [(o, r)]) = bknown_step (bph h1) (Kn h1) (o, r)) by apply Kn_snoc.
    assert (Pst : bphase_step (bph h1) (o, r) = bph h1
                  \/ exists b, f = PTail b /\ r = ROk /\ bph h1 = B2 b /\ bphase_step (bph h1) (o, r) = B3 b).
    { unfold o. destruct (bph h1) as [|i|i|i] eqn:Eb; cbn [bphase_step]; auto.
      destruct f; auto. destruct r; auto. right. exists b. pose proof (Htail b eq_refl) as X. inversion X. auto. }
    assert (Hactive : forall id, active (bph (h1 ++ [(o, r)])) id -> active (bph h1) id).
    { intros id Hact. rewrite Eph in Hact. destruct Pst as [E|(b & _ & _ & _ & E)]; rewrite E in Hact; [exact Hact|].
      destruct Hact as [X|X]; discriminate X. }
    assert (HCV : CVr a a' h1 h2).
    { split; [apply D2; congruence|]. split; [intros x; rewrite Hd; auto|]. split.
      - intros last ds2 Eg2 b Hb. split; [rewrite Hd; auto|]. split; [intros s; rewrite Hd; auto|].
        intros n y G. destruct (fpath_eqb_spec (PHunk b n) f) as [E|Ne]; [|rewrite D2 in G; auto].
        exfalso. destruct (Hhunk b n (eq_sym E)) as [E2 _].
        destruct (i_act _ _ _ _ _ HI b (or_intror E2)) as (_ & _ & _ & _ & A5).
        rewrite Eg2 in A5. cbn in A5. pose proof (le_lt_last _ _ _ Hb A5). lia.
      - intros last Eg2 b n. destruct (fpath_eqb_spec (PHunk b n) f) as [E|Ne]; [|apply D2; auto].
        exfalso. destruct (Hhunk b n (eq_sym E)) as [E2 _].
        destruct (i_act _ _ _ _ _ HI b (or_intror E2)) as (_ & _ & _ & _ & A5).
        rewrite Eg2 in A5. cbn in A5. congruence. }
    constructor.
    - apply WF_write. apply HI.
    - (* BlocksWF *)
      intros c x G. destruct (fpath_eqb_spec (PBlock c) f) as [E|Ne]; [|rewrite D2 in G; auto; eapply (i_bwf _ _ _ _ _ HI); eauto].
      destruct Hr as [Ok|Nok]; [|rewrite (D4 Nok) in G; eapply (i_bwf _ _ _ _ _ HI); eauto].
      destruct (D3 Ok) as (G' & _). rewrite <- E in G'. rewrite G' in G. inversion G.
      rewrite (Hblk c (eq_sym E)). left. reflexivity.
    - (* Safe *)
      intros b Hb. destruct (in_band b f) eqn:Eb.
      + apply in_band_spec in Eb. destruct Eb as [E|[E|[n E]]].
        * exfalso. pose proof (Hhead b E) as E1.
          destruct (i_act _ _ _ _ _ HI b (or_introl E1)) as (A1 & _).
          destruct Hb as [_ [m Hm]]. rewrite D2 in Hm by congruence. congruence.
        * pose proof (Htail b E) as E2.
          destruct (i_act _ _ _ _ _ HI b (or_intror E2)) as (_ & A2 & _).
          apply (band_refs_ok_tr a a'); [|exact K1 | exact A2].
          intros n y G. rewrite D2 in G by congruence. exact G.
        * exfalso. destruct (Hhunk b n E) as [E2 _].
          destruct (i_act _ _ _ _ _ HI b (or_intror E2)) as (A1 & _).
          destruct Hb as [_ [m Hm]]. rewrite D2 in Hm by congruence. congruence.
      + assert (Hnin : forall g, in_band b g = true -> g <> f) by (intros g Hg ->; congruence).
        apply (band_refs_ok_tr a a'); [|exact K1|].
        * intros n y G. rewrite D2 in G; [exact G|]. apply Hnin. cbn. apply N.eqb_refl.
        * apply (i_safe _ _ _ _ _ HI). apply (band_complete_ext a a'); [| |exact Hb];
            apply D2; apply Hnin; cbn; apply N.eqb_refl.
    - eapply tr_lock; eauto.
    - (* i_b0 *)
      intros E0 ds fs Hin b Hb. rewrite Eph in E0.
      assert (E0' : bph h1 = B0) by (destruct Pst as [E|(b' & _ & _ & _ & E)]; congruence).
      apply In_snoc in Hin. destruct Hin as [Hin|Hin]; [|discriminate Hin].
      rewrite Hd in Hb. eapply (i_b0 _ _ _ _ _ HI); eauto.
    - (* i_kn0 *)
      rewrite Eph, Ekn. pose proof (i_kn0 _ _ _ _ _ HI) as K.
      destruct Pst as [E|(b & _ & _ & _ & E)]; rewrite E; [|exact I].
      destruct (bph h1); auto.
    - (* i_act *)
      intros id Hact. pose proof (Hactive id Hact) as Hact'.
      destruct (i_act _ _ _ _ _ HI id Hact') as (A1 & A2 & A3 & A4 & A5).
      split.
      { destruct (fpath_eqb_spec (PTail id) f) as [E|Ne]; [|rewrite D2; auto].
        destruct Hr as [Ok|Nok]; [|rewrite (D4 Nok); exact A1]. exfalso.
        rewrite Eph in Hact. destruct Pst as [E'|(b & _ & _ & _ & E')].
        - unfold o in E'. rewrite <- E, Ok in E'. pose proof (Htail id (eq_sym E)) as X. rewrite X in E'. discriminate E'.
        - rewrite E' in Hact. destruct Hact as [X|X]; discriminate X. }
      split.
      { intros n es e ad G He Had.
        destruct (fpath_eqb_spec (PHunk id n) f) as [E|Ne]; [|rewrite D2 in G by auto; apply K1; eapply A2; eauto].
        destruct Hr as [Ok|Nok]; [|rewrite (D4 Nok) in G; apply K1; eapply A2; eauto].
        destruct (Hhunk id n (eq_sym E)) as [E2 (es' & -> & Hes)].
        destruct (D3 Ok) as (G' & _). rewrite <- E in G'. rewrite G' in G. inversion G; subst es'.
        apply K1. apply (i_b2 _ _ _ _ _ HI id E2). apply Hes. apply names_In. eauto. }
      split; [intros b Hb; rewrite Hd in Hb; auto|]. split; [intros Hp; rewrite Hd; auto|].
      destruct (gph h2); cbn [rel_last] in *; auto.
      rewrite Eph. destruct Pst as [E|(b & _ & _ & E2 & _)]; congruence.
    - (* i_b1 *)
      intros id E n. rewrite Eph in E.
      assert (E1 : bph h1 = B1 id) by (destruct Pst as [E'|(b & _ & _ & _ & E')]; congruence).
      destruct (fpath_eqb_spec (PHunk id n) f) as [Ef|Ne]; [|rewrite D2 by auto; eapply (i_b1 _ _ _ _ _ HI); eauto].
      destruct (Hhunk id n (eq_sym Ef)) as [E2 _]. congruence.
    - (* i_b2 *)
      intros id E c Hc. rewrite Eph in E. rewrite Ekn in Hc.
      assert (E2 : bph h1 = B2 id) by (destruct Pst as [E'|(b & _ & _ & _ & E')]; congruence).
      rewrite E2 in Hc. unfold o in Hc. cbn [bknown_step] in Hc.
      destruct f as [| |b'|b'|b' n'|cb]; try (apply K1; eapply (i_b2 _ _ _ _ _ HI); eauto; fail).
      destruct r eqn:Er; try (apply K1; eapply (i_b2 _ _ _ _ _ HI); eauto; fail).
      destruct Hc as [<-|Hc]; [|apply K1; eapply (i_b2 _ _ _ _ _ HI); eauto].
      destruct (D3 eq_refl) as (G & _). unfold block_ok. rewrite G, (Hblk cb eq_refl). reflexivity.
    - eapply tr_glast; eauto.
    - apply HI.
    - apply HI.
    - eapply tr_T; eauto.
    - eapply tr_GA; eauto.
  Qed.

  (* ---- every step of the backup keeps the invariant ---- *)
  Theorem step1 a h1 h2 o :
    Inv a h1 h2 -> bk_class h1 o ->
    Inv (fst (exec pre a o NoFault)) (h1 ++ [(o, snd (exec pre a o NoFault))]) h2.
  Proof.
    intros HI Hc.
    assert (Hread : reads_only o -> Inv (fst (exec pre a o NoFault)) (h1 ++ [(o, snd (exec pre a o NoFault))]) h2).
    { intros Ho. rewrite (exec_reads_state pre a o Ho). apply step1_read; [exact HI | exact Ho | apply Hc]. }
    destruct o as [f|f p m|d|d|f|f|d]; try (apply Hread; exact I).
    - destruct m.
      + apply step1_write; assumption.
      + exfalso. destruct Hc as [_ Hc]. destruct f, p; exact Hc.
    - destruct d; try (apply step1_mkdir_other; [exact HI | discriminate | exact Hc]).
      apply step1_mkband; assumption.
    - exfalso. apply Hc.
    - exfalso. apply Hc.
  Qed.
End Step1w.



Lemma refd_In h b n es : In (OpRead (PHunk b n), RData (Good (PlHunk es))) h -> incl (names es) (refd h).
Proof.
  intros Hin c Hc. unfold refd. apply in_flat_map. exists (OpRead (PHunk b n), RData (Good (PlHunk es))).
  split; [exact Hin | exact Hc].
Qed.

Lemma refd_mono_snoc h x : incl (refd h) (refd (h ++ [x])).
Proof. rewrite refd_snoc. apply incl_appl, incl_refl. Qed.

Lemma subdir_numbers_In ds b s : In (DHunkSub b s) ds -> In s (subdir_numbers ds).
Proof.
  intros H. unfold subdir_numbers. apply in_isort. apply in_flat_map.
  exists (DHunkSub b s). split; [exact H | left; reflexivity].
Qed.

Lemma hunk_numbers_In fs b n bl : In (PHunk b n, bl) fs -> In n (hunk_numbers fs).
Proof.
  intros H. unfold hunk_numbers. apply in_isort. apply in_flat_map.
  exists (PHunk b n, bl). split; [exact H | left; reflexivity].
Qed.

Lemma optid_eqb_true x y : optid_eqb x y = true -> x = y.
Proof.
  destruct x, y; cbn; try discriminate; auto. intros H. apply N.eqb_eq in H. congruence.
Qed.

Section Step2r.
  Variable pre : bytes -> N.
  Variable ids : list N.
  Notation Inv := (Inv pre ids).

  (* a band whose hunk file exists has its directories *)
  Lemma hunk_dirs a b n x :
    WF pre a -> get a (PHunk b n) = Some x ->
    has_dir a (DHunkSub b (n / HUNKS_PER_SUBDIR)) = true /\ has_dir a (DBand b) = true.
  Proof.
    intros (_ & W2 & W3) G. apply W2 in G. cbn [parent_f] in G. split; [exact G|].
    apply (W3 _ (DIndex b)) in G; [|reflexivity]. apply (W3 _ (DBand b)) in G; [|reflexivity]. exact G.
  Qed.

  Lemma root_listing a ds fs :
    snd (exec pre a (OpList DRoot) NoFault) = RList ds fs ->
    forall b, In (DBand b) ds <-> has_dir a (DBand b) = true.
  Proof.
    intros H b. destruct (exec_list pre _ _ _ _ H) as (_ & -> & _). rewrite in_children_dirs.
    split; [intros [X _]; exact X | intros X; split; [exact X | reflexivity]].
  Qed.

  (* THE CHECK PASSES: every hunk there is, outside the bands to delete, has been read *)
  Lemma arming a h1 h2 last ds2 ds3 fs3 :
    Inv a h1 h2 -> gph h2 = GL2 last ds2 -> Complete ids h2 ds2 ->
    snd (exec pre a (OpList DRoot) NoFault) = RList ds3 fs3 ->
    optid_eqb (max_id (band_ids ds3)) last = true ->
    GAc ids a (h2 ++ [(OpList DRoot, RList ds3 fs3)]).
  Proof.
    intros HI Eg HC Hl Hchk. split.
    - intros b n es G.
      destruct (in_dec N.eq_dec b ids) as [Hin|Hnin]; [left; exact Hin | right].
      destruct (hunk_dirs a b n _ (i_wf _ _ _ _ _ HI) G) as [Hsub Hband].
      (* the band is not above [last] *)
      assert (Hle : le_last b last).
      { apply optid_eqb_true in Hchk. rewrite <- Hchk.
        assert (Hb : In b (band_ids ds3)) by (apply band_ids_In', (root_listing a ds3 fs3 Hl); exact Hband).
        pose proof (max_id_spec (band_ids ds3)) as M. destruct (max_id (band_ids ds3)) as [m|].
        - cbn. apply M. exact Hb.
        - rewrite M in Hb. destruct Hb. }
      destruct (i_T _ _ _ _ _ HI last ds2 Eg) as (T0 & T1 & T2 & T3).
      destruct (HC b) as (dsI & fsI & HinI & Hsubs); [apply band_ids_In'; apply T0; assumption | exact Hnin|].
      destruct (Hsubs (n / HUNKS_PER_SUBDIR)) as (dss & fss & HinS & Hrd).
      { eapply subdir_numbers_In. eapply T1; eauto. }
      destruct (Hrd n) as [es' Hread]; [eapply T2; eauto|].
      pose proof (T3 b n _ Hread Hle _ G) as E. inversion E; subst es'.
      eapply incl_tran; [eapply refd_In; eauto | apply refd_mono_snoc].
    - intros b Hin. apply In_snoc in Hin. destruct Hin as [Hin|Hin]; [|discriminate Hin].
      exfalso. apply (i_nrm _ _ _ _ _ HI) in Hin; [exact Hin | rewrite Eg; exact I].
  Qed.

  (* phases across a read *)
  Lemma gstep_read g o r : reads_only o ->
    (lock_held (gstep g (o, r)) -> lock_held g)
    /\ (pre_armed (gstep g (o, r)) -> pre_armed g)
    /\ (early (gstep g (o, r)) -> early g).
  Proof.
    intros Ho. destruct o as [f|f p m|d|d|f|f|d]; cbn in Ho; try contradiction.
    - destruct g; cbn; auto.
    - destruct g as [|l|last|last|last ds2|last|]; cbn [gstep]; auto.
      + destruct d; auto. destruct r; auto. destruct (max_id (band_ids ds)); cbn; auto.
      + destruct d; auto. destruct r; auto. destruct (optid_eqb _ _); cbn; auto.
    - destruct g as [|l|last|last|last ds2|last|]; cbn [gstep]; auto.
      destruct f; auto. destruct r as [| | | |[|]]; auto. destruct (N.eqb b l); cbn; auto.
  Qed.

  Lemma step2_read a h1 h2 o :
    Inv a h1 h2 -> reads_only o -> gc_class ids h2 o ->
    Inv a h1 (h2 ++ [(o, snd (exec pre a o NoFault))]).
  Proof.
    intros HI Ho [Hbr Hc]. set (r := snd (exec pre a o NoFault)).
    assert (Eg : gph (h2 ++ [(o, r)]) = gstep (gph h2) (o, r)) by apply gph_snoc.
    destruct (gstep_read (gph h2) o r Ho) as (P1 & P2 & P3).
    assert (Hnew_rm : forall d r', (o, r) <> (OpRemoveDirAll d, r')).
    { intros d r' E. inversion E; subst o. exact Ho. }
    constructor; try apply HI.
    - (* i_lock *) rewrite Eg. intros H. apply (i_lock _ _ _ _ _ HI). auto.
    - (* i_act *)
      intros id Hact. destruct (i_act _ _ _ _ _ HI id Hact) as (A1 & A2 & A3 & A4 & A5).
      split; [exact A1|]. split; [exact A2|]. split; [exact A3|]. rewrite Eg.
      split; [intros Hp; apply A4; auto|].
      destruct o as [f|f p m|d|d|f|f|d]; cbn in Ho; try contradiction.
      + destruct (gph h2); exact A5.
      + destruct (gph h2) as [|l|last|last|last ds2|last|] eqn:Eg2; cbn [gstep]; try exact A5.
        * destruct d; try exact A5. destruct r as [| | |ds fs|] eqn:Er; try exact A5.
          pose proof (max_id_spec (band_ids ds)) as M. destruct (max_id (band_ids ds)) as [m|]; [|exact I].
          cbn. apply A3. apply (root_listing a ds fs Er). apply band_ids_In'. apply M.
        * destruct d; try exact A5. destruct r; exact A5.
        * destruct d; try exact A5. destruct r as [| | |ds fs|] eqn:Er; try exact A5.
          destruct (optid_eqb (max_id (band_ids ds)) last) eqn:Echk; [|exact A5]. exfalso.
          apply optid_eqb_true in Echk. cbn in A5. rewrite <- Echk in A5.
          assert (Hb : In id (band_ids ds)).
          { apply band_ids_In', (root_listing a ds fs Er). apply A4. exact I. }
          pose proof (max_id_spec (band_ids ds)) as M. destruct (max_id (band_ids ds)) as [m|].
          -- cbn in A5. destruct M as [_ M]. specialize (M id Hb). lia.
          -- rewrite M in Hb. destruct Hb.
      + destruct (gph h2) as [|l|last|last|last ds2|last|] eqn:Eg2; cbn [gstep]; try exact A5.
        destruct f; try exact A5. destruct r as [| | | |[|]] eqn:Er; try exact A5.
        destruct (N.eqb_spec b l) as [->|Ne]; [|exact A5].
        cbn in A5 |- *. assert (l <> id); [|lia]. intros ->.
        unfold r in Er. cbn [exec exec_ok] in Er. rewrite A1 in Er. discriminate Er.
    - (* i_glast *)
      intros l Hl. rewrite Eg in Hl.
      destruct o as [f|f p m|d|d|f|f|d]; cbn in Ho; try contradiction.
      + apply (i_glast _ _ _ _ _ HI). destruct (gph h2); exact Hl.
      + destruct (gph h2) as [|l'|last|last|last ds2|last|] eqn:Eg2; cbn [gstep] in Hl;
          try (apply (i_glast _ _ _ _ _ HI); rewrite Eg2; exact Hl).
        * destruct d; try contradiction. destruct r as [| | |ds fs|] eqn:Er; try contradiction.
          pose proof (max_id_spec (band_ids ds)) as M. destruct (max_id (band_ids ds)) as [m|]; [|contradiction].
          cbn in Hl. subst m. apply (root_listing a ds fs Er). apply band_ids_In'. apply M.
        * apply (i_glast _ _ _ _ _ HI). rewrite Eg2. destruct d; try exact Hl. destruct r; exact Hl.
        * apply (i_glast _ _ _ _ _ HI). rewrite Eg2. destruct d; try exact Hl. destruct r; try exact Hl.
          destruct (optid_eqb _ _); [contradiction | exact Hl].
      + destruct (gph h2) as [|l'|last|last|last ds2|last|] eqn:Eg2; cbn [gstep] in Hl;
          try (apply (i_glast _ _ _ _ _ HI); rewrite Eg2; exact Hl).
        apply (i_glast _ _ _ _ _ HI). rewrite Eg2. cbn.
        destruct f; try exact Hl. destruct r as [| | | |[|]]; try exact Hl.
        destruct (N.eqb b l'); exact Hl.
    - (* i_nbr *)
      rewrite Eg. intros He o' r' Hin. apply In_snoc in Hin. destruct Hin as [Hin|Hin].
      + eapply (i_nbr _ _ _ _ _ HI); eauto.
      + inversion Hin; subst o'. destruct (band_read_op o) eqn:Eb; [|reflexivity]. exfalso.
        destruct (Hbr eq_refl) as (last & ds2 & E2). rewrite E2 in He.
        destruct o as [f|f p m|d|d|f|f|d]; try discriminate Eb; cbn [gstep] in He.
        * destruct f; exact He.
        * destruct d; try discriminate Eb; exact He.
    - (* i_nrm *)
      rewrite Eg. intros Hp d r' Hin. apply In_snoc in Hin. destruct Hin as [Hin|Hin].
      + eapply (i_nrm _ _ _ _ _ HI); eauto.
      + symmetry in Hin. eapply Hnew_rm; eauto.
    - (* i_T *)
      intros last ds2 E2. rewrite Eg in E2.
      (* either the phase was already GL2, or this is the listing after the lock *)
      assert (Hcase : gph h2 = GL2 last ds2
                      \/ (gph h2 = GL1 last /\ exists fs, o = OpList DRoot /\ r = RList ds2 fs)).
      { destruct o as [f|f p m|d|d|f|f|d]; cbn in Ho; try contradiction.
        - left. destruct (gph h2); try discriminate E2; exact E2.
        - destruct (gph h2) as [|l|l|l|l ds|l|] eqn:Eg2; cbn [gstep] in E2; try discriminate E2.
          + destruct d; try discriminate E2. destruct r; try discriminate E2. destruct (max_id _); discriminate E2.
          + destruct d; try discriminate E2. destruct r; try discriminate E2. inversion E2; subst. right. eauto.
          + left. destruct d; try exact E2. destruct r; try exact E2. destruct (optid_eqb _ _); [discriminate E2 | exact E2].
        - destruct (gph h2) as [|l|l|l|l ds|l|] eqn:Eg2; cbn [gstep] in E2; try discriminate E2.
          + destruct f; try discriminate E2. destruct r as [| | | |[|]]; try discriminate E2. destruct (N.eqb _ _); discriminate E2.
          + left. exact E2. }
      destruct Hcase as [E2'|(E1 & fs & -> & Er)].
      + destruct (i_T _ _ _ _ _ HI last ds2 E2') as (T0 & T1 & T2 & T3).
        split; [exact T0|]. split; [|split].
        * intros b dsI fsI Hin Hb s Hs. apply In_snoc in Hin. destruct Hin as [Hin|Hin]; [eapply T1; eauto|].
          inversion Hin; subst o. symmetry in H1. destruct (exec_list pre _ _ _ _ H1) as (_ & -> & _).
          apply in_children_dirs. split; [exact Hs | reflexivity].
        * intros b s dss fss Hin Hb n x G Es. apply In_snoc in Hin. destruct Hin as [Hin|Hin]; [eapply T2; eauto|].
          inversion Hin; subst o. symmetry in H1. destruct (exec_list pre _ _ _ _ H1) as (_ & _ & ->).
          eapply hunk_numbers_In. apply (in_children_files pre a _ _ _ G). cbn [parent_f]. rewrite Es. reflexivity.
        * intros b n x Hin Hb y G. apply In_snoc in Hin. destruct Hin as [Hin|Hin]; [eapply T3; eauto|].
          inversion Hin; subst o. unfold r in H1. cbn [exec exec_ok] in H1. rewrite G in H1. cbn in H1. congruence.
      + assert (Hnone : forall o' r', In (o', r') (h2 ++ [(OpList DRoot, r)]) -> band_read_op o' = false).
        { intros o' r' Hin. apply In_snoc in Hin. destruct Hin as [Hin|Hin].
          - eapply (i_nbr _ _ _ _ _ HI); eauto. rewrite E1. exact I.
          - inversion Hin. reflexivity. }
        split; [|split; [|split]].
        * intros b _ Hb. apply (root_listing a ds2 fs Er). exact Hb.
        * intros b dsI fsI Hin. apply Hnone in Hin. discriminate Hin.
        * intros b s dss fss Hin. apply Hnone in Hin. discriminate Hin.
        * intros b n x Hin. apply Hnone in Hin. discriminate Hin.
    - (* i_GA *)
      intros last E2. rewrite Eg in E2.
      assert (Hcase : gph h2 = GA last
                      \/ (exists ds2 ds3 fs3, gph h2 = GL2 last ds2 /\ o = OpList DRoot /\ r = RList ds3 fs3
                                              /\ optid_eqb (max_id (band_ids ds3)) last = true)).
      { destruct o as [f|f p m|d|d|f|f|d]; cbn in Ho; try contradiction.
        - left. destruct (gph h2); try discriminate E2; exact E2.
        - destruct (gph h2) as [|l|l|l|l ds|l|] eqn:Eg2; cbn [gstep] in E2; try discriminate E2.
          + destruct d; try discriminate E2. destruct r; try discriminate E2. destruct (max_id _); discriminate E2.
          + destruct d; try discriminate E2. destruct r; discriminate E2.
          + destruct d; try discriminate E2. destruct r as [| | |ds3 fs3|]; try discriminate E2.
            destruct (optid_eqb (max_id (band_ids ds3)) l) eqn:Echk; [|discriminate E2].
            inversion E2; subst. right. exists ds, ds3, fs3. auto.
          + left. exact E2.
        - destruct (gph h2) as [|l|l|l|l ds|l|] eqn:Eg2; cbn [gstep] in E2; try discriminate E2.
          + destruct f; try discriminate E2. destruct r as [| | | |[|]]; try discriminate E2. destruct (N.eqb _ _); discriminate E2.
          + left. exact E2. }
      destruct Hcase as [E2'|(ds2 & ds3 & fs3 & E2' & -> & Er & Echk)].
      + destruct (i_GA _ _ _ _ _ HI last E2') as (G1 & G2). split.
        * intros b n es G. destruct (G1 b n es G) as [H|H]; [left; exact H | right].
          eapply incl_tran; [exact H | apply refd_mono_snoc].
        * intros b Hin. apply In_snoc in Hin. destruct Hin as [Hin|Hin]; [apply G2; exact Hin|].
          exfalso. eapply Hnew_rm; eauto.
      + rewrite Er. eapply arming; eauto.
  Qed.
End Step2r.



Section Step2w.
  Variable pre : bytes -> N.
  Variable ids : list N.
  Notation Inv := (Inv pre ids).

  (* ---- taking and releasing GC_LOCK: only that file changes ---- *)
  Lemma step2_lockop a h1 h2 o :
    Inv a h1 h2 -> o = OpWrite PLock PlJson CreateNew \/ o = OpRemoveFile PLock ->
    Inv (fst (exec pre a o NoFault)) h1 (h2 ++ [(o, snd (exec pre a o NoFault))]).
  Proof.
    intros HI Ho.
    set (a' := fst (exec pre a o NoFault)). set (r := snd (exec pre a o NoFault)).
    assert (Hst : WF pre a' /\ (forall x, has_dir a' x = has_dir a x)
                  /\ (forall g, g <> PLock -> get a' g = get a g)
                  /\ (lock_held (gstep (gph h2) (o, r)) -> get a' PLock <> None)).
    { destruct Ho as [-> | ->].
      - destruct (exec_write pre a PLock PlJson) as (D1 & D2 & D3 & D4 & D5).
        split; [apply WF_write, HI|]. split; [intros x; unfold has_dir, a'; rewrite D1; reflexivity|].
        split; [exact D2|]. intros Hl.
        destruct (reply_ROk_dec r) as [Ok|Nok].
        + destruct (D3 Ok) as (G & _). unfold a'. rewrite G. discriminate.
        + unfold a'. rewrite (D4 Nok). apply (i_lock _ _ _ _ _ HI).
          destruct (gph h2); cbn [gstep] in Hl; try exact Hl. destruct r; try exact Hl. destruct (Nok eq_refl).
      - destruct (exec_rmfile pre a PLock) as (D1 & D2 & D3).
        split; [apply WF_rmfile, HI|]. split; [intros x; unfold has_dir, a'; rewrite D1; reflexivity|].
        split.
        + intros g Hg. unfold a'. rewrite D2. destruct (fpath_eqb_spec g PLock); [contradiction | reflexivity].
        + intros Hl. exfalso. destruct (gph h2); exact Hl. }
    destruct Hst as (HW & Hd & Hg & Hlk).
    assert (Eg : gph (h2 ++ [(o, r)]) = gstep (gph h2) (o, r)) by apply gph_snoc.
    (* phases *)
    assert (Pp : pre_armed (gstep (gph h2) (o, r)) -> pre_armed (gph h2)).
    { destruct Ho as [-> | ->]; destruct (gph h2); cbn; auto. }
    assert (Pe : early (gstep (gph h2) (o, r)) -> early (gph h2)).
    { destruct Ho as [-> | ->]; destruct (gph h2); cbn; auto. }
    assert (Pg : forall l, glast (gstep (gph h2) (o, r)) l -> glast (gph h2) l).
    { intros l. destruct Ho as [-> | ->]; destruct (gph h2) as [|l'|last|last|last ds2|last|]; cbn [gstep]; auto;
        try contradiction. destruct r; auto. }
    assert (Pr : forall bp id, rel_last (gph h2) bp id -> rel_last (gstep (gph h2) (o, r)) bp id).
    { intros bp id. destruct Ho as [-> | ->]; destruct (gph h2) as [|l'|last|last|last ds2|last|]; cbn [gstep]; auto;
        try (intros _; exact I). destruct r; auto. }
    assert (P2 : forall last ds2, gstep (gph h2) (o, r) = GL2 last ds2 -> gph h2 = GL2 last ds2).
    { intros last ds2. destruct Ho as [-> | ->]; destruct (gph h2); cbn [gstep]; auto; try discriminate.
      destruct r; auto; discriminate. }
    assert (PA : forall last, gstep (gph h2) (o, r) = GA last -> gph h2 = GA last).
    { intros last. destruct Ho as [-> | ->]; destruct (gph h2); cbn [gstep]; auto; try discriminate.
      destruct r; auto; discriminate. }
    assert (Hnew : forall o' r', In (o', r') (h2 ++ [(o, r)]) ->
                                 In (o', r') h2 \/ (o' = o /\ band_read_op o' = false /\ forall d, o' <> OpRemoveDirAll d)).
    { intros o' r' Hin. apply In_snoc in Hin. destruct Hin as [Hin|Hin]; [left; exact Hin|].
      right. inversion Hin. split; [reflexivity|]. destruct Ho as [-> | ->]; split; try reflexivity; discriminate. }
    assert (Hblock : forall c, block_ok a c -> block_ok a' c) by (intros c; unfold block_ok; rewrite Hg; [auto | discriminate]).
    constructor.
    - exact HW.
    - intros c x G. rewrite Hg in G by discriminate. eapply (i_bwf _ _ _ _ _ HI); eauto.
    - intros b Hb. apply (band_refs_ok_tr a a'); [intros n y; rewrite Hg by discriminate; auto | exact Hblock|].
      apply (i_safe _ _ _ _ _ HI). apply (band_complete_ext a a'); [| |exact Hb]; apply Hg; discriminate.
    - rewrite Eg. exact Hlk.
    - intros E0 ds fs Hin b Hb. rewrite Hd in Hb. eapply (i_b0 _ _ _ _ _ HI); eauto.
    - apply HI.
    - intros id Hact. destruct (i_act _ _ _ _ _ HI id Hact) as (A1 & A2 & A3 & A4 & A5).
      split; [rewrite Hg by discriminate; exact A1|]. split.
      { apply (band_refs_ok_tr a a'); [intros n y; rewrite Hg by discriminate; auto | exact Hblock | exact A2]. }
      split; [intros b Hb; rewrite Hd in Hb; auto|]. rewrite Eg.
      split; [intros Hp; rewrite Hd; auto | auto].
    - intros id E n. rewrite Hg by discriminate. eapply (i_b1 _ _ _ _ _ HI); eauto.
    - intros id E c Hc. apply Hblock. eapply (i_b2 _ _ _ _ _ HI); eauto.
    - rewrite Eg. intros l Hl. rewrite Hd. apply (i_glast _ _ _ _ _ HI). auto.
    - rewrite Eg. intros He o' r' Hin. destruct (Hnew _ _ Hin) as [H|(_ & H & _)]; [|exact H].
      eapply (i_nbr _ _ _ _ _ HI); eauto.
    - rewrite Eg. intros Hp d r' Hin. destruct (Hnew _ _ Hin) as [H|(_ & _ & H)]; [|eapply H; reflexivity].
      eapply (i_nrm _ _ _ _ _ HI); eauto.
    - rewrite Eg. intros last ds2 E2. apply P2 in E2.
      destruct (i_T _ _ _ _ _ HI last ds2 E2) as (T0 & T1 & T2 & T3).
      split; [|split; [|split]].
      + intros b Hb Hx. rewrite Hd in Hx. auto.
      + intros b dsI fsI Hin Hb s Hs. rewrite Hd in Hs.
        destruct (Hnew _ _ Hin) as [H|(_ & H & _)]; [eapply T1; eauto | discriminate H].
      + intros b s dss fss Hin Hb n x G. rewrite Hg in G by discriminate.
        destruct (Hnew _ _ Hin) as [H|(_ & H & _)]; [eapply T2; eauto | discriminate H].
      + intros b n x Hin Hb y G. rewrite Hg in G by discriminate.
        destruct (Hnew _ _ Hin) as [H|(_ & H & _)]; [eapply T3; eauto | discriminate H].
    - rewrite Eg. intros last E2. apply PA in E2. destruct (i_GA _ _ _ _ _ HI last E2) as (G1 & G2). split.
      + intros b n es G. rewrite Hg in G by discriminate. destruct (G1 b n es G) as [H|H]; [left; exact H | right].
        eapply incl_tran; [exact H | apply refd_mono_snoc].
      + intros b Hin n. rewrite Hg by discriminate.
        destruct (Hnew _ _ Hin) as [H|(_ & _ & H)]; [apply G2; exact H | destruct (H _ eq_refl)].
  Qed.

  (* ---- removing a band directory ---- *)
  Lemma step2_rmband a h1 h2 b :
    Inv a h1 h2 -> in_GA h2 ->
    Inv (fst (exec pre a (OpRemoveDirAll (DBand b)) NoFault)) h1
        (h2 ++ [(OpRemoveDirAll (DBand b), snd (exec pre a (OpRemoveDirAll (DBand b)) NoFault))]).
  Proof.
    intros HI [last EA].
    set (o := OpRemoveDirAll (DBand b)).
    set (a' := fst (exec pre a o NoFault)). set (r := snd (exec pre a o NoFault)).
    destruct (exec_rmband pre a b) as (D1 & D2 & D3). fold o a' r in D1, D2, D3.
    assert (Eg : gph (h2 ++ [(o, r)]) = GA last) by (rewrite gph_snoc, EA; reflexivity).
    (* what is still there was there; what was outside the band is untouched *)
    assert (Hsub_d : forall x, has_dir a' x = true -> has_dir a x = true).
    { intros x Hx. destruct (reply_ROk_dec r) as [Ok|Nok]; [|rewrite (D1 Nok) in Hx; exact Hx].
      destruct (D2 Ok) as [Hd _]. rewrite Hd in Hx. apply andb_true_iff in Hx. apply Hx. }
    assert (Hsub_f : forall g y, get a' g = Some y -> get a g = Some y).
    { intros g y G. destruct (reply_ROk_dec r) as [Ok|Nok]; [|rewrite (D1 Nok) in G; exact G].
      destruct (D2 Ok) as [_ Hg]. rewrite Hg in G. destruct (in_band b g); [discriminate | exact G]. }
    assert (Hout : forall g, in_band b g = false -> get a' g = get a g).
    { intros g Hb. destruct (reply_ROk_dec r) as [Ok|Nok]; [|rewrite (D1 Nok); reflexivity].
      destruct (D2 Ok) as [_ Hg]. rewrite Hg, Hb. reflexivity. }
    assert (Hnone : forall g, get a g = None -> get a' g = None).
    { intros g G. destruct (get a' g) eqn:G'; [|reflexivity]. apply Hsub_f in G'. congruence. }
    assert (Hgone : r = ROk -> forall g, in_band b g = true -> get a' g = None).
    { intros Ok g Hb. destruct (D2 Ok) as [_ Hg]. rewrite Hg, Hb. reflexivity. }
    assert (Hblock : forall c, block_ok a c -> block_ok a' c) by (intros c; unfold block_ok; rewrite Hout; auto).
    assert (Hrefs : forall b', band_refs_ok a b' -> band_refs_ok a' b').
    { intros b'. apply band_refs_ok_tr; [intros n y; apply Hsub_f | exact Hblock]. }
    constructor.
    - apply WF_rmband. apply HI.
    - intros c x G. apply Hsub_f in G. eapply (i_bwf _ _ _ _ _ HI); eauto.
    - intros b' Hb'. apply Hrefs. apply (i_safe _ _ _ _ _ HI).
      destruct Hb' as [Hh [m Hm]]. split; [apply Hsub_f; exact Hh | exists m; apply Hsub_f; exact Hm].
    - rewrite Eg. intros _. rewrite Hout by reflexivity. apply (i_lock _ _ _ _ _ HI). rewrite EA. exact I.
    - intros E0 ds fs Hin b' Hb'. apply Hsub_d in Hb'. eapply (i_b0 _ _ _ _ _ HI); eauto.
    - apply HI.
    - intros id Hact. destruct (i_act _ _ _ _ _ HI id Hact) as (A1 & A2 & A3 & A4 & A5).
      split; [apply Hnone; exact A1|]. split; [apply Hrefs; exact A2|].
      split; [intros b' Hb'; apply A3, Hsub_d, Hb'|]. rewrite Eg. rewrite EA in A5.
      split; [intros []| exact A5].
    - intros id E n. apply Hnone. eapply (i_b1 _ _ _ _ _ HI); eauto.
    - intros id E c Hc. apply Hblock. eapply (i_b2 _ _ _ _ _ HI); eauto.
    - rewrite Eg. intros l [].
    - rewrite Eg. intros [].
    - rewrite Eg. intros [].
    - rewrite Eg. intros l ds2 E. discriminate E.
    - intros last' _. destruct (i_GA _ _ _ _ _ HI last EA) as (G1 & G2). split.
      + intros b' n es G. apply Hsub_f in G. destruct (G1 b' n es G) as [H|H]; [left; exact H | right].
        eapply incl_tran; [exact H | apply refd_mono_snoc].
      + intros b' Hin n. apply In_snoc in Hin. destruct Hin as [Hin|Hin]; [apply Hnone, G2, Hin|].
        inversion Hin; subst b'. apply Hgone; [congruence|]. cbn. apply N.eqb_refl.
  Qed.

  (* ---- removing an unreferenced block ---- *)
  Lemma step2_rmblock a h1 h2 c :
    Inv a h1 h2 -> in_GA h2 -> ~ In c (refd h2) ->
    (forall b, In b ids -> In (OpRemoveDirAll (DBand b), ROk) h2) ->
    Inv (fst (exec pre a (OpRemoveFile (PBlock c)) NoFault)) h1
        (h2 ++ [(OpRemoveFile (PBlock c), snd (exec pre a (OpRemoveFile (PBlock c)) NoFault))]).
  Proof.
    intros HI [last EA] Hc Hrm.
    set (o := OpRemoveFile (PBlock c)).
    set (a' := fst (exec pre a o NoFault)). set (r := snd (exec pre a o NoFault)).
    destruct (exec_rmfile pre a (PBlock c)) as (D1 & D2 & D3). fold o a' in D1, D2, D3.
    assert (Eg : gph (h2 ++ [(o, r)]) = GA last) by (rewrite gph_snoc, EA; reflexivity).
    assert (Hd : forall x, has_dir a' x = has_dir a x) by (intros x; unfold has_dir; rewrite D1; reflexivity).
    assert (Hg : forall g, (forall c', g <> PBlock c') -> get a' g = get a g).
    { intros g Hne. rewrite D2. destruct (fpath_eqb_spec g (PBlock c)) as [E|_]; [destruct (Hne c E) | reflexivity]. }
    destruct (i_GA _ _ _ _ _ HI last EA) as (G1 & G2).
    (* no hunk anywhere names the block being removed *)
    assert (Hkeep : forall b n es c', get a (PHunk b n) = Some (Good (PlHunk es)) -> In c' (names es) -> c' <> c).
    { intros b n es c' G Hc' ->. destruct (G1 b n es G) as [Hin|Hincl].
      - rewrite (G2 b (Hrm b Hin) n) in G. discriminate G.
      - apply Hc, Hincl, Hc'. }
    assert (Hrefs : forall b, band_refs_ok a b -> band_refs_ok a' b).
    { intros b Hb n es e ad G He Had. rewrite Hg in G by discriminate.
      assert (Hne : a_hash ad <> c) by (eapply Hkeep; [exact G | apply names_In; eauto]).
      unfold block_ok. rewrite D2. destruct (fpath_eqb_spec (PBlock (a_hash ad)) (PBlock c)) as [E|_]; [congruence|].
      eapply Hb; eauto. }
    constructor.
    - apply WF_rmfile. apply HI.
    - intros c' x G. rewrite D2 in G. destruct (fpath_eqb (PBlock c') (PBlock c)); [discriminate|].
      eapply (i_bwf _ _ _ _ _ HI); eauto.
    - intros b Hb. apply Hrefs. apply (i_safe _ _ _ _ _ HI).
      apply (band_complete_ext a a'); [| |exact Hb]; apply Hg; discriminate.
    - rewrite Eg. intros _. rewrite Hg by discriminate. apply (i_lock _ _ _ _ _ HI). rewrite EA. exact I.
    - intros E0 ds fs Hin b Hb. rewrite Hd in Hb. eapply (i_b0 _ _ _ _ _ HI); eauto.
    - apply HI.
    - intros id Hact. destruct (i_act _ _ _ _ _ HI id Hact) as (A1 & A2 & A3 & A4 & A5).
      split; [rewrite Hg by discriminate; exact A1|]. split; [apply Hrefs; exact A2|].
      split; [intros b Hb; rewrite Hd in Hb; auto|]. rewrite Eg. rewrite EA in A5. split; [intros [] | exact A5].
    - intros id E n. rewrite Hg by discriminate. eapply (i_b1 _ _ _ _ _ HI); eauto.
    - intros id E c' Hc'. exfalso.
      destruct (i_act _ _ _ _ _ HI id (or_intror E)) as (_ & _ & _ & _ & A5). rewrite EA in A5. cbn in A5. congruence.
    - rewrite Eg. intros l [].
    - rewrite Eg. intros [].
    - rewrite Eg. intros [].
    - rewrite Eg. intros l ds2 E. discriminate E.
    - intros last' _. split.
      + intros b n es G. rewrite Hg in G by discriminate. destruct (G1 b n es G) as [H|H]; [left; exact H | right].
        eapply incl_tran; [exact H | apply refd_mono_snoc].
      + intros b Hin n. rewrite Hg by discriminate. apply In_snoc in Hin.
        destruct Hin as [Hin|Hin]; [apply G2, Hin | discriminate Hin].
  Qed.

  (* ---- every step of the collector keeps the invariant ---- *)
  Theorem step2 a h1 h2 o :
    Inv a h1 h2 -> gc_class ids h2 o ->
    Inv (fst (exec pre a o NoFault)) h1 (h2 ++ [(o, snd (exec pre a o NoFault))]).
  Proof.
    intros HI Hc.
    assert (Hread : reads_only o -> Inv (fst (exec pre a o NoFault)) h1 (h2 ++ [(o, snd (exec pre a o NoFault))])).
    { intros Ho. rewrite (exec_reads_state pre a o Ho). apply step2_read; assumption. }
    destruct o as [f|f p m|d|d|f|f|d]; try (apply Hread; exact I).
    - destruct Hc as [_ Hc]. destruct f; try contradiction. destruct p; try contradiction. destruct m; try contradiction.
      apply step2_lockop; auto.
    - destruct Hc as [_ Hc]. contradiction.
    - destruct Hc as [_ Hc]. destruct f; try contradiction.
      + apply step2_lockop; auto.
      + destruct Hc as (H1 & H2 & H3). apply step2_rmblock; assumption.
    - destruct Hc as [_ Hc]. destruct d; try contradiction. destruct Hc as [_ HA]. apply step2_rmband; assumption.
  Qed.
End Step2w.

(* ------------------------------------------------------------------------- *)
(** * 7. C06: every interleaving of a backup with a delete / gc is safe       *)
(* ------------------------------------------------------------------------- *)

Theorem gc_backup_inv : forall pre c src ids hint a0 sigma,
  WF pre a0 -> Safe a0 -> BlocksWF a0 ->
  let x := run2 pre (backup_prog pre c src) (delete_prog ids false false hint) a0 sigma in
  Inv pre ids (st2 x) (proj false (tr2 x)) (proj true (tr2 x)).
Proof.
  intros pre c src ids hint a0 sigma HW HS HB x.
  apply (run2_inv pre bk_class (gc_class ids) (Inv pre ids) (step1 pre ids) (step2 pre ids)
           (backup_prog pre c src) (delete_prog ids false false hint) a0 sigma [] []).
  - apply backup_class.
  - apply delete_class.
  - apply Inv_init; assumption.
Qed.

(* MAIN THEOREM.  For every schedule (no bound on preemptions), once both have finished (or
   given up), every band marked complete has every block its index names; the archive is
   still well formed.  No hypothesis on GC_LOCK is needed: a stale lock makes both refuse. *)
Theorem gc_backup_safe : forall pre c src ids hint a0 sigma,
  WF pre a0 -> Safe a0 -> BlocksWF a0 ->
  let '(tr, a, o1, o2) := run2 pre (backup_prog pre c src) (delete_prog ids false false hint) a0 sigma in
  Safe a /\ WF pre a /\ BlocksWF a.
Proof.
  intros pre c src ids hint a0 sigma HW HS HB.
  pose proof (gc_backup_inv pre c src ids hint a0 sigma HW HS HB) as H. cbv zeta in H.
  destruct (run2 pre (backup_prog pre c src) (delete_prog ids false false hint) a0 sigma) as [[[tr a] o1] o2].
  unfold st2 in H. cbn [fst snd] in H. split; [apply H|]. split; apply H.
Qed.



(* ------------------------------------------------------------------------- *)
(** * 11. The ghosts, read back on the raw histories                          *)
(* ------------------------------------------------------------------------- *)

(* the band was created, and AFTER that a listing of the root showed no GC_LOCK *)
Definition checked_after_mkdir (h : hist) (id : N) : Prop :=
  exists h1 h2 ds fs, h = h1 ++ (OpMkdir (DBand id), ROk) :: h2
                      /\ In (OpList DRoot, RList ds fs) h2 /\ has_lock fs = false.

Lemma bph_decode h :
  match bph h with
  | B0 => True
  | B1 id => exists h1 h2, h = h1 ++ (OpMkdir (DBand id), ROk) :: h2
  | B2 id | B3 id => checked_after_mkdir h id
  end.
Proof.
  induction h as [|x h IH] using rev_ind; [exact I|].
  rewrite bph_snoc.
  assert (K1 : forall id, (exists h1 h2, h = h1 ++ (OpMkdir (DBand id), ROk) :: h2) ->
                          exists h1 h2, h ++ [x] = h1 ++ (OpMkdir (DBand id), ROk) :: h2).
  { intros id (h1 & h2 & ->). exists h1, (h2 ++ [x]). rewrite <- app_assoc. reflexivity. }
  assert (K2 : forall id, checked_after_mkdir h id -> checked_after_mkdir (h ++ [x]) id).
  { intros id (h1 & h2 & ds & fs & -> & Hin & Hl). exists h1, (h2 ++ [x]), ds, fs.
    split; [rewrite <- app_assoc; reflexivity|]. split; [apply in_or_app; left; exact Hin | exact Hl]. }
  destruct x as [o r]. destruct (bph h) as [|id|id|id] eqn:Eb; cbn [bphase_step].
  - destruct o as [f|f p m|d|d|f|f|d]; try exact I. destruct d; try exact I. destruct r; try exact I.
    exists h, []. reflexivity.
  - destruct o as [f|f p m|d|d|f|f|d]; try (apply K1; exact IH).
    destruct d; try (apply K1; exact IH). destruct r as [| | |ds fs|]; try (apply K1; exact IH).
    destruct (has_lock fs) eqn:El; [apply K1; exact IH|].
    destruct IH as (h1 & h2 & ->). exists h1, (h2 ++ [(OpList DRoot, RList ds fs)]), ds, fs.
    split; [rewrite <- app_assoc; reflexivity|]. split; [apply in_or_app; right; left; reflexivity | exact El].
  - destruct o as [f|f p m|d|d|f|f|d]; try (apply K2; exact IH).
    destruct f; try (apply K2; exact IH). destruct r; apply K2; exact IH.
  - apply K2; exact IH.
Qed.

(* a block the backup believes to exist was listed (non-empty) or written by itself, in phase B2 *)
Lemma Kn_decode h c :
  In c (Kn h) ->
  (exists id, bph h = B2 id \/ bph h = B3 id)
  /\ ((exists s ds fs, In (OpList (DBlockSub s), RList ds fs) h /\ In (PBlock c, true) fs)
      \/ (exists p m, In (OpWrite (PBlock c) p m, ROk) h)).
Proof.
  induction h as [|x h IH] using rev_ind; [intros []|].
  rewrite Kn_snoc, bph_snoc. intros Hc.
  assert (K : In c (Kn h) ->
    (exists s ds fs, In (OpList (DBlockSub s), RList ds fs) (h ++ [x]) /\ In (PBlock c, true) fs)
    \/ (exists p m, In (OpWrite (PBlock c) p m, ROk) (h ++ [x]))).
  { intros H. destruct (IH H) as [_ [(s & ds & fs & H1 & H2)|(p & m & H1)]].
    - left. exists s, ds, fs. split; [apply in_or_app; left; exact H1 | exact H2].
    - right. exists p, m. apply in_or_app. left. exact H1. }
  destruct x as [o r]. destruct (bph h) as [|id|id|id] eqn:Eb; cbn [bknown_step] in Hc.
  - destruct (IH Hc) as [[id [E|E]] _]; discriminate E.
  - destruct (IH Hc) as [[id' [E|E]] _]; discriminate E.
  - split.
    { exists id. cbn [bphase_step]. destruct o as [f|f p m|d|d|f|f|d]; auto. destruct f; auto. destruct r; auto. }
    destruct o as [f|f p m|d|d|f|f|d]; auto.
    + destruct f; auto. destruct r; auto. destruct Hc as [<-|Hc]; auto.
      right. exists p, m. apply in_or_app. right. left. reflexivity.
    + destruct d; auto. destruct r as [| | |ds fs|]; auto. apply in_app_or in Hc. destruct Hc as [Hc|Hc]; auto.
      left. exists s, ds, fs. split; [apply in_or_app; right; left; reflexivity|].
      apply (listed_blocks_In fs c). exact Hc.
  - split; [exists id; right; reflexivity | auto].
Qed.

(* SHAPE OF THE BACKUP, on its raw history: an index hunk is written only after the band
   directory was created and a LATER listing of the root showed no GC_LOCK; every block it names
   was listed non-empty after that check or successfully written by the backup itself *)
Theorem backup_hunk_write_shape h b n es m :
  bk_class h (OpWrite (PHunk b n) (PlHunk es) m) ->
  m = CreateNew /\ checked_after_mkdir h b
  /\ forall e ad, In e es -> In ad (e_addrs e) ->
       (exists s ds fs, In (OpList (DBlockSub s), RList ds fs) h /\ In (PBlock (a_hash ad), true) fs)
       \/ (exists p m', In (OpWrite (PBlock (a_hash ad)) p m', ROk) h).
Proof.
  intros [_ Hc]. destruct m; [|contradiction]. destruct Hc as [E Hes].
  split; [reflexivity|]. split.
  - pose proof (bph_decode h) as D. rewrite E in D. exact D.
  - intros e ad He Had. apply (Kn_decode h). apply Hes. apply names_In. eauto.
Qed.

Theorem backup_tail_write_shape h b pl m :
  bk_class h (OpWrite (PTail b) pl m) -> m = CreateNew /\ checked_after_mkdir h b.
Proof.
  intros [_ Hc]. destruct pl; try contradiction. destruct m; [|contradiction].
  split; [reflexivity|]. pose proof (bph_decode h) as D. rewrite Hc in D. exact D.
Qed.

(* ---- the collector ---- *)
Definition first_last (h : hist) (last : option N) : Prop :=
  exists ds fs, In (OpList DRoot, RList ds fs) h /\ max_id (band_ids ds) = last.
Definition tail_seen (h : hist) (last : option N) : Prop :=
  forall l, last = Some l -> In (OpMeta (PTail l), RMeta true) h.
Definition lock_taken (h : hist) : Prop :=
  exists h1 h2 p m, h = h1 ++ (OpWrite PLock p m, ROk) :: h2 /\ forall r, ~ In (OpRemoveFile PLock, r) h2.
(* after taking the lock, and without having released it, a listing of the root showed the same
   newest band as the first listing *)
Definition check_passed (h : hist) (last : option N) : Prop :=
  exists h1 h2 p m ds fs, h = h1 ++ (OpWrite PLock p m, ROk) :: h2
                          /\ (forall r, ~ In (OpRemoveFile PLock, r) h2)
                          /\ In (OpList DRoot, RList ds fs) h2 /\ max_id (band_ids ds) = last.

Lemma optid_eqb_true' x y : optid_eqb x y = true -> x = y.
Proof.
  destruct x, y; cbn; try discriminate; auto. intros H. apply N.eqb_eq in H. congruence.
Qed.

Lemma gph_decode h :
  match gph h with
  | G0 | GD => True
  | Gs l => first_last h (Some l)
  | Gt last => first_last h last /\ tail_seen h last
  | GL1 last | GL2 last _ => first_last h last /\ tail_seen h last /\ lock_taken h
  | GA last => first_last h last /\ tail_seen h last /\ check_passed h last
  end.
Proof.
  induction h as [|x h IH] using rev_ind; [exact I|].
  rewrite gph_snoc.
  assert (F : forall last, first_last h last -> first_last (h ++ [x]) last).
  { intros last (ds & fs & H1 & H2). exists ds, fs. split; [apply in_or_app; left; exact H1 | exact H2]. }
  assert (T : forall last, tail_seen h last -> tail_seen (h ++ [x]) last).
  { intros last H l E. apply in_or_app. left. apply H. exact E. }
  assert (L : (forall r, x <> (OpRemoveFile PLock, r)) -> lock_taken h -> lock_taken (h ++ [x])).
  { intros Hx (h1 & h2 & p & m & -> & H2). exists h1, (h2 ++ [x]), p, m.
    split; [rewrite <- app_assoc; reflexivity|].
    intros r Hin. apply In_snoc in Hin. destruct Hin as [Hin|Hin]; [eapply H2; eauto | symmetry in Hin; eapply Hx; eauto]. }
  assert (CP : forall last, (forall r, x <> (OpRemoveFile PLock, r)) -> check_passed h last -> check_passed (h ++ [x]) last).
  { intros last Hx (h1 & h2 & p & m & ds & fs & -> & H0 & H1 & H2). exists h1, (h2 ++ [x]), p, m, ds, fs.
    split; [rewrite <- app_assoc; reflexivity|]. split.
    - intros r Hin. apply In_snoc in Hin. destruct Hin as [Hin|Hin]; [eapply H0; eauto | symmetry in Hin; eapply Hx; eauto].
    - split; [apply in_or_app; left; exact H1 | exact H2]. }
  destruct x as [o r]. destruct (gph h) as [|l|last|last|last ds2|last|] eqn:Eg; cbn [gstep].
  - destruct o as [f|f p m|d|d|f|f|d]; try exact I. destruct d; try exact I. destruct r as [| | |ds fs|]; try exact I.
    destruct (max_id (band_ids ds)) as [l|] eqn:Em.
    + exists ds, fs. split; [apply in_or_app; right; left; reflexivity | exact Em].
    + split; [exists ds, fs; split; [apply in_or_app; right; left; reflexivity | exact Em]|]. intros l E. discriminate E.
  - destruct o as [f|f p m|d|d|f|f|d]; try (apply F; exact IH). destruct f; try (apply F; exact IH).
    destruct r as [| | | |[|]]; try (apply F; exact IH).
    destruct (N.eqb_spec b l) as [->|Ne]; [|apply F; exact IH].
    split; [apply F; exact IH|]. intros l' E. inversion E; subst. apply in_or_app. right. left. reflexivity.
  - destruct IH as [I1 I2].
    destruct o as [f|f p m|d|d|f|f|d]; try (split; auto; fail). destruct f; try (split; auto; fail).
    destruct r; try (split; auto; fail).
    split; [auto|]. split; [auto|]. exists h, [], p, m. split; [reflexivity | intros r []].
  - destruct IH as (I1 & I2 & I3).
    assert (Same : (forall r', (o, r) <> (OpRemoveFile PLock, r')) ->
                   first_last (h ++ [(o, r)]) last /\ tail_seen (h ++ [(o, r)]) last /\ lock_taken (h ++ [(o, r)]))
      by (intros Hx; split; [auto | split; auto]).
    destruct o as [f|f p m|d|d|f|f|d]; try (apply Same; intros r' E; discriminate E).
    + destruct d; try (apply Same; intros r' E; discriminate E).
      destruct r; apply Same; intros r' E; discriminate E.
    + destruct f; try (apply Same; intros r' E; discriminate E). exact I.
  - destruct IH as (I1 & I2 & I3).
    assert (Same : (forall r', (o, r) <> (OpRemoveFile PLock, r')) ->
                   first_last (h ++ [(o, r)]) last /\ tail_seen (h ++ [(o, r)]) last /\ lock_taken (h ++ [(o, r)]))
      by (intros Hx; split; [auto | split; auto]).
    destruct o as [f|f p m|d|d|f|f|d]; try (apply Same; intros r' E; discriminate E).
    + destruct d; try (apply Same; intros r' E; discriminate E).
      destruct r as [| | |ds3 fs3|]; try (apply Same; intros r' E; discriminate E).
      destruct (optid_eqb (max_id (band_ids ds3)) last) eqn:Echk; [|apply Same; intros r' E; discriminate E].
      split; [auto|]. split; [auto|].
      destruct I3 as (h1 & h2 & p & m & -> & H2).
      exists h1, (h2 ++ [(OpList DRoot, RList ds3 fs3)]), p, m, ds3, fs3.
      split; [rewrite <- app_assoc; reflexivity|]. split.
      * intros r' Hin. apply In_snoc in Hin. destruct Hin as [Hin|Hin]; [eapply H2; eauto | discriminate Hin].
      * split; [apply in_or_app; right; left; reflexivity | apply optid_eqb_true'; exact Echk].
    + destruct f; try (apply Same; intros r' E; discriminate E). exact I.
  - destruct IH as (I1 & I2 & I3).
    assert (Same : (forall r', (o, r) <> (OpRemoveFile PLock, r')) ->
                   first_last (h ++ [(o, r)]) last /\ tail_seen (h ++ [(o, r)]) last /\ check_passed (h ++ [(o, r)]) last)
      by (intros Hx; split; [auto | split; auto]).
    destruct o as [f|f p m|d|d|f|f|d]; try (apply Same; intros r' E; discriminate E).
    destruct f; try (apply Same; intros r' E; discriminate E). exact I.
  - exact I.
Qed.

(* SHAPE OF THE COLLECTOR, on its raw history: a block is removed only if the first listing of
   the root gave [last]; the newest band had a non-empty tail; GC_LOCK was then written
   successfully and not released since; a later listing of the root gave the same [last]; every
   band of [ids] has been removed; and no index hunk the collector read names the block *)
Theorem collector_block_removal_shape ids h c :
  gc_class ids h (OpRemoveFile (PBlock c)) ->
  exists last, first_last h last /\ tail_seen h last /\ check_passed h last
               /\ (forall b, In b ids -> In (OpRemoveDirAll (DBand b), ROk) h)
               /\ (forall b n es e ad, In (OpRead (PHunk b n), RData (Good (PlHunk es))) h ->
                     In e es -> In ad (e_addrs e) -> a_hash ad <> c).
Proof.
  intros [_ ([last Eg] & Hc & Hrm)]. exists last.
  pose proof (gph_decode h) as D. rewrite Eg in D. destruct D as (D1 & D2 & D3).
  split; [exact D1|]. split; [exact D2|]. split; [exact D3|]. split; [exact Hrm|].
  intros b n es e ad Hin He Had E. apply Hc. unfold refd. apply in_flat_map.
  exists (OpRead (PHunk b n), RData (Good (PlHunk es))). split; [exact Hin|].
  cbn [refd_of]. apply names_In. eauto.
Qed.

Theorem collector_band_removal_shape ids h b :
  gc_class ids h (OpRemoveDirAll (DBand b)) ->
  In b ids /\ exists last, first_last h last /\ tail_seen h last /\ check_passed h last.
Proof.
  intros [_ (Hb & [last Eg])]. split; [exact Hb|]. exists last.
  pose proof (gph_decode h) as D. rewrite Eg in D. exact D.
Qed.

(* the two classes, on the merged trace of any interleaving *)
Theorem shapes_run2 pre c src ids hint a0 sigma :
  let x := run2 pre (backup_prog pre c src) (delete_prog ids false false hint) a0 sigma in
  (forall i o r, nth_error (proj false (tr2 x)) i = Some (o, r) -> bk_class (firstn i (proj false (tr2 x))) o)
  /\ (forall i o r, nth_error (proj true (tr2 x)) i = Some (o, r) -> gc_class ids (firstn i (proj true (tr2 x))) o).
Proof.
  cbv zeta. apply (emits_h_sound2 pre bk_class (gc_class ids)); [apply backup_class | apply delete_class].
Qed.



Section Old.
  Variable pre : bytes -> N.
  (* [backup_prog] as it was before "fix: a backup could deduplicate against blocks a concurrent
     gc then deleted": GC_LOCK is examined once, before the band is created *)
  Definition backup_prog_old (c : cfg) (src : list sitem) : prog bres :=
    open_archive (
    Do (OpMeta PLock) (fun r =>
      match r with
      | RErr ENotFound =>
          Do (OpList DRoot) (fun r1 =>
            match r1 with
            | RList ds1 _ =>
                let basis := max_id (band_ids ds1) in
                Do (OpList DRoot) (fun r2 =>
                  match r2 with
                  | RList ds2 _ =>
                      let id := match max_id (band_ids ds2) with Some m => m + 1 | None => 0 end in
                      Do (OpMkdir (DBand id)) (fun r3 => if is_ok r3 then
                      Do (OpMkdir (DIndex id)) (fun r4 => if is_ok r4 then
                      Do (OpWrite (PHead id) (PlHead HvOk) CreateNew) (fun r5 => if is_ok r5 then
                      Do (OpList DBlocks) (fun r6 =>
                        match r6 with
                        | RList ds3 _ =>
                            list_blocks (block_subdirs ds3) [] false (fun o =>
                              match o with
                              | Some ex =>
                                  let w := {| w_band := id; w_entries := []; w_seq := 0; w_hunks := 0;
                                              w_buf := []; w_queue := []; w_fin := []; w_exists := ex;
                                              w_errors := 0; w_merr := 0; w_written := 0; w_deleted := 0 |} in
                                  merge_loop pre c src None
                                    (match basis with Some b => SBefore (N.to_nat b) | None => SDone end) None w
                              | None => Ret fail0
                              end)
                        | _ => Ret fail0
                        end)
                      else Ret fail0) else Ret fail0) else Ret fail0)
                  | _ => Ret fail0
                  end)
            | _ => Ret fail0
            end)
      | _ => Ret fail0
      end)).
End Old.


(* ------------------------------------------------------------------------- *)
(** * 8. Kept bands stay                                                      *)
(* ------------------------------------------------------------------------- *)
Section Kept.
  Variable pre : bytes -> N.
  Variable ids : list N.
  Variable b : N.
  Hypothesis Hb : ~ In b ids.

  (* the non-empty files of band [b] in [a0] are still there, unchanged *)
  Definition KeepB (a0 a : arch) : Prop :=
    forall f x, in_band b f = true -> get a0 f = Some x -> x <> Empty -> get a f = Some x.

  Lemma keep_add a0 a o : add_only o -> KeepB a0 a -> KeepB a0 (fst (exec pre a o NoFault)).
  Proof.
    intros Ho HK f x Hf G Hx. destruct (exec_add_Old pre a o NoFault Ho) as [_ HF].
    apply HF; auto.
  Qed.

  Lemma keep_del a0 a o : delete_op ids o -> KeepB a0 a -> KeepB a0 (fst (exec pre a o NoFault)).
  Proof.
    intros Ho HK f x Hf G Hx. specialize (HK f x Hf G Hx).
    destruct o as [g|g p m|d|d|g|g|d]; cbn in Ho; try contradiction.
    - rewrite (exec_reads_state pre a (OpRead g) I). exact HK.
    - destruct g; try contradiction. destruct p; try contradiction. destruct m; try contradiction.
      destruct (exec_write pre a PLock PlJson) as (_ & D2 & _). rewrite D2; [exact HK|].
      intros ->. discriminate Hf.
    - rewrite (exec_reads_state pre a (OpList d) I). exact HK.
    - rewrite (exec_reads_state pre a (OpMeta g) I). exact HK.
    - assert (Hne : f <> g) by (intros ->; destruct g; try contradiction; discriminate Hf).
      destruct (exec_rmfile pre a g) as (_ & D2 & _). rewrite D2.
      destruct (fpath_eqb_spec f g); [contradiction | exact HK].
    - destruct d; try contradiction.
      destruct (exec_rmband pre a b0) as (D1 & D2 & _).
      destruct (reply_ROk_dec (snd (exec pre a (OpRemoveDirAll (DBand b0)) NoFault))) as [Ok|Nok];
        [|rewrite (D1 Nok); exact HK].
      destruct (D2 Ok) as [_ Hg]. rewrite Hg.
      assert (E : in_band b0 f = false).
      { destruct (in_band b0 f) eqn:E; [|reflexivity]. exfalso. apply Hb.
        assert (b0 = b); [|subst; exact Ho].
        destruct f; cbn in Hf, E; try discriminate; apply N.eqb_eq in Hf, E; congruence. }
      rewrite E. exact HK.
  Qed.

  Theorem kept_band_files : forall c src hint a0 sigma,
    KeepB a0 (st2 (run2 pre (backup_prog pre c src) (delete_prog ids false false hint) a0 sigma)).
  Proof.
    intros c src hint a0 sigma.
    apply (run2_inv pre (fun _ o => add_only o) (fun _ o => delete_op ids o) (fun a _ _ => KeepB a0 a)
             (fun a _ _ o H Ho => keep_add a0 a o Ho H) (fun a _ _ o H Ho => keep_del a0 a o Ho H)
             (backup_prog pre c src) (delete_prog ids false false hint) a0 sigma [] []).
    - apply (eo_eh add_only); [apply backup_emits_add_only | auto].
    - apply (eo_eh (delete_op ids)); [apply delete_emits | auto].
    - intros f x _ G _. exact G.
  Qed.
End Kept.

(* every band complete before and not asked to be deleted is still complete afterwards, with its
   index hunks unchanged and every block they name present, for every schedule *)
Theorem old_bands_safe : forall pre c src ids hint a0 sigma b,
  WF pre a0 -> Safe a0 -> BlocksWF a0 -> band_complete a0 b -> ~ In b ids ->
  let a := st2 (run2 pre (backup_prog pre c src) (delete_prog ids false false hint) a0 sigma) in
  band_complete a b /\ band_refs_ok a b
  /\ (forall n es, get a0 (PHunk b n) = Some (Good (PlHunk es)) -> get a (PHunk b n) = Some (Good (PlHunk es))).
Proof.
  intros pre c src ids hint a0 sigma b HW HS HB Hc Hb a.
  pose proof (kept_band_files pre ids b Hb c src hint a0 sigma) as HK. fold a in HK.
  assert (Hca : band_complete a b).
  { destruct Hc as [Hh [m Hm]]. split; [|exists m]; apply HK; auto; try discriminate; cbn; apply N.eqb_refl. }
  split; [exact Hca|]. split.
  - pose proof (gc_backup_inv pre c src ids hint a0 sigma HW HS HB) as HI. cbv zeta in HI.
    apply (i_safe _ _ _ _ _ HI). exact Hca.
  - intros n es G. apply HK; auto; try discriminate. cbn. apply N.eqb_refl.
Qed.

(* ------------------------------------------------------------------------- *)
(** * 9. Checkers (for the examples)                                          *)
(* ------------------------------------------------------------------------- *)
Definition wf_b (pre : bytes -> N) (a : arch) : bool :=
  filesnd_b a
  && forallb (fun p => has_dir a (parent_f pre (fst p))) (files a)
  && forallb (fun d => match parent_d d with Some p => has_dir a p | None => true end) (dirs a).

Lemma nodup_paths_ok l : nodup_paths l = true -> NoDup l.
Proof.
  induction l as [|x l IH]; cbn [nodup_paths]; [constructor|].
  intros H. apply andb_true_iff in H. destruct H as [H1 H2]. constructor; [|auto].
  intros Hin. apply negb_true_iff in H1.
  assert (X : existsb (fpath_eqb x) l = true).
  { apply existsb_exists. exists x. split; [exact Hin | apply fpath_eqb_refl']. }
  congruence.
Qed.

Lemma wf_b_sound pre a : wf_b pre a = true -> WF pre a.
Proof.
  unfold wf_b. intros H. apply andb_true_iff in H. destruct H as [H H3].
  apply andb_true_iff in H. destruct H as [H1 H2].
  rewrite forallb_forall in H2, H3. split; [apply nodup_paths_ok; exact H1|]. split.
  - intros f x G. destruct (lookup_Some_In _ _ _ G) as [g [Hin [-> _]]]. apply (H2 _ Hin).
  - intros d p Hd Ep. apply has_dir_In in Hd. specialize (H3 _ Hd). rewrite Ep in H3. exact H3.
Qed.

Lemma blockswf_b_ok a : blockswf_b a = true -> BlocksWF a.
Proof.
  unfold blockswf_b. rewrite forallb_forall. intros H c x G.
  destruct (lookup_Some_In _ _ _ G) as [g [Hin [<- _]]]. specialize (H _ Hin). cbn in H.
  destruct x as [[| | | |d]| |]; try discriminate; [|right; reflexivity].
  apply str_eqb_eq in H. subst. left. reflexivity.
Qed.

Definition complete_b (a : arch) (b : N) : bool :=
  match get a (PHead b), get a (PTail b) with
  | Some (Good (PlHead HvOk)), Some (Good (PlTail _)) => true
  | _, _ => false
  end.
Definition block_ok_b (a : arch) (c : bytes) : bool :=
  match get a (PBlock c) with Some (Good (PlBlock d)) => str_eqb d c | _ => false end.
Definition safe_b (a : arch) : bool :=
  forallb (fun p => match p with
                    | (PHunk b _, Good (PlHunk es)) => negb (complete_b a b) || forallb (block_ok_b a) (names es)
                    | _ => true
                    end) (files a).

Lemma safe_b_sound a : safe_b a = true -> Safe a.
Proof.
  unfold safe_b. rewrite forallb_forall. intros H b [Hh [m Hm]] n es e ad G He Had.
  destruct (lookup_Some_In _ _ _ G) as [g [Hin [<- _]]]. specialize (H _ Hin). cbn in H.
  unfold complete_b in H. rewrite Hh, Hm in H. cbn [negb orb] in H.
  rewrite forallb_forall in H. specialize (H (a_hash ad)).
  assert (X : In (a_hash ad) (names es)) by (apply names_In; eauto).
  specialize (H X). unfold block_ok_b in H. unfold block_ok.
  destruct (get a (PBlock (a_hash ad))) as [[[| | | |d]| |]|]; try discriminate.
  apply str_eqb_eq in H. subst. reflexivity.
Qed.

(* ------------------------------------------------------------------------- *)
(** * 10. Examples, and the defect of the old protocol                        *)
(* ------------------------------------------------------------------------- *)
Module RaceExamples.
  Import SafeExamples.
  Definition gc := delete_prog [0] false false [].
  Definition bk_new := backup_prog ex_pre ex_cfg (ex_src 6).
  Definition bk_old := backup_prog_old ex_pre ex_cfg (ex_src 6).
  Definition final2 {R S} (p : prog R) (q : prog S) a sigma := st2 (run2 ex_pre p q a sigma).
  Definition trace2 {R S} (p : prog R) (q : prog S) a sigma := tr2 (run2 ex_pre p q a sigma).
  (* the backup examines the lock and lists the root twice; then the collector runs up to and
     including its final check; then the backup runs to its end; then the collector deletes *)
  Definition sig_race := repeat false 4 ++ repeat true 16.

  (* non-vacuity of the hypotheses: a state produced by init + two backups *)
  Example ex_a3_hyps : WF ex_pre ex_a3 /\ Safe ex_a3 /\ BlocksWF ex_a3 /\ get ex_a3 PLock = None
                       /\ band_complete ex_a3 0 /\ band_complete ex_a3 1.
  Proof.
    split; [apply wf_b_sound; vm_compute; reflexivity|].
    split; [apply safe_b_sound; vm_compute; reflexivity|].
    split; [apply blockswf_b_ok; vm_compute; reflexivity|].
    vm_compute. repeat split; eauto.
  Qed.

  (* the race under the current protocol: the backup sees GC_LOCK in its second check and gives
     up; nothing is lost *)
  Example ex_race_new :
    let x := run2 ex_pre bk_new gc ex_a3 sig_race in
    length (proj false (tr2 x)) = 8%nat
    /\ nth_error (proj false (tr2 x)) 7
       = Some (OpList DRoot, RList [DBlocks; DBand 0; DBand 1; DBand 2] [(PHeader, true); (PLock, true)])
    /\ get (st2 x) (PBlock [5;6]) = None /\ get (st2 x) (PTail 2) = None
    /\ safe_b (st2 x) = true /\ complete_b (st2 x) 1 = true /\ has_dir (st2 x) (DBand 0) = false.
  Proof. vm_compute. repeat split; reflexivity. Qed.

  Example ex_race_new_thm : Safe (st2 (run2 ex_pre bk_new gc ex_a3 sig_race)).
  Proof.
    destruct ex_a3_hyps as (H1 & H2 & H3 & _).
    apply (i_safe _ _ _ _ _ (gc_backup_inv ex_pre ex_cfg (ex_src 6) [0] [] ex_a3 sig_race H1 H2 H3)).
  Qed.

  (* other schedules: the collector first (the backup then runs alone and completes band 2),
     the backup first (the collector then keeps everything bands 1 and 2 name) *)
  Example ex_other_schedules :
    complete_b (final2 bk_new gc ex_a3 (repeat true 40)) 2 = true
    /\ safe_b (final2 bk_new gc ex_a3 (repeat true 40)) = true
    /\ complete_b (final2 bk_new gc ex_a3 []) 2 = true
    /\ safe_b (final2 bk_new gc ex_a3 []) = true
    /\ get (final2 bk_new gc ex_a3 []) (PBlock [5;6]) = Some (Good (PlBlock [5;6]))
    /\ has_dir (final2 bk_new gc ex_a3 []) (DBand 0) = false.
  Proof. vm_compute. repeat split; reflexivity. Qed.
End RaceExamples.

(* THE DEFECT THAT WAS FIXED: with a backup that examines GC_LOCK only before creating its band,
   there is a schedule after which a complete band names a block that is gone. *)
Theorem race_refuted_without_second_check :
  exists pre c src ids hint a0 sigma,
    WF pre a0 /\ Safe a0 /\ BlocksWF a0 /\ get a0 PLock = None /\
    let a := st2 (run2 pre (backup_prog_old pre c src) (delete_prog ids false false hint) a0 sigma) in
    exists b h es e ad,
      band_complete a b /\ get a (PHunk b h) = Some (Good (PlHunk es)) /\ In e es /\ In ad (e_addrs e)
      /\ get a (PBlock (a_hash ad)) = None.
Proof.
  exists SafeExamples.ex_pre, SafeExamples.ex_cfg, (SafeExamples.ex_src 6), [0], [], SafeExamples.ex_a3,
    RaceExamples.sig_race.
  destruct RaceExamples.ex_a3_hyps as (H1 & H2 & H3 & H4 & _).
  split; [exact H1|]. split; [exact H2|]. split; [exact H3|]. split; [exact H4|].
  cbv zeta. exists 2, 1.
  eexists. eexists. exists {| a_hash := [5;6]; a_start := 0; a_len := 2 |}.
  split; [vm_compute; split; eauto|].
  split; [vm_compute; reflexivity|].
  split; [left; reflexivity|].
  split; [right; left; reflexivity | vm_compute; reflexivity].
Qed.

Corollary old_protocol_unsafe :
  ~ (forall pre c src ids hint a0 sigma, WF pre a0 -> Safe a0 -> BlocksWF a0 ->
       Safe (st2 (run2 pre (backup_prog_old pre c src) (delete_prog ids false false hint) a0 sigma))).
Proof.
  intros H. destruct race_refuted_without_second_check
    as (pre & c & src & ids & hint & a0 & sigma & H1 & H2 & H3 & _ & b & h & es & e & ad & Hc & G & He & Had & Hn).
  specialize (H pre c src ids hint a0 sigma H1 H2 H3 b Hc h es e ad G He Had).
  unfold block_ok in H. congruence.
Qed.

Print Assumptions gc_backup_safe.
Print Assumptions old_bands_safe.
Print Assumptions race_refuted_without_second_check.
Print Assumptions old_protocol_unsafe.
Print Assumptions run2_inv.
Print Assumptions run2_follows.
Print Assumptions run2_steps.
Print Assumptions emits_h_sound2.
Print Assumptions backup_class.
Print Assumptions delete_class.
